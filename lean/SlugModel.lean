import SlugModel.Base.Str
import SlugModel.Base.Path
