import SlugModel.Base.Path
import SlugModel.Addr
import SlugModel.Ignore
import SlugModel.Unpack
import SlugModel.Builder
import SlugModel.Remote
import SlugModel.Pack
import SlugModel.Bundle
import SlugModel.Sanitise
import SlugModel.ManifestWrite
import SlugModel.Registry
/-!
Line-protocol driver: one request per line on stdin, one answer per line on stdout.
Fields are separated by single spaces; every string is `x<hex of UTF-8 bytes>`.
Imports model files only (no Mathlib, no proof modules) so it links as a native
executable.
-/
open Slug

def hexVal (c : Char) : Option Nat :=
  if '0' ≤ c ∧ c ≤ '9' then some (c.toNat - '0'.toNat)
  else if 'a' ≤ c ∧ c ≤ 'f' then some (c.toNat - 'a'.toNat + 10)
  else none

def decodeHexBytes : List Char → Option (List UInt8)
  | [] => some []
  | a :: b :: r => do
    let x ← hexVal a
    let y ← hexVal b
    let rest ← decodeHexBytes r
    pure (UInt8.ofNat (x * 16 + y) :: rest)
  | _ => none

/-- decode `x<hex>` into a `Str`; `none` if malformed or not valid UTF-8 -/
def decStr (tok : String) : Option Str :=
  match tok.toList with
  | 'x' :: hs =>
    match decodeHexBytes hs with
    | none => none
    | some bs =>
      let ba := ByteArray.mk bs.toArray
      match String.fromUTF8? ba with
      | some s => some s.toList
      | none => none
  | _ => none

def hexDigit (n : Nat) : Char :=
  if n < 10 then Char.ofNat ('0'.toNat + n) else Char.ofNat ('a'.toNat + n - 10)

def encStr (s : Str) : String :=
  let bs := (String.ofList s).toUTF8
  "x" ++ String.ofList (bs.toList.flatMap fun b => [hexDigit (b.toNat / 16), hexDigit (b.toNat % 16)])

def encOpt (o : Option Str) : String :=
  match o with
  | none => "err"
  | some s => encStr s

def encBool (b : Bool) : String := if b then "true" else "false"

def handlePaths (fn : String) (args : List Str) : String :=
  match fn, args with
  | "clean", [a] => encStr (pathClean a)
  | "join", [a, b] => encStr (pathJoin a b)
  | "join3", [a, b, c] => encStr (pathJoin3 a b c)
  | "dir", [a] => encStr (pathDir a)
  | "base", [a] => encStr (pathBase a)
  | "validpath", [a] => encBool (validPath a)
  | "islocal", [a] => encBool (isLocal a)
  | "rel", [a, b] => encOpt (pathRel a b)
  | "trimspace", [a] => encStr (trimSpace a)
  | "split", [a] => String.intercalate "," ((splitOn '/' a).map encStr)
  | _, _ => "bad-op"

def encAddr : Addr → String
  | .loc r => "loc " ++ encStr r
  | .registry p s => "registry " ++ encStr p ++ " " ++ encStr s
  | .registryFinal p v s => "registryfinal " ++ encStr p ++ " " ++ encStr v ++ " " ++ encStr s
  | .remote p s => "remote " ++ encStr p ++ " " ++ encStr s

def decAddr : List String → Option Addr
  | ["loc", r] => do pure (.loc (← decStr r))
  | ["registry", p, s] => do pure (.registry (← decStr p) (← decStr s))
  | ["registryfinal", p, v, s] => do pure (.registryFinal (← decStr p) (← decStr v) (← decStr s))
  | ["remote", p, s] => do pure (.remote (← decStr p) (← decStr s))
  | _ => none

def handleAddr (fn : String) (args : List Str) : String :=
  match fn, args with
  | "joinsub", [a, b] => encOpt (joinSubPath a b)
  | "normsub", [a] => encOpt (normalizeSubpath a)
  | "parselocal", [a] => encOpt (parseLocal a)
  | "resolvelocal", [a, b] => encStr (resolveLocalLocal a b)
  | "finalsub", [a, b] => encStr (finalSourceSub a b)
  | "splitsub", [a] => let r := splitSubPath a; encStr r.1 ++ " " ++ encStr r.2
  | _, _ => "bad-op"

/-- `resolve <addr a> | <addr b>` -/
def handleResolve (toks : List String) : String :=
  let (l, r) := toks.span (· ≠ "|")
  match decAddr l, decAddr (r.drop 1) with
  | some a, some b =>
    match resolveRelative a b with
    | none => "err"
    | some x => encAddr x
  | _, _ => "not-utf8"

/-- `ignore <rulefile> <path>*` → per path `tt`/`tf`/`ff` (Excluded, Dominating), or `unsupported` -/
def handleIgnore (args : List Str) : String :=
  match args with
  | [] => "bad-op"
  | content :: paths =>
    let rules := readRules content
    if !supported rules then "unsupported"
    else
      String.intercalate " " (paths.map fun p =>
        let r := excludes rules p
        (if r.1 then "t" else "f") ++ (if r.2 then "t" else "f"))

/-- `rules <rulefile>` → the parsed rule list `val:negated:negAfter,...` -/
def handleRules (args : List Str) : String :=
  match args with
  | [content] =>
    String.intercalate "," ((readRules content).map fun r =>
      encStr r.val ++ ":" ++ encBool r.negated ++ ":" ++ encBool r.negAfter)
  | _ => "bad-op"

-- ---------- filesystem encoding ----------

def pathOfStr (s : Str) : PPath := pathSegs s

def strOfPath (p : PPath) : Str := '/' :: joinWith '/' p

def decNat (s : String) : Option Nat := s.toNat?

def decInt (s : String) : Option Int := s.toInt?

/-- `path:kind:perm:mtime:payload` -/
def decNode (item : String) : Option (PPath × Node) :=
  match item.splitOn ":" with
  | [p, k, perm, mt, pay] => do
    let p ← decStr p
    let perm ← decNat perm
    let mt ← decInt mt
    let pay ← decStr pay
    match k with
    | "d" => pure (pathOfStr p, .dir perm mt)
    | "f" => pure (pathOfStr p, .file perm mt pay)
    | "l" => pure (pathOfStr p, .link pay)
    | "s" => pure (pathOfStr p, .special)
    | _ => none
  | _ => none

def decFS (s : String) : Option FS :=
  if s = "-" then some [] else (s.splitOn ",").mapM decNode

def encNode (p : PPath) (n : Node) : String :=
  let ps := encStr (strOfPath p)
  match n with
  | .dir perm mt => s!"{ps}:d:{perm}:{mt}:x"
  | .file perm mt c => s!"{ps}:f:{perm}:{mt}:{encStr c}"
  | .link t => s!"{ps}:l:0:0:{encStr t}"
  | .special => s!"{ps}:s:0:0:x"

def dedupKeys : List PPath → List PPath → List PPath
  | [], acc => acc
  | k :: r, acc => if acc.contains k then dedupKeys r acc else dedupKeys r (k :: acc)

def encFS (fs : FS) : String :=
  let keys := dedupKeys (fs.map (·.1)) []
  let items := keys.filterMap fun k => (fs.get k).map fun n => (String.ofList (strOfPath k), encNode k n)
  let sorted := items.toArray.qsort (fun a b => a.1 < b.1)
  if sorted.isEmpty then "-" else String.intercalate "," (sorted.toList.map (·.2))

/-- `name:typ:mode:mtime:link:body` -/
def decEntry (item : String) : Option Entry :=
  match item.splitOn ":" with
  | [n, t, m, mt, l, b] => do
    pure { name := ← decStr n, typ := Char.ofNat (← decNat t), mode := ← decNat m, mtime := ← decInt mt,
           link := ← decStr l, body := ← decStr b }
  | _ => none

def decEntries (s : String) : Option (List Entry) :=
  if s = "-" then some [] else (s.splitOn ",").mapM decEntry

def decFault (s : String) : Option Fault :=
  if s = "none" then some .none
  else match s.toList with
    | 'h' :: r => (String.ofList r).toNat?.map Fault.header
    | 'b' :: r =>
      match (String.ofList r).splitOn "." with
      | [k, n] => do pure (.body (← k.toNat?) (← n.toNat?))
      | _ => none
    | _ => none

def decStrList (s : String) : Option (List Str) :=
  if s = "-" then some [] else (s.splitOn ",").mapM decStr

def encUResult : UResult → String
  | .ok => "ok"
  | .illegal => "illegal"
  | .ioerr => "io"

/-- `unpack <priv> <cwd> <dst> <allow> <fault> <initfs> <entries>` → `<class> <fsdump>` -/
def handleUnpack (toks : List String) : String :=
  match toks with
  | [priv, cwd, dst, allow, fault, initfs, entries] =>
    match decStr cwd, decStr dst, decStrList allow, decFault fault, decFS initfs, decEntries entries with
    | some cwd, some dst, some allow, some fault, some fs, some es =>
      let (fs', r) := unpack cwd allow (priv = "1") dst fault fs es
      encUResult r ++ " " ++ encFS fs'
    | _, _, _, _, _, _ => "not-utf8"
  | _ => "bad-op"

-- ---------- builder encoding ----------

def splitNE (s : String) (sep : String) : List String :=
  if s = "-" ∨ s = "" then [] else s.splitOn sep

def decVerList (s : String) : Option (List VerS) := (splitNE s "+").mapM decStr

def decDecl (s : String) : Option Decl :=
  match s.splitOn "~" with
  | ["r", p, sub, f] => do pure (.remote { pkg := ← decStr p, sub := ← decStr sub } (← f.toNat?))
  | ["g", p, sub, al, f] => do pure (.registry { pkg := ← decStr p, sub := ← decStr sub } (← decVerList al) (← f.toNat?))
  | ["l", rel, f] => do pure (.loc (← decStr rel) (← f.toNat?))
  | ["w", summ, file] => do pure (.diag false (← decStr summ) (← decStr file))
  | ["e", summ, file] => do pure (.diag true (← decStr summ) (← decStr file))
  | _ => none

def decOptPair (a b : String) : Option (Option (Str × Str)) :=
  if a = "-" then some none else do pure (some (← decStr a, ← decStr b))

def decVerInfo (s : String) : Option VerInfo :=
  match s.splitOn "~" with
  | [v, rank, dr, dl] => do pure { ver := ← decStr v, rank := ← rank.toNat?, deprecation := ← decOptPair dr dl }
  | _ => none

structure WorldAcc where
  w : World := { fetch := [], versions := [], sources := [], deps := [] }

def decWorldItem (acc : World) (item : String) : Option World :=
  match item.splitOn ":" with
  | ["P", p, "ERR", _, _] => do pure { acc with fetch := acc.fetch ++ [(← decStr p, none)] }
  | ["P", p, c, mc, mm] => do
      pure { acc with fetch := acc.fetch ++ [(← decStr p, some (← decStr c, ← decOptPair mc mm))] }
  | ["R", r, "ERR"] => do pure { acc with versions := acc.versions ++ [(← decStr r, none)] }
  | ["R", r, vs] => do
      pure { acc with versions := acc.versions ++ [(← decStr r, some (← (splitNE vs "/").mapM decVerInfo))] }
  | ["S", r, v, "ERR", _] => do pure { acc with sources := acc.sources ++ [((← decStr r, ← decStr v), none)] }
  | ["S", r, v, p, sub] => do
      pure { acc with sources := acc.sources ++ [((← decStr r, ← decStr v), some { pkg := ← decStr p, sub := ← decStr sub })] }
  | ["D", c, sub, f, decls] => do
      pure { acc with deps := acc.deps ++ [((← decStr c, ← decStr sub, ← f.toNat?), ← (splitNE decls "/").mapM decDecl)] }
  | _ => none

def decWorld (s : String) : Option World :=
  (splitNE s ",").foldlM decWorldItem { fetch := [], versions := [], sources := [], deps := [] }

def decOp (s : String) : Option Op :=
  match s.splitOn "~" with
  | ["ar", p, sub, f] => do pure (.addRemote { pkg := ← decStr p, sub := ← decStr sub } (← f.toNat?))
  | ["ag", p, sub, al, f] => do pure (.addRegistry { pkg := ← decStr p, sub := ← decStr sub } (← decVerList al) (← f.toNat?))
  | _ => none

def encDiag (d : Diag) : String :=
  if d.kind < 3 then (if d.isError then "E" else "W") ++ toString d.kind ++ ":x:x:x:false"
  else
    (if d.isError then "E" else "W") ++ toString d.kind ++ ":" ++ (if d.rewritten then encStr d.pkg else "x") ++ ":" ++
      encStr d.summary ++ ":" ++ encStr d.file ++ ":" ++ encBool d.rewritten

def encOpResult : OpResult → String
  | .refused => "refused"
  | .diverged => "diverged"
  | .diags [] => "-"
  | .diags ds => String.intercalate "," (ds.map encDiag)

def encEv : Ev → String
  | .fetchStart p => "fs:" ++ encStr p | .fetchCall p => "fc:" ++ encStr p | .fetchOk p => "fo:" ++ encStr p
  | .fetchFail p => "ff:" ++ encStr p | .fetchAlready p => "fa:" ++ encStr p
  | .versStart r => "vs:" ++ encStr r | .versCall r => "vc:" ++ encStr r | .versOk r => "vo:" ++ encStr r
  | .versFail r => "vf:" ++ encStr r | .versAlready r => "va:" ++ encStr r
  | .srcStart r v => "ss:" ++ encStr r ++ ":" ++ encStr v | .srcCall r v => "sc:" ++ encStr r ++ ":" ++ encStr v
  | .srcOk r v => "so:" ++ encStr r ++ ":" ++ encStr v | .srcFail r v => "sf:" ++ encStr r ++ ":" ++ encStr v
  | .srcAlready r v => "sa:" ++ encStr r ++ ":" ++ encStr v
  | .analyse s f => "an:" ++ encStr s.pkg ++ ":" ++ encStr s.sub ++ ":" ++ toString f
  | .traceDiags n => "td:" ++ toString n

def sortStrs (xs : List String) : List String := (xs.toArray.qsort (· < ·)).toList

def encList (xs : List String) : String := if xs.isEmpty then "-" else String.intercalate "," xs

def encOptPair (o : Option (Str × Str)) : String :=
  match o with
  | none => "-:-"
  | some (a, b) => encStr a ++ ":" ++ encStr b

def encBState (st : BState) : String :=
  let dirs := sortStrs (st.pkgDirs.map fun (p, c) => encStr p ++ ":" ++ encStr c)
  -- the manifest keeps package metadata only when the commit id is non-empty
  let metas := sortStrs ((st.pkgMeta.filter fun (_, m) => m.1 ≠ []).map fun (p, m) => encStr p ++ ":" ++ encStr m.1 ++ ":" ++ encStr m.2)
  let res := sortStrs (st.resolved.map fun ((r, v), s) => encStr r ++ ":" ++ encStr v ++ ":" ++ encStr s.pkg ++ ":" ++ encStr s.sub)
  let deps := sortStrs (st.deprec.map fun ((r, v), d) => encStr r ++ ":" ++ encStr v ++ ":" ++ encOptPair d)
  let an := sortStrs (st.analyzed.map fun (s, f) => encStr s.pkg ++ ":" ++ encStr s.sub ++ ":" ++ toString f)
  if st.poisoned then "- - - - " ++ encList an ++ " true - -"
  else
  encList dirs ++ " " ++ encList metas ++ " " ++ encList res ++ " " ++ encList deps ++ " " ++ encList an ++ " " ++
    encBool st.poisoned ++ " " ++ encList ((manifestPkgOrder st).map encStr) ++ " " ++ encList ((manifestRegOrder st).map encStr)

/-- `builder <world> <ops>` → `<results> <log> <dirs> <metas> <resolved> <deprecations> <analysed> <poisoned>` -/
def handleBuilder (withTraceDiags : Bool) (toks : List String) : String :=
  match toks with
  | [world, ops] =>
    match decWorld world, (splitNE ops ";").mapM decOp with
    | some w, some ops =>
      let (st, rs) := runOps w drainFuel BState.init ops
      -- a tracer without a Diagnostics callback sees no `traceDiags` events
      let log := st.log.reverse.filter fun e =>
        match e with
        | .traceDiags _ => withTraceDiags
        | _ => true
      String.intercalate "|" (rs.map encOpResult) ++ " " ++ encList (log.map encEv) ++ " " ++ encBState st
    | _, _ => "not-utf8"
  | _ => "bad-op"

-- ---------- remote addresses ----------

def decQuery (s : String) : Option (List (Str × List Str)) :=
  (splitNE s ";").mapM fun kv =>
    match kv.splitOn "=" with
    | [k, vs] => do pure (← decStr k, ← (splitNE vs "+").mapM decStr)
    | _ => none

def decUrlRec (s : String) : Option (Option UrlRec) :=
  if s = "perr" then some none
  else
    match s.splitOn ":" with
    | [sc, op, hu, host, path, rp, fq, rq, fr, rf, q, qe, ep, ef, tq] => do
      pure (some { scheme := ← decStr sc, opaq := ← decStr op, hasUser := hu = "1", host := ← decStr host,
                   path := ← decStr path, rawPath := ← decStr rp, forceQuery := fq = "1", rawQuery := ← decStr rq,
                   fragment := ← decStr fr, rawFragment := ← decStr rf, query := ← decQuery q, queryErr := qe = "1",
                   escapedPath := ← decStr ep, escapedFragment := ← decStr ef, tgzQuery := ← decStr tq })
    | _ => none

def encRemote (r : Option RemoteAddr) : String :=
  match r with
  | none => "err"
  | some a =>
    let u := a.url
    "ok " ++ encStr a.sourceType ++ " " ++ encStr a.subPath ++ " " ++
      String.intercalate ":" [encStr u.scheme, encStr u.opaq, encStr u.host, encStr u.path, encStr u.rawPath,
        (if u.forceQuery then "1" else "0"), encStr u.rawQuery, encStr u.fragment, encStr u.rawFragment]

def handleRemote (toks : List String) : String :=
  match toks with
  | ["front", g] =>
    match decStr g with
    | none => "not-utf8"
    | some g =>
      match remoteFront g with
      | .error => "error"
      | .url ty raw sub => "url " ++ encStr ty ++ " " ++ encStr raw ++ " " ++ encStr sub
  | ["parse", ty, sub, rec] =>
    match decStr ty, decStr sub, decUrlRec rec with
    | some ty, some sub, some r => encRemote (parseRemoteWith ty sub r)
    | _, _, _ => "not-utf8"
  | ["make", ty, sub, rec] =>
    match decStr ty, decStr sub, decUrlRec rec with
    | some ty, some sub, some (some r) => encRemote (makeRemote ty r sub)
    | _, _, _ => "not-utf8"
  | _ => "bad-op"

-- ---------- pack ----------

def encEntry (e : Entry) : String :=
  s!"{encStr e.name}:{e.typ.toNat}:{e.mode}:{e.mtime}:{encStr e.link}:{encStr e.body}"

def encPResult : PResult → String
  | .ok => "ok"
  | .illegal => "illegal"
  | .ioerr => "io"
  | .diverged => "diverged"

/-- `pack <cwd> <src> <deref> <ignore> <allow> <fs>` → `<class> <entries> <meta files> <meta size>` -/
def handlePack (toks : List String) : String :=
  match toks with
  | [cwd, src, deref, ign, allow, fsenc] =>
    match decStr cwd, decStr src, decStrList allow, decFS fsenc with
    | some cwd, some src, some allow, some fs =>
      let (st, r) := pack fs cwd { dereference := deref = "1", applyIgnore := ign = "1", allow := allow } src
      match r with
      | .ok =>
        "ok " ++ encList (st.entries.map encEntry) ++ " " ++ encList (st.pmeta.files.map encStr) ++ " " ++ toString st.pmeta.size
      | other => encPResult other
    | _, _, _, _ => "not-utf8"
  | _ => "bad-op"

-- ---------- bundle ----------

def decMPkg (s : String) : Option MPkg :=
  match s.splitOn "~" with
  | [src, dir, c, m] => do pure { source := ← decStr src, localDir := ← decStr dir, commit := ← decStr c, msg := ← decStr m }
  | _ => none

def decMVer (s : String) : Option MVer :=
  match s.splitOn ":" with
  | [v, src, dep, reason, link] => do
    pure { ver := ← decStr v, source := ← decStr src, deprecated := dep = "1", reason := ← decStr reason, link := ← decStr link }
  | _ => none

def decMReg (s : String) : Option MReg :=
  match s.splitOn "~" with
  | [src, vs] => do pure { source := ← decStr src, versions := ← (splitNE vs "/").mapM decMVer }
  | _ => none

def decManifest (s : String) : Option Manifest :=
  match s.splitOn ";" with
  | [f, ps, rs] => do
    pure { format := ← f.toNat?, packages := ← (splitNE ps ",").mapM decMPkg, registry := ← (splitNE rs ",").mapM decMReg }
  | _ => none

structure OracleTabs where
  p : List (Str × Option Str) := []
  g : List (Str × Option Str) := []
  v : List (Str × Option Str) := []
  s : List (Str × Option (Str × Str)) := []

def decOptKey (k : String) : Option (Option Str) := if k = "ERR" then some none else (decStr k).map some

def decOracleItem (acc : OracleTabs) (item : String) : Option OracleTabs :=
  match item.splitOn "~" with
  | ["p", a, k] => do pure { acc with p := acc.p ++ [(← decStr a, ← decOptKey k)] }
  | ["g", a, k] => do pure { acc with g := acc.g ++ [(← decStr a, ← decOptKey k)] }
  | ["v", a, k] => do pure { acc with v := acc.v ++ [(← decStr a, ← decOptKey k)] }
  | ["s", a, "ERR"] => do pure { acc with s := acc.s ++ [(← decStr a, none)] }
  | ["s", a, pk, sub] => do pure { acc with s := acc.s ++ [(← decStr a, some (← decStr pk, ← decStr sub))] }
  | _ => none

def mkOracle (t : OracleTabs) : BundleOracle :=
  { parsePkg := fun a => (assoc t.p a).join, parseRegPkg := fun a => (assoc t.g a).join,
    parseVer := fun a => (assoc t.v a).join, parseRemoteSrc := fun a => (assoc t.s a).join }

def answerQuery (b : Bundle) (q : String) : String :=
  match q.splitOn "~" with
  | ["lr", pk, sub] =>
    match decStr pk, decStr sub with
    | some pk, some sub => encOpt (localPathForRemote b pk sub)
    | _, _ => "not-utf8"
  | ["lg", reg, ver, sub] =>
    match decStr reg, decStr ver, decStr sub with
    | some reg, some ver, some sub => encOpt (localPathForRegistry b reg ver sub)
    | _, _, _ => "not-utf8"
  | ["sp", p] =>
    match decStr p with
    | some p =>
      match splitLocalPath b p, sourceForLocalPath b p with
      | some (d, sub), some (addr, _) => encStr d ++ "~" ++ encStr sub ++ "~" ++ encStr addr
      | _, _ => "err"
    | none => "not-utf8"
  | _ => "bad-op"

/-- `bundle <root> <manifest> <oracle> <queries>` -/
def handleBundle (toks : List String) : String :=
  match toks with
  | [root, man, orc, qs] =>
    match decStr root, decManifest man, (splitNE orc ",").foldlM decOracleItem {} with
    | some root, some m, some tabs =>
      match openDir (mkOracle tabs) root m with
      | none => "err"
      | some b =>
        let dirs := sortStrs (b.pkgDirs.map fun (k, d) => encStr k ++ ":" ++ encStr d)
        let metas := sortStrs (b.pkgMeta.map fun (k, m) => encStr k ++ ":" ++ encStr m.1 ++ ":" ++ encStr m.2)
        let srcs := sortStrs (b.regSources.map fun ((r, v), (pk, sub)) => encStr r ++ ":" ++ encStr v ++ ":" ++ encStr pk ++ ":" ++ encStr sub)
        let deps := sortStrs (b.regDeprec.map fun ((r, v), d) => encStr r ++ ":" ++ encStr v ++ ":" ++ encOptPair d)
        "ok " ++ encList dirs ++ " " ++ encList metas ++ " " ++ encList srcs ++ " " ++ encList deps ++ " " ++
          String.intercalate "|" ((splitNE qs ",").map (answerQuery b))
    | _, _, _ => "not-utf8"
  | _ => "bad-op"

-- ---------- sanitise ----------

def zeroTimes (fs : FS) : FS :=
  fs.map fun (p, n) =>
    match n with
    | .dir perm _ => (p, .dir perm 0)
    | .file perm _ c => (p, .file perm 0 c)
    | other => (p, other)

/-- `sanitise <work> <final> <fs>` → `<class> <fsdump without times>` -/
def handleSanitise (toks : List String) : String :=
  match toks with
  | [work, final, fsenc] =>
    match decStr work, decStr final, decFS fsenc with
    | some work, some final, some fs =>
      let (fs', r) := ensurePrepared fs work final
      let cls := match r with
        | .ok _ => "ok"
        | .fail => "fail"
        | .diverged => "diverged"
      -- only live bindings are dumped (deleted paths are filtered by `get`)
      cls ++ " " ++ encFS (zeroTimes fs')
    | _, _, _ => "not-utf8"
  | _ => "bad-op"


-- ---------- registry addresses ----------

/-- oracle table entry `x<q>=x<pkg>:x<subdir>` or `x<q>=-` -/
def decRegEntry (s : String) : Option (Str × Option (Str × Str)) :=
  match s.splitOn "=" with
  | [q, "-"] => do pure (← decStr q, none)
  | [q, v] =>
    match v.splitOn ":" with
    | [a, b] => do pure (← decStr q, some (← decStr a, ← decStr b))
    | _ => none
  | _ => none

def encRegRes2 (r : RegRes (Str × Str)) : String :=
  match r with
  | .ok (a, b) => "ok:" ++ encStr a ++ ":" ++ encStr b
  | .err => "err"
  | .panic => "panic"

def encRegRes3 (r : RegRes (Str × Str × Str)) : String :=
  match r with
  | .ok (a, b, c) => "ok:" ++ encStr a ++ ":" ++ encStr b ++ ":" ++ encStr c
  | .err => "err"
  | .panic => "panic"

def encDispatch (d : Dispatch) : String :=
  match d with
  | .reject => "reject"
  | .local => "local"
  | .registry => "registry"
  | .remote => "remote"

/-- `reg ask <s>` → the strings the model needs the libraries' answers for;
`reg eval <s> <table> <ver-answer>` → parseRegistry parseFinalRegistry dispatch dispatchFinal -/
def handleReg (toks : List String) : String :=
  match toks with
  | ["ask", g] =>
    match decStr g with
    | none => "not-utf8"
    | some g =>
      let (qs, v) := regQuestions g
      String.intercalate "," (qs.map encStr) ++ " " ++ encStr v
  | ["eval", g, tab, va] =>
    match decStr g, (splitNE tab ",").mapM decRegEntry with
    | some g, some entries =>
      let vans : Option Str := if va = "-" then none else decStr va
      let o : RegOracle :=
        { regParse := fun q => (entries.find? (·.1 = q)).bind (·.2),
          verParse := fun q => if q = (regQuestions g).2 then vans else none }
      encRegRes2 (parseRegistrySource o g) ++ " " ++ encRegRes3 (parseFinalRegistrySource o g) ++ " " ++
        encDispatch (dispatchSource o g) ++ " " ++ encDispatch (dispatchFinalSource o g)
    | _, _ => "not-utf8"
  | _ => "bad-op"

def handle (line : String) : String :=
  match (line.trimAscii.toString.splitOn " ") with
  | "paths" :: fn :: rest =>
    match rest.mapM decStr with
    | none => "not-utf8"
    | some args => handlePaths fn args
  | "addr" :: fn :: rest =>
    match rest.mapM decStr with
    | none => "not-utf8"
    | some args => handleAddr fn args
  | "resolve" :: rest => handleResolve rest
  | "unpack" :: rest => handleUnpack rest
  | "builder" :: rest => handleBuilder true rest
  | "builder-notd" :: rest => handleBuilder false rest
  | "remote" :: rest => handleRemote rest
  | "pack" :: rest => handlePack rest
  | "bundle" :: rest => handleBundle rest
  | "reg" :: rest => handleReg rest
  | "sanitise" :: rest => handleSanitise rest
  | "ignore" :: rest =>
    match rest.mapM decStr with
    | none => "not-utf8"
    | some args => handleIgnore args
  | "rules" :: rest =>
    match rest.mapM decStr with
    | none => "not-utf8"
    | some args => handleRules args
  | _ => "bad-op"

partial def loop (hin : IO.FS.Stream) (hout : IO.FS.Stream) : IO Unit := do
  let line ← hin.getLine
  if line.isEmpty then return ()
  hout.putStrLn (handle line)
  loop hin hout

def main : IO Unit := do
  let hin ← IO.getStdin
  let hout ← IO.getStdout
  loop hin hout
  hout.flush
