import SlugModel.Base.Path
import SlugModel.Addr
/-!
Line-protocol driver: one request per line on stdin, one answer per line on stdout.
Fields are separated by single spaces; every string is `x<hex of UTF-8 bytes>`.
Imports model files only (no Mathlib, no proof modules) so it links as a native
executable.
-/
open Slug

def hexVal (c : Char) : Option Nat :=
  if '0' ≤ c ∧ c ≤ '9' then some (c.toNat - '0'.toNat)
  else if 'a' ≤ c ∧ c ≤ 'f' then some (c.toNat - 'a'.toNat + 10)
  else none

def decodeHexBytes : List Char → Option (List UInt8)
  | [] => some []
  | a :: b :: r => do
    let x ← hexVal a
    let y ← hexVal b
    let rest ← decodeHexBytes r
    pure (UInt8.ofNat (x * 16 + y) :: rest)
  | _ => none

/-- decode `x<hex>` into a `Str`; `none` if malformed or not valid UTF-8 -/
def decStr (tok : String) : Option Str :=
  match tok.toList with
  | 'x' :: hs =>
    match decodeHexBytes hs with
    | none => none
    | some bs =>
      let ba := ByteArray.mk bs.toArray
      match String.fromUTF8? ba with
      | some s => some s.toList
      | none => none
  | _ => none

def hexDigit (n : Nat) : Char :=
  if n < 10 then Char.ofNat ('0'.toNat + n) else Char.ofNat ('a'.toNat + n - 10)

def encStr (s : Str) : String :=
  let bs := (String.ofList s).toUTF8
  "x" ++ String.ofList (bs.toList.flatMap fun b => [hexDigit (b.toNat / 16), hexDigit (b.toNat % 16)])

def encOpt (o : Option Str) : String :=
  match o with
  | none => "err"
  | some s => encStr s

def encBool (b : Bool) : String := if b then "true" else "false"

def handlePaths (fn : String) (args : List Str) : String :=
  match fn, args with
  | "clean", [a] => encStr (pathClean a)
  | "join", [a, b] => encStr (pathJoin a b)
  | "join3", [a, b, c] => encStr (pathJoin3 a b c)
  | "dir", [a] => encStr (pathDir a)
  | "base", [a] => encStr (pathBase a)
  | "validpath", [a] => encBool (validPath a)
  | "islocal", [a] => encBool (isLocal a)
  | "rel", [a, b] => encOpt (pathRel a b)
  | "trimspace", [a] => encStr (trimSpace a)
  | "split", [a] => String.intercalate "," ((splitOn '/' a).map encStr)
  | _, _ => "bad-op"

def encAddr : Addr → String
  | .loc r => "loc " ++ encStr r
  | .registry p s => "registry " ++ encStr p ++ " " ++ encStr s
  | .registryFinal p v s => "registryfinal " ++ encStr p ++ " " ++ encStr v ++ " " ++ encStr s
  | .remote p s => "remote " ++ encStr p ++ " " ++ encStr s

def decAddr : List String → Option Addr
  | ["loc", r] => do pure (.loc (← decStr r))
  | ["registry", p, s] => do pure (.registry (← decStr p) (← decStr s))
  | ["registryfinal", p, v, s] => do pure (.registryFinal (← decStr p) (← decStr v) (← decStr s))
  | ["remote", p, s] => do pure (.remote (← decStr p) (← decStr s))
  | _ => none

def handleAddr (fn : String) (args : List Str) : String :=
  match fn, args with
  | "joinsub", [a, b] => encOpt (joinSubPath a b)
  | "normsub", [a] => encOpt (normalizeSubpath a)
  | "parselocal", [a] => encOpt (parseLocal a)
  | "resolvelocal", [a, b] => encStr (resolveLocalLocal a b)
  | "finalsub", [a, b] => encStr (finalSourceSub a b)
  | "splitsub", [a] => let r := splitSubPath a; encStr r.1 ++ " " ++ encStr r.2
  | _, _ => "bad-op"

/-- `resolve <addr a> | <addr b>` -/
def handleResolve (toks : List String) : String :=
  let (l, r) := toks.span (· ≠ "|")
  match decAddr l, decAddr (r.drop 1) with
  | some a, some b =>
    match resolveRelative a b with
    | none => "err"
    | some x => encAddr x
  | _, _ => "not-utf8"

def handle (line : String) : String :=
  match (line.trimAscii.toString.splitOn " ") with
  | "paths" :: fn :: rest =>
    match rest.mapM decStr with
    | none => "not-utf8"
    | some args => handlePaths fn args
  | "addr" :: fn :: rest =>
    match rest.mapM decStr with
    | none => "not-utf8"
    | some args => handleAddr fn args
  | "resolve" :: rest => handleResolve rest
  | _ => "bad-op"

partial def loop (hin : IO.FS.Stream) (hout : IO.FS.Stream) : IO Unit := do
  let line ← hin.getLine
  if line.isEmpty then return ()
  hout.putStrLn (handle line)
  loop hin hout

def main : IO Unit := do
  let hin ← IO.getStdin
  let hout ← IO.getStdout
  loop hin hout
  hout.flush
