import SlugModel.Base.Path
import SlugModel.Addr
import SlugModel.Ignore
import SlugModel.Unpack
/-!
Line-protocol driver: one request per line on stdin, one answer per line on stdout.
Fields are separated by single spaces; every string is `x<hex of UTF-8 bytes>`.
Imports model files only (no Mathlib, no proof modules) so it links as a native
executable.
-/
open Slug

def hexVal (c : Char) : Option Nat :=
  if '0' ≤ c ∧ c ≤ '9' then some (c.toNat - '0'.toNat)
  else if 'a' ≤ c ∧ c ≤ 'f' then some (c.toNat - 'a'.toNat + 10)
  else none

def decodeHexBytes : List Char → Option (List UInt8)
  | [] => some []
  | a :: b :: r => do
    let x ← hexVal a
    let y ← hexVal b
    let rest ← decodeHexBytes r
    pure (UInt8.ofNat (x * 16 + y) :: rest)
  | _ => none

/-- decode `x<hex>` into a `Str`; `none` if malformed or not valid UTF-8 -/
def decStr (tok : String) : Option Str :=
  match tok.toList with
  | 'x' :: hs =>
    match decodeHexBytes hs with
    | none => none
    | some bs =>
      let ba := ByteArray.mk bs.toArray
      match String.fromUTF8? ba with
      | some s => some s.toList
      | none => none
  | _ => none

def hexDigit (n : Nat) : Char :=
  if n < 10 then Char.ofNat ('0'.toNat + n) else Char.ofNat ('a'.toNat + n - 10)

def encStr (s : Str) : String :=
  let bs := (String.ofList s).toUTF8
  "x" ++ String.ofList (bs.toList.flatMap fun b => [hexDigit (b.toNat / 16), hexDigit (b.toNat % 16)])

def encOpt (o : Option Str) : String :=
  match o with
  | none => "err"
  | some s => encStr s

def encBool (b : Bool) : String := if b then "true" else "false"

def handlePaths (fn : String) (args : List Str) : String :=
  match fn, args with
  | "clean", [a] => encStr (pathClean a)
  | "join", [a, b] => encStr (pathJoin a b)
  | "join3", [a, b, c] => encStr (pathJoin3 a b c)
  | "dir", [a] => encStr (pathDir a)
  | "base", [a] => encStr (pathBase a)
  | "validpath", [a] => encBool (validPath a)
  | "islocal", [a] => encBool (isLocal a)
  | "rel", [a, b] => encOpt (pathRel a b)
  | "trimspace", [a] => encStr (trimSpace a)
  | "split", [a] => String.intercalate "," ((splitOn '/' a).map encStr)
  | _, _ => "bad-op"

def encAddr : Addr → String
  | .loc r => "loc " ++ encStr r
  | .registry p s => "registry " ++ encStr p ++ " " ++ encStr s
  | .registryFinal p v s => "registryfinal " ++ encStr p ++ " " ++ encStr v ++ " " ++ encStr s
  | .remote p s => "remote " ++ encStr p ++ " " ++ encStr s

def decAddr : List String → Option Addr
  | ["loc", r] => do pure (.loc (← decStr r))
  | ["registry", p, s] => do pure (.registry (← decStr p) (← decStr s))
  | ["registryfinal", p, v, s] => do pure (.registryFinal (← decStr p) (← decStr v) (← decStr s))
  | ["remote", p, s] => do pure (.remote (← decStr p) (← decStr s))
  | _ => none

def handleAddr (fn : String) (args : List Str) : String :=
  match fn, args with
  | "joinsub", [a, b] => encOpt (joinSubPath a b)
  | "normsub", [a] => encOpt (normalizeSubpath a)
  | "parselocal", [a] => encOpt (parseLocal a)
  | "resolvelocal", [a, b] => encStr (resolveLocalLocal a b)
  | "finalsub", [a, b] => encStr (finalSourceSub a b)
  | "splitsub", [a] => let r := splitSubPath a; encStr r.1 ++ " " ++ encStr r.2
  | _, _ => "bad-op"

/-- `resolve <addr a> | <addr b>` -/
def handleResolve (toks : List String) : String :=
  let (l, r) := toks.span (· ≠ "|")
  match decAddr l, decAddr (r.drop 1) with
  | some a, some b =>
    match resolveRelative a b with
    | none => "err"
    | some x => encAddr x
  | _, _ => "not-utf8"

/-- `ignore <rulefile> <path>*` → per path `tt`/`tf`/`ff` (Excluded, Dominating), or `unsupported` -/
def handleIgnore (args : List Str) : String :=
  match args with
  | [] => "bad-op"
  | content :: paths =>
    let rules := readRules content
    if !supported rules then "unsupported"
    else
      String.intercalate " " (paths.map fun p =>
        let r := excludes rules p
        (if r.1 then "t" else "f") ++ (if r.2 then "t" else "f"))

/-- `rules <rulefile>` → the parsed rule list `val:negated:negAfter,...` -/
def handleRules (args : List Str) : String :=
  match args with
  | [content] =>
    String.intercalate "," ((readRules content).map fun r =>
      encStr r.val ++ ":" ++ encBool r.negated ++ ":" ++ encBool r.negAfter)
  | _ => "bad-op"

-- ---------- filesystem encoding ----------

def pathOfStr (s : Str) : PPath := pathSegs s

def strOfPath (p : PPath) : Str := '/' :: joinWith '/' p

def decNat (s : String) : Option Nat := s.toNat?

def decInt (s : String) : Option Int := s.toInt?

/-- `path:kind:perm:mtime:payload` -/
def decNode (item : String) : Option (PPath × Node) :=
  match item.splitOn ":" with
  | [p, k, perm, mt, pay] => do
    let p ← decStr p
    let perm ← decNat perm
    let mt ← decInt mt
    let pay ← decStr pay
    match k with
    | "d" => pure (pathOfStr p, .dir perm mt)
    | "f" => pure (pathOfStr p, .file perm mt pay)
    | "l" => pure (pathOfStr p, .link pay)
    | "s" => pure (pathOfStr p, .special)
    | _ => none
  | _ => none

def decFS (s : String) : Option FS :=
  if s = "-" then some [] else (s.splitOn ",").mapM decNode

def encNode (p : PPath) (n : Node) : String :=
  let ps := encStr (strOfPath p)
  match n with
  | .dir perm mt => s!"{ps}:d:{perm}:{mt}:x"
  | .file perm mt c => s!"{ps}:f:{perm}:{mt}:{encStr c}"
  | .link t => s!"{ps}:l:0:0:{encStr t}"
  | .special => s!"{ps}:s:0:0:x"

def dedupKeys : List PPath → List PPath → List PPath
  | [], acc => acc
  | k :: r, acc => if acc.contains k then dedupKeys r acc else dedupKeys r (k :: acc)

def encFS (fs : FS) : String :=
  let keys := dedupKeys (fs.map (·.1)) []
  let items := keys.filterMap fun k => (fs.get k).map fun n => (String.ofList (strOfPath k), encNode k n)
  let sorted := items.toArray.qsort (fun a b => a.1 < b.1)
  if sorted.isEmpty then "-" else String.intercalate "," (sorted.toList.map (·.2))

/-- `name:typ:mode:mtime:link:body` -/
def decEntry (item : String) : Option Entry :=
  match item.splitOn ":" with
  | [n, t, m, mt, l, b] => do
    pure { name := ← decStr n, typ := Char.ofNat (← decNat t), mode := ← decNat m, mtime := ← decInt mt,
           link := ← decStr l, body := ← decStr b }
  | _ => none

def decEntries (s : String) : Option (List Entry) :=
  if s = "-" then some [] else (s.splitOn ",").mapM decEntry

def decFault (s : String) : Option Fault :=
  if s = "none" then some .none
  else match s.toList with
    | 'h' :: r => (String.ofList r).toNat?.map Fault.header
    | 'b' :: r =>
      match (String.ofList r).splitOn "." with
      | [k, n] => do pure (.body (← k.toNat?) (← n.toNat?))
      | _ => none
    | _ => none

def decStrList (s : String) : Option (List Str) :=
  if s = "-" then some [] else (s.splitOn ",").mapM decStr

def encUResult : UResult → String
  | .ok => "ok"
  | .illegal => "illegal"
  | .ioerr => "io"

/-- `unpack <priv> <cwd> <dst> <allow> <fault> <initfs> <entries>` → `<class> <fsdump>` -/
def handleUnpack (toks : List String) : String :=
  match toks with
  | [priv, cwd, dst, allow, fault, initfs, entries] =>
    match decStr cwd, decStr dst, decStrList allow, decFault fault, decFS initfs, decEntries entries with
    | some cwd, some dst, some allow, some fault, some fs, some es =>
      let (fs', r) := unpack cwd allow (priv = "1") dst fault fs es
      encUResult r ++ " " ++ encFS fs'
    | _, _, _, _, _, _ => "not-utf8"
  | _ => "bad-op"

def handle (line : String) : String :=
  match (line.trimAscii.toString.splitOn " ") with
  | "paths" :: fn :: rest =>
    match rest.mapM decStr with
    | none => "not-utf8"
    | some args => handlePaths fn args
  | "addr" :: fn :: rest =>
    match rest.mapM decStr with
    | none => "not-utf8"
    | some args => handleAddr fn args
  | "resolve" :: rest => handleResolve rest
  | "unpack" :: rest => handleUnpack rest
  | "ignore" :: rest =>
    match rest.mapM decStr with
    | none => "not-utf8"
    | some args => handleIgnore args
  | "rules" :: rest =>
    match rest.mapM decStr with
    | none => "not-utf8"
    | some args => handleRules args
  | _ => "bad-op"

partial def loop (hin : IO.FS.Stream) (hout : IO.FS.Stream) : IO Unit := do
  let line ← hin.getLine
  if line.isEmpty then return ()
  hout.putStrLn (handle line)
  loop hin hout

def main : IO Unit := do
  let hin ← IO.getStdin
  let hout ← IO.getStdout
  loop hin hout
  hout.flush
