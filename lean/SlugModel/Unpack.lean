import SlugModel.FS
import SlugModel.Generated.Slug
/-!
# Unpack — model of `Packer.Unpack`, `unpackinfo.NewUnpackInfo`, `validSymlink`, `RestoreInfo`

Input is the decoded entry list (archive/tar + gzip are trusted as an identity between byte
streams and entry lists) plus a `Fault` describing where the reader fails, if anywhere.
-/
namespace Slug

structure Entry where
  name : Str
  typ : Char        -- tar type flag
  mode : Nat        -- permission bits incl. setuid/setgid/sticky as FileInfo().Mode() reports
  mtime : Int
  link : Str
  body : Str
  deriving Repr, DecidableEq

/-- where the input reader fails: never, at the header of entry `k` (entries before it are
processed), or inside the body of entry `k` after `n` bytes were delivered -/
inductive Fault
  | none
  | header (k : Nat)
  | body (k : Nat) (n : Nat)
  deriving Repr, DecidableEq

inductive UResult
  | ok
  | illegal     -- *IllegalSlugError
  | ioerr       -- any other error
  deriving Repr, DecidableEq

def tSymlink : Char := '2'
def tDir : Char := '5'
def tReg : Char := '0'
def tRegA : Char := Char.ofNat 0
def tXGlobal : Char := 'g'
def tXHeader : Char := 'x'

def Entry.isSymlink (e : Entry) : Bool := e.typ = tSymlink
def Entry.isDir (e : Entry) : Bool := e.typ = tDir
def Entry.isRegular (e : Entry) : Bool := e.typ = tReg || e.typ = tRegA
def Entry.isTypeX (e : Entry) : Bool := e.typ = tXGlobal || e.typ = tXHeader

/-! Facts extracted from /repo on every run (Generated/Slug.lean) that the definitions here and in
`unpackEntry` rely on: which tar type flags each predicate accepts, and the literal permissions
of the `os.MkdirAll` / `os.Chmod` calls in `Packer.Unpack`.  A source change that alters one of
them stops this file from compiling. -/
example : Generated.symlinkFlags = ["TypeSymlink"] := rfl
example : Generated.directoryFlags = ["TypeDir"] := rfl
example : Generated.regularFlags = ["TypeReg", "TypeRegA"] := rfl
example : Generated.typeXFlags = ["TypeXGlobalHeader", "TypeXHeader"] := rfl
example : Generated.unpackMkdirAllModes = [0o755, 0o755] := rfl
example : Generated.unpackChmodModes = [0o600] := rfl
example : Generated.slugExtracted = true := rfl

/-- `isWithin(root, p)` of unpackinfo.go and the identical test in `validSymlink` -/
def isWithin (root p : Str) : Bool :=
  p = root || hasPrefix p (if hasSuffix root ['/'] then root else root ++ ['/'])

/-- the per-component `Lstat` walk of `NewUnpackInfo`: `none` = ok, `some` = refused -/
def lstatWalk (fs : FS) : Str → List Seg → Bool
  | _, [] => true
  | _, [_] => true      -- the final component is not examined
  | cur, c :: rest =>
    let cur' := pathJoin cur c
    match fs.lstat cur' with
    | .error .enoent => true          -- os.IsNotExist: stop checking
    | .error _ => false
    | .ok (.link _) => false
    | .ok _ => lstatWalk fs cur' rest

/-- `NewUnpackInfo`: the extraction path, or `none` = error (always reported as illegal slug) -/
def newUnpackInfo (fs : FS) (dst : Str) (e : Entry) : Option Str :=
  let name1 := match e.name with
    | '/' :: r => r
    | n => n
  let path := pathJoin dst name1
  let target := pathClean path
  if !isWithin (pathClean dst) target then none
  else
    match pathRel (pathClean dst) target with
    | none => none
    | some rel =>
      if !lstatWalk fs dst (splitOn '/' rel) then none
      else if !(e.isDir || e.isSymlink || e.isRegular || e.isTypeX) then none
      else some path

/-- `allowedSymlinkTarget(absRoot, absTarget)`: the target is an allow-listed one or lies below one -/
def allowedTarget (allow : List Str) (absRoot absTarget : Str) : Bool :=
  allow.any fun prefix0 =>
    let pre := if isAbs prefix0 then prefix0 else pathJoin absRoot prefix0
    absTarget = pre || hasPrefix absTarget (if hasSuffix pre ['/'] then pre else pre ++ ['/'])

/-- `validSymlink(root, path, target)` with allow-list `allow`; the working directory only
matters for a relative root, `cwd` is passed for completeness. -/
def validSymlink (cwd : Str) (allow : List Str) (root path target : Str) : Bool :=
  let absRoot := pathAbs cwd root
  let absPath := if isAbs path then path else pathJoin absRoot path
  let absTarget := if isAbs target then pathClean target else pathJoin (pathDir absPath) target
  if isWithin absRoot absTarget then true
  else allowedTarget allow absRoot absTarget

/-- the test `Unpack` applies to a link entry: `validSymlink`, and an absolute target only when
the caller allow-listed it (not because it happens to point into `dst`) -/
def unpackLinkOK (cwd : Str) (allow : List Str) (dst linkName target : Str) : Bool :=
  validSymlink cwd allow dst linkName target &&
    (!isAbs target || allowedTarget allow (pathAbs cwd dst) (pathClean target))

structure UState where
  fs : FS
  dirs : List (Str × Nat × Int)    -- deferred directory metadata: path, mode, mtime (in archive order)
  deriving Repr

def nowT : Int := -1     -- "the time of the run" (canonicalised by the harness)

def mkdirAllFuel (path : Str) : Nat := path.length + 2

/-- one archive entry. `body` is what the reader delivers (possibly truncated) and `bodyErr`
whether reading it ends in an error.  Returns the new state and `some r` if Unpack returns `r`
at this entry. -/
def unpackEntry (cwd : Str) (allow : List Str) (privileged : Bool) (dst : Str) (st : UState)
    (e : Entry) (body : Str) (bodyErr : Bool) : UState × Option UResult :=
  if e.name = [] then (st, none)
  else
    match newUnpackInfo st.fs dst e with
    | none => (st, some .illegal)
    | some path =>
      -- extended (pax) header records: nothing is created, not even the parents of the name
      if e.isTypeX then (st, none)
      else
      let dir := pathDir path
      match st.fs.mkdirAll nowT (mkdirAllFuel dir) dir 0o755 with
      | (fs1, some _) => ({ fs := fs1, dirs := st.dirs }, some .ioerr)
      | (fs1, none) =>
        let st1 : UState := { fs := fs1, dirs := st.dirs }
        if e.isSymlink then
          match pathRel dst path with
          | none => (st1, some .illegal)
          | some linkName =>
            if !unpackLinkOK cwd allow dst linkName e.link then (st1, some .illegal)
            else
              match fs1.symlink e.link path nowT with
              | .error _ => (st1, some .ioerr)
              | .ok fs2 => ({ fs := fs2, dirs := st.dirs }, none)
        else if e.isDir then
          match fs1.mkdirAll nowT (mkdirAllFuel path) path 0o755 with
          | (fs2, some _) => ({ fs := fs2, dirs := st.dirs }, some .ioerr)
          | (fs2, none) => ({ fs := fs2, dirs := st.dirs ++ [(path, e.mode, e.mtime)] }, none)
        else if !e.isRegular then (st1, none)
        else
          let created : FS × Option Errno :=
            match fs1.create path body nowT privileged with
            | .error .eacces =>
              match fs1.chmod path 0o600 with
              | .ok fs' =>
                (match fs'.create path body nowT privileged with
                 | .ok f => (f, none)
                 | .error e => (fs', some e))
              | .error _ => (fs1, some .eacces)
            | .error e => (fs1, some e)
            | .ok f => (f, none)
          match created with
          | (fs2, some _) => ({ fs := fs2, dirs := st.dirs }, some .ioerr)
          | (fs2, none) =>
            if bodyErr then ({ fs := fs2, dirs := st.dirs }, some .ioerr)
            else
              match fs2.chmod path e.mode with
              | .error _ => ({ fs := fs2, dirs := st.dirs }, some .ioerr)
              | .ok fs3 =>
                match fs3.chtimes path e.mtime with
                | .error _ => ({ fs := fs3, dirs := st.dirs }, some .ioerr)
                | .ok fs4 => ({ fs := fs4, dirs := st.dirs }, none)

/-- `restoreDirectory` for the deferred list: `Chmod` then `Chtimes`, both ignoring ENOENT -/
def restoreDirs : FS → List (Str × Nat × Int) → FS × Option UResult
  | fs, [] => (fs, none)
  | fs, (path, mode, mtime) :: rest =>
    let r1 : FS × Bool := match fs.chmod path mode with
      | .ok f => (f, true)
      | .error .enoent => (fs, true)
      | .error _ => (fs, false)
    if !r1.2 then (r1.1, some .ioerr)
    else
      let r2 : FS × Bool := match r1.1.chtimes path mtime with
        | .ok f => (f, true)
        | .error .enoent => (r1.1, true)
        | .error _ => (r1.1, false)
      if !r2.2 then (r2.1, some .ioerr)
      else restoreDirs r2.1 rest

/-- the entry loop; `idx` is the index of the next entry -/
def unpackLoop (cwd : Str) (allow : List Str) (privileged : Bool) (dst : Str) (fault : Fault) :
    Nat → UState → List Entry → UState × Option UResult
  | idx, st, [] =>
    -- end of archive: a header fault at or past the end is a failing `Next()`
    match fault with
    | .header k => if k ≤ idx then (st, some .ioerr) else (st, none)
    | _ => (st, none)
  | idx, st, e :: rest =>
    if fault = .header idx then (st, some .ioerr)
    else
      let (body, bodyErr) := match fault with
        | .body k n => if k = idx ∧ e.isRegular then (e.body.take n, true) else (e.body, false)
        | _ => (e.body, false)
      match unpackEntry cwd allow privileged dst st e body bodyErr with
      | (st', some r) => (st', some r)
      | (st', none) => unpackLoop cwd allow privileged dst fault (idx + 1) st' rest

/-- `Packer.Unpack(r, dst)` on an entry list -/
def unpack (cwd : Str) (allow : List Str) (privileged : Bool) (dst : Str) (fault : Fault)
    (fs : FS) (es : List Entry) : FS × UResult :=
  match unpackLoop cwd allow privileged dst fault 0 { fs := fs, dirs := [] } es with
  | (st, some r) => (st.fs, r)
  | (st, none) =>
    match restoreDirs st.fs st.dirs with
    | (fs', some r) => (fs', r)
    | (fs', none) => (fs', .ok)

end Slug
