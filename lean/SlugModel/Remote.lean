import SlugModel.Addr
import SlugModel.Generated.Remote
/-!
# Remote — model of `ParseRemoteSource`, `MakeRemoteSource`, `PrepareURL`

`net/url` is a parameter: the model never parses or prints URLs itself.  A `UrlRec` is what
`url.Parse` returned for the package part (fields of `url.URL` plus the derived values the code
reads from it: `Query()`, `ParseQuery` error, `EscapedPath()`, `EscapedFragment()`, and the
re-encoded query with `archive=tgz`).  On the correspondence lane the harness fills it with
the real library's answers for exactly the string the model's front end produces.
-/
namespace Slug

structure UrlRec where
  scheme : Str
  opaq : Str
  hasUser : Bool
  host : Str
  path : Str
  rawPath : Str
  forceQuery : Bool
  rawQuery : Str
  fragment : Str
  rawFragment : Str
  -- derived by the real library
  query : List (Str × List Str)      -- u.Query(): key ↦ values (malformed pairs dropped)
  queryErr : Bool                    -- url.ParseQuery(u.RawQuery) fails
  escapedPath : Str                  -- u.EscapedPath()
  escapedFragment : Str              -- u.EscapedFragment()
  tgzQuery : Str                     -- qs.Set("archive","tgz"); qs.Encode()
  deriving Repr, DecidableEq

/-- github.com/ and gitlab.com/ shorthands: `none` = not a shorthand, `some none` = error -/
def shorthand (pre : Str) (given : Str) : Option (Option Str) :=
  if !hasPrefix given pre then none
  else
    let parts := splitOn '/' given
    if parts.length < 3 then some none
    else
      let url0 := "https://".toList ++ joinWith '/' (parts.take 3)
      let url1 := if hasSuffix url0 "git".toList then url0 else url0 ++ ".git".toList
      let url2 := if parts.length > 3 then url1 ++ "//".toList ++ joinWith '/' (parts.drop 3) else url1
      some (some ("git::".toList ++ url2))

/-- all shorthands are tried on the *given* string; the last applicable one wins -/
def expandShorthands (given : Str) : Option Str :=
  Generated.shorthandPrefixes.foldl (fun acc pre =>
    match acc with
    | none => none
    | some cur =>
      match shorthand pre.toList given with
      | none => some cur
      | some none => none
      | some (some r) => some r) (some given)

def isAlnumAscii (c : Char) : Bool :=
  ('a' ≤ c ∧ c ≤ 'z') || ('A' ≤ c ∧ c ≤ 'Z') || ('0' ≤ c ∧ c ≤ '9')

/-- `^([A-Za-z0-9]+)::(.+)$` : (source type, rest); `.` does not match a newline -/
def splitSourceType (s : Str) : Option (Str × Str) :=
  let ty := s.takeWhile isAlnumAscii
  let rest := s.dropWhile isAlnumAscii
  match rest with
  | ':' :: ':' :: r =>
    if ty ≠ [] ∧ r ≠ [] ∧ !r.contains '\n' then some (ty, r) else none
  | _ => none

inductive FrontEnd
  | error
  | url (sourceType : Str) (pkgRaw : Str) (subPath : Str)   -- `pkgRaw` goes to `url.Parse`
  deriving Repr, DecidableEq

/-- everything `ParseRemoteSource` does before calling `url.Parse` -/
def remoteFront (given : Str) : FrontEnd :=
  match expandShorthands given with
  | none => .error
  | some expanded =>
    let (pkgRaw, subRaw) := splitSubPath expanded
    match normalizeSubpath subRaw with
    | none => .error
    | some sub =>
      match splitSourceType pkgRaw with
      | some (ty, rest) => .url ty rest sub
      | none => .url [] pkgRaw sub

structure RemoteAddr where
  sourceType : Str
  url : UrlRec
  subPath : Str
  deriving Repr, DecidableEq

def lookupQ (q : List (Str × List Str)) (k : Str) : List Str :=
  match q.find? (·.1 = k) with
  | some (_, vs) => vs
  | none => []

/-- `gitSourceType.PrepareURL` -/
def prepareGit (u : UrlRec) : Option UrlRec :=
  if !(Generated.gitSchemes.map String.toList).contains u.scheme then none
  else if u.query.any (fun kv => !(Generated.gitQueryKeys.map String.toList).contains kv.1 || kv.2.length > 1) then none
  else some u

/-- `httpSourceType.PrepareURL` -/
def prepareHttp (u : UrlRec) : Option UrlRec :=
  if u.scheme = "http".toList then none
  else if u.scheme ≠ "https".toList then none
  else
    let arch := lookupQ u.query "archive".toList
    let r : Option UrlRec :=
      if arch.length > 0 then
        if arch.length > 1 then none
        else if !(Generated.httpArchiveValues.map String.toList).contains (arch.headD []) then none
        else some { u with rawQuery := u.tgzQuery }
      else
        if Generated.httpSuffixes.any (fun s => hasSuffix u.escapedPath s.toList) then some u else none
    match r with
    | none => none
    | some u' => if (lookupQ u.query "checksum".toList).length ≠ 0 then none else some u'

/-- keep only the raw spellings `String()` reproduces -/
def normaliseRaw (u : UrlRec) : UrlRec :=
  let u1 := if u.rawPath ≠ [] ∧ u.escapedPath ≠ u.rawPath then { u with rawPath := [] } else u
  if u1.rawFragment ≠ [] ∧ u1.escapedFragment ≠ u1.rawFragment then { u1 with rawFragment := [] } else u1

/-- `makeRemoteSource` -/
def makeRemoteCore (sourceType : Str) (u : UrlRec) (subPath : Str) : Option RemoteAddr :=
  match (Generated.sourceTypes.find? (·.1.toList = sourceType)) with
  | none => none
  | some (_, impl) =>
    let prepared := if impl = "gitSourceType" then prepareGit u else prepareHttp u
    match prepared with
    | none => none
    | some u' => some { sourceType := sourceType, url := normaliseRaw u', subPath := subPath }

/-- `ParseRemoteSource` after the front end, given what `url.Parse` returned (`none` = parse error) -/
def parseRemoteWith (ty : Str) (sub : Str) (parsed : Option UrlRec) : Option RemoteAddr :=
  match parsed with
  | none => none
  | some u =>
    if u.scheme = [] then none
    else if u.hasUser then none
    else
      let scheme := toLowerAscii u.scheme
      let u1 := { u with scheme := scheme }
      let ty1 := toLowerAscii ty
      let ty2 : Option Str := if ty1 = [] then some scheme else if ty1 = scheme then none else some ty1
      match ty2 with
      | none => none
      | some t => if u.queryErr then none else makeRemoteCore t u1 sub

/-- `ParseRemoteSource` with the URL parser as a parameter -/
def parseRemote (urlParse : Str → Option UrlRec) (given : Str) : Option RemoteAddr :=
  match remoteFront given with
  | .error => none
  | .url ty pkgRaw sub => parseRemoteWith ty sub (urlParse pkgRaw)

/-- `MakeRemoteSource(sourceType, u, subPath)` -/
def makeRemote (sourceType : Str) (u : UrlRec) (subPath : Str) : Option RemoteAddr :=
  match normalizeSubpath subPath with
  | none => none
  | some sub =>
    if Generated.makeChecksUser ∧ u.hasUser then none
    else if Generated.makeChecksQuery ∧ u.queryErr then none
    else makeRemoteCore sourceType u sub

end Slug
