import SlugModel.Builder
import SlugModel.Bundle
/-!
# ManifestWrite — the row order of `Builder.writeManifest`

`writeManifest` ranges over two maps and then sorts: package rows by their printed address
(`sort.Slice … SourceAddr <`), registry rows by the registry package's printed address; the
versions of one registry package are a JSON object, whose keys `encoding/json` writes in sorted
order (trusted).  This file models the sorting, so that "the manifest bytes do not depend on the
order of the calls or on map iteration order" can be stated about the written row sequence:
`manifestPkgOrder`, `manifestRegOrder`.  Addresses are compared as strings (`strLt`, Go's `<`).
-/
namespace Slug

/-- insertion into a list sorted by `strLt` (equal keys keep their relative order) -/
def insertStr (x : Str) : List Str → List Str
  | [] => [x]
  | y :: ys => if strLt y x then y :: insertStr x ys else x :: y :: ys

/-- insertion sort by `strLt`; for distinct keys any stable or unstable sort (Go's `sort.Slice`
is not stable) yields this list -/
def sortStr (l : List Str) : List Str := l.foldr insertStr []

/-- the `source` fields of the manifest's `packages` array, in file order -/
def manifestPkgOrder (st : BState) : List Str := sortStr (st.pkgDirs.map (·.1))

/-- the `source` fields of the manifest's `registry` array, in file order -/
def manifestRegOrder (st : BState) : List Str := sortStr ((st.resolved.map (·.1.1)).eraseDups)

end Slug
