import SlugModel.Props.C18
import SlugModel.Lemmas.BundleReverse
/-!
# C18b — the reverse lookup (`SourceForLocalPath`) does not depend on map iteration order

The Go code ranges over the map `remotePackageDirs`; several addresses may share one directory.
It keeps the candidate whose printed address is shortest and, among equally short ones, the one
that sorts first (`addrBefore`).  Here: `addrBefore` is a strict total order, `pickAddr` returns
the least candidate, so the answer is a function of the *set* of table rows — any permutation of
the stored order (= any map iteration order) gives the same answer.
-/
namespace Slug

/-! ## 1. `addrBefore` is a strict total order -/

theorem C18_addrBefore_irrefl (a : Str) : addrBefore a a = false :=
  br_addrBefore_irrefl a

theorem C18_addrBefore_trans (a b c : Str) (h1 : addrBefore a b = true) (h2 : addrBefore b c = true) :
    addrBefore a c = true :=
  br_addrBefore_trans a b c h1 h2

/-- for distinct strings exactly one of the two directions holds -/
theorem C18_addrBefore_total (a b : Str) (h : a ≠ b) :
    (addrBefore a b = true ∧ addrBefore b a = false) ∨
      (addrBefore a b = false ∧ addrBefore b a = true) :=
  br_addrBefore_total a b h

theorem C18_addrBefore_strict_total :
    (∀ a, addrBefore a a = false) ∧
    (∀ a b c, addrBefore a b = true → addrBefore b c = true → addrBefore a c = true) ∧
    (∀ a b, a ≠ b → (addrBefore a b = true ∧ addrBefore b a = false) ∨
      (addrBefore a b = false ∧ addrBefore b a = true)) :=
  ⟨C18_addrBefore_irrefl, C18_addrBefore_trans, C18_addrBefore_total⟩

/-! ## 2./3. the pick is the least candidate, whatever the order of the candidates -/

theorem C18_pick_min (c : Str) (cs : List Str) :
    pickAddr c cs ∈ c :: cs ∧
      ∀ x ∈ c :: cs, x ≠ pickAddr c cs → addrBefore (pickAddr c cs) x = true :=
  br_pickAddr_least c cs

/-- no `Nodup` needed: the least element of a strict total order is unique -/
theorem C18_pick_perm (c d : Str) (cs ds : List Str) (h : List.Perm (c :: cs) (d :: ds)) :
    pickAddr c cs = pickAddr d ds :=
  br_pickAddr_set c d cs ds (fun _ => h.mem_iff)

/-- even weaker: the same *set* of candidates (duplicates and order are irrelevant) -/
theorem C18_pick_set (c d : Str) (cs ds : List Str) (h : ∀ x, x ∈ c :: cs ↔ x ∈ d :: ds) :
    pickAddr c cs = pickAddr d ds :=
  br_pickAddr_set c d cs ds h

/-! ## 4. the answer does not depend on map iteration order -/

theorem C18_reverse_order_free (b b' : Bundle) (hroot : b.root = b'.root)
    (hperm : List.Perm b.pkgDirs b'.pkgDirs) (p : Str) :
    sourceForLocalPath b p = sourceForLocalPath b' p := by
  rw [br_source_eq, br_source_eq,
    br_split_congr b b' p hroot (fun _ => hperm.any_eq)]
  cases splitLocalPath b' p with
  | none => rfl
  | some ds =>
    obtain ⟨dir, sub⟩ := ds
    simp only
    have hp := br_cands_perm _ _ dir hperm
    cases h1 : brCands b.pkgDirs dir with
    | nil =>
      rw [h1] at hp
      rw [← hp.nil_eq]
    | cons c cs =>
      cases h2 : brCands b'.pkgDirs dir with
      | nil =>
        rw [h1, h2] at hp
        cases hp.eq_nil
      | cons d ds =>
        rw [h1, h2] at hp
        simp only
        rw [C18_pick_perm c d cs ds hp]

/-! ## 5. soundness: the answer is a stored row, and the preferred one -/

theorem C18_reverse_sound (b : Bundle) (p addr sub : Str)
    (h : sourceForLocalPath b p = some (addr, sub)) :
    ∃ dir, splitLocalPath b p = some (dir, sub) ∧ (addr, dir) ∈ b.pkgDirs ∧
      ∀ a, (a, dir) ∈ b.pkgDirs → a ≠ addr → addrBefore addr a = true := by
  rw [br_source_eq] at h
  cases hs : splitLocalPath b p with
  | none => rw [hs] at h; cases h
  | some ds =>
    obtain ⟨dir, sub'⟩ := ds
    rw [hs] at h
    simp only at h
    cases hc : brCands b.pkgDirs dir with
    | nil => rw [hc] at h; cases h
    | cons c cs =>
      rw [hc] at h
      simp only [Option.some.injEq, Prod.mk.injEq] at h
      obtain ⟨h1, h2⟩ := h
      obtain ⟨hm, hl⟩ := C18_pick_min c cs
      rw [h1, ← hc] at hm hl
      refine ⟨dir, by rw [h2], (br_mem_cands _ _ _).mp hm, ?_⟩
      intro a ha hne
      exact hl a ((br_mem_cands _ _ _).mpr ha) hne

/-! ## 6. path → address → path -/

theorem C18_reverse_roundtrip_addr (b : Bundle) (p addr sub : Str) (hr : AbsClean b.root)
    (hp : AbsClean p) (hkeys : (b.pkgDirs.map Prod.fst).Nodup)
    (h : sourceForLocalPath b p = some (addr, sub)) :
    localPathForRemote b addr sub = some p := by
  obtain ⟨dir, hs, hm, _⟩ := C18_reverse_sound b p addr sub h
  exact C18_alias_same_path b p dir sub addr hr hp hs (br_aget_of_mem _ _ _ hkeys hm)

/-! ## 7. a path inside some package directory always gets an address -/

theorem C18_reverse_total (b : Bundle) (p : Str) :
    sourceForLocalPath b p = none ↔ splitLocalPath b p = none := by
  rw [br_source_eq]
  constructor
  · intro h
    cases hs : splitLocalPath b p with
    | none => rfl
    | some ds =>
      exfalso
      obtain ⟨dir, sub⟩ := ds
      rw [hs] at h
      simp only at h
      cases hc : brCands b.pkgDirs dir with
      | nil => exact br_cands_ne_nil _ _ (br_split_any b p dir sub hs) hc
      | cons c cs => rw [hc] at h; cases h
  · intro h
    rw [h]

/-- the sub-path of the full answer is the one `splitLocalPath` computes -/
theorem C18_reverse_some (b : Bundle) (p dir sub : Str) (h : splitLocalPath b p = some (dir, sub)) :
    ∃ addr, sourceForLocalPath b p = some (addr, sub) ∧ (addr, dir) ∈ b.pkgDirs := by
  cases hs : sourceForLocalPath b p with
  | none => rw [(C18_reverse_total b p).mp hs] at h; cases h
  | some r =>
    obtain ⟨addr, sub'⟩ := r
    obtain ⟨dir', hs', hm, _⟩ := C18_reverse_sound b p addr sub' hs
    rw [h] at hs'
    simp only [Option.some.injEq, Prod.mk.injEq] at hs'
    rw [hs'.1, ← hs'.2]
    exact ⟨addr, rfl, hm⟩

/-! ## 8. non-vacuity: aliases of one directory, in different stored orders -/

/-- two addresses of equal length (30 bytes) and a longer one share `d1`; another row for `d2` -/
def brDemoRows : List (Str × Str) :=
  [("git::https://example.com/b.git".toList, "d1".toList),
   ("git::https://example.com/long.git".toList, "d1".toList),
   ("git::https://example.com/z.git".toList, "d2".toList),
   ("git::https://example.com/a.git".toList, "d1".toList)]

def brDemoBundle (rows : List (Str × Str)) : Bundle :=
  { root := "/b".toList, pkgDirs := rows, pkgMeta := [], regSources := [], regDeprec := [] }

/-- the same rows in another order -/
def brDemoRows' : List (Str × Str) :=
  [("git::https://example.com/long.git".toList, "d1".toList),
   ("git::https://example.com/a.git".toList, "d1".toList),
   ("git::https://example.com/b.git".toList, "d1".toList),
   ("git::https://example.com/z.git".toList, "d2".toList)]

example : utf8Len "git::https://example.com/a.git".toList = utf8Len "git::https://example.com/b.git".toList := by
  decide
example : utf8Len "git::https://example.com/a.git".toList < utf8Len "git::https://example.com/long.git".toList := by
  decide
theorem brDemo_perm : List.Perm brDemoRows brDemoRows' := by decide

/-- same answer in both orders: the string-smaller of the two short addresses -/
example : sourceForLocalPath (brDemoBundle brDemoRows) "/b/d1/sub/x".toList
    = some ("git::https://example.com/a.git".toList, "sub/x".toList) := by decide
example : sourceForLocalPath (brDemoBundle brDemoRows') "/b/d1/sub/x".toList
    = some ("git::https://example.com/a.git".toList, "sub/x".toList) := by decide
example : sourceForLocalPath (brDemoBundle brDemoRows.reverse) "/b/d1/sub/x".toList
    = some ("git::https://example.com/a.git".toList, "sub/x".toList) := by decide

theorem brDemo_root_eq (r r' : List (Str × Str)) : (brDemoBundle r).root = (brDemoBundle r').root := rfl

/-- and the theorem gives the same without evaluating the second bundle -/
example (p : Str) : sourceForLocalPath (brDemoBundle brDemoRows) p
    = sourceForLocalPath (brDemoBundle brDemoRows') p :=
  C18_reverse_order_free (brDemoBundle brDemoRows) (brDemoBundle brDemoRows')
    (brDemo_root_eq _ _) brDemo_perm p

/-- candidates of different lengths: the shorter wins although it sorts later -/
def brDemoRowsLen : List (Str × Str) :=
  [("git::https://example.com/aaaa.git".toList, "d1".toList),
   ("git::https://example.com/zz.git".toList, "d1".toList)]

example : strLt "git::https://example.com/aaaa.git".toList "git::https://example.com/zz.git".toList = true := by
  decide
example : addrBefore "git::https://example.com/zz.git".toList "git::https://example.com/aaaa.git".toList = true := by
  decide
example : sourceForLocalPath (brDemoBundle brDemoRowsLen) "/b/d1".toList
    = some ("git::https://example.com/zz.git".toList, []) := by decide
example : sourceForLocalPath (brDemoBundle brDemoRowsLen.reverse) "/b/d1".toList
    = some ("git::https://example.com/zz.git".toList, []) := by decide

/-- length is counted in bytes, not code points: `é` is two bytes, so `"é"` comes after `"zz"`… -/
example : addrBefore "z".toList "é".toList = true ∧ strLt "z".toList "é".toList = true := by decide
example : addrBefore "zz".toList "é".toList = true ∧ addrBefore "é".toList "zzz".toList = true := by decide

/-- the other directory and the misses -/
example : sourceForLocalPath (brDemoBundle brDemoRows) "/b/d2".toList
    = some ("git::https://example.com/z.git".toList, []) := by decide
example : sourceForLocalPath (brDemoBundle brDemoRows) "/b/d3/x".toList = none := by decide
example : sourceForLocalPath (brDemoBundle brDemoRows) "/b".toList = none := by decide

/-- the hypotheses of `C18_reverse_roundtrip_addr` are met by the demo bundle, and its conclusion
evaluates -/
example : localPathForRemote (brDemoBundle brDemoRows) "git::https://example.com/a.git".toList "sub/x".toList
    = some "/b/d1/sub/x".toList :=
  C18_reverse_roundtrip_addr (brDemoBundle brDemoRows) "/b/d1/sub/x".toList _ _
    bnDemo_root ⟨by decide, by decide⟩ (by decide) (by decide)

end Slug
