import SlugModel.Lemmas.BuilderTerm
/-!
# C14 (termination part) — the builder always terminates

Property theorems only; the step relation, the decreasing measure and the induction live in
`Lemmas/BuilderTerm`.  `drain`, `applyOp`, `runOps` are the model of `Builder.resolvePending` and
the `Add*` entry points (tied to the code by the `builder` lane).  Fuel counts iterations of the
two inner loops of `resolvePending` (pops of either queue and switches between the loops).

Why it terminates whatever the dependency graph looks like (diamonds, self-references, cycles):
an artefact is analysed at most once, only artefacts with a row in the finite dependency table
push anything, and every other iteration shortens a queue.
-/
namespace Slug

/-- **C14_terminates.** For every world there is a fuel bound `fuelBound w` — a function of the
world alone, not of the calls — such that with at least that much fuel per call no `Add*` call of
any run from the empty builder runs out of fuel, and more fuel changes nothing: not the final
state, not any result. -/
theorem C14_terminates (w : World) (ops : List Op) (fuel : Nat) (h : fuelBound w ≤ fuel) :
    (∀ r ∈ (runOps w fuel BState.init ops).2, r.finished = true) ∧
    runOps w fuel BState.init ops = runOps w (fuelBound w) BState.init ops := by
  obtain ⟨h1, h2⟩ := runOps_terminates w fuel h ops BState.init (idle_init w)
  exact ⟨h2, h1⟩

/-- **C14_fuel_explicit.** The bound in numbers: rows of the dependency table × packages known to
the fetcher × (5 · longest finder report + 5), plus 6. -/
theorem C14_fuel_explicit (w : World) :
    fuelBound w ≤ w.deps.length * w.fetch.length * (5 * maxDecls w + 5) + 6 := by
  have := Nat.mul_le_mul_right (pushWeight w) (pushers_length_le w)
  simpa [fuelBound, pushWeight] using this

/-- **C14_step_decreases.** The reason: every iteration of the loops strictly decreases
`drainMeasure` = (potential pushers not yet analysed) × weight + |remote queue| +
(5·|registry queue| in the remote loop, 3·|registry queue| + 1 in the registry loop). -/
theorem C14_step_decreases (w : World) (ph ph' : Bool) (st st' : BState) (ds ds' : List Diag)
    (hs : Step w ph st ds ph' st' ds') (hc : DirsCoh w st) :
    drainMeasure w ph' st' < drainMeasure w ph st :=
  (hs.decreases hc).2

/-- **C14_done_queues_empty.** When the loop reports completion both queues are empty. -/
theorem C14_done_queues_empty (w : World) (n : Nat) (ph : Bool) (st st' : BState)
    (ds ds' : List Diag) (h : drain w n ph st ds = .done st' ds') :
    st'.pendingRemote = [] ∧ st'.pendingRegistry = [] :=
  (drain_inv w (fun _ _ _ => True) (fun _ _ _ _ _ _ _ _ => trivial) n ph st ds st' ds' trivial h).2

/-- non-vacuity: the example world has a cycle (`a → b//x/y → a`), a registry hop and a repeated
Add; its bound is 56 iterations per call; with that fuel every call finishes … -/
example : fuelBound exWorld = 56 := by decide
example : ((runOps exWorld (fuelBound exWorld) BState.init exOps).2.map OpResult.finished) =
    [true, true, true] := by decide
/-- … with too little fuel the calls do run out (so the hypothesis matters) … -/
example : ((runOps exWorld 5 BState.init exOps).2.map OpResult.finished) =
    [false, false, false] := by decide
/-- … and the cycle is really walked: six artefacts are analysed, `a` only once (newest first). -/
example : (runOps exWorld 56 BState.init exOps).1.analyzed =
    [(⟨"r".toList, "mod".toList⟩, 0), (⟨"r".toList, "mod/sub".toList⟩, 0), (⟨"b".toList, "x".toList⟩, 0),
     (⟨"b".toList, []⟩, 1), (⟨"b".toList, "x/y".toList⟩, 0), (⟨"a".toList, []⟩, 0)] := by
  decide

end Slug
