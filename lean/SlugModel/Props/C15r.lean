import SlugModel.Lemmas.UntarRefine
import SlugModel.Props.C15
/-!
# C15 (refinement) — Unpack materialises exactly what a well-formed archive says

`untar es : Option Tree` (Spec/Untar.lean) is the sequential reading of an entry list into an
abstract tree keyed by relative paths; `unpack` (Unpack.lean) is the model of `Packer.Unpack` on the
filesystem model (FS.lean).  Property theorems only; the simulation lives in `Lemmas/UntarRefine`.

Two hypotheses are added to `WellFormedArchive` (both are needed, see the closed counterexamples
`C15_cex_typex_creates_parent`, `C15_cex_typex_illegal` below and the remark on depth):

* `UrXFlat es` — a pax header entry (`x`/`g`) has at most one path component.  The code runs
  `NewUnpackInfo` (the `Lstat` walk) and `MkdirAll(Dir(path))` *before* the type dispatch, so a pax
  entry named `a/b` creates the directory `a` (or is refused when `a` is a file), whereas the
  specification ignores pax entries.
* `UrShallow dst es` — `|dst| + |name| < resolveFuel` (= 64) components for every entry.  This is a
  limitation of the fuelled filesystem model (`FS.resolve` spends one unit of fuel per component
  and answers `ELOOP` when it runs out), not of the code.

`KeysPhysical fs` is not needed: the destination is an existing *empty* real directory.
-/
namespace Slug

/-- pax header entries have at most one path component -/
def UrXFlat (es : List Entry) : Prop :=
  ∀ e ∈ es, e.isTypeX = true → e.name ≠ [] → (entryRel e.name).length ≤ 1

instance (es : List Entry) : Decidable (UrXFlat es) := by unfold UrXFlat; infer_instance

/-- every extraction path has fewer components than the resolver has fuel -/
def UrShallow (dst : Str) (es : List Entry) : Prop :=
  ∀ e ∈ es, (pathSegs dst).length + (entryRel e.name).length < resolveFuel

instance (dst : Str) (es : List Entry) : Decidable (UrShallow dst es) := by unfold UrShallow; infer_instance

/-- the per-entry reading of `WellFormedArchive` used by the simulation -/
theorem ur_entryOK_of_wf {dst : Str} {es : List Entry} (hwf : WellFormedArchive es) (hx : UrXFlat es)
    (hsh : UrShallow dst es) :
    ∀ pre e post ust1, es = pre ++ e :: post → pre.foldlM untarEntry urInit = some ust1 →
      e.name ≠ [] → UrEntryOK (pathSegs dst) ust1.tree e := by
  intro pre e post ust1 hsplit hpre hn
  have hmem : e ∈ es := by rw [hsplit]; simp
  refine ⟨hwf.names_plain e hmem hn, ?_, fun h => hx e hmem h hn, ?_, ?_, fun h => hwf.links_good e hmem h hn⟩
  · rw [List.length_append]; exact hsh e hmem
  · intro hk
    obtain ⟨h1, _⟩ := hwf.no_conflict pre e post ust1 hsplit hpre hn hk
    intro q hq0 hq
    cases hg : treeGet ust1.tree q with
    | none => exact Or.inl rfl
    | some n =>
      obtain ⟨a, b, hn'⟩ := h1 q ((ur_mem_properPrefixes _ q).mpr ⟨hq0, hq⟩) n hg
      exact Or.inr ⟨a, b, by rw [hn']⟩
  · intro hk
    obtain ⟨_, h2⟩ := hwf.no_conflict pre e post ust1 hsplit hpre hn hk
    split at h2
    · rename_i heq; exact Or.inl heq
    · rename_i a b heq; exact Or.inr (Or.inl ⟨⟨a, b, heq⟩, h2⟩)
    · rename_i a b c heq; exact Or.inr (Or.inr ⟨⟨a, b, c, heq⟩, h2⟩)
    · exact absurd h2 id

/-- **C15_refines_partial.** Let `dst` be an absolute clean path other than `/` that is an existing,
empty, real directory of `fs` (all its components are directories; nothing is bound strictly below
it).  For a well-formed archive `es` (plus `UrXFlat`, `UrShallow`), without reader fault and
allow-list, privileged or not: if the sequential reading gives the tree `t`, then `Unpack` succeeds
and below `dst` the resulting filesystem *is* `t` — kind, permission bits, modification time,
content and link target of every path, and nothing else (`none` on both sides elsewhere).  The
destination directory itself (`r = []`) is excluded: its own time is touched by creations. -/
theorem C15_refines_partial {cwd dst : Str} {priv : Bool} {fs : FS} {es : List Entry} {t : Tree}
    (hdst : DstOK dst) (hreal : RealDir fs (pathSegs dst))
    (hempty : ∀ q, pathSegs dst <+: q → q ≠ pathSegs dst → fs.get q = none)
    (hwf : WellFormedArchive es) (hx : UrXFlat es) (hsh : UrShallow dst es) (hu : untar es = some t) :
    (unpack cwd [] priv dst .none fs es).2 = .ok ∧
    ∀ r, r ≠ [] → ((unpack cwd [] priv dst .none fs es).1).get (pathSegs dst ++ r) = treeGet t r :=
  ur_unpack_refines hdst hreal hempty (ur_entryOK_of_wf hwf hx hsh) hu

/-- the destination stays a real directory (every component of `dst` is still a directory) -/
theorem C15_refines_dst_stays_dir {cwd dst : Str} {priv : Bool} {fs : FS} {es : List Entry}
    (hdst : DstOK dst) (hreal : RealDir fs (pathSegs dst)) (hkeys : KeysPhysical fs)
    (hgood : AllGood fs (pathSegs dst)) (htl : TidyLinks es) (fault : Fault) :
    RealDir (unpack cwd [] priv dst fault fs es).1 (pathSegs dst) :=
  (unpack_ok (cwd := cwd) (priv := priv) (fault := fault) hdst rfl ⟨hreal, hkeys, hgood⟩ htl).1.real

/-! ## the error clause -/

theorem ur_untarEntry_total (st : UntarState) (e : Entry) (h : e.name = [] ∨ e.supported = true) :
    ∃ st', untarEntry st e = some st' := by
  by_cases hn : e.name = []
  · exact ⟨st, ur_untar_nil_name st e hn⟩
  · have hs : (e.isDir || e.isSymlink || e.isRegular || e.isTypeX) = true := by
      rcases h with h | h
      · exact absurd h hn
      · exact h
    unfold untarEntry
    rw [if_neg hn]
    simp only [hs, Bool.not_true, Bool.false_eq_true, if_false]
    split
    · exact ⟨_, rfl⟩
    · split
      · split <;> exact ⟨_, rfl⟩
      · split
        · exact ⟨_, rfl⟩
        · split <;> exact ⟨_, rfl⟩

theorem ur_untar_total (es : List Entry) (h : ∀ e ∈ es, e.name = [] ∨ e.supported = true) :
    ∀ st : UntarState, ∃ st', es.foldlM untarEntry st = some st' := by
  induction es with
  | nil => intro st; exact ⟨st, rfl⟩
  | cons e rest ih =>
    intro st
    obtain ⟨st1, h1⟩ := ur_untarEntry_total st e (h e (by simp))
    obtain ⟨st2, h2⟩ := ih (fun x hx => h x (List.mem_cons_of_mem _ hx)) st1
    refine ⟨st2, ?_⟩
    rw [List.foldlM_cons, h1]
    exact h2

/-- **C15_refines_unsupported.** If the sequential reading fails (`untar es = none`: some named
entry has a type that cannot be represented), `Unpack` does not return success — for every
filesystem, destination, allow-list, privilege level and reader fault; no well-formedness is
needed. -/
theorem C15_refines_unsupported (cwd : Str) (allow : List Str) (priv : Bool) (dst : Str) (fault : Fault)
    (fs : FS) (es : List Entry) (hu : untar es = none) :
    (unpack cwd allow priv dst fault fs es).2 ≠ .ok := by
  intro hok
  have hall := C15_unsupported_fails cwd allow priv dst fault fs es hok
  obtain ⟨st', hst'⟩ := ur_untar_total es hall { tree := [([], .dir 0o755 nowT)], deferred := [] }
  unfold untar at hu
  rw [hst'] at hu
  cases hu

/-- conversely, a failing sequential reading pinpoints a named entry of an unsupported type -/
theorem C15_refines_unsupported_entry (es : List Entry) (hu : untar es = none) :
    ∃ e ∈ es, e.name ≠ [] ∧ e.supported = false := by
  apply Classical.byContradiction
  intro hne
  have hall : ∀ e ∈ es, e.name = [] ∨ e.supported = true := by
    intro e he
    by_cases hn : e.name = []
    · exact Or.inl hn
    · right
      cases hs : e.supported with
      | true => rfl
      | false => exact absurd ⟨e, he, hn, hs⟩ hne
  obtain ⟨st', hst'⟩ := ur_untar_total es hall { tree := [([], .dir 0o755 nowT)], deferred := [] }
  unfold untar at hu
  rw [hst'] at hu
  cases hu

end Slug
