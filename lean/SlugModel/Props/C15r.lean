import SlugModel.Lemmas.UntarRefine
import SlugModel.Props.C15
/-!
# C15 (refinement) — Unpack materialises exactly what a well-formed archive says

`untar es : Option Tree` (Spec/Untar.lean) is the sequential reading of an entry list into an
abstract tree keyed by relative paths; `unpack` (Unpack.lean) is the model of `Packer.Unpack` on the
filesystem model (FS.lean).  Property theorems only; the simulation lives in `Lemmas/UntarRefine`.

Two hypotheses are added to `WellFormedArchive` (both are needed, see the closed counterexample
`C15_cex_typex_illegal` below and the remark on depth):

* `UrXFree es` — a pax header entry (`x`/`g`) does not pass through a non-directory: the proper
  prefixes of its path are free or directories in the tree read so far.  This is the clause
  `WellFormedArchive.no_conflict` has for directory, link and file entries; the specification
  ignores pax entries altogether, but the code runs `NewUnpackInfo` (the `Lstat` walk) for every
  entry type, so a pax entry named `f/g/h` is refused when `f` is a file or a link.  Nothing else is
  asked of a pax entry: once `NewUnpackInfo` has accepted it, it is skipped before anything is
  created (`C15_typex_creates_nothing`), as the specification says.  `UrXFlat es` ("at most one path
  component", the hypothesis of the earlier version, when `MkdirAll(Dir(path))` still ran for pax
  entries) is a decidable sufficient condition (`UrXFlat.free`), `urXFreeCheck` another.
* `UrShallow dst es` — `|dst| + |name| < resolveFuel` (= 64) components for every entry.  This is a
  limitation of the fuelled filesystem model (`FS.resolve` spends one unit of fuel per component
  and answers `ELOOP` when it runs out), not of the code.

`KeysPhysical fs` is not needed: the destination is an existing *empty* real directory.
-/
namespace Slug

/-- pax header entries have at most one path component -/
def UrXFlat (es : List Entry) : Prop :=
  ∀ e ∈ es, e.isTypeX = true → e.name ≠ [] → (entryRel e.name).length ≤ 1

instance (es : List Entry) : Decidable (UrXFlat es) := by unfold UrXFlat; infer_instance

/-- a named pax header entry does not pass through a non-directory: every proper prefix of its path
is free or a directory in the tree read before it (what `WellFormedArchive.no_conflict` says about
the prefixes of directory, link and file entries) -/
def UrXFree (es : List Entry) : Prop :=
  ∀ (pre : List Entry) (e : Entry) (post : List Entry) (st : UntarState),
    es = pre ++ e :: post → pre.foldlM untarEntry urInit = some st → e.name ≠ [] → e.isTypeX = true →
      ∀ q ∈ properPrefixes (entryRel e.name), ∀ n, treeGet st.tree q = some n → ∃ perm mt, n = .dir perm mt

/-- pax entries with at most one component have no proper prefixes -/
theorem UrXFlat.free {es : List Entry} (h : UrXFlat es) : UrXFree es := by
  intro pre e post st hsplit _ hn hX q hq
  have hmem : e ∈ es := by rw [hsplit]; simp
  have hlen := h e hmem hX hn
  obtain ⟨hq0, hpre⟩ := (ur_mem_properPrefixes _ q).mp hq
  have hdl0 : (entryRel e.name).dropLast = [] := by
    apply List.eq_nil_of_length_eq_zero; rw [List.length_dropLast]; omega
  rw [hdl0] at hpre
  exact absurd (List.prefix_nil.mp hpre) hq0

/-- an archive without pax entries -/
theorem UrXFree.of_no_typeX {es : List Entry} (h : ∀ e ∈ es, e.isTypeX = false) : UrXFree es := by
  intro pre e post st hsplit _ _ hX
  have hmem : e ∈ es := by rw [hsplit]; simp
  rw [h e hmem] at hX; cases hX

/-- every extraction path has fewer components than the resolver has fuel -/
def UrShallow (dst : Str) (es : List Entry) : Prop :=
  ∀ e ∈ es, (pathSegs dst).length + (entryRel e.name).length < resolveFuel

instance (dst : Str) (es : List Entry) : Decidable (UrShallow dst es) := by unfold UrShallow; infer_instance

/-- the per-entry reading of `WellFormedArchive` used by the simulation -/
theorem ur_entryOK_of_wf {dst : Str} {es : List Entry} (hwf : WellFormedArchive es) (hx : UrXFree es)
    (hsh : UrShallow dst es) :
    ∀ pre e post ust1, es = pre ++ e :: post → pre.foldlM untarEntry urInit = some ust1 →
      e.name ≠ [] → UrEntryOK (pathSegs dst) ust1.tree e := by
  intro pre e post ust1 hsplit hpre hn
  have hmem : e ∈ es := by rw [hsplit]; simp
  refine ⟨hwf.names_plain e hmem hn, ?_, ?_, ?_, ?_, fun h => hwf.links_good e hmem h hn⟩
  · rw [List.length_append]; exact hsh e hmem
  · intro hX q hq0 hq
    cases hg : treeGet ust1.tree q with
    | none => exact Or.inl rfl
    | some n =>
      obtain ⟨a, b, hn'⟩ := hx pre e post ust1 hsplit hpre hn hX q
        ((ur_mem_properPrefixes _ q).mpr ⟨hq0, hq⟩) n hg
      exact Or.inr ⟨a, b, by rw [hn']⟩
  · intro hk
    obtain ⟨h1, _⟩ := hwf.no_conflict pre e post ust1 hsplit hpre hn hk
    intro q hq0 hq
    cases hg : treeGet ust1.tree q with
    | none => exact Or.inl rfl
    | some n =>
      obtain ⟨a, b, hn'⟩ := h1 q ((ur_mem_properPrefixes _ q).mpr ⟨hq0, hq⟩) n hg
      exact Or.inr ⟨a, b, by rw [hn']⟩
  · intro hk
    obtain ⟨_, h2⟩ := hwf.no_conflict pre e post ust1 hsplit hpre hn hk
    split at h2
    · rename_i heq; exact Or.inl heq
    · rename_i a b heq; exact Or.inr (Or.inl ⟨⟨a, b, heq⟩, h2⟩)
    · rename_i a b c heq; exact Or.inr (Or.inr ⟨⟨a, b, c, heq⟩, h2⟩)
    · exact absurd h2 id

/-- **C15_refines_partial.** Let `dst` be an absolute clean path other than `/` that is an existing,
empty, real directory of `fs` (all its components are directories; nothing is bound strictly below
it).  For a well-formed archive `es` (plus `UrXFree`, `UrShallow`), without reader fault and
allow-list, privileged or not: if the sequential reading gives the tree `t`, then `Unpack` succeeds
and below `dst` the resulting filesystem *is* `t` — kind, permission bits, modification time,
content and link target of every path, and nothing else (`none` on both sides elsewhere).  The
destination directory itself (`r = []`) is excluded: its own time is touched by creations. -/
theorem C15_refines_partial {cwd dst : Str} {priv : Bool} {fs : FS} {es : List Entry} {t : Tree}
    (hdst : DstOK dst) (hreal : RealDir fs (pathSegs dst))
    (hempty : ∀ q, pathSegs dst <+: q → q ≠ pathSegs dst → fs.get q = none)
    (hwf : WellFormedArchive es) (hx : UrXFree es) (hsh : UrShallow dst es) (hu : untar es = some t) :
    (unpack cwd [] priv dst .none fs es).2 = .ok ∧
    ∀ r, r ≠ [] → ((unpack cwd [] priv dst .none fs es).1).get (pathSegs dst ++ r) = treeGet t r :=
  have h := ur_unpack_refines (cwd := cwd) (priv := priv) hdst hreal hempty (ur_entryOK_of_wf hwf hx hsh) hu
  ⟨h.1, h.2.1⟩

/-- **C15_refines_root_partial.** The destination directory itself: when the archive has a directory
entry for it (a name such as `.`, `./` or `/`), its final mode and time are those of the last such
entry, as the tree says under the empty path.  (Without such an entry the directory keeps its mode
and gets the time of the run iff something was created directly in it; the tree does not model
that.) -/
theorem C15_refines_root_partial {cwd dst : Str} {priv : Bool} {fs : FS} {es : List Entry} {t : Tree}
    (hdst : DstOK dst) (hreal : RealDir fs (pathSegs dst))
    (hempty : ∀ q, pathSegs dst <+: q → q ≠ pathSegs dst → fs.get q = none)
    (hwf : WellFormedArchive es) (hx : UrXFree es) (hsh : UrShallow dst es) (hu : untar es = some t)
    (hroot : ∃ e ∈ es, e.name ≠ [] ∧ entryRel e.name = [] ∧ e.isDir = true) :
    ((unpack cwd [] priv dst .none fs es).1).get (pathSegs dst) = treeGet t [] :=
  (ur_unpack_refines (cwd := cwd) (priv := priv) hdst hreal hempty (ur_entryOK_of_wf hwf hx hsh) hu).2.2 hroot

/-- the destination stays a real directory (every component of `dst` is still a directory) -/
theorem C15_refines_dst_stays_dir {cwd dst : Str} {priv : Bool} {fs : FS} {es : List Entry}
    (hdst : DstOK dst) (hreal : RealDir fs (pathSegs dst)) (hkeys : KeysPhysical fs)
    (hgood : AllGood fs (pathSegs dst)) (htl : TidyLinks es) (fault : Fault) :
    RealDir (unpack cwd [] priv dst fault fs es).1 (pathSegs dst) :=
  (unpack_ok (cwd := cwd) (priv := priv) (fault := fault) hdst rfl ⟨hreal, hkeys, hgood⟩ htl).1.real

/-! ## the error clause -/

theorem ur_untarEntry_total (st : UntarState) (e : Entry) (h : e.name = [] ∨ e.supported = true) :
    ∃ st', untarEntry st e = some st' := by
  by_cases hn : e.name = []
  · exact ⟨st, ur_untar_nil_name st e hn⟩
  · have hs : (e.isDir || e.isSymlink || e.isRegular || e.isTypeX) = true := by
      rcases h with h | h
      · exact absurd h hn
      · exact h
    unfold untarEntry
    rw [if_neg hn]
    simp only [hs, Bool.not_true, Bool.false_eq_true, if_false]
    split
    · exact ⟨_, rfl⟩
    · split
      · split <;> exact ⟨_, rfl⟩
      · split
        · exact ⟨_, rfl⟩
        · split <;> exact ⟨_, rfl⟩

theorem ur_untar_total (es : List Entry) (h : ∀ e ∈ es, e.name = [] ∨ e.supported = true) :
    ∀ st : UntarState, ∃ st', es.foldlM untarEntry st = some st' := by
  induction es with
  | nil => intro st; exact ⟨st, rfl⟩
  | cons e rest ih =>
    intro st
    obtain ⟨st1, h1⟩ := ur_untarEntry_total st e (h e (by simp))
    obtain ⟨st2, h2⟩ := ih (fun x hx => h x (List.mem_cons_of_mem _ hx)) st1
    refine ⟨st2, ?_⟩
    rw [List.foldlM_cons, h1]
    exact h2

/-- **C15_refines_unsupported.** If the sequential reading fails (`untar es = none`: some named
entry has a type that cannot be represented), `Unpack` does not return success — for every
filesystem, destination, allow-list, privilege level and reader fault; no well-formedness is
needed. -/
theorem C15_refines_unsupported (cwd : Str) (allow : List Str) (priv : Bool) (dst : Str) (fault : Fault)
    (fs : FS) (es : List Entry) (hu : untar es = none) :
    (unpack cwd allow priv dst fault fs es).2 ≠ .ok := by
  intro hok
  have hall := C15_unsupported_fails cwd allow priv dst fault fs es hok
  obtain ⟨st', hst'⟩ := ur_untar_total es hall { tree := [([], .dir 0o755 nowT)], deferred := [] }
  unfold untar at hu
  rw [hst'] at hu
  cases hu

/-- conversely, a failing sequential reading pinpoints a named entry of an unsupported type -/
theorem C15_refines_unsupported_entry (es : List Entry) (hu : untar es = none) :
    ∃ e ∈ es, e.name ≠ [] ∧ e.supported = false := by
  apply Classical.byContradiction
  intro hne
  have hall : ∀ e ∈ es, e.name = [] ∨ e.supported = true := by
    intro e he
    by_cases hn : e.name = []
    · exact Or.inl hn
    · right
      cases hs : e.supported with
      | true => rfl
      | false => exact absurd ⟨e, he, hn, hs⟩ hne
  obtain ⟨st', hst'⟩ := ur_untar_total es hall { tree := [([], .dir 0o755 nowT)], deferred := [] }
  unfold untar at hu
  rw [hst'] at hu
  cases hu

/-! ## the "relative target" clause of `WellFormedArchive` is what `Unpack` itself demands -/

/-- **C15_refines_links_relative_noabs.** `WellFormedArchive.links_good` asks for relative link
targets.  Without an allow-list this is no restriction of the archives `Unpack` unpacks: whenever
`Unpack` returns success — any filesystem, destination, privilege level, reader fault — every named
symlink entry has a relative target (an absolute one is refused, also when it points into `dst`). -/
theorem C15_refines_links_relative_noabs (cwd : Str) (priv : Bool) (dst : Str) (fault : Fault)
    (fs : FS) (es : List Entry) (hok : (unpack cwd [] priv dst fault fs es).2 = .ok) :
    ∀ e ∈ es, e.isSymlink = true → e.name ≠ [] → isAbs e.link = false := by
  have h' : unpack cwd [] priv dst fault fs es = ((unpack cwd [] priv dst fault fs es).1, .ok) := by
    rw [← hok]
  obtain ⟨st, hl, _⟩ := (unpack_ok_iff cwd [] priv dst fault fs _ es).1 h'
  intro e he hs hn
  obtain ⟨ln, _, hv⟩ := unpackLoop_none_links cwd [] priv dst fault 0 _ st es hl e he hn hs
  exact unpackLinkOK_nil_rel hv

/-! ## the depth limit is a property of the filesystem model -/

/-- **C15_depth_limit.** In the filesystem model a directory whose path has at least `resolveFuel`
(= 64) components cannot be `stat`ed: resolution spends one unit of fuel per component and answers
`ELOOP`.  So the deferred `Chmod` of a directory entry at that depth fails with an I/O error although
`untar` describes a tree — the reason for `UrShallow` (e.g. `dst = /t/dst` and a directory entry
`a/a/…/a` with 62 components: `Unpack` returns the I/O error, checked by evaluation). -/
theorem C15_depth_limit (fs : FS) (P : PPath) (hN : ∀ x ∈ P, NameNS x) (hlen : resolveFuel ≤ P.length)
    (hdirs : ∀ a, a <+: P → IsDir (fs.lookup a)) (mode : Nat) :
    fs.chmod (ofSegs P) mode = .error .eloop := by
  unfold FS.chmod FS.stat FS.resolvePath
  rw [pathSegs_ofSegs P hN,
    ur_resolve_eloop fs resolveFuel [] P true (ur_names_no_dotdot hN) hlen
      (by intro a _ _ h; rw [List.nil_append] at h; exact hdirs a h)]

/-! ## a decidable sufficient check for `WellFormedArchive` -/

def urDirOrNoneB : Option Node → Bool
  | none => true
  | some (.dir _ _) => true
  | _ => false

/-- the conflict clause of `WellFormedArchive` for one entry read in the tree `t` -/
def urConflictB (t : Tree) (e : Entry) : Bool :=
  (properPrefixes (entryRel e.name)).all (fun q => urDirOrNoneB (treeGet t q)) &&
  (match treeGet t (entryRel e.name) with
   | none => true
   | some (.dir _ _) => e.isDir
   | some (.file _ _ _) => e.isRegular
   | some _ => false)

def urWfGo : UntarState → List Entry → Bool
  | _, [] => true
  | st, e :: rest =>
    (decide (e.name = []) || !(e.isDir || e.isSymlink || e.isRegular) || urConflictB st.tree e) &&
    (match untarEntry st e with
     | none => true
     | some st' => urWfGo st' rest)

/-- the link clause: non-empty, relative, all `..` first, fewer `..` than the name has components -/
def urLinkB (e : Entry) : Bool :=
  decide (e.link ≠ []) && !isAbs e.link &&
  ((pathSegs e.link).dropWhile (fun s => decide (s = dotdot))).all (fun s => decide (s ≠ dotdot)) &&
  decide (((pathSegs e.link).takeWhile (fun s => decide (s = dotdot))).length < (entryRel e.name).length)

def wfCheck (es : List Entry) : Bool :=
  es.all (fun e => decide (e.name = []) || decide (dotdot ∉ splitOn '/' e.name)) &&
  es.all (fun e => !e.isSymlink || decide (e.name = []) || urLinkB e) &&
  urWfGo { tree := [([], .dir 0o755 nowT)], deferred := [] } es

theorem ur_takeWhile_replicate (a : Seg) (l : List Seg) :
    l.takeWhile (fun s => decide (s = a)) =
      List.replicate (l.takeWhile (fun s => decide (s = a))).length a := by
  induction l with
  | nil => rfl
  | cons x l ih =>
    by_cases hx : x = a
    · rw [List.takeWhile_cons_of_pos (by simp [hx])]
      simp only [List.length_cons, List.replicate_succ]
      rw [← ih, hx]
    · rw [List.takeWhile_cons_of_neg (by simp [hx])]
      rfl

theorem urWfGo_sound : ∀ (es : List Entry) (st : UntarState), urWfGo st es = true →
    ∀ pre e post st1, es = pre ++ e :: post → pre.foldlM untarEntry st = some st1 → e.name ≠ [] →
      (e.isDir || e.isSymlink || e.isRegular) = true → urConflictB st1.tree e = true := by
  intro es
  induction es with
  | nil => intro st _ pre e post st1 h; cases pre <;> cases h
  | cons x rest ih =>
    intro st hgo pre e post st1 hsplit hpre hn hk
    rw [urWfGo, Bool.and_eq_true] at hgo
    obtain ⟨hhead, htail⟩ := hgo
    cases pre with
    | nil =>
      simp only [List.nil_append, List.cons.injEq] at hsplit
      obtain ⟨rfl, _⟩ := hsplit
      have : some st = some st1 := hpre
      cases this
      simp only [Bool.or_eq_true, decide_eq_true_eq, Bool.not_eq_true'] at hhead
      rcases hhead with (h | h) | h
      · exact absurd h hn
      · rw [hk] at h; cases h
      · exact h
    | cons y pre' =>
      simp only [List.cons_append, List.cons.injEq] at hsplit
      obtain ⟨rfl, hrest⟩ := hsplit
      rw [List.foldlM_cons] at hpre
      cases hu : untarEntry st x with
      | none => rw [hu] at hpre; cases hpre
      | some st' =>
        rw [hu] at hpre htail
        exact ih st' htail pre' e post st1 hrest hpre hn hk

theorem wfCheck_sound {es : List Entry} (h : wfCheck es = true) : WellFormedArchive es := by
  unfold wfCheck at h
  simp only [Bool.and_eq_true] at h
  obtain ⟨⟨hnames, hlinks⟩, hgo⟩ := h
  rw [List.all_eq_true] at hnames hlinks
  refine ⟨?_, ?_, ?_⟩
  · intro e he hn
    have := hnames e he
    simp only [Bool.or_eq_true, decide_eq_true_eq] at this
    rcases this with h | h
    · exact absurd h hn
    · exact h
  · intro pre e post st hsplit hpre hn hk
    have hc := urWfGo_sound es _ hgo pre e post st hsplit hpre hn hk
    unfold urConflictB at hc
    rw [Bool.and_eq_true, List.all_eq_true] at hc
    obtain ⟨hc1, hc2⟩ := hc
    refine ⟨?_, ?_⟩
    · intro q hq n hg
      have := hc1 q hq
      rw [hg] at this
      cases n with
      | dir a b => exact ⟨a, b, rfl⟩
      | file a b c => simp [urDirOrNoneB] at this
      | link t => simp [urDirOrNoneB] at this
      | special => simp [urDirOrNoneB] at this
    · split
      · trivial
      · rename_i a b heq; rw [heq] at hc2; exact hc2
      · rename_i a b c heq; rw [heq] at hc2; exact hc2
      · rename_i x hdir hfile heq
        rw [heq] at hc2
        cases x with
        | dir a b => exact hdir a b rfl
        | file a b c => exact hfile a b c rfl
        | link t => simp at hc2
        | special => simp at hc2
  · intro e he hs hn
    have := hlinks e he
    simp only [Bool.or_eq_true, decide_eq_true_eq, Bool.not_eq_true'] at this
    rcases this with (h | h) | h
    · rw [hs] at h; cases h
    · exact absurd h hn
    · unfold urLinkB at h
      simp only [Bool.and_eq_true, decide_eq_true_eq, Bool.not_eq_true', List.all_eq_true] at h
      obtain ⟨⟨⟨h1, h2⟩, h3⟩, h4⟩ := h
      refine ⟨h1, h2, _, _, ?_, h3, h4⟩
      rw [← ur_takeWhile_replicate, List.takeWhile_append_dropWhile]

/-- a decidable check of `UrXFree` along the sequential reading -/
def urXFreeGo : UntarState → List Entry → Bool
  | _, [] => true
  | st, e :: rest =>
    (decide (e.name = []) || !e.isTypeX ||
      (properPrefixes (entryRel e.name)).all (fun q => urDirOrNoneB (treeGet st.tree q))) &&
    (match untarEntry st e with
     | none => true
     | some st' => urXFreeGo st' rest)

def urXFreeCheck (es : List Entry) : Bool :=
  urXFreeGo { tree := [([], .dir 0o755 nowT)], deferred := [] } es

theorem urXFreeGo_sound : ∀ (es : List Entry) (st : UntarState), urXFreeGo st es = true →
    ∀ pre e post st1, es = pre ++ e :: post → pre.foldlM untarEntry st = some st1 → e.name ≠ [] →
      e.isTypeX = true →
      (properPrefixes (entryRel e.name)).all (fun q => urDirOrNoneB (treeGet st1.tree q)) = true := by
  intro es
  induction es with
  | nil => intro st _ pre e post st1 h; cases pre <;> cases h
  | cons x rest ih =>
    intro st hgo pre e post st1 hsplit hpre hn hk
    rw [urXFreeGo, Bool.and_eq_true] at hgo
    obtain ⟨hhead, htail⟩ := hgo
    cases pre with
    | nil =>
      simp only [List.nil_append, List.cons.injEq] at hsplit
      obtain ⟨rfl, _⟩ := hsplit
      have : some st = some st1 := hpre
      cases this
      simp only [Bool.or_eq_true, decide_eq_true_eq, Bool.not_eq_true'] at hhead
      rcases hhead with (h | h) | h
      · exact absurd h hn
      · rw [hk] at h; cases h
      · exact h
    | cons y pre' =>
      simp only [List.cons_append, List.cons.injEq] at hsplit
      obtain ⟨rfl, hrest⟩ := hsplit
      rw [List.foldlM_cons] at hpre
      cases hu : untarEntry st x with
      | none => rw [hu] at hpre; cases hpre
      | some st' =>
        rw [hu] at hpre htail
        exact ih st' htail pre' e post st1 hrest hpre hn hk

theorem urXFreeCheck_sound {es : List Entry} (h : urXFreeCheck es = true) : UrXFree es := by
  intro pre e post st hsplit hpre hn hX q hq n hg
  have hc := urXFreeGo_sound es _ h pre e post st hsplit hpre hn hX
  rw [List.all_eq_true] at hc
  have := hc q hq
  rw [hg] at this
  cases n with
  | dir a b => exact ⟨a, b, rfl⟩
  | file a b c => simp [urDirOrNoneB] at this
  | link t => simp [urDirOrNoneB] at this
  | special => simp [urDirOrNoneB] at this

/-- "nothing is bound strictly below `dstP`", checked on the bindings -/
theorem ur_empty_of_check {fs : FS} {dstP : PPath} (h : ∀ b ∈ fs, dstP <+: b.1 → b.1 = dstP) :
    ∀ q, dstP <+: q → q ≠ dstP → fs.get q = none := by
  intro q hq hne
  cases hg : fs.get q with
  | none => rfl
  | some n => exact absurd (h (q, n) (get_mem hg) hq) hne

/-! ## pax header entries: skipped before anything is created; why `UrXFree` is needed -/

def c15rPax (name : String) : Entry := ⟨name.toList, tXHeader, 0o644, 0, [], []⟩

/-- **C15_typex_creates_nothing.** A named pax header entry (`x`/`g`) that `NewUnpackInfo` accepts is
skipped: the step returns the state it was given — no file, no directory, not even the parent
directories of the entry's name — and lets the loop continue.  Any allow-list, privilege level, body.
(Before the repair of the code `MkdirAll(Dir(path))` ran ahead of the type dispatch and a pax entry
named `a/b` created the directory `a`: the former observation `C15_cex_typex_creates_parent`.) -/
theorem C15_typex_creates_nothing (cwd : Str) (allow : List Str) (priv : Bool) (dst : Str) (st : UState)
    (e : Entry) (body : Str) (be : Bool) (path : Str)
    (hn : e.name ≠ []) (hx : e.isTypeX = true) (hi : newUnpackInfo st.fs dst e = some path) :
    unpackEntry cwd allow priv dst st e body be = (st, none) :=
  unpackEntry_typeX cwd allow priv dst st e body be path hn hx hi

/-- … whatever `NewUnpackInfo` says, the filesystem and the deferred directory list are unchanged
(a refused entry is an illegal-slug error) -/
theorem C15_typex_state_unchanged (cwd : Str) (allow : List Str) (priv : Bool) (dst : Str) (st : UState)
    (e : Entry) (body : Str) (be : Bool) (hx : e.isTypeX = true) :
    (unpackEntry cwd allow priv dst st e body be).1 = st := by
  by_cases hn : e.name = []
  · rw [unpackEntry_nil_name cwd allow priv dst st e body be hn]
  · cases hi : newUnpackInfo st.fs dst e with
    | none => rw [unpackEntry_info_none cwd allow priv dst st e body be hn hi]
    | some path => rw [unpackEntry_typeX cwd allow priv dst st e body be path hn hx hi]

/-- **C15_typex_creates_nothing_example.** The closed example of the former
`C15_cex_typex_creates_parent`: a pax header entry named `a/b` is a well-formed archive, the
sequential reading ignores it, and `Unpack` succeeds and leaves the filesystem exactly as it was —
the directory `a` is not created and the destination is not touched. -/
theorem C15_typex_creates_nothing_example :
    WellFormedArchive [c15rPax "a/b"] ∧ UrXFree [c15rPax "a/b"] ∧ UrShallow cexDst [c15rPax "a/b"] ∧
    untar [c15rPax "a/b"] = some [([], .dir 0o755 nowT)] ∧
    unpack cexCwd [] true cexDst .none cexFs0 [c15rPax "a/b"] = (cexFs0, .ok) ∧
    (unpack cexCwd [] true cexDst .none cexFs0 [c15rPax "a/b"]).1.get (cexDstP ++ ["a".toList]) = none ∧
    treeGet [([], .dir 0o755 nowT)] ["a".toList] = none :=
  ⟨wfCheck_sound (by decide), urXFreeCheck_sound (by decide), by decide, by decide, by decide, by decide,
    by decide⟩

/-- **C15_cex_typex_illegal.** A pax header entry whose name passes through a file: the archive is
well-formed and the sequential reading ignores the entry, but `Unpack` refuses the archive (the
`Lstat` walk of `NewUnpackInfo` runs for every entry type) — the reason for `UrXFree`, which this
archive does not satisfy. -/
theorem C15_cex_typex_illegal :
    WellFormedArchive [cexReg "f" "x" 0o644 1, c15rPax "f/g/h"] ∧
    UrShallow cexDst [cexReg "f" "x" 0o644 1, c15rPax "f/g/h"] ∧
    untar [cexReg "f" "x" 0o644 1, c15rPax "f/g/h"] =
      some [(["f".toList], .file 0o644 1 "x".toList), ([], .dir 0o755 nowT)] ∧
    (unpack cexCwd [] true cexDst .none cexFs0 [cexReg "f" "x" 0o644 1, c15rPax "f/g/h"]).2 = .illegal :=
  ⟨wfCheck_sound (by decide), by decide, by decide, by decide⟩

/-- … and indeed `UrXFree` fails for it -/
theorem C15_cex_typex_illegal_not_free : ¬ UrXFree [cexReg "f" "x" 0o644 1, c15rPax "f/g/h"] := by
  intro h
  obtain ⟨a, b, hab⟩ := h [cexReg "f" "x" 0o644 1] (c15rPax "f/g/h") []
    { tree := [(["f".toList], .file 0o644 1 "x".toList), ([], .dir 0o755 nowT)], deferred := [] }
    rfl rfl (by decide) (by decide) ["f".toList] (by decide) (.file 0o644 1 "x".toList) (by decide)
  cases hab

/-! ## non-vacuity: a concrete well-formed archive -/

/-- child before its parents (and read-only), the parent directory afterwards, the same file again
(overwrite of a read-only file), a link with a `..`, a leading `/`, a leading `./` with a trailing
`/`, a pax header, a pax header with a directory part that no entry creates (not `UrXFlat`, but
`UrXFree`: nothing is created for it), and an entry for the destination itself -/
def c15rEs : List Entry :=
  [ cexReg "d/sub/f" "one" 0o444 3,
    cexDir "d" 0o750 9,
    cexReg "d/sub/f" "two" 0o640 4,
    cexLink "d/l" "../d/sub/f",
    cexReg "/top" "t" 0o600 5,
    cexDir "./d/sub/" 0o700 8,
    c15rPax "pax_global_header",
    c15rPax "d/sub/PaxHeaders.0/f",
    cexDir "." 0o711 6 ]

def c15rP (l : List String) : RelPath := l.map String.toList

/-- what the sequential reading makes of it (newest binding first) -/
def c15rTree : Tree :=
  [ (c15rP [], .dir 0o711 6),
    (c15rP ["d","sub"], .dir 0o700 8),
    (c15rP ["d"], .dir 0o750 9),
    (c15rP ["top"], .file 0o600 5 "t".toList),
    (c15rP ["d","l"], .link "../d/sub/f".toList),
    (c15rP ["d"], .dir 0o755 nowT),
    (c15rP ["d","sub","f"], .file 0o640 4 "two".toList),
    (c15rP ["d","sub","f"], .file 0o444 3 "one".toList),
    (c15rP ["d","sub"], .dir 0o755 nowT),
    (c15rP ["d","sub"], .dir 0o755 nowT),
    (c15rP ["d"], .dir 0o755 nowT),
    (c15rP [], .dir 0o755 nowT) ]

theorem c15r_wf : WellFormedArchive c15rEs := wfCheck_sound (by decide)

theorem c15r_untar : untar c15rEs = some c15rTree := by decide

theorem c15r_hyps : DstOK cexDst ∧ RealDir cexFs0 (pathSegs cexDst) ∧
    (∀ q, pathSegs cexDst <+: q → q ≠ pathSegs cexDst → cexFs0.get q = none) ∧
    UrXFree c15rEs ∧ UrShallow cexDst c15rEs := by
  refine ⟨cex_hyps.1, ?_, ?_, urXFreeCheck_sound (by decide), by decide⟩
  · rw [cex_dstP]; exact (fsCheck_sound cex_hyps.2.1).1
  · rw [cex_dstP]; exact ur_empty_of_check (by decide)

/-- the theorem instantiated, unprivileged (the second `d/sub/f` goes through `EACCES`,
`Chmod 0600` and the retry) and privileged -/
theorem c15r_instance (priv : Bool) :
    (unpack cexCwd [] priv cexDst .none cexFs0 c15rEs).2 = .ok ∧
    ∀ r, r ≠ [] →
      ((unpack cexCwd [] priv cexDst .none cexFs0 c15rEs).1).get (cexDstP ++ r) = treeGet c15rTree r := by
  have h := C15_refines_partial (cwd := cexCwd) (priv := priv) c15r_hyps.1 c15r_hyps.2.1 c15r_hyps.2.2.1
    c15r_wf c15r_hyps.2.2.2.1 c15r_hyps.2.2.2.2 c15r_untar
  rw [cex_dstP] at h
  exact h

/-- the destination itself: the archive has an entry `.` with mode 0711 and time 6 -/
theorem c15r_instance_root (priv : Bool) :
    ((unpack cexCwd [] priv cexDst .none cexFs0 c15rEs).1).get cexDstP = some (.dir 0o711 6) := by
  have h := C15_refines_root_partial (cwd := cexCwd) (priv := priv) c15r_hyps.1 c15r_hyps.2.1 c15r_hyps.2.2.1
    c15r_wf c15r_hyps.2.2.2.1 c15r_hyps.2.2.2.2 c15r_untar ⟨cexDir "." 0o711 6, by decide, by decide, by decide, rfl⟩
  rw [cex_dstP] at h
  exact h

/-- what the tree says about the interesting paths -/
example : treeGet c15rTree (c15rP ["d","sub","f"]) = some (.file 0o640 4 "two".toList) := by decide
example : treeGet c15rTree (c15rP ["d"]) = some (.dir 0o750 9) := by decide
example : treeGet c15rTree (c15rP ["d","sub"]) = some (.dir 0o700 8) := by decide
example : treeGet c15rTree (c15rP ["d","l"]) = some (.link "../d/sub/f".toList) := by decide
example : treeGet c15rTree (c15rP ["top"]) = some (.file 0o600 5 "t".toList) := by decide
example : treeGet c15rTree (c15rP ["pax_global_header"]) = none := by decide
example : treeGet c15rTree (c15rP ["d","sub","PaxHeaders.0"]) = none := by decide
example : ¬ UrXFlat c15rEs := by decide

/-- and, independently of the theorem, the model run itself on two of them (unprivileged) -/
example : ((unpack cexCwd [] false cexDst .none cexFs0 c15rEs).1).get (cexDstP ++ c15rP ["d","sub","f"]) =
    some (.file 0o640 4 "two".toList) := by decide
example : (unpack cexCwd [] false cexDst .none cexFs0 c15rEs).2 = .ok := by decide
example : ((unpack cexCwd [] false cexDst .none cexFs0 c15rEs).1).get (cexDstP ++ c15rP ["d","sub","PaxHeaders.0"]) =
    none := by decide

/-- the error clause is not vacuous: a hard link makes both sides fail -/
example : untar (c15rEs ++ [c15hard]) = none := by decide
example : (unpack cexCwd [] false cexDst .none cexFs0 (c15rEs ++ [c15hard])).2 = .illegal := by decide

/-- `wfCheck` rejects what it should: a path used as file and as directory, an entry below a link,
a link twice, a target that leaves the destination -/
example : wfCheck [cexReg "a" "x" 0o644 1, cexReg "a/b" "y" 0o644 1] = false := by decide
example : wfCheck [cexLink "l" "x", cexReg "l/b" "y" 0o644 1] = false := by decide
example : wfCheck [cexLink "l" "x", cexLink "l" "x"] = false := by decide
example : wfCheck [cexLink "l" "../x"] = false := by decide
example : wfCheck [cexReg "a/../b" "y" 0o644 1] = false := by decide

/-- an absolute target, also one inside the destination: not well-formed, and refused by `Unpack`
(`C15_refines_links_relative_noabs` is not vacuous) -/
example : wfCheck [cexLink "l" "/t/dst/a"] = false := by decide
example : (unpack cexCwd [] false cexDst .none cexFs0 [cexLink "l" "/t/dst/a"]).2 = .illegal := by decide

end Slug
