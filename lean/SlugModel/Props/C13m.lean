import SlugModel.Lemmas.ManifestOrder
import SlugModel.Props.C13
import SlugModel.Props.C08b
/-!
# C13m — the *written* manifest does not depend on the order of the calls

`C13_order` (Props/C13) compares the builder's final tables as finite maps; the lists differ with
the order of the calls.  `writeManifest` ranges over the maps and then sorts the rows by printed
address (`ManifestWrite.lean`: `sortStr`, `manifestPkgOrder`, `manifestRegOrder`; the versions of
one registry package are the keys of a JSON object, written in sorted order).  This file is the
last step: the sorted sequence of rows — keys and contents — is the same whatever the order of
the calls (`C13_manifest_order`, `C13_manifest_written`).

`sortStr` is a sorting function (`C13_sortStr_sorted`, `C13_sortStr_perm`) whose result depends
on the multiset of its argument only (`C13_sortStr_canonical`), for duplicate-free arguments on the
set of members only (`C13_sortStr_canonical_set`).
-/
namespace Slug

/-! ## `sortStr` -/

/-- **C13_sortStr_sorted.** The result of `sortStr` is sorted: no later element is `strLt` an
earlier one. -/
theorem C13_sortStr_sorted (l : List Str) :
    List.Pairwise (fun a b => strLt b a = false) (sortStr l) :=
  mo_sortStr_sorted l

/-- **C13_sortStr_perm.** … and it is a permutation of the argument. -/
theorem C13_sortStr_perm (l : List Str) : (sortStr l).Perm l := mo_sortStr_perm l

/-- for duplicate-free arguments the result is strictly increasing -/
theorem C13_sortStr_strict (l : List Str) (hn : l.Nodup) :
    List.Pairwise (fun a b => strLt a b = true) (sortStr l) :=
  mo_sortStr_ssorted hn

/-- **C13_sortStr_canonical.** The result does not depend on the order of the argument.  (No
`Nodup` hypothesis is needed: keys that `strLt` does not separate are equal strings.) -/
theorem C13_sortStr_canonical (l l' : List Str) (hp : l.Perm l') : sortStr l = sortStr l' :=
  mo_sortStr_of_perm' hp

/-- **C13_sortStr_canonical_set.** For duplicate-free arguments (the keys of a map) the result is
determined by the set of members. -/
theorem C13_sortStr_canonical_set (l l' : List Str) (h : ∀ x, x ∈ l ↔ x ∈ l') (hn : l.Nodup)
    (hn' : l'.Nodup) : sortStr l = sortStr l' :=
  mo_sortStr_ext h hn hn'

/-- **C13_cex_set_needs_nodup.** In the set form `Nodup` is needed on both sides: the same members,
one list duplicate-free, different results. -/
theorem C13_cex_set_needs_nodup :
    (∀ x, x ∈ ["a".toList] ↔ x ∈ ["a".toList, "a".toList]) ∧ ["a".toList].Nodup ∧
    sortStr ["a".toList] ≠ sortStr ["a".toList, "a".toList] :=
  ⟨fun x => by simp, by decide, by decide⟩

/-! ## the rows of the written manifest -/

/-- the keys of the `versions` object of the registry row `r`, in file order -/
def manifestVerOrder (st : BState) (r : RegPkg) : List VerS :=
  sortStr ((st.resolved.filter (·.1.1 = r)).map (·.1.2))

/-- the package rows in file order, with what the tables hold for them -/
def manifestPkgRows (st : BState) : List (PkgAddr × Option ContentId × Option (Str × Str)) :=
  (manifestPkgOrder st).map (fun p => (p, assoc st.pkgDirs p, assoc st.pkgMeta p))

/-- the version rows of the registry row `r` in file order, with what the tables hold for them -/
def manifestVerRows (st : BState) (r : RegPkg) :
    List (VerS × Option RemoteSrc × Option (Option (Str × Str))) :=
  (manifestVerOrder st r).map (fun v => (v, assoc st.resolved (r, v), assoc st.deprec (r, v)))

/-- the registry rows in file order, each with its version rows -/
def manifestRegRows (st : BState) :
    List (RegPkg × List (VerS × Option RemoteSrc × Option (Option (Str × Str)))) :=
  (manifestRegOrder st).map (fun r => (r, manifestVerRows st r))

/-- `writeManifest` *with* the sorting: the rows of `manifestOf` (Props/C09) in file order -/
def manifestSorted (st : BState) : Manifest :=
  { format := 1,
    packages := (manifestPkgOrder st).filterMap (fun p =>
      (assoc st.pkgDirs p).map (fun c => bnMkPkg st.pkgMeta (p, c))),
    registry := (manifestRegOrder st).map (fun r =>
      { source := r,
        versions := (manifestVerOrder st r).filterMap (fun v =>
          (assoc st.resolved (r, v)).map (fun s => bnMkVer st.deprec ((r, v), s))) }) }

/-- **C13_manifest_rows_order_free.** Two builder states whose package-directory tables and
resolved-version tables agree as finite maps (keys pairwise distinct in each) write their rows in
the same order: the same sequence of package addresses, of registry package addresses, and for
every registry package of versions.  (`Nodup` of `resolved` is only used for the versions.) -/
theorem C13_manifest_rows_order_free (st st' : BState)
    (hd : ∀ p, assoc st.pkgDirs p = assoc st'.pkgDirs p)
    (hr : ∀ k, assoc st.resolved k = assoc st'.resolved k)
    (nd : (st.pkgDirs.map Prod.fst).Nodup) (nd' : (st'.pkgDirs.map Prod.fst).Nodup)
    (nr : (st.resolved.map Prod.fst).Nodup) (nr' : (st'.resolved.map Prod.fst).Nodup) :
    manifestPkgOrder st = manifestPkgOrder st' ∧ manifestRegOrder st = manifestRegOrder st' ∧
    ∀ r, manifestVerOrder st r = manifestVerOrder st' r := by
  refine ⟨mo_sortStr_ext (mo_keys_same hd) nd nd', ?_, fun r => ?_⟩
  · refine mo_sortStr_ext (fun r => ?_) (mo_nodup_eraseDups _) (mo_nodup_eraseDups _)
    rw [List.mem_eraseDups, List.mem_eraseDups, mo_mem_regs_iff, mo_mem_regs_iff]
    exact ⟨fun ⟨v, h⟩ => ⟨v, (mo_keys_same hr _).mp h⟩, fun ⟨v, h⟩ => ⟨v, (mo_keys_same hr _).mpr h⟩⟩
  · refine mo_sortStr_ext (fun v => ?_) (mo_nodup_vers r _ nr) (mo_nodup_vers r _ nr')
    rw [mo_mem_vers_iff, mo_mem_vers_iff]
    exact mo_keys_same hr _

/-- **C13_manifest_rows_content_free.** If moreover the metadata and deprecation tables agree, the
rows carry the same content: the written manifest is the same. -/
theorem C13_manifest_rows_content_free (st st' : BState)
    (hd : ∀ p, assoc st.pkgDirs p = assoc st'.pkgDirs p)
    (hm : ∀ p, assoc st.pkgMeta p = assoc st'.pkgMeta p)
    (hr : ∀ k, assoc st.resolved k = assoc st'.resolved k)
    (hp : ∀ k, assoc st.deprec k = assoc st'.deprec k)
    (nd : (st.pkgDirs.map Prod.fst).Nodup) (nd' : (st'.pkgDirs.map Prod.fst).Nodup)
    (nr : (st.resolved.map Prod.fst).Nodup) (nr' : (st'.resolved.map Prod.fst).Nodup) :
    manifestPkgRows st = manifestPkgRows st' ∧ (∀ r, manifestVerRows st r = manifestVerRows st' r) ∧
    manifestRegRows st = manifestRegRows st' ∧ manifestSorted st = manifestSorted st' := by
  obtain ⟨e1, e2, e3⟩ := C13_manifest_rows_order_free st st' hd hr nd nd' nr nr'
  have f1 : (fun p => (p, assoc st.pkgDirs p, assoc st.pkgMeta p)) =
      (fun p => (p, assoc st'.pkgDirs p, assoc st'.pkgMeta p)) :=
    funext fun p => by rw [hd p, hm p]
  have f2 : ∀ r, (fun v => (v, assoc st.resolved (r, v), assoc st.deprec (r, v))) =
      (fun v => (v, assoc st'.resolved (r, v), assoc st'.deprec (r, v))) :=
    fun r => funext fun v => by rw [hr, hp]
  have hver : ∀ r, manifestVerRows st r = manifestVerRows st' r := fun r => by
    unfold manifestVerRows; rw [e3 r, f2 r]
  have g1 : (fun p => (assoc st.pkgDirs p).map (fun c => bnMkPkg st.pkgMeta (p, c))) =
      (fun p => (assoc st'.pkgDirs p).map (fun c => bnMkPkg st'.pkgMeta (p, c))) :=
    funext fun p => by simp only [bnMkPkg, hd p, hm p]
  have g2 : ∀ r, (fun v => (assoc st.resolved (r, v)).map (fun s => bnMkVer st.deprec ((r, v), s))) =
      (fun v => (assoc st'.resolved (r, v)).map (fun s => bnMkVer st'.deprec ((r, v), s))) :=
    fun r => funext fun v => by simp only [bnMkVer, hr (r, v), hp (r, v)]
  refine ⟨?_, hver, ?_, ?_⟩
  · unfold manifestPkgRows; rw [e1, f1]
  · unfold manifestRegRows; rw [e2, funext hver]
  · unfold manifestSorted
    rw [e1, e2, g1]
    simp only [e3, g2]

/-- **C13_manifestSorted_rows.** `manifestSorted` holds the rows of `manifestOf` (the model of
`writeManifest` without the sorting, Props/C09), each exactly once, when the keys of the tables are
pairwise distinct (as they are after every run, `C08_tables_wellkept`): the package rows are a
permutation; the registry rows name the same registry packages, a permutation, and the versions of
each are a permutation of the versions `manifestOf` lists for it. -/
theorem C13_manifestSorted_rows (st : BState)
    (nd : (st.pkgDirs.map Prod.fst).Nodup) (nr : (st.resolved.map Prod.fst).Nodup) :
    (manifestSorted st).format = (manifestOf st).format ∧
    (manifestSorted st).packages.Perm (manifestOf st).packages ∧
    ((manifestSorted st).registry.map (·.source)).Perm ((manifestOf st).registry.map (·.source)) ∧
    (∀ row ∈ (manifestSorted st).registry, ∃ row' ∈ (manifestOf st).registry,
      row'.source = row.source ∧ row.versions.Perm row'.versions) := by
  refine ⟨rfl, ?_, ?_, ?_⟩
  · show List.Perm (List.filterMap _ (sortStr (st.pkgDirs.map Prod.fst))) (st.pkgDirs.map _)
    rw [← mo_filterMap_keys st.pkgDirs nd (bnMkPkg st.pkgMeta)]
    exact (mo_sortStr_perm _).filterMap _
  · simp only [manifestSorted, manifestOf, List.map_map, Function.comp_def, List.map_id']
    exact mo_sortStr_perm _
  · intro row hrow
    obtain ⟨r, hr, rfl⟩ := List.mem_map.mp hrow
    have hr' : r ∈ (st.resolved.map (fun e => e.1.1)).eraseDups := mo_mem_sortStr.mp hr
    refine ⟨_, List.mem_map.mpr ⟨r, hr', rfl⟩, rfl, ?_⟩
    show List.Perm (List.filterMap _ (manifestVerOrder st r)) (List.map _ _)
    rw [← mo_filterMap_vers st.resolved nr r (bnMkVer st.deprec)]
    exact (mo_sortStr_perm _).filterMap _

/-! ## the property, for runs -/

/-- **C13_manifest_order.** If `ops'` is a permutation of `ops` and both runs from the empty
builder are error-free, the two builders write the same sequence of rows: the same package
addresses in the same order with the same directory and metadata, the same registry packages in
the same order, each with the same versions in the same order with the same resolved source and
deprecation notice. -/
theorem C13_manifest_order (w : World) (fuel fuel' : Nat) (ops ops' : List Op) (hp : ops.Perm ops')
    (h : ErrorFree (runOps w fuel BState.init ops).2)
    (h' : ErrorFree (runOps w fuel' BState.init ops').2) :
    manifestPkgOrder (runOps w fuel BState.init ops).1 =
      manifestPkgOrder (runOps w fuel' BState.init ops').1 ∧
    manifestRegOrder (runOps w fuel BState.init ops).1 =
      manifestRegOrder (runOps w fuel' BState.init ops').1 ∧
    (∀ r, manifestVerOrder (runOps w fuel BState.init ops).1 r =
      manifestVerOrder (runOps w fuel' BState.init ops').1 r) ∧
    manifestPkgRows (runOps w fuel BState.init ops).1 =
      manifestPkgRows (runOps w fuel' BState.init ops').1 ∧
    (∀ r, manifestVerRows (runOps w fuel BState.init ops).1 r =
      manifestVerRows (runOps w fuel' BState.init ops').1 r) ∧
    manifestRegRows (runOps w fuel BState.init ops).1 =
      manifestRegRows (runOps w fuel' BState.init ops').1 ∧
    (∀ p c c', assoc (runOps w fuel BState.init ops).1.pkgDirs p = some c →
      assoc (runOps w fuel' BState.init ops').1.pkgDirs p = some c' →
      bnMkPkg (runOps w fuel BState.init ops).1.pkgMeta (p, c) =
        bnMkPkg (runOps w fuel' BState.init ops').1.pkgMeta (p, c')) ∧
    (∀ k s s', assoc (runOps w fuel BState.init ops).1.resolved k = some s →
      assoc (runOps w fuel' BState.init ops').1.resolved k = some s' →
      bnMkVer (runOps w fuel BState.init ops).1.deprec (k, s) =
        bnMkVer (runOps w fuel' BState.init ops').1.deprec (k, s')) := by
  obtain ⟨_, hd, hm, hr, hdp⟩ := C13_order w fuel fuel' ops ops' hp h h'
  obtain ⟨nd, nr, _, _⟩ := C08_tables_wellkept w fuel ops
  obtain ⟨nd', nr', _, _⟩ := C08_tables_wellkept w fuel' ops'
  obtain ⟨e1, e2, e3⟩ := C13_manifest_rows_order_free _ _ hd hr nd nd' nr nr'
  obtain ⟨r1, r2, r3, _⟩ := C13_manifest_rows_content_free _ _ hd hm hr hdp nd nd' nr nr'
  refine ⟨e1, e2, e3, r1, r2, r3, fun p c c' hc hc' => ?_, fun k s s' hs hs' => ?_⟩
  · rw [hd p, hc'] at hc
    cases hc
    simp only [bnMkPkg, hm p]
  · rw [hr k, hs'] at hs
    cases hs
    simp only [bnMkVer, hdp k]

/-- **C13_manifest_written.** Hence the written manifest — `writeManifest` with its sorting,
`manifestSorted` — is the same value for both orders of the calls (and so are the bytes
`encoding/json` prints for it and the checksum derived from them). -/
theorem C13_manifest_written (w : World) (fuel fuel' : Nat) (ops ops' : List Op)
    (hp : ops.Perm ops') (h : ErrorFree (runOps w fuel BState.init ops).2)
    (h' : ErrorFree (runOps w fuel' BState.init ops').2) :
    manifestSorted (runOps w fuel BState.init ops).1 =
      manifestSorted (runOps w fuel' BState.init ops').1 := by
  obtain ⟨_, hd, hm, hr, hdp⟩ := C13_order w fuel fuel' ops ops' hp h h'
  obtain ⟨nd, nr, _, _⟩ := C08_tables_wellkept w fuel ops
  obtain ⟨nd', nr', _, _⟩ := C08_tables_wellkept w fuel' ops'
  exact (C13_manifest_rows_content_free _ _ hd hm hr hdp nd nd' nr nr').2.2.2

/-! ### non-vacuity: the example world of Props/C13 (`exOps'` is `exOps` with the first two calls
swapped; both runs are error-free with fuel 56) -/

/-- the tables are different lists … -/
example : (runOps exWorld 56 BState.init exOps).1.pkgDirs ≠
    (runOps exWorld 56 BState.init exOps').1.pkgDirs := by decide
example : (runOps exWorld 56 BState.init exOps).1.pkgDirs.map Prod.fst =
    ["r".toList, "b".toList, "a".toList] := by decide
example : (runOps exWorld 56 BState.init exOps').1.pkgDirs.map Prod.fst =
    ["b".toList, "a".toList, "r".toList] := by decide
/-- … the rows are written in the same order, neither table's … -/
example : manifestPkgOrder (runOps exWorld 56 BState.init exOps).1 =
    ["a".toList, "b".toList, "r".toList] := by decide
example : manifestPkgOrder (runOps exWorld 56 BState.init exOps').1 =
    ["a".toList, "b".toList, "r".toList] := by decide
example : manifestRegOrder (runOps exWorld 56 BState.init exOps).1 = ["reg".toList] ∧
    manifestRegOrder (runOps exWorld 56 BState.init exOps').1 = ["reg".toList] := by decide
example : manifestVerOrder (runOps exWorld 56 BState.init exOps).1 "reg".toList =
    ["2.0.0".toList] := by decide
/-- … with the same content … -/
example : manifestPkgRows (runOps exWorld 56 BState.init exOps').1 =
    [("a".toList, some "ca".toList, none),
     ("b".toList, some "cb".toList, some ("meta".toList, "x".toList)),
     ("r".toList, some "cr".toList, none)] := by decide
example : manifestRegRows (runOps exWorld 56 BState.init exOps').1 =
    [("reg".toList, [("2.0.0".toList, some ⟨"r".toList, "mod".toList⟩,
        some (some ("old".toList, "link".toList)))])] := by rfl
/-- … and the theorem applies to this pair of runs. -/
example : manifestSorted (runOps exWorld 56 BState.init exOps).1 =
    manifestSorted (runOps exWorld 56 BState.init exOps').1 :=
  C13_manifest_written exWorld 56 56 exOps exOps' (List.Perm.swap _ _ _) (by decide) (by decide)
example : (manifestSorted (runOps exWorld 56 BState.init exOps).1).packages.map (·.source) =
    ["a".toList, "b".toList, "r".toList] := by decide
/-- the unsorted manifests of the two runs differ -/
example : manifestOf (runOps exWorld 56 BState.init exOps).1 ≠
    manifestOf (runOps exWorld 56 BState.init exOps').1 := by decide

/-- `sortStr` on strings compared bytewise (Go's `<`): upper case before lower case, a prefix
before its extensions, equal keys kept -/
example : sortStr ["b".toList, "ab".toList, "a".toList, "B".toList, "a".toList] =
    ["B".toList, "a".toList, "a".toList, "ab".toList, "b".toList] := by decide

end Slug
