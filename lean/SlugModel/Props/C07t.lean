import SlugModel.Lemmas.TrEq_normalizeSubpath
import SlugModel.Lemmas.TrEq_splitSubPath
import SlugModel.Lemmas.TrEq_validSubPath
/-!
# C07 (tie by translation)

Tie by translation: the model function the theorems of this property are stated over equals the Lean
translation of the Go function, regenerated from /repo on every run (harness/cmd/go2lean); a change of
the Go function changes the translated definition and this proof obligation no longer checks.

An error result of the Go function is read as `(zero value, true)`, a normal one as `(value, false)`.
-/
namespace Slug

/-- **C07_tie_normalizeSubpath.** The model's `normalizeSubpath` is the translated `normalizeSubpath` (sourceaddrs/subpath.go). -/
theorem C07_tie_normalizeSubpath (g : Str) :
    Gen.normalizeSubpath g = (match normalizeSubpath g with | some r => (r, false) | none => ([], true)) :=
  gen_normalizeSubpath g

/-- **C07_tie_splitSubPath.** The model's `splitSubPath` is the translated `splitSubPath` (sourceaddrs/subpath.go). -/
theorem C07_tie_splitSubPath (s : Str) : Gen.splitSubPath s = splitSubPath s :=
  gen_splitSubPath s

/-- **C07_tie_validSubPath.** The model's `validSubPath` is the translated `ValidSubPath` (sourceaddrs/subpath.go). -/
theorem C07_tie_validSubPath (s : Str) : Gen.validSubPath s = validSubPath s :=
  gen_validSubPath s

end Slug
