import SlugModel.Lemmas.TrEq_normalizeSubpath
import SlugModel.Lemmas.TrEq_splitSubPath
import SlugModel.Lemmas.TrEq_validSubPath
import SlugModel.Lemmas.Local
/-!
# C07 (tie by translation)

Tie by translation: the model function the theorems of this property are stated over equals the Lean
translation of the Go function, regenerated from /repo on every run (harness/cmd/go2lean); a change of
the Go function changes the translated definition and this proof obligation no longer checks.

An error result of the Go function is read as `(zero value, true)`, a normal one as `(value, false)`.
-/
namespace Slug

/-- **C07_tie_normalizeSubpath.** The model's `normalizeSubpath` is the translated `normalizeSubpath` (sourceaddrs/subpath.go). -/
theorem C07_tie_normalizeSubpath (g : Str) :
    Gen.normalizeSubpath g = (match normalizeSubpath g with | some r => (r, false) | none => ([], true)) :=
  gen_normalizeSubpath g

/-- **C07_tie_splitSubPath.** The model's `splitSubPath` is the translated `splitSubPath` (sourceaddrs/subpath.go). -/
theorem C07_tie_splitSubPath (s : Str) : Gen.splitSubPath s = splitSubPath s :=
  gen_splitSubPath s

/-- **C07_tie_validSubPath.** The model's `validSubPath` is the translated `ValidSubPath` (sourceaddrs/subpath.go). -/
theorem C07_tie_validSubPath (s : Str) : Gen.validSubPath s = validSubPath s :=
  gen_validSubPath s

/-! ### The property, stated over the translated functions -/

/-- **C07_gen_normalizeSubpath_sound.** The Go function `normalizeSubpath` (sourceaddrs/subpath.go), as
translated: whenever it returns `r` without error for the given string `s`, it has not rewritten anything
(`r = s`), and either both are empty (no sub-path: the package root) or `r` is a valid sub-path — accepted by
`fs.ValidPath`, not `.`, none of its `/`-separated segments empty, `.` or `..` — and it is the cleaned form
`path.Clean s` of what was given. -/
theorem C07_gen_normalizeSubpath_sound (s r : Str) (h : Gen.normalizeSubpath s = (r, false)) :
    r = s ∧
    ((r = [] ∧ s = []) ∨
     (validPath r = true ∧ r ≠ dot ∧ (∀ e ∈ splitOn '/' r, e ≠ [] ∧ e ≠ dot ∧ e ≠ dotdot) ∧
      r = pathClean s)) := by
  rw [gen_normalizeSubpath] at h
  cases hn : normalizeSubpath s with
  | none => rw [hn] at h; simp at h
  | some x =>
    rw [hn] at h
    have hx : x = r := by simpa using h
    subst hx
    obtain ⟨he, hv⟩ := normalizeSubpath_some s x hn
    subst he
    refine ⟨rfl, ?_⟩
    by_cases h0 : x = []
    · exact Or.inl ⟨h0, h0⟩
    · rcases hv with h1 | ⟨hvp, hd⟩
      · exact absurd h1 h0
      · refine Or.inr ⟨hvp, hd, ?_, (pathClean_of_validPath x hvp).symm⟩
        have hp := validSub_allPlain x (Or.inr ⟨hvp, hd⟩)
        unfold segsOf at hp
        simp only [h0, if_false] at hp
        exact hp

/-- **C07_gen_normalizeSubpath_complete.** Conversely the translated `normalizeSubpath` accepts, unchanged,
every valid sub-path (the empty one, or a `fs.ValidPath` path other than `.`), and rejects every other string. -/
theorem C07_gen_normalizeSubpath_complete (s : Str) :
    (ValidSub s → Gen.normalizeSubpath s = (s, false)) ∧
    (¬ ValidSub s → Gen.normalizeSubpath s = ([], true)) := by
  rw [gen_normalizeSubpath]
  constructor
  · intro h; rw [normalizeSubpath_of_validSub s h]
  · intro h
    cases hn : normalizeSubpath s with
    | none => rfl
    | some x => exact absurd (normalizeSubpath_some s x hn).2 h

/-- **C07_gen_validSubPath_iff.** The Go function `ValidSubPath` (sourceaddrs/subpath.go), as translated, answers
`true` exactly for the valid sub-paths: the empty string, or a string accepted by `fs.ValidPath` other than `.`
— equivalently exactly for the strings the translated `normalizeSubpath` returns (unchanged) without error. -/
theorem C07_gen_validSubPath_iff (s : Str) :
    (Gen.validSubPath s = true ↔ ValidSub s) ∧
    (Gen.validSubPath s = true ↔ Gen.normalizeSubpath s = (s, false)) := by
  have h1 : Gen.validSubPath s = true ↔ ValidSub s := by
    rw [gen_validSubPath]; exact validSubPath_iff s
  refine ⟨h1, h1.trans ⟨(C07_gen_normalizeSubpath_complete s).1, fun h => ?_⟩⟩
  obtain ⟨_, hh⟩ := C07_gen_normalizeSubpath_sound s s h
  rcases hh with ⟨h0, _⟩ | ⟨hv, hd, _, _⟩
  · exact Or.inl h0
  · exact Or.inr ⟨hv, hd⟩

end Slug
