import SlugModel.Lemmas.PackInv
/-!
# C16 — Pack output depends only on the tree and the options

Property theorems only; helper lemmas live in `Lemmas/PackInv`.
`pack fs cwd o src` (Pack.lean) is the model of `Packer.Pack(src, w)` run with working directory
`cwd` (tied to the code by the `pack` lane).  The model is a pure function of the filesystem, the
working directory, the options and the source string, so "earlier calls" and "concurrent calls"
cannot matter in it; those two clauses of C16 are checked on the lane (race detector, call
histories).  Here: the working directory and the spelling of the source path — and the three
ways in which the code does depend on them (findings F22, F23, F30), as closed counterexamples.
-/
namespace Slug

/-- **C16_cwd_irrelevant.** For an absolute clean source path the whole result of `Pack` — entries,
metadata and error — is the same from every working directory, provided the source is not a
symlink with a *relative* target (`C16_cex_relative_root_link` shows that this case does depend on
the working directory). -/
theorem C16_cwd_irrelevant (fs : FS) (cwd cwd' : Str) (o : PackOpts) (src : Str) (hs : AbsClean src)
    (hl : ∀ t, fs.lstat src = .ok (.link t) → isAbs t = true) :
    pack fs cwd o src = pack fs cwd' o src :=
  pk_pack_cwd fs cwd cwd' o src hs hl

/-- the only use the callback makes of the working directory is `filepath.Abs(root)` inside
`validSymlink`; for an absolute clean root it is not used at all -/
theorem validSymlink_cwd_irrelevant (cwd cwd' : Str) (allow : List Str) (root p t : Str) (h : AbsClean root) :
    validSymlink cwd allow root p t = validSymlink cwd' allow root p t :=
  pk_validSymlink_cwd cwd cwd' allow root p t h

/-- the walk form of `C16_cwd_irrelevant` -/
theorem C16_cwd_irrelevant_walk (fs : FS) (cwd cwd' : Str) (o : PackOpts) (rules : Option (List Rule))
    (root src dst : Str) (hroot : AbsClean root) (fuel : Nat) (path : Str) (node : Node)
    (names : List Str) (st : PState) :
    walkNode fs cwd o rules root src dst fuel path node st = walkNode fs cwd' o rules root src dst fuel path node st ∧
    walkChildren fs cwd o rules root src dst fuel path names st =
      walkChildren fs cwd' o rules root src dst fuel path names st ∧
    visit fs cwd o rules root src dst fuel path node st = visit fs cwd' o rules root src dst fuel path node st :=
  have h := pk_walk_cwd fs cwd cwd' o rules root hroot fuel
  ⟨h.1 src dst path node st, h.2.1 src dst path names st, h.2.2 src dst path node st⟩

/-- **C16_spelling.** Two absolute spellings of the same directory (`filepath.Clean` maps them to
the same path: doubled slashes, `.` and `..` segments) without a trailing slash are packed alike —
also when the path is a symlink. -/
theorem C16_spelling (fs : FS) (cwd : Str) (o : PackOpts) (s s' : Str)
    (hs : isAbs s = true) (hs' : isAbs s' = true) (hc : pathClean s = pathClean s')
    (ht : hasSuffix s ['/'] = false) (ht' : hasSuffix s' ['/'] = false) :
    pack fs cwd o s = pack fs cwd o s' := by
  apply pk_pack_spelling_core fs cwd o s s' hs hs' hc
  unfold pkRootInfo
  rw [pk_pathAbs_abs cwd s hs, pk_pathAbs_abs cwd s' hs', hc]
  simp [ht, ht']

/-- **C16_spelling_trailing_slash.** When the source is a directory (or does not exist: `Lstat`
fails) a trailing slash (or its absence) makes no difference either.  For a symlink it does
(`C16_cex_root_link_trailing_slash`), and for a regular or special file too: `os.Lstat("file/")`
is `ENOTDIR` (`C16_trailing_slash_on_file_is_error`). -/
theorem C16_spelling_trailing_slash (fs : FS) (cwd : Str) (o : PackOpts) (s s' : Str)
    (hs : isAbs s = true) (hs' : isAbs s' = true) (hc : pathClean s = pathClean s')
    (hd : ∀ n, fs.lstat (pathClean s) = .ok n → ∃ pm mt, n = .dir pm mt) :
    pack fs cwd o s = pack fs cwd o s' := by
  have hnl : ∀ t, fs.lstat (pathClean s) ≠ .ok (.link t) := by
    intro t ht
    obtain ⟨pm, mt, h⟩ := hd _ ht
    cases h
  apply pk_pack_spelling_core fs cwd o s s' hs hs' hc
  rw [pk_rootInfo_nolink fs cwd s (by rw [pk_pathAbs_abs cwd s hs]; exact hnl)
      (by rw [pk_pathAbs_abs cwd s hs]; exact fun _ => hd),
    pk_rootInfo_nolink fs cwd s' (by rw [pk_pathAbs_abs cwd s' hs', ← hc]; exact hnl)
      (by rw [pk_pathAbs_abs cwd s' hs', ← hc]; exact fun _ => hd),
    pk_pathAbs_abs cwd s hs, pk_pathAbs_abs cwd s' hs', hc]

/-- **C16_spelling_relative.** A relative spelling (any mix of names, `.`, `..`, doubled and
trailing slashes; also the empty string and `.`) of a source that is not a symlink gives the same
result as the absolute path `filepath.Abs` makes of it — in particular the rule file is looked up
in the same place (`filepath.Abs(filepath.Join(rel, ".terraformignore"))` is
`filepath.Join(filepath.Abs(rel), ".terraformignore")`).  The working directory is absolute, as
`os.Getwd` guarantees.  A spelling with a trailing slash must not name a regular or special file
(`hd`; `Lstat("file/")` is `ENOTDIR`, `filepath.Abs` drops the slash). -/
theorem C16_spelling_relative (fs : FS) (cwd : Str) (o : PackOpts) (rel : Str)
    (hcwd : isAbs cwd = true) (hrel : isAbs rel = false)
    (hnl : ∀ t, fs.lstat (pathAbs cwd rel) ≠ .ok (.link t))
    (hd : hasSuffix rel ['/'] = true → ∀ n, fs.lstat (pathAbs cwd rel) = .ok n → ∃ pm mt, n = .dir pm mt) :
    pack fs cwd o rel = pack fs cwd o (pathAbs cwd rel) :=
  pk_pack_spelling_rel fs cwd o rel hcwd hrel hnl hd

/-! ## counterexamples (findings F22, F23, F30) and non-vacuity -/

/-- `/t/src` holds `a`, `/u/src` holds `b`; `/t/rootlink -> src` (relative target),
`/t/l2 -> /t/src`, `/t/l1 -> /t/l2` -/
def c16fs : FS := [
  (["t".toList], .dir 0o755 0),
  (["t".toList, "src".toList], .dir 0o755 0),
  (["t".toList, "src".toList, "a".toList], .file 0o644 0 "hi".toList),
  (["t".toList, "rootlink".toList], .link "src".toList),
  (["t".toList, "l2".toList], .link "/t/src".toList),
  (["t".toList, "l1".toList], .link "/t/l2".toList),
  (["u".toList], .dir 0o755 0),
  (["u".toList, "src".toList], .dir 0o755 0),
  (["u".toList, "src".toList, "b".toList], .file 0o644 0 "other".toList)]

def c16o : PackOpts := ⟨false, false, [], []⟩

/-- what packing `/t/src` gives -/
def c16a : PState := ⟨[⟨"a".toList, tReg, 0o644, 0, [], "hi".toList⟩], ⟨["a".toList], 2⟩⟩

/-- the reference run, and two spellings covered by the theorems above -/
example : pack c16fs "/".toList c16o "/t/src".toList = (c16a, .ok) := by decide
example : pack c16fs "/u".toList c16o "/t//src/../src/.".toList = (c16a, .ok) := by decide
example : pack c16fs "/u".toList c16o "/t/src/".toList = (c16a, .ok) := by decide
example : pack c16fs "/t".toList c16o "./src/../src".toList = (c16a, .ok) := by decide
example : pathAbs "/t".toList "./src/../src".toList = "/t/src".toList := by decide
/-- a link with an absolute target at the root is followed (one level) -/
example : pack c16fs "/u".toList c16o "/t/l2".toList = (c16a, .ok) := by decide

/-- **C16_cex_relative_root_link** (finding F22).  The source is a symlink with a relative target,
`/t/rootlink -> src`.  `Pack` replaces the source by the link's target *as written* and makes that
absolute against the working directory instead of the link's directory: from `/t` it packs
`/t/src`, from `/u` it silently packs the unrelated `/u/src`, from `/` it fails. -/
theorem C16_cex_relative_root_link :
    pack c16fs "/t".toList c16o "/t/rootlink".toList = (c16a, .ok) ∧
    pack c16fs "/u".toList c16o "/t/rootlink".toList =
      (⟨[⟨"b".toList, tReg, 0o644, 0, [], "other".toList⟩], ⟨["b".toList], 5⟩⟩, .ok) ∧
    pack c16fs "/".toList c16o "/t/rootlink".toList = (pkEmpty, .ioerr) ∧
    AbsClean "/t/rootlink".toList := by
  refine ⟨by decide, by decide, by decide, by decide, by decide⟩

/-- **C16_cex_chained_root_link** (finding F23).  The source is a link to a link to the directory.
`Pack` follows one level, then walks from the second link: `filepath.Walk` does not follow it,
the callback sees the root itself and skips it — success, with an empty slug, although the
directory holds a file. -/
theorem C16_cex_chained_root_link :
    pack c16fs "/".toList c16o "/t/l1".toList = (pkEmpty, .ok) ∧
    pack c16fs "/".toList c16o "/t/src".toList = (c16a, .ok) := by
  refine ⟨by decide, by decide⟩

/-- **C16_cex_root_link_trailing_slash** (finding F30).  `/t/l2/` with `/t/l2 -> /t/src`: the
trailing slash makes `Lstat` follow the link, so `Pack` does not see a symlink and does not
replace the source; `filepath.Abs` then strips the slash and the walk starts at the link itself:
success with an empty slug.  Without the slash the same call packs the directory. -/
theorem C16_cex_root_link_trailing_slash :
    pack c16fs "/".toList c16o "/t/l2/".toList = (pkEmpty, .ok) ∧
    pack c16fs "/".toList c16o "/t/l2".toList = (c16a, .ok) := by
  refine ⟨by decide, by decide⟩

/-- `/t/plain` is a regular file, `/t/d` a directory holding `a` -/
def c16fsFile : FS := [
  (["t".toList], .dir 0o755 0),
  (["t".toList, "plain".toList], .file 0o644 0 "hi".toList),
  (["t".toList, "d".toList], .dir 0o755 0),
  (["t".toList, "d".toList, "a".toList], .file 0o644 0 "hi".toList)]

/-- **C16_trailing_slash_on_file_is_error.**  The source is a regular file.  Spelled `/t/plain/` the
root `os.Lstat` fails (`ENOTDIR`: with a trailing slash the name must denote a directory) and
`Pack` returns the error; spelled `/t/plain` the same call succeeds (with an empty slug: the
callback skips the root).  So the directory hypothesis of `C16_spelling_trailing_slash` cannot be
weakened to "not a symlink" (the file is not one); for the directory `/t/d` next to it both spellings agree. -/
theorem C16_trailing_slash_on_file_is_error :
    pack c16fsFile "/".toList c16o "/t/plain/".toList = (pkEmpty, .ioerr) ∧
    pack c16fsFile "/".toList c16o "/t/plain".toList = (pkEmpty, .ok) ∧
    pathClean "/t/plain/".toList = pathClean "/t/plain".toList ∧
    c16fsFile.lstat (pathClean "/t/plain/".toList) = .ok (.file 0o644 0 "hi".toList) ∧
    pack c16fsFile "/".toList c16o "/t/d/".toList = pack c16fsFile "/".toList c16o "/t/d".toList := by
  refine ⟨by decide, by decide, by decide, by rfl, by decide⟩

end Slug
