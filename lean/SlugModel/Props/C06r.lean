import SlugModel.Lemmas.RegistryRT
/-!
# C06r — registry addresses print to strings that parse back

`RegistrySource` prints as `pkg` or `pkg//sub`, `RegistrySourceFinal` as `pkg@ver` or
`pkg@ver//sub`.  `parseRegistrySource`, `parseFinalRegistrySource`, `matchFinal`, `dispatchSource`,
`dispatchFinalSource` (`Registry.lean`) are the model of `ParseRegistrySource`,
`ParseFinalRegistrySource`, the regular expression `^(.+)@([^/]+)(//(.+))?$` and the choice of the
kind-specific parser in `ParseSource` / `ParseFinalSource`.  The external parsers
(`regaddr.ParseModuleSource`, `versions.ParseVersion`) are an oracle; what the proofs need from
them is stated as hypotheses (`RegLaws`, `RegLawsFinal`, `RegLawsDispatch`, `VerLaws`,
`VerLawsDispatch` in `Lemmas/RegistryRT.lean`).

The round trips hold only under side conditions on the stored sub-path (no `?`; for the final
form also no newline and no `@` that the pattern could use) — each is shown necessary by a closed
counterexample `C06_cex_*`; hence `_partial`.
-/
namespace Slug

/-! ## 1. `RegistrySource` -/

/-- **C06_registry_roundtrip_partial.** A registry address with a printed package `pkg` and a
stored sub-path `sub` (a fixed point of `normalizeSubpath`) without `?` prints to a string that
`ParseRegistrySource` parses back to the same value. -/
theorem C06_registry_roundtrip_partial {o : RegOracle} {IsPkg : Str → Prop} (L : RegLaws o IsPkg)
    (pkg sub : Str) (hp : IsPkg pkg) (hn : normalizeSubpath sub = some sub) (hq : '?' ∉ sub) :
    parseRegistrySource o (printRegistry pkg sub) = .ok (pkg, sub) := by
  unfold printRegistry
  split
  · rename_i hs; subst hs; exact rgParsePlain L pkg hp
  · exact rgParseJoin L pkg sub hp hn hq

/-- the sub-path of a successfully parsed registry address is a stored sub-path without `?` -/
theorem C06_registry_parsed_sub {o : RegOracle} {s pkg sub : Str}
    (h : parseRegistrySource o s = .ok (pkg, sub)) :
    normalizeSubpath sub = some sub ∧ '?' ∉ sub ∧ ∀ c, c ∈ sub → c ∈ s := by
  obtain ⟨hn, _⟩ := rgParse_ok h
  have e := C06_normalize_id _ _ hn
  have hq := rgSplit_snd s
  rw [← e] at hq
  exact ⟨C06_normalize_idem _ _ hn, hq.1, hq.2⟩

/-- **C06_registry_print_canonical.** Printing is canonical: whatever `ParseRegistrySource`
accepts, the printed form of the result parses to the same result again (print ∘ parse is
idempotent), provided the oracle only returns printed packages. -/
theorem C06_registry_print_canonical {o : RegOracle} {IsPkg : Str → Prop} (L : RegLaws o IsPkg)
    (hout : ∀ s p d, o.regParse s = some (p, d) → IsPkg p)
    (s pkg sub : Str) (h : parseRegistrySource o s = .ok (pkg, sub)) :
    parseRegistrySource o (printRegistry pkg sub) = .ok (pkg, sub) := by
  obtain ⟨hn, hq, _⟩ := C06_registry_parsed_sub h
  exact C06_registry_roundtrip_partial L pkg sub (hout _ _ _ (rgParse_ok h).2) hn hq

/-- two registry addresses (printed package, stored `?`-free sub-path) are equal exactly when
they print the same -/
theorem C06_registry_print_inj {o : RegOracle} {IsPkg : Str → Prop} (L : RegLaws o IsPkg)
    (p1 s1 p2 s2 : Str) (hp1 : IsPkg p1) (hp2 : IsPkg p2)
    (hn1 : normalizeSubpath s1 = some s1) (hn2 : normalizeSubpath s2 = some s2)
    (hq1 : '?' ∉ s1) (hq2 : '?' ∉ s2) :
    printRegistry p1 s1 = printRegistry p2 s2 ↔ (p1, s1) = (p2, s2) := by
  constructor
  · intro e
    have h1 := C06_registry_roundtrip_partial L p1 s1 hp1 hn1 hq1
    have h2 := C06_registry_roundtrip_partial L p2 s2 hp2 hn2 hq2
    rw [e, h2] at h1
    injection h1 with h1
    exact h1.symm
  · intro e; cases e; rfl

/-! ## 2. the regular expression -/

/-- **C06_matchFinal_spec.** The hand-written matcher agrees with the declarative reading of
`^(.+)@([^/]+)(//(.+))?$` under leftmost-first semantics: `matchFinal s` returns groups
`(g1, ver, g4)` iff `s = g1 ++ "@" ++ ver ++ (if g4 = "" then "" else "//" ++ g4)` with `g1`
non-empty and newline-free, `ver` non-empty and slash-free, `g4` newline-free
(`rgFinalShape s g1 ver g4`), and `g1` is the longest first group for which such a reading
exists (the greedy `.+`). -/
theorem C06_matchFinal_spec (s g1 ver g4 : Str) :
    matchFinal s = some (g1, ver, g4) ↔
      (s = g1 ++ '@' :: ver ++ (if g4 = [] then [] else '/' :: '/' :: g4) ∧ g1 ≠ [] ∧
        noNewline g1 = true ∧ ver ≠ [] ∧ '/' ∉ ver ∧ noNewline g4 = true) ∧
      ∀ g1' ver' g4', rgFinalShape s g1' ver' g4' → g1'.length ≤ g1.length :=
  rgMatchFinal_spec s g1 ver g4

/-- the pattern does not match iff there is no reading at all -/
theorem C06_matchFinal_none (s : Str) :
    matchFinal s = none ↔ ∀ g1 ver g4, ¬ rgFinalShape s g1 ver g4 := by
  constructor
  · exact rgMatchFinal_none s
  · intro h
    cases hm : matchFinal s with
    | none => rfl
    | some t =>
      obtain ⟨g1, ver, g4⟩ := t
      exact absurd ((rgMatchFinal_spec s g1 ver g4).mp hm).1 (h g1 ver g4)

/-- completeness for printed strings: the printed form of a final address is matched with the
intended groups -/
theorem C06_matchFinal_printed (pkg ver sub : Str) (hp : pkg ≠ []) (hpn : noNewline pkg = true)
    (hv : ver ≠ []) (hvs : '/' ∉ ver) (hva : '@' ∉ ver)
    (hn : normalizeSubpath sub = some sub) (hsn : noNewline sub = true)
    (hsa : ∀ a b, sub = a ++ '@' :: b → b = [] ∨ '/' ∈ b) :
    matchFinal (printRegistryFinal pkg ver sub) = some (pkg, ver, sub) :=
  rgMatchPrint pkg ver sub hp hpn hv hvs hsn
    (rgValidSub_no_dslash sub (normalizeSubpath_some sub sub hn).2)
    (fun a b e => (rgNoAt_cond ver hva a b e).elim) hsa

/-- the `@`-condition of `C06_matchFinal_printed` is exact: an `@` in the sub-path followed by a
non-empty slash-free rest is always preferred by the pattern (newline-free package and version) -/
theorem C06_matchFinal_printed_at_necessary (pkg ver a b : Str) (hpn : noNewline pkg = true)
    (hvn : noNewline ver = true) (han : noNewline a = true) (hb : b ≠ []) (hbs : '/' ∉ b) :
    matchFinal (printRegistryFinal pkg ver (a ++ '@' :: b)) ≠ some (pkg, ver, a ++ '@' :: b) := by
  intro h
  have hmax := ((rgMatchFinal_spec _ _ _ _).mp h).2 (pkg ++ '@' :: ver ++ '/' :: '/' :: a) b [] (by
    refine ⟨?_, by simp, ?_, hb, hbs, by decide⟩
    · rw [rgPrintFinal_eq, rgTail_ne _ (by simp), rgTail_nil]; simp
    · rw [rgNoNewline_iff] at *
      simp only [List.mem_append, List.mem_cons, not_or]
      exact ⟨⟨hpn, by decide, hvn⟩, by decide, by decide, han⟩)
  simp only [List.length_append, List.length_cons] at hmax
  omega

/-! ## 3. `RegistrySourceFinal` -/

/-- **C06_final_registry_roundtrip_partial.** A final registry address with printed package,
printed version and a stored sub-path prints to a string that `ParseFinalRegistrySource` parses
back to the same value, provided the sub-path contains no `?`, no newline, and no `@` after which
the rest of the sub-path is non-empty and slash-free (such an `@` would be taken for the
version separator by the greedy first group).  Covers `sub = ""`, where the registry parser is
handed `pkg//`. -/
theorem C06_final_registry_roundtrip_partial {o : RegOracle} {IsPkg IsVer : Str → Prop}
    (L : RegLaws o IsPkg) (LF : RegLawsFinal IsPkg) (V : VerLaws o IsVer)
    (pkg ver sub : Str) (hp : IsPkg pkg) (hv : IsVer ver)
    (hn : normalizeSubpath sub = some sub) (hq : '?' ∉ sub) (hnl : noNewline sub = true)
    (hsa : ∀ a b, sub = a ++ '@' :: b → b = [] ∨ '/' ∈ b) :
    parseFinalRegistrySource o (printRegistryFinal pkg ver sub) = .ok (pkg, ver, sub) := by
  have hm := C06_matchFinal_printed pkg ver sub (LF.nonempty pkg hp) (LF.no_newline pkg hp)
    (V.nonempty ver hv) (V.no_slash ver hv) (V.no_at ver hv) hn hnl hsa
  unfold parseFinalRegistrySource
  rw [rgFinalAddr_print pkg ver sub hm]
  simp only [V.parse_self ver hv, rgParseJoin L pkg sub hp hn hq]

/-- the same with the simple condition "no `@` in the sub-path" -/
theorem C06_final_registry_roundtrip_noat {o : RegOracle} {IsPkg IsVer : Str → Prop}
    (L : RegLaws o IsPkg) (LF : RegLawsFinal IsPkg) (V : VerLaws o IsVer)
    (pkg ver sub : Str) (hp : IsPkg pkg) (hv : IsVer ver)
    (hn : normalizeSubpath sub = some sub) (hq : '?' ∉ sub) (hnl : noNewline sub = true)
    (hat : '@' ∉ sub) :
    parseFinalRegistrySource o (printRegistryFinal pkg ver sub) = .ok (pkg, ver, sub) :=
  C06_final_registry_roundtrip_partial L LF V pkg ver sub hp hv hn hq hnl
    (fun a b e => (rgNoAt_cond sub hat a b e).elim)

/-- the sub-path of a successfully parsed final registry address is a stored sub-path without
`?` and without newline -/
theorem C06_final_registry_parsed_sub {o : RegOracle} {s pkg ver sub : Str}
    (h : parseFinalRegistrySource o s = .ok (pkg, ver, sub)) :
    normalizeSubpath sub = some sub ∧ '?' ∉ sub ∧ noNewline sub = true := by
  obtain ⟨_, hr⟩ := rgParseFinal_ok h
  obtain ⟨hn, hq, hmem⟩ := C06_registry_parsed_sub hr
  exact ⟨hn, hq, (rgNoNewline_iff sub).mpr (fun hm => rgFinalAddr_nl s (hmem _ hm))⟩

/-- **C06_final_registry_print_canonical_partial.** print ∘ parse is idempotent for the final
form when the parsed sub-path has no usable `@` (the other side conditions hold for every parsed
value). -/
theorem C06_final_registry_print_canonical_partial {o : RegOracle} {IsPkg IsVer : Str → Prop}
    (L : RegLaws o IsPkg) (LF : RegLawsFinal IsPkg) (V : VerLaws o IsVer)
    (hout : ∀ s p d, o.regParse s = some (p, d) → IsPkg p)
    (hvout : ∀ s v, o.verParse s = some v → IsVer v)
    (s pkg ver sub : Str) (h : parseFinalRegistrySource o s = .ok (pkg, ver, sub))
    (hsa : ∀ a b, sub = a ++ '@' :: b → b = [] ∨ '/' ∈ b) :
    parseFinalRegistrySource o (printRegistryFinal pkg ver sub) = .ok (pkg, ver, sub) := by
  obtain ⟨hn, hq, hnl⟩ := C06_final_registry_parsed_sub h
  obtain ⟨hv, hr⟩ := rgParseFinal_ok h
  exact C06_final_registry_roundtrip_partial L LF V pkg ver sub (hout _ _ _ (rgParse_ok hr).2)
    (hvout _ _ hv) hn hq hnl hsa

/-! ## 4. dispatch -/

/-- **C06_dispatch_registry.** `ParseSource` hands the printed form of a registry address to the
registry parser: it is not rejected for edge white space, does not look local, and
`looksLikeRegistrySource` (= `ParseModuleSource` accepts the whole string, `hreg`) holds. -/
theorem C06_dispatch_registry {o : RegOracle} {IsPkg : Str → Prop} (D : RegLawsDispatch IsPkg)
    (pkg sub : Str) (hp : IsPkg pkg) (hsp : rgNoTrailSp sub)
    (hreg : (o.regParse (printRegistry pkg sub)).isSome = true) :
    dispatchSource o (printRegistry pkg sub) = .registry := by
  obtain ⟨h1, h2, h3⟩ := rgDispatch_pre D pkg (rgTail sub) hp (rgNoTrail_tail sub hsp)
  unfold dispatchSource looksLikeRegistry
  rw [hreg]
  rw [rgPrint_eq]
  simp only [h1, h2, h3, ne_eq, not_true_eq_false, if_false]
  simp

/-- **C06_dispatch_final_registry.** `ParseFinalSource` hands the printed form of a final
registry address to the final registry parser (`hreg`: `ParseModuleSource` accepts the address
`pkg//sub` cut out by the pattern). -/
theorem C06_dispatch_final_registry {o : RegOracle} {IsPkg IsVer : Str → Prop}
    (D : RegLawsDispatch IsPkg) (LF : RegLawsFinal IsPkg) (V : VerLaws o IsVer)
    (VD : VerLawsDispatch IsVer)
    (pkg ver sub : Str) (hp : IsPkg pkg) (hv : IsVer ver)
    (hn : normalizeSubpath sub = some sub) (hnl : noNewline sub = true)
    (hsa : ∀ a b, sub = a ++ '@' :: b → b = [] ∨ '/' ∈ b) (hsp : rgNoTrailSp sub)
    (hreg : (o.regParse (pkg ++ '/' :: '/' :: sub)).isSome = true) :
    dispatchFinalSource o (printRegistryFinal pkg ver sub) = .registry := by
  have hm := C06_matchFinal_printed pkg ver sub (LF.nonempty pkg hp) (LF.no_newline pkg hp)
    (V.nonempty ver hv) (V.no_slash ver hv) (V.no_at ver hv) hn hnl hsa
  have hl : looksLikeFinalRegistry o (printRegistryFinal pkg ver sub) = true := by
    unfold looksLikeFinalRegistry looksLikeRegistry
    rw [rgFinalAddr_print pkg ver sub hm]
    exact hreg
  obtain ⟨h1, h2, h3⟩ := rgDispatch_pre D pkg ('@' :: ver ++ rgTail sub) hp
    (rgNoTrail_final ver sub (V.nonempty ver hv) (VD.no_trail_space ver hv) hsp)
  unfold dispatchFinalSource
  rw [hl]
  rw [rgPrintFinal_eq]
  have e : pkg ++ '@' :: ver ++ rgTail sub = pkg ++ ('@' :: ver ++ rgTail sub) := by simp
  rw [e]
  simp only [h1, h2, h3, ne_eq, not_true_eq_false, if_false]
  simp

/-- the same with law L3 (`RegLawsSubdir`) in place of the hypothesis on the oracle's answer -/
theorem C06_dispatch_registry_L3 {o : RegOracle} {IsPkg : Str → Prop} (L : RegLaws o IsPkg)
    (S : RegLawsSubdir o IsPkg) (D : RegLawsDispatch IsPkg)
    (pkg sub : Str) (hp : IsPkg pkg) (hn : normalizeSubpath sub = some sub) (hq : '?' ∉ sub)
    (hsp : rgNoTrailSp sub) :
    dispatchSource o (printRegistry pkg sub) = .registry := by
  apply C06_dispatch_registry D pkg sub hp hsp
  unfold printRegistry
  split
  · rw [L.parse_self pkg hp]; rfl
  · exact S.accepts_subdir pkg sub hp hn hq

theorem C06_dispatch_final_registry_L3 {o : RegOracle} {IsPkg IsVer : Str → Prop}
    (S : RegLawsSubdir o IsPkg) (D : RegLawsDispatch IsPkg) (LF : RegLawsFinal IsPkg)
    (V : VerLaws o IsVer) (VD : VerLawsDispatch IsVer)
    (pkg ver sub : Str) (hp : IsPkg pkg) (hv : IsVer ver)
    (hn : normalizeSubpath sub = some sub) (hq : '?' ∉ sub) (hnl : noNewline sub = true)
    (hsa : ∀ a b, sub = a ++ '@' :: b → b = [] ∨ '/' ∈ b) (hsp : rgNoTrailSp sub) :
    dispatchFinalSource o (printRegistryFinal pkg ver sub) = .registry :=
  C06_dispatch_final_registry D LF V VD pkg ver sub hp hv hn hnl hsa hsp
    (S.accepts_subdir pkg sub hp hn hq)

/-! ## 5. no panic -/

/-- **C19_registry_no_panic_partial.** The panic "post-split registry address still has subdir"
is unreachable as long as `ParseModuleSource` only reports a sub-directory for a string that has
one: the package part returned by `splitSubPath` never has one (`C19_split_idem`). -/
theorem C19_registry_no_panic_partial (o : RegOracle)
    (hsub : ∀ s p d, o.regParse s = some (p, d) → d ≠ [] → (splitSubPath s).2 ≠ [])
    (given : Str) : parseRegistrySource o given ≠ .panic :=
  rgNoPanic o hsub given

theorem C19_final_registry_no_panic_partial (o : RegOracle)
    (hsub : ∀ s p d, o.regParse s = some (p, d) → d ≠ [] → (splitSubPath s).2 ≠ [])
    (given : Str) : parseFinalRegistrySource o given ≠ .panic := by
  unfold parseFinalRegistrySource
  simp only
  split
  · simp
  · split
    · simp
    · simp
    · rename_i h; exact absurd h (rgNoPanic o hsub _)

/-! ## 6. counterexamples and non-vacuity -/

/-- the oracle of the counterexamples: one package `p`, one version `1.0.0` -/
def rgCexOracle : RegOracle where
  regParse := fun s => if s = "p".toList then some ("p".toList, []) else none
  verParse := fun s => if s = "1.0.0".toList then some s else none

theorem rgCexOracle_laws : RegLaws rgCexOracle (· = "p".toList) ∧ RegLawsFinal (· = "p".toList) ∧
    RegLawsDispatch (· = "p".toList) ∧ VerLaws rgCexOracle (· = "1.0.0".toList) ∧
    VerLawsDispatch (· = "1.0.0".toList) := by
  refine ⟨⟨?_, ?_, ?_, ?_⟩, ⟨?_, ?_⟩, ⟨?_, ?_, ?_, ?_, ?_⟩, ⟨?_, ?_, ?_, ?_⟩, ⟨?_⟩⟩ <;>
    (intro p hp; subst hp; try decide)
  intro c hc
  simp at hc
  subst hc
  decide

/-- a `?` in the sub-path: the printed form `p//a?b` is split at the `?` -/
theorem C06_cex_registry_sub_query :
    normalizeSubpath "a?b".toList = some "a?b".toList ∧
    parseRegistrySource rgCexOracle (printRegistry "p".toList "a?b".toList) = .err := by decide

/-- finding F36: an `@` in the sub-path of a final address is taken for the version separator -/
theorem C06_cex_final_sub_at :
    normalizeSubpath "a@b".toList = some "a@b".toList ∧
    printRegistryFinal "p".toList "1.0.0".toList "a@b".toList = "p@1.0.0//a@b".toList ∧
    matchFinal "p@1.0.0//a@b".toList = some ("p@1.0.0//a".toList, "b".toList, []) ∧
    parseFinalRegistrySource rgCexOracle "p@1.0.0//a@b".toList = .err := by decide

/-- … and a newline in the sub-path makes the pattern fail altogether (`.` does not match it) -/
theorem C06_cex_final_sub_newline :
    normalizeSubpath "a\nb".toList = some "a\nb".toList ∧
    matchFinal (printRegistryFinal "p".toList "1.0.0".toList "a\nb".toList) = none ∧
    parseFinalRegistrySource rgCexOracle (printRegistryFinal "p".toList "1.0.0".toList "a\nb".toList)
      = .err := by decide



/-- an `@` in the version (if `ParseVersion` printed such a thing) is taken for the separator
as well: law `VerLaws.no_at` is needed -/
theorem C06_cex_final_ver_at :
    parseFinalRegistrySource { rgCexOracle with verParse := fun s => some s }
      (printRegistryFinal "p".toList "1@2".toList []) = .err := by decide

/-- the laws on the end of the package are needed: a package ending in `:` or `/` -/
theorem C06_cex_registry_pkg_colon :
    parseRegistrySource { rgCexOracle with regParse := fun s => if s = "p:".toList then some (s, []) else none }
      (printRegistry "p:".toList "a".toList) = .err := by decide
theorem C06_cex_registry_pkg_slash :
    parseRegistrySource { rgCexOracle with regParse := fun s => if s = "p/".toList then some (s, []) else none }
      (printRegistry "p/".toList "a".toList) = .err := by decide
/-- … and a newline in the package (final form) -/
theorem C06_cex_final_pkg_newline :
    parseFinalRegistrySource { rgCexOracle with regParse := fun s => if s = "p\nq".toList then some (s, []) else none }
      (printRegistryFinal "p\nq".toList "1.0.0".toList []) = .err := by decide

/-- findings F42/F17: a stored sub-path may end in white space (`normalizeSubpath` accepts
`"a "`), but the printed address is then rejected by `ParseSource` before any parser sees it —
whatever the oracle -/
theorem C06_cex_registry_sub_trailing_space (o : RegOracle) :
    normalizeSubpath "a ".toList = some "a ".toList ∧
    dispatchSource o (printRegistry "p".toList "a ".toList) = .reject := by
  refine ⟨by decide, ?_⟩
  unfold dispatchSource
  rw [if_pos (by decide)]

theorem C06_cex_final_registry_sub_trailing_space (o : RegOracle) :
    dispatchFinalSource o (printRegistryFinal "p".toList "1.0.0".toList "a ".toList) = .reject := by
  unfold dispatchFinalSource
  rw [if_pos (by decide)]

/-- although the kind-specific parser itself would accept it -/
example : parseRegistrySource rgCexOracle (printRegistry "p".toList "a ".toList)
    = .ok ("p".toList, "a ".toList) := by decide

/-! ### non-vacuity: an oracle in the style of `ParseModuleSource` (splits the sub-directory off
itself) that satisfies all laws -/

def rgExPkg : Str := "h/ns/m/aws".toList
def rgExVer : Str := "1.0.0".toList

def rgExOracle : RegOracle where
  regParse := fun s => if (splitSubPath s).1 = rgExPkg then some (rgExPkg, (splitSubPath s).2) else none
  verParse := fun s => if s = rgExVer then some s else none

theorem rgExOracle_laws : RegLaws rgExOracle (· = rgExPkg) ∧ RegLawsFinal (· = rgExPkg) ∧
    RegLawsDispatch (· = rgExPkg) ∧ VerLaws rgExOracle (· = rgExVer) ∧
    VerLawsDispatch (· = rgExVer) := by
  refine ⟨⟨?_, ?_, ?_, ?_⟩, ⟨?_, ?_⟩, ⟨?_, ?_, ?_, ?_, ?_⟩, ⟨?_, ?_, ?_, ?_⟩, ⟨?_⟩⟩ <;>
    (intro p hp; subst hp; try decide)
  intro c hc
  simp [rgExVer] at hc
  subst hc
  decide

theorem rgExOracle_subdir : RegLawsSubdir rgExOracle (· = rgExPkg) := by
  constructor
  intro p sub hp hn hq
  have := rgSplitJoin rgExOracle_laws.1 p sub hp (normalizeSubpath_some sub sub hn).2 hq
  subst hp
  simp [rgExOracle, this]

/-- the oracle only returns printed packages / versions, and reports a sub-directory only for
strings that have one (the hypothesis of `C19_registry_no_panic_partial`) -/
theorem rgExOracle_out :
    (∀ s p d, rgExOracle.regParse s = some (p, d) → p = rgExPkg) ∧
    (∀ s v, rgExOracle.verParse s = some v → v = rgExVer) ∧
    (∀ s p d, rgExOracle.regParse s = some (p, d) → d ≠ [] → (splitSubPath s).2 ≠ []) := by
  refine ⟨?_, ?_, ?_⟩
  · intro s p d h
    simp only [rgExOracle] at h
    split at h
    · cases h; rfl
    · cases h
  · intro s v h
    simp only [rgExOracle] at h
    split at h
    · rename_i e; cases h; exact e
    · cases h
  · intro s p d h hd
    simp only [rgExOracle] at h
    split at h
    · cases h; exact hd
    · cases h

/-- the theorems apply: sub-paths `""`, `"m"`, `"a/b"` -/
example : parseRegistrySource rgExOracle (printRegistry rgExPkg "a/b".toList) = .ok (rgExPkg, "a/b".toList) :=
  C06_registry_roundtrip_partial rgExOracle_laws.1 _ _ rfl (by decide) (by decide)
example : parseFinalRegistrySource rgExOracle (printRegistryFinal rgExPkg rgExVer [])
    = .ok (rgExPkg, rgExVer, []) :=
  C06_final_registry_roundtrip_noat rgExOracle_laws.1 rgExOracle_laws.2.1 rgExOracle_laws.2.2.2.1
    _ _ _ rfl rfl (by decide) (by decide) (by decide) (by decide)
example : dispatchFinalSource rgExOracle (printRegistryFinal rgExPkg rgExVer "m".toList) = .registry :=
  C06_dispatch_final_registry rgExOracle_laws.2.2.1 rgExOracle_laws.2.1 rgExOracle_laws.2.2.2.1
    rgExOracle_laws.2.2.2.2 _ _ _ rfl rfl (by decide)
    (by decide) (fun a b e => (rgNoAt_cond _ (by decide) a b e).elim)
    (by intro c hc; simp at hc; subst hc; decide) (by decide)
example : dispatchSource rgExOracle (printRegistry rgExPkg "a/b".toList) = .registry :=
  C06_dispatch_registry_L3 rgExOracle_laws.1 rgExOracle_subdir rgExOracle_laws.2.2.1 _ _ rfl
    (by decide) (by decide) (by intro c hc; simp at hc; subst hc; decide)
example (given : Str) : parseFinalRegistrySource rgExOracle given ≠ .panic :=
  C19_final_registry_no_panic_partial _ rgExOracle_out.2.2 given

/-- closed round trips, computed -/
example : printRegistry rgExPkg [] = "h/ns/m/aws".toList := by decide
example : printRegistry rgExPkg "a/b".toList = "h/ns/m/aws//a/b".toList := by decide
example : printRegistryFinal rgExPkg rgExVer [] = "h/ns/m/aws@1.0.0".toList := by decide
example : printRegistryFinal rgExPkg rgExVer "m".toList = "h/ns/m/aws@1.0.0//m".toList := by decide
example : parseRegistrySource rgExOracle "h/ns/m/aws".toList = .ok (rgExPkg, []) := by decide
example : parseRegistrySource rgExOracle "h/ns/m/aws//m".toList = .ok (rgExPkg, "m".toList) := by decide
example : parseRegistrySource rgExOracle "h/ns/m/aws//a/b".toList = .ok (rgExPkg, "a/b".toList) := by decide
example : parseFinalRegistrySource rgExOracle "h/ns/m/aws@1.0.0".toList = .ok (rgExPkg, rgExVer, []) := by decide
example : finalAddrOf "h/ns/m/aws@1.0.0".toList = ("h/ns/m/aws//".toList, rgExVer) := by decide
example : parseFinalRegistrySource rgExOracle "h/ns/m/aws@1.0.0//m".toList
    = .ok (rgExPkg, rgExVer, "m".toList) := by decide
example : parseFinalRegistrySource rgExOracle "h/ns/m/aws@1.0.0//a/b".toList
    = .ok (rgExPkg, rgExVer, "a/b".toList) := by decide
example : dispatchSource rgExOracle "h/ns/m/aws//a/b".toList = .registry := by decide
example : dispatchFinalSource rgExOracle "h/ns/m/aws@1.0.0".toList = .registry := by decide
/-- an `@` in the sub-path is harmless where the pattern cannot use it (end of the sub-path, or
followed by a segment boundary) -/
example : parseFinalRegistrySource rgExOracle (printRegistryFinal rgExPkg rgExVer "a@/b@".toList)
    = .ok (rgExPkg, rgExVer, "a@/b@".toList) := by decide
/-- `matchFinal` takes the last usable `@` -/
example : matchFinal "a@b@c//d".toList = some ("a@b".toList, "c".toList, "d".toList) := by decide
example : matchFinal "a@b@c/d".toList = none := by decide
example : matchFinal "a@b//c@".toList = some ("a".toList, "b".toList, "c@".toList) := by decide

end Slug
