import SlugModel.Lemmas.TrEq_splitSubPath
import SlugModel.Lemmas.Local
/-!
# C19 (tie by translation; the slices of `splitSubPath` are in range)

Tie by translation: the model function the theorems of this property are stated over equals the Lean
translation of the Go function, regenerated from /repo on every run (harness/cmd/go2lean); a change of
the Go function changes the translated definition and this proof obligation no longer checks.

The slice operations of `GoLib.lean` are total (`take`/`drop`), an index expression out of range
panics in Go.  `C19_tie_splitSubPath_slices_in_range` shows, over the hand model that
`C19_tie_splitSubPath` ties to the translation, that every position `splitSubPath` slices at lies
within the string sliced, so the total reading and Go's agree and no slice expression panics.
-/
namespace Slug

/-- **C19_tie_splitSubPath.** The model's `splitSubPath` is the translated `splitSubPath`
(sourceaddrs/subpath.go). -/
theorem C19_tie_splitSubPath (s : Str) : Gen.splitSubPath s = splitSubPath s :=
  gen_splitSubPath s

/-- **C19_tie_splitSubPath_slices_in_range.** With `stop` and `offset` as `splitSubPath` computes
them: `src[:stop]` and `src[offset:stop]` are in range (`offset ≤ stop ≤ len(src)`); whenever `//` is
found at `i` in `src[offset:stop]`, `src[i+offset+2:]` and `src[:i+offset]` are in range; and whenever
`?` is then found at `q` in that sub-directory part, `subdir[q:]` and `subdir[:q]` are in range. -/
theorem C19_tie_splitSubPath_slices_in_range (s : Str) :
    let stop := match indexOf ['?'] s with
      | some i => i
      | none => s.length
    let offset := match indexOf [':', '/', '/'] (s.take stop) with
      | some i => i + 3
      | none => 0
    stop ≤ s.length ∧ offset ≤ stop ∧
    ∀ i, indexOf ['/', '/'] ((s.take stop).drop offset) = some i →
      i + offset + 2 ≤ s.length ∧
      ∀ q, indexOf ['?'] (s.drop (i + offset + 2)) = some q → q ≤ (s.drop (i + offset + 2)).length := by
  intro stop offset
  have hstop : stop ≤ s.length := by
    show (match indexOf ['?'] s with | some i => i | none => s.length) ≤ s.length
    cases h : indexOf ['?'] s with
    | none => exact Nat.le_refl _
    | some i => have := indexOf_bound _ _ _ h; simp at this ⊢; omega
  have hoff : offset ≤ stop := by
    show (match indexOf [':', '/', '/'] (s.take stop) with | some i => i + 3 | none => 0) ≤ stop
    cases h : indexOf [':', '/', '/'] (s.take stop) with
    | none => exact Nat.zero_le _
    | some j => have := indexOf_bound _ _ _ h; simp at this ⊢; omega
  refine ⟨hstop, hoff, ?_⟩
  intro i hi
  have h3 := indexOf_bound _ _ _ hi
  simp at h3
  refine ⟨by omega, ?_⟩
  intro q hq
  have h4 := indexOf_bound _ _ _ hq
  omega

end Slug
