import SlugModel.Lemmas.TrEq_splitSubPath
import SlugModel.Lemmas.Local
import SlugModel.Lemmas.TrEq_readRules
/-!
# C19 (tie by translation; the slices of `splitSubPath` and the index expressions of `readRules` are in range)

Tie by translation: the model function the theorems of this property are stated over equals the Lean
translation of the Go function, regenerated from /repo on every run (harness/cmd/go2lean); a change of
the Go function changes the translated definition and this proof obligation no longer checks.

The slice operations of `GoLib.lean` are total (`take`/`drop`), an index expression out of range
panics in Go.  `C19_tie_splitSubPath_slices_in_range` shows, over the hand model that
`C19_tie_splitSubPath` ties to the translation, that every position `splitSubPath` slices at lies
within the string sliced, so the total reading and Go's agree and no slice expression panics.

`readRules` (degenerate rule lines: blank, a lone `!`, a lone `/`, …): `C19_tie_readRules` ties the model's
`readRules` to the translation.  The Go index expressions of the loop body — `pattern[0]` (three times),
`pattern[1:]`, `pattern[len(pattern)-1]` — are only reached with a non-empty `pattern`: each comes after an
`if len(pattern) == 0 { continue }` on the same value of `pattern`, or after `pattern` was extended from a
non-empty value (in the translation: the `if ((Go.len pattern) == 0) then continue` lines before them; in the proof
of `gen_readRules_lines` the cases `line = []`, `trimSpace line = []`, `rest = []` are closed before any
`Go.byteAt` is looked at).  `C19_tie_readRules_indexes_guarded` gives the arithmetic: for a non-empty pattern
those positions are within the pattern, and the pattern stays non-empty after the trailing-`/` rewriting.
`C19_tie_readRules_rule_indexes_in_range`: the marking loop `for i := currentRuleIndex; i >= 0; i--`, started at
`len(rules)-1` (the loop invariant of `gen_readRules_lines`), only visits positions of `rules`, so `rules[i]`
does not panic either (an empty rule list included: no iteration).
That the guards are where this paragraph says is read off the translated definition, not proved: the
operations of `GoLib.lean` are total and the translation is stated over them.
-/
namespace Slug

/-- **C19_tie_splitSubPath.** The model's `splitSubPath` is the translated `splitSubPath`
(sourceaddrs/subpath.go). -/
theorem C19_tie_splitSubPath (s : Str) : Gen.splitSubPath s = splitSubPath s :=
  gen_splitSubPath s

/-- **C19_tie_splitSubPath_slices_in_range.** With `stop` and `offset` as `splitSubPath` computes
them: `src[:stop]` and `src[offset:stop]` are in range (`offset ≤ stop ≤ len(src)`); whenever `//` is
found at `i` in `src[offset:stop]`, `src[i+offset+2:]` and `src[:i+offset]` are in range; and whenever
`?` is then found at `q` in that sub-directory part, `subdir[q:]` and `subdir[:q]` are in range. -/
theorem C19_tie_splitSubPath_slices_in_range (s : Str) :
    let stop := match indexOf ['?'] s with
      | some i => i
      | none => s.length
    let offset := match indexOf [':', '/', '/'] (s.take stop) with
      | some i => i + 3
      | none => 0
    stop ≤ s.length ∧ offset ≤ stop ∧
    ∀ i, indexOf ['/', '/'] ((s.take stop).drop offset) = some i →
      i + offset + 2 ≤ s.length ∧
      ∀ q, indexOf ['?'] (s.drop (i + offset + 2)) = some q → q ≤ (s.drop (i + offset + 2)).length := by
  intro stop offset
  have hstop : stop ≤ s.length := by
    show (match indexOf ['?'] s with | some i => i | none => s.length) ≤ s.length
    cases h : indexOf ['?'] s with
    | none => exact Nat.le_refl _
    | some i => have := indexOf_bound _ _ _ h; simp at this ⊢; omega
  have hoff : offset ≤ stop := by
    show (match indexOf [':', '/', '/'] (s.take stop) with | some i => i + 3 | none => 0) ≤ stop
    cases h : indexOf [':', '/', '/'] (s.take stop) with
    | none => exact Nat.zero_le _
    | some j => have := indexOf_bound _ _ _ h; simp at this ⊢; omega
  refine ⟨hstop, hoff, ?_⟩
  intro i hi
  have h3 := indexOf_bound _ _ _ hi
  simp at h3
  refine ⟨by omega, ?_⟩
  intro q hq
  have h4 := indexOf_bound _ _ _ hq
  omega

/-- **C19_tie_readRules.** The model's `readRules` is the translated `readRules`
(internal/ignorefiles/terraformignore.go) on the lines of the content, for every content — blank lines, lines
of spaces, a lone `!`, a lone `/` and the other degenerate rule lines included. -/
theorem C19_tie_readRules (content : Str) :
    Gen.readRules (scanLines content) = (readRules content, false) :=
  gen_readRules content

/-- **C19_tie_readRules_indexes_guarded.** For a non-empty `pattern`: `pattern[0]` and `pattern[1:]` are in
range, `pattern[len(pattern)-1]` is in range, and after `if pattern[len(pattern)-1] == '/' { pattern += "**" }`
the pattern is still non-empty, so the following `pattern[0]` and `pattern[1:]` are in range too. -/
theorem C19_tie_readRules_indexes_guarded (p : Str) (h : p ≠ []) :
    0 < Go.len p ∧ 1 ≤ Go.len p ∧ 0 ≤ Go.len p - 1 ∧ Go.len p - 1 < Go.len p ∧
    1 ≤ Go.len (if (Go.byteAt p (Go.len p - 1) == '/') = true then p ++ ['*', '*'] else p) := by
  have h0 : 0 < p.length := List.length_pos_iff.mpr h
  refine ⟨?_, ?_, ?_, ?_, ?_⟩
  · simp only [Go.len]; omega
  · simp only [Go.len]; omega
  · simp only [Go.len]; omega
  · simp only [Go.len]; omega
  · split
    · simp only [Go.len, List.length_append]; omega
    · simp only [Go.len]; omega

/-- **C19_tie_readRules_rule_indexes_in_range.** The positions the marking loop visits when it starts at
`len(rules)-1` are positions of `rules`. -/
theorem C19_tie_readRules_rule_indexes_in_range (rules : List Rule) (i : Int)
    (hi : i ∈ Go.rangeDown (Go.lenRules rules - 1)) : 0 ≤ i ∧ i < Go.lenRules rules := by
  simp only [Go.lenRules, rangeDown_pred, List.mem_reverse, List.mem_map, List.mem_range] at hi ⊢
  obtain ⟨k, hk, rfl⟩ := hi
  simp only [Int.ofNat_eq_natCast]
  omega

end Slug
