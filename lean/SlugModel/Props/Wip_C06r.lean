import SlugModel.Lemmas.RegistryRT
/-!
# C06r — registry addresses print to strings that parse back (work in progress)
-/
namespace Slug

end Slug
