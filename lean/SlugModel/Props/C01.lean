import SlugModel.Lemmas.UnpackInv
/-!
# C01 — Unpack never touches anything outside the destination

Property theorems only; helper lemmas live in `Lemmas/PathSegs`, `Lemmas/Resolve`,
`Lemmas/FSFrame`, `Lemmas/UnpackInv` (see `Props/C04` for the vocabulary: `DstOK`, `Under`,
`RealDir`, `KeysPhysical`, `AllGood`, `GoodLink`, `Tidy`, `TidyLinks`).

The frame statement is about `FS.get`, the physical content of the filesystem: for every physical
path `q` that is not at or below the components of `dst`, the binding of `q` (kind, permission
bits, modification time, content, link target — or absence) is the same before and after
`Unpack`, for every archive, every reader fault, every result.

`_partial`: the theorems assume `TidyLinks es` (every link entry's target has all its `..` first).
Without it the unchanged code writes outside `dst` (`C01_cex_write_through_link`).

Absolute link targets were never excluded by hypothesis here (`GoodLink` covers them), so the repair
of finding F12 (`Unpack` now refuses absolute targets that are not allow-listed, `Props/C04` §3b)
leaves the statements as they were; the targets of the counterexample are relative, for which the
link test of `Unpack` (`unpackLinkOK`) is `validSymlink`.
-/
namespace Slug

/-- **C01_entry_frame_partial.** One archive entry changes nothing outside `dst`. -/
theorem C01_entry_frame_partial (cwd dst : Str) (priv : Bool) (st : UState) (e : Entry)
    (body : Str) (be : Bool) (hdst : DstOK dst)
    (hreal : RealDir st.fs (pathSegs dst)) (hkeys : KeysPhysical st.fs)
    (hgood : AllGood st.fs (pathSegs dst)) (hdirs : DirsAim (pathSegs dst) st.dirs)
    (htidy : e.isSymlink = true → Tidy e.link) :
    ∀ q, ¬ Under (pathSegs dst) q →
      (unpackEntry cwd [] priv dst st e body be).1.fs.get q = st.fs.get q :=
  (unpackEntry_ok (cwd := cwd) (priv := priv) (body := body) (be := be) hdst rfl
    ⟨hreal, hkeys, hgood⟩ hdirs htidy).frame

/-- **C01_frame_partial.** `dst` an absolute clean path whose components are real directories,
physical keys, every link already under `dst` good (e.g. an empty destination), no allow-list,
tidy link targets in the archive: then, whatever the entries are named (`..`, `.`, `//`, leading
`/`, names of existing links, …), wherever the reader fails, and whatever `Unpack` returns,
nothing outside `dst` is created, removed or modified. -/
theorem C01_frame_partial (dst : Str) (fs : FS) (es : List Entry)
    (hdst : DstOK dst) (hreal : RealDir fs (pathSegs dst)) (hkeys : KeysPhysical fs)
    (hgood : AllGood fs (pathSegs dst)) (htidy : TidyLinks es) :
    ∀ (fault : Fault) (priv : Bool) (cwd : Str) (q : PPath), ¬ Under (pathSegs dst) q →
      ((unpack cwd [] priv dst fault fs es).1).get q = fs.get q := by
  intro fault priv cwd
  exact (unpack_ok (cwd := cwd) (priv := priv) (fault := fault) hdst rfl
    ⟨hreal, hkeys, hgood⟩ htidy).2

/-- the deferred directory pass alone: `Chmod`/`Chtimes` of recorded directories stay inside -/
theorem C01_restore_frame (dst : Str) (fs : FS) (dirs : List (Str × Nat × Int))
    (hdst : DstOK dst) (hreal : RealDir fs (pathSegs dst)) (hkeys : KeysPhysical fs)
    (hgood : AllGood fs (pathSegs dst)) (hdirs : DirsAim (pathSegs dst) dirs) :
    ∀ q, ¬ Under (pathSegs dst) q → (restoreDirs fs dirs).1.get q = fs.get q :=
  (restoreDirs_step hdst.segs_ne_nil dirs fs ⟨hreal, hkeys, hgood⟩ hdirs).frame

/-! ## non-vacuity -/

/-- the hypotheses hold for an empty destination `/t/dst` and an archive with a directory, a file
and a link `l -> d/a` … -/
example : DstOK cexDst ∧ RealDir cexFs0 (pathSegs cexDst) ∧ KeysPhysical cexFs0 ∧
    AllGood cexFs0 (pathSegs cexDst) ∧ TidyLinks cexEsGood := by
  rw [cex_dstP]
  obtain ⟨h1, h2, h3⟩ := cex_hyps
  obtain ⟨a, b, c⟩ := fsCheck_sound h2
  exact ⟨h1, a, b, c, h3⟩

/-- … the run does change the filesystem (inside `dst`) … -/
example : (unpack cexCwd [] true cexDst .none cexFs0 cexEsGood).1.get
      (["t","dst","d","a"].map String.toList) = some (.file 0o644 7 "hi".toList) ∧
    cexFs0.get (["t","dst","d","a"].map String.toList) = none := by
  rw [cex_good_run]; decide

/-- … and there is an outside: `/t` is not under `/t/dst` -/
example : ¬ Under (pathSegs cexDst) cexTP := by decide

/-! ## the hypothesis `TidyLinks` is needed (known findings F3 + F5) -/

def cexEsW : List Entry :=
  [cexLink "s" ".", cexLink "c" "s/../out.txt", cexReg "c" "hi" 0o644 0]

def cexOutP : PPath := ["t","out.txt"].map String.toList

/-- **C01_cex_write_through_link.** Archive `s -> .`, `c -> s/../out.txt`, regular file `c` in the
empty destination `/t/dst`: both links pass `validSymlink` (lexically `s/../out.txt` is `out.txt`
inside `dst`), `os.Create` follows the final link `c`, the kernel resolves `s` to `dst` and `..`
to `/t`, and the file is created at `/t/out.txt` — outside the destination. `Unpack` succeeds. -/
theorem C01_cex_write_through_link :
    let r := unpack cexCwd [] true cexDst .none cexFs0 cexEsW
    r.2 = .ok ∧
    validSymlink cexCwd [] cexDst "s".toList ".".toList = true ∧
    validSymlink cexCwd [] cexDst "c".toList "s/../out.txt".toList = true ∧
    cexFs0.get cexOutP = none ∧
    r.1.get cexOutP = some (.file 0o644 0 "hi".toList) ∧
    ¬ (cexDstP <+: cexOutP) := by
  dsimp only
  decide

/-- the hypotheses other than `TidyLinks` hold in that run, and `TidyLinks` fails -/
theorem C01_cex_hyps : DstOK cexDst ∧ FsCheck cexFs0 cexDstP ∧ ¬ TidyLinks cexEsW := by decide

/-- writing through a link in a *non-final* position is refused by the `Lstat` walk of
`NewUnpackInfo` (here `l2/x` after `d/l1 -> ..`, `l2 -> d/l1/..`) -/
theorem C01_cex_lstat_walk_refuses :
    (unpack cexCwd [] true cexDst .none cexFs0
      [cexLink "d/l1" "..", cexLink "l2" "d/l1/..", cexReg "l2/x" "hi" 0o644 0]).2 = .illegal := by
  decide

end Slug
