import SlugModel.Lemmas.BundlePaths
/-!
# C18 — Bundle path lookups stay inside the bundle and invert each other

`openDir` is the model of `sourcebundle.OpenDir` on a decoded manifest, `localPathForRemote` /
`localPathForRegistry` of `LocalPathForRemoteSource` / `LocalPathForRegistrySource`, and
`splitLocalPath` of `SourceForLocalPath` up to the choice of alias (tied to the code by the
`bundle` lane).  The external parsers are a parameter (`BundleOracle`): every theorem holds
whatever they answer.  `AbsClean root` is what `filepath.Abs` guarantees for the bundle root,
`NameNS d` says that `d` is one path component (non-empty, not `.`/`..`, no separator),
`ValidSub s` is the invariant of stored sub-paths.
-/
namespace Slug

/-- **C18_refuse.** A manifest that names a package directory with a separator, `.`, `..` or the
empty string is refused, whatever the address parsers say and wherever the row stands. -/
theorem C18_refuse (o : BundleOracle) (root : Str) (m : Manifest) (p : MPkg) (hp : p ∈ m.packages)
    (hbad : p.localDir = [] ∨ p.localDir = dot ∨ p.localDir = dotdot ∨ '/' ∈ p.localDir) :
    openDir o root m = none := by
  unfold openDir
  split
  · rfl
  · rw [bn_openPackages_refuse o p (bn_validLocalDir_bad _ hbad) m.packages _ hp]

/-- **C18_dirs_valid.** Every directory name stored in an opened bundle is a single valid path
component. -/
theorem C18_dirs_valid (o : BundleOracle) (root : Str) (m : Manifest) (b : Bundle)
    (h : openDir o root m = some b) : ∀ k d, aget b.pkgDirs k = some d → NameNS d :=
  bn_openDir_dirs o root m b h

/-- **C18_inside.** For an absolute clean root, every successful remote lookup in an opened bundle
lies strictly inside the root. -/
theorem C18_inside (o : BundleOracle) (root : Str) (m : Manifest) (b : Bundle) (pkg sub p : Str)
    (hr : AbsClean root) (ho : openDir o root m = some b)
    (hl : localPathForRemote b pkg sub = some p) (hs : ValidSub sub) :
    isWithin root p = true ∧ p ≠ root := by
  have hroot := bn_openDir_root o root m b ho
  rw [← hroot] at hr ⊢
  obtain ⟨_, _, _, _, _, h1, h2⟩ := bn_remote_inside b pkg sub p hr (C18_dirs_valid o root m b ho) hl hs
  exact ⟨h1, h2⟩

/-- the answer of a remote lookup, component-wise: the root, then the package directory, then the
components of the sub-path -/
theorem C18_inside_segs (o : BundleOracle) (root : Str) (m : Manifest) (b : Bundle) (pkg sub p : Str)
    (hr : AbsClean root) (ho : openDir o root m = some b)
    (hl : localPathForRemote b pkg sub = some p) (hs : ValidSub sub) :
    ∃ dir, aget b.pkgDirs pkg = some dir ∧ AbsClean p ∧
      pathSegs p = pathSegs root ++ dir :: pathSegs sub := by
  have hroot := bn_openDir_root o root m b ho
  rw [← hroot] at hr ⊢
  obtain ⟨dir, h1, _, h3, h4, _, _⟩ :=
    bn_remote_inside b pkg sub p hr (C18_dirs_valid o root m b ho) hl hs
  exact ⟨dir, h1, h3, h4⟩

/-- **C18_inside_registry.** The registry form: if the sub-paths stored for registry versions are
valid (which is what `ParseRemoteSource` returns), the lookup lies strictly inside the root. -/
theorem C18_inside_registry (o : BundleOracle) (root : Str) (m : Manifest) (b : Bundle)
    (reg ver regSub p : Str) (hr : AbsClean root) (ho : openDir o root m = some b)
    (hstored : ∀ k pk s, aget b.regSources k = some (pk, s) → ValidSub s)
    (hl : localPathForRegistry b reg ver regSub = some p) (hs : ValidSub regSub) :
    isWithin root p = true ∧ p ≠ root := by
  unfold localPathForRegistry at hl
  cases hk : aget b.regSources (reg, ver) with
  | none => rw [hk] at hl; cases hl
  | some e =>
    obtain ⟨pk, s⟩ := e
    rw [hk] at hl
    simp only at hl
    have hv : ValidSub (finalSourceSub regSub s) :=
      (validSubPath_iff _).mp (C19_finalSourceSub_valid regSub s hs (hstored _ pk s hk))
    exact C18_inside o root m b pk _ p hr ho hl hv

/-- **C18_roundtrip.** A path inside a package directory translates to (directory, sub-path) and
`root/directory/sub-path` is the path again. -/
theorem C18_roundtrip (b : Bundle) (root dir sub : Str) (hr : AbsClean root) (hd : NameNS dir)
    (hstored : ∃ k, aget b.pkgDirs k = some dir) (hroot : b.root = root) (hs : ValidSub sub) :
    splitLocalPath b (pathJoin3 root dir sub) = some (dir, sub) := by
  obtain ⟨hnames, hjoin⟩ := bn_pathSegs_validSub sub hs
  obtain ⟨_, hp, hsegs⟩ := bn_pathJoin3_names root dir sub hr hd hnames
  have hany : b.pkgDirs.any (fun e => e.2 = dir) = true := by
    obtain ⟨k, hk⟩ := hstored
    rw [List.any_eq_true]
    exact ⟨(k, dir), bn_aget_mem _ _ _ hk, by simp⟩
  rw [bn_splitLocalPath_eq, hroot]
  rcases bn_pathRel_cases root _ hr hp with ⟨e, _⟩ | ⟨d, tl, hn, e, hrel⟩ | ⟨hout, _⟩
  · exfalso
    have := congrArg List.length hsegs
    rw [e] at this
    simp only [List.length_append, List.length_cons] at this
    omega
  · rw [hsegs] at e
    have e' := List.append_cancel_left e
    simp only [List.cons.injEq] at e'
    rw [hrel]
    simp only
    rw [bn_splitRel_names _ d tl hn, ← e'.1, ← e'.2, hjoin, hany]
    rfl
  · exact absurd ⟨dir :: pathSegs sub, hsegs.symm⟩ hout

/-- the round trip for an opened bundle: what `LocalPathForRemoteSource` returns is translated
back to the package's directory and the same sub-path -/
theorem C18_roundtrip_opened (o : BundleOracle) (root : Str) (m : Manifest) (b : Bundle)
    (pkg sub p : Str) (hr : AbsClean root) (ho : openDir o root m = some b)
    (hl : localPathForRemote b pkg sub = some p) (hs : ValidSub sub) :
    ∃ dir, aget b.pkgDirs pkg = some dir ∧ splitLocalPath b p = some (dir, sub) := by
  have hroot := bn_openDir_root o root m b ho
  have hdirs := C18_dirs_valid o root m b ho
  have hr' : AbsClean b.root := by rw [hroot]; exact hr
  obtain ⟨dir, h1, h2, _⟩ := bn_remote_inside b pkg sub p hr' hdirs hl hs
  refine ⟨dir, h1, ?_⟩
  rw [h2, hroot]
  exact C18_roundtrip b root dir sub hr (hdirs pkg dir h1) ⟨pkg, h1⟩ hroot hs

/-- **C18_roundtrip_back.** Conversely, whatever `splitLocalPath` answers for an absolute clean
path is a stored single-component directory and a valid sub-path whose join is that path. -/
theorem C18_roundtrip_back (b : Bundle) (p dir sub : Str) (hr : AbsClean b.root) (hp : AbsClean p)
    (h : splitLocalPath b p = some (dir, sub)) :
    pathJoin3 b.root dir sub = p ∧ NameNS dir ∧ ValidSub sub ∧ (∃ e ∈ b.pkgDirs, e.2 = dir) := by
  rw [bn_splitLocalPath_eq] at h
  rcases bn_pathRel_cases b.root p hr hp with ⟨_, hrel⟩ | ⟨d, tl, hn, e, hrel⟩ | ⟨_, rest, hns, hrel⟩
  · rw [hrel] at h
    simp only [bn_splitRel_dot] at h
    cases h
  · rw [hrel] at h
    simp only at h
    rw [bn_splitRel_names _ d tl hn] at h
    split at h
    · rename_i hany
      simp only [Option.some.injEq, Prod.mk.injEq] at h
      obtain ⟨h1, h2⟩ := h
      subst h1; subst h2
      have hd := hn d (by simp)
      have htl : ∀ x ∈ tl, NameNS x := fun x hx => hn x (List.mem_cons_of_mem _ hx)
      have hps := bn_pathSegs_joinWith tl htl
      obtain ⟨e1, _, _⟩ := bn_pathJoin3_names b.root d (joinWith '/' tl) hr hd (by rw [hps]; exact htl)
      refine ⟨?_, hd, bn_validSub_joinWith tl htl, ?_⟩
      · rw [e1, hps, ← e]; exact (absClean_eq_ofSegs p hp).symm
      · rw [List.any_eq_true] at hany
        obtain ⟨x, hx, hxd⟩ := hany
        exact ⟨x, hx, by simpa using hxd⟩
    · cases h
  · rw [hrel] at h
    simp only [bn_splitRel_up _ rest hns] at h
    cases h

/-- any alias of the directory leads back to the same path, so the address `SourceForLocalPath`
picks among aliases does not matter -/
theorem C18_alias_same_path (b : Bundle) (p dir sub k : Str) (hr : AbsClean b.root) (hp : AbsClean p)
    (h : splitLocalPath b p = some (dir, sub)) (hk : aget b.pkgDirs k = some dir) :
    localPathForRemote b k sub = some p := by
  unfold localPathForRemote
  rw [hk]
  simp only
  rw [(C18_roundtrip_back b p dir sub hr hp h).1]

/-- **C18_not_in_bundle.** A path that is not under the root does not belong to the bundle. -/
theorem C18_not_in_bundle (b : Bundle) (root p : Str) (hr : AbsClean root) (hp : AbsClean p)
    (hroot : b.root = root) (hout : ¬ (isWithin root p = true)) : splitLocalPath b p = none := by
  rw [bn_splitLocalPath_eq, hroot]
  have hout' : ¬ pathSegs root <+: pathSegs p := fun h => hout ((isWithin_iff root p hr hp).mpr h)
  obtain ⟨rest, hns, hrel⟩ := bn_pathRel_outside root p hr hp hout'
  rw [hrel]
  exact bn_splitRel_up _ rest hns

/-- the root itself does not belong to any package -/
theorem C18_not_in_bundle_root (b : Bundle) (root : Str) (hr : AbsClean root) (hroot : b.root = root) :
    splitLocalPath b root = none := by
  rw [bn_splitLocalPath_eq, hroot]
  rcases bn_pathRel_cases root root hr hr with ⟨_, hrel⟩ | ⟨d, tl, _, e, _⟩ | ⟨hout, _⟩
  · rw [hrel]; exact bn_splitRel_dot _
  · exfalso
    have := congrArg List.length e
    simp only [List.length_append, List.length_cons] at this
    omega
  · exact absurd (List.prefix_refl _) hout

/-- a path under the root whose first component is not a stored directory name does not belong -/
theorem C18_not_in_bundle_dir (b : Bundle) (root p : Str) (d : Seg) (tl : List Seg)
    (hr : AbsClean root) (hp : AbsClean p) (hroot : b.root = root)
    (hsegs : pathSegs p = pathSegs root ++ d :: tl) (hnot : ∀ e ∈ b.pkgDirs, e.2 ≠ d) :
    splitLocalPath b p = none := by
  rw [bn_splitLocalPath_eq, hroot]
  have hany : b.pkgDirs.any (fun e => e.2 = d) = false := by
    simp only [List.any_eq_false, decide_eq_true_eq]
    exact hnot
  rcases bn_pathRel_cases root p hr hp with ⟨e, _⟩ | ⟨d', tl', hn, e, hrel⟩ | ⟨hout, _⟩
  · exfalso
    have := congrArg List.length hsegs
    rw [e] at this
    simp only [List.length_append, List.length_cons] at this
    omega
  · rw [hsegs] at e
    have e' := List.append_cancel_left e
    simp only [List.cons.injEq] at e'
    rw [hrel]
    simp only
    rw [bn_splitRel_names _ d' tl' hn, ← e'.1, hany]
    rfl
  · exact absurd ⟨d :: tl, hsegs.symm⟩ hout

/-! ## non-vacuity: a concrete manifest, the bundle it opens to, and the lookups on it -/

/-- an oracle that accepts every string and returns it as its own canonical form -/
def bnDemoOracle : BundleOracle :=
  { parsePkg := fun s => some s, parseRegPkg := fun s => some s, parseVer := fun s => some s,
    parseRemoteSrc := fun s => some (s, []) }

def bnDemoManifest : Manifest :=
  { format := 1,
    packages :=
      [{ source := "git::https://example.com/a.git".toList, localDir := "d1".toList,
         commit := "abc".toList, msg := "m".toList },
       { source := "git::https://example.com/b.git".toList, localDir := "d2".toList,
         commit := [], msg := [] }],
    registry :=
      [{ source := "example.com/ns/mod/aws".toList,
         versions := [{ ver := "1.0.0".toList, source := "git::https://example.com/a.git".toList,
                        deprecated := false, reason := [], link := [] }] }] }

def bnDemoBundle : Bundle :=
  { root := "/b".toList,
    pkgDirs := [("git::https://example.com/b.git".toList, "d2".toList),
                ("git::https://example.com/a.git".toList, "d1".toList)],
    pkgMeta := [("git::https://example.com/a.git".toList, ("abc".toList, "m".toList))],
    regSources := [(("example.com/ns/mod/aws".toList, "1.0.0".toList),
                    ("git::https://example.com/a.git".toList, []))],
    regDeprec := [(("example.com/ns/mod/aws".toList, "1.0.0".toList), none)] }

theorem bnDemo_open : openDir bnDemoOracle "/b".toList bnDemoManifest = some bnDemoBundle := by rfl

theorem bnDemo_root : AbsClean "/b".toList := ⟨by decide, by decide⟩

/-- one bad row — here appended after two good ones — and the manifest is refused -/
example : (openDir bnDemoOracle "/b".toList
    { bnDemoManifest with packages := bnDemoManifest.packages ++
        [{ source := "x".toList, localDir := "../x".toList, commit := [], msg := [] }] }).isSome = false := by
  decide
example : (openDir bnDemoOracle "/b".toList
    { bnDemoManifest with packages :=
        [{ source := "x".toList, localDir := "..".toList, commit := [], msg := [] }] }).isSome = false := by
  decide

/-- the hypotheses of the theorems are met by the demo bundle -/
example : NameNS "d1".toList := C18_dirs_valid _ _ _ _ bnDemo_open "git::https://example.com/a.git".toList _ (by decide)
example : ValidSub "sub/x".toList := Or.inr ⟨by decide, by decide⟩
example : localPathForRemote bnDemoBundle "git::https://example.com/a.git".toList "sub/x".toList
    = some "/b/d1/sub/x".toList := by decide
example : localPathForRegistry bnDemoBundle "example.com/ns/mod/aws".toList "1.0.0".toList
    "modules/m".toList = some "/b/d1/modules/m".toList := by decide
example : isWithin "/b".toList "/b/d1/sub/x".toList = true ∧ "/b/d1/sub/x".toList ≠ "/b".toList :=
  C18_inside bnDemoOracle _ _ _ "git::https://example.com/a.git".toList "sub/x".toList _
    bnDemo_root bnDemo_open (by decide) (Or.inr ⟨by decide, by decide⟩)
example : isWithin "/b".toList "/b/d1/modules/m".toList = true ∧ "/b/d1/modules/m".toList ≠ "/b".toList :=
  C18_inside_registry bnDemoOracle _ _ _ "example.com/ns/mod/aws".toList "1.0.0".toList
    "modules/m".toList _ bnDemo_root bnDemo_open
    (by
      intro k pk s h
      have hm := bn_aget_mem _ _ _ h
      simp only [bnDemoBundle, List.mem_singleton, Prod.mk.injEq] at hm
      exact Or.inl hm.2.2)
    (by decide) (Or.inr ⟨by decide, by decide⟩)

/-- both directions of the translation, and the three ways of not belonging -/
example : splitLocalPath bnDemoBundle "/b/d1/sub/x".toList = some ("d1".toList, "sub/x".toList) := by decide
example : splitLocalPath bnDemoBundle "/b/d1".toList = some ("d1".toList, []) := by decide
example : pathJoin3 "/b".toList "d1".toList "sub/x".toList = "/b/d1/sub/x".toList := by decide
example : splitLocalPath bnDemoBundle "/b".toList = none := by decide
example : splitLocalPath bnDemoBundle "/c/d1".toList = none := by decide
example : splitLocalPath bnDemoBundle "/bb/d1".toList = none := by decide
example : isWithin "/b".toList "/bb/d1".toList = false := by decide
example : splitLocalPath bnDemoBundle "/b/zz/x".toList = none := by decide

end Slug
