import SlugModel.Lemmas.TrEq_validSymlink
import SlugModel.Lemmas.TrEq_allowedSymlinkTarget
/-!
# C05 (tie by translation)

Tie by translation: the model function the theorems of this property are stated over equals the Lean
translation of the Go function, regenerated from /repo on every run (harness/cmd/go2lean); a change of
the Go function changes the translated definition and this proof obligation no longer checks.

An error result of the Go function is read as `(zero value, true)`, a normal one as `(value, false)`.
-/
namespace Slug

/-- **C05_tie_validSymlink.** The model's `validSymlink` is the translated `validSymlink` (slug.go). -/
theorem C05_tie_validSymlink (cwd : Str) (allow : List Str) (root path target : Str) :
    Gen.validSymlink cwd allow root path target =
      (validSymlink cwd allow root path target, !validSymlink cwd allow root path target) :=
  gen_validSymlink cwd allow root path target

/-- **C05_tie_allowedSymlinkTarget.** The model's `allowedTarget` is the translated `allowedSymlinkTarget` (slug.go). -/
theorem C05_tie_allowedSymlinkTarget (allow : List Str) (r t : Str) :
    Gen.allowedSymlinkTarget allow r t = allowedTarget allow r t :=
  gen_allowedSymlinkTarget allow r t

end Slug
