import SlugModel.Lemmas.PackInv
/-!
# C05 — Pack never leaks outside content and never stores an out-of-tree link as a link

Property theorems only; helper lemmas live in `Lemmas/PackInv`.
`pack`, `walkNode`, `walkChildren`, `visit` (Pack.lean) model `Packer.Pack`, `filepath.Walk` and
`packWalkFn`; `validSymlink` (Unpack.lean) is the code's `validSymlink` with the allow-list.
`pkRoot fs cwd src` is the absolute source path the walk is started with (`filepath.Abs` of the
argument, or of the target of the argument when that is a symlink): it is the first of the three
path arguments `root/src/dst` of `packWalkFn` and stays fixed through the whole recursion (the
nested walk into a dereferenced directory changes `src` and `dst` only).

The clause of C05 about Unpack accepting what Pack produced is not treated in this file; here:
links and bodies.
-/
namespace Slug

/-- **C05_link_entries_validated.** Every symlink entry `Pack` wrote — whatever it returned — is
the target of a symlink that exists on disk at some `path`, and `validSymlink(root, path, target)`
accepted it there: the target is inside the source root or under an allow-listed prefix.  No link
is stored on any other ground. -/
theorem C05_link_entries_validated (fs : FS) (cwd : Str) (o : PackOpts) (src : Str) :
    ∀ e ∈ (pack fs cwd o src).1.entries, e.isSymlink = true →
      ∃ path, fs.lstat path = .ok (.link e.link) ∧
        validSymlink cwd o.allow (pkRoot fs cwd src) path e.link = true :=
  (pk_pack_emits fs cwd o src).linksOK (by intro e he; cases he)

section
variable (fs : FS) (cwd : Str) (o : PackOpts) (rules : Option (List Rule)) (root src dst : Str)

/-- **C05_link_entries_validated_walk.** The invariant behind it, for a fixed `cwd`, options and
`root`: the three walk functions preserve "every symlink entry was validated" for every fuel and
every `src`/`dst` (`node` is what `Lstat(path)` returned, as at every call site). -/
theorem C05_link_entries_validated_walk (fuel : Nat) (path : Str) (node : Node) (names : List Str)
    (st : PState) (hl : fs.lstat path = .ok node) (hm : PackLinksOK fs cwd o root st) :
    PackLinksOK fs cwd o root (walkNode fs cwd o rules root src dst fuel path node st).1 ∧
    PackLinksOK fs cwd o root (walkChildren fs cwd o rules root src dst fuel path names st).1 ∧
    PackLinksOK fs cwd o root (visit fs cwd o rules root src dst fuel path node st).1 :=
  have h := pk_walk_emits fs cwd o rules root fuel
  ⟨(h.1 src dst path node st hl).linksOK hm, (h.2.1 src dst path names st).linksOK hm,
   (h.2.2 src dst path node st hl).linksOK hm⟩

/-- **C05_no_deref_illegal.** The callback on a symlink that is not excluded by the ignore rules
and is not the root (the hypotheses are the branch conditions of `packWalkFn`; since the repair of
finding F43 the rules are matched against the archive path `sub`, not against `sub0`), whose
target fails `validSymlink`, with dereferencing off: the illegal-slug error, and nothing is
written. -/
theorem C05_no_deref_illegal (fuel : Nat) (path target sub0 sub : Str) (st : PState)
    (h1 : pathRel src path = some sub0) (h2 : sub0 ≠ dot)
    (h4 : pathRel root (replaceFirst path src dst) = some sub) (h5 : sub ≠ dot)
    (h3 : (ruleExcludes rules sub).1 = false)
    (hv : validSymlink cwd o.allow root path target = false) (hd : o.dereference = false) :
    visit fs cwd o rules root src dst (fuel + 1) path (.link target) st = (st, .stop .illegal) :=
  pk_visit_link_illegal fs cwd o rules root src dst fuel path target sub0 sub st h1 h2 h4 h5 h3 hv hd

/-- **C05_stop_propagates.** A `stop x` travels up unchanged: from the callback through
`walkNode`, from a child through the loop over a directory (earlier children that returned
`cont` just hand their state on), so whatever stopped the walk is what `Pack` returns. -/
theorem C05_stop_propagates (fuel : Nat) (path name : Str) (rest : List Str) (node child : Node)
    (st st' : PState) (x : PResult) :
    (visit fs cwd o rules root src dst fuel path node st = (st', .stop x) →
      walkNode fs cwd o rules root src dst (fuel + 1) path node st = (st', .stop x)) ∧
    (fs.lstat (pathJoin path name) = .ok child →
      walkNode fs cwd o rules root src dst fuel (pathJoin path name) child st = (st', .stop x) →
      walkChildren fs cwd o rules root src dst (fuel + 1) path (name :: rest) st = (st', .stop x)) ∧
    (fs.lstat (pathJoin path name) = .ok child →
      walkNode fs cwd o rules root src dst fuel (pathJoin path name) child st = (st', .cont) →
      walkChildren fs cwd o rules root src dst (fuel + 1) path (name :: rest) st =
        walkChildren fs cwd o rules root src dst fuel path rest st') :=
  ⟨pk_walkNode_stop_of_visit fs cwd o rules root src dst fuel path node st st' x,
   pk_walkChildren_stop_of_child fs cwd o rules root src dst fuel path name rest child st st' x,
   pk_walkChildren_cont_of_child fs cwd o rules root src dst fuel path name rest child st st'⟩

end

/-- the last step of the lift: a `stop x` of the top-level `walkNode` is the result of `Pack` -/
theorem C05_stop_is_result (fs : FS) (cwd : Str) (o : PackOpts) (src : Str) (info n : Node) (st : PState)
    (x : PResult) (hi : pkRootInfo fs cwd src = .ok info) (hn : fs.lstat (pkRoot fs cwd src) = .ok n)
    (h : walkNode fs cwd o (pkRules fs cwd o src) (pkRoot fs cwd src) (pkRoot fs cwd src) (pkRoot fs cwd src)
      packFuel (pkRoot fs cwd src) n pkEmpty = (st, .stop x)) :
    pack fs cwd o src = (st, x) :=
  pk_pack_stop fs cwd o src info n st x hi hn h

/-- **C05_illegal_cause.** Conversely, `Pack` returns the illegal-slug error for one reason only:
dereferencing is off and a symlink on disk failed `validSymlink`. -/
theorem C05_illegal_cause (fs : FS) (cwd : Str) (o : PackOpts) (src : Str)
    (h : (pack fs cwd o src).2 = .illegal) :
    o.dereference = false ∧ ∃ path target, fs.lstat path = .ok (.link target) ∧
      validSymlink cwd o.allow (pkRoot fs cwd src) path target = false :=
  pk_pack_illegal fs cwd o src h

/-- **C05_bodies_from_fs.** Every regular entry's body is the content of a regular file of the
filesystem: `Pack` invents no content. -/
theorem C05_bodies_from_fs (fs : FS) (cwd : Str) (o : PackOpts) (src : Str) :
    ∀ e ∈ (pack fs cwd o src).1.entries, e.isRegular = true →
      ∃ p perm mt, fs.lookup p = some (.file perm mt e.body) :=
  (pk_pack_emits fs cwd o src).bodiesOK (by intro e he; cases he)

/-- the walk form of `C05_bodies_from_fs` -/
theorem C05_bodies_from_fs_walk (fs : FS) (cwd : Str) (o : PackOpts) (rules : Option (List Rule))
    (root src dst : Str) (fuel : Nat) (path : Str) (node : Node) (names : List Str)
    (st : PState) (hl : fs.lstat path = .ok node) (hm : PackBodiesOK fs st) :
    PackBodiesOK fs (walkNode fs cwd o rules root src dst fuel path node st).1 ∧
    PackBodiesOK fs (walkChildren fs cwd o rules root src dst fuel path names st).1 ∧
    PackBodiesOK fs (visit fs cwd o rules root src dst fuel path node st).1 :=
  have h := pk_walk_emits fs cwd o rules root fuel
  ⟨(h.1 src dst path node st hl).bodiesOK hm, (h.2.1 src dst path names st).bodiesOK hm,
   (h.2.2 src dst path node st hl).bodiesOK hm⟩

/-- **C05_bodies_direct.** With dereferencing off no body is fetched through a link: every
regular entry is a regular file that `Lstat` — which does not follow a final symlink — saw at a
path of the walk (`resolveExternalLink` and `os.Open` on a link are never reached). -/
theorem C05_bodies_direct (fs : FS) (cwd : Str) (o : PackOpts) (src : Str)
    (hd : o.dereference = false) :
    ∀ e ∈ (pack fs cwd o src).1.entries, e.isRegular = true →
      ∃ path perm mt, fs.lstat path = .ok (.file perm mt e.body) :=
  (pk_pack_emits fs cwd o src).bodiesDirect hd (by intro e he; cases he)

/-- **C05_bodies_inside_partial.** With dereferencing off every body comes from inside the source
directory: each regular entry is a regular file at an absolute clean path `path` with
`isWithin(root, path)` — the separator-aware containment test of the code — that `Lstat` reports
as a regular file (so its last component is not a link either).  Hypotheses: the working directory
is absolute, and directory entries are plain names (`PackNamesOK`: no `/`, not empty, not `.` or
`..` — true of every real filesystem, not of every value of the model type `FS`).
Partial: lexical containment of the *walk path*; that no directory component of the walk path is a
link is `filepath.Walk`'s contract (it does not descend into symlinks) and is not restated here. -/
theorem C05_bodies_inside_partial (fs : FS) (cwd : Str) (o : PackOpts) (src : Str)
    (hd : o.dereference = false) (hfs : PackNamesOK fs) (hcwd : isAbs cwd = true) :
    ∀ e ∈ (pack fs cwd o src).1.entries, e.isRegular = true →
      ∃ path perm mt, fs.lstat path = .ok (.file perm mt e.body) ∧ AbsClean path ∧
        isWithin (pkRoot fs cwd src) path = true := by
  obtain ⟨L, hL, hst⟩ := pk_pack_emits_below fs cwd o src hfs hd hcwd
  intro e he hr
  rw [hst] at he
  rcases pkExtend_entries_mem he with h | ⟨k, hk⟩
  · cases h
  · obtain ⟨path, perm, mt, hg, hl⟩ := (hL _ hk).bodyBelow hd hr
    exact ⟨path, perm, mt, hl, hg.1,
      (isWithin_iff _ _ (pk_root_absClean fs cwd src hcwd) hg.1).2 hg.2⟩

/-! ## non-vacuity -/

/-- `/t/src` with a file, an in-tree link `in -> a` and an out-of-tree link `out -> /t/ext/s` -/
def c05fs : FS := [
  (["t".toList], .dir 0o755 0),
  (["t".toList, "src".toList], .dir 0o755 0),
  (["t".toList, "src".toList, "a".toList], .file 0o644 0 "hi".toList),
  (["t".toList, "src".toList, "in".toList], .link "a".toList),
  (["t".toList, "src".toList, "out".toList], .link "/t/ext/s".toList),
  (["t".toList, "ext".toList], .dir 0o755 0),
  (["t".toList, "ext".toList, "s".toList], .file 0o600 0 "secret".toList)]

def c05root : Str := "/t/src".toList

example : PackNamesOK c05fs := by unfold PackNamesOK NameNS Plain; decide

/-- dereferencing off: `a` and the in-tree link are written, then the out-of-tree link stops Pack
with the illegal-slug error -/
example :
    (pack c05fs "/".toList ⟨false, false, [], []⟩ c05root).2 = .illegal ∧
    (pack c05fs "/".toList ⟨false, false, [], []⟩ c05root).1.pmeta.files = ["a".toList, "in".toList] := by
  decide

/-- the branch hypotheses of `C05_no_deref_illegal` are met at `/t/src/out` -/
example :
    pathRel c05root "/t/src/out".toList = some "out".toList ∧
    validSymlink "/".toList [] c05root "/t/src/out".toList "/t/ext/s".toList = false ∧
    validSymlink "/".toList [] c05root "/t/src/in".toList "a".toList = true := by decide

/-- allow-listing the target's directory stores the link as a link -/
example :
    (pack c05fs "/".toList ⟨false, false, ["/t/ext".toList], []⟩ c05root).2 = .ok ∧
    (pack c05fs "/".toList ⟨false, false, ["/t/ext".toList], []⟩ c05root).1.entries.map (·.link) =
      [[], "a".toList, "/t/ext/s".toList] := by decide

/-- dereferencing on: the out-of-tree link is replaced by a copy of its referent -/
example :
    (pack c05fs "/".toList ⟨true, false, [], []⟩ c05root).2 = .ok ∧
    (pack c05fs "/".toList ⟨true, false, [], []⟩ c05root).1.entries.map (fun e => (e.name, e.typ, e.body)) =
      [("a".toList, tReg, "hi".toList), ("in".toList, tSymlink, []), ("out".toList, tReg, "secret".toList)] := by
  decide

end Slug
