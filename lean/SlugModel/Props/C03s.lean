import SlugModel.Lemmas.ProcessState
/-!
# C03 (process-level state) — the functions the theorems are stated over are functions of their arguments

The theorems of this property are stated over pure model functions; that the real functions keep nothing
between calls is tied by the lanes' call histories (and the fresh-process comparison of the pack-spelling
lane) and by this regenerated fact: the package-level variables of the source are the known read-only
tables, or values immutable by construction (Lemmas/ProcessState.lean).  A new package-level cache, map,
`sync.Once` or counter changes `Generated.packageVars` and this obligation no longer checks.
-/
namespace Slug

/-- **C03_no_new_process_state.** Every package-level variable of the source is a known read-only table or of
an immutable kind (regenerated on every run). -/
theorem C03_no_new_process_state : Generated.packageVars.all harmlessVar = true := no_new_process_state

end Slug
