import SlugModel.Lemmas.PackInv
/-!
# C20 — the metadata Pack returns describes the slug it wrote

Property theorems only; helper lemmas live in `Lemmas/PackInv`.
`pack`, `walkNode`, `walkChildren`, `visit` (Pack.lean) are the model of `Packer.Pack`,
`filepath.Walk` and `packWalkFn` (tied to the code by the `pack` lane).  `PState.entries` is the
list of entries handed to the tar writer in emission order, `PState.pmeta` the `Meta` value.
The statements are about the state component of the result whatever the result is — success, an
error, or fuel exhaustion — so they also describe what had been accounted when Pack failed.
-/
namespace Slug

/-- **C20_meta.** For every filesystem, working directory, option set and source argument, and
whatever `Pack` returns: the file list in the metadata is the list of entry names in emission
order, and the size is the number of content bytes (`len` of the UTF-8 body) of the regular
entries — plain files and files copied in by dereferencing alike. -/
theorem C20_meta (fs : FS) (cwd : Str) (o : PackOpts) (src : Str) :
    (pack fs cwd o src).1.pmeta.files = (pack fs cwd o src).1.entries.map (·.name) ∧
    (pack fs cwd o src).1.pmeta.size =
      ((pack fs cwd o src).1.entries.filter (·.isRegular)).foldl (fun n e => n + utf8Len e.body) 0 := by
  have h := (pk_pack_emits fs cwd o src).metaOK packMetaOK_empty
  exact ⟨h.1, by rw [h.2, pk_sum_bytes]⟩

/-- the same with the size as a sum -/
theorem C20_meta_sum (fs : FS) (cwd : Str) (o : PackOpts) (src : Str) :
    (pack fs cwd o src).1.pmeta.size =
      (((pack fs cwd o src).1.entries.filter (·.isRegular)).map (fun e => utf8Len e.body)).sum := by
  rw [(C20_meta fs cwd o src).2]
  generalize ((pack fs cwd o src).1.entries.filter (·.isRegular)) = l
  suffices h : ∀ acc, l.foldl (fun n e => n + utf8Len e.body) acc = acc + (l.map (fun e => utf8Len e.body)).sum by
    simpa using h 0
  induction l with
  | nil => intro acc; simp
  | cons e l ih => intro acc; simp [ih, Nat.add_assoc]

section
variable (fs : FS) (cwd : Str) (o : PackOpts) (rules : Option (List Rule)) (root src dst : Str)

/-- **C20_meta_walk.** The invariant behind `C20_meta`: each of the three walk functions keeps
"the metadata describes the entry list" (`PackMetaOK`), for every fuel, from every state.  `node`
is what `Lstat(path)` returned, as at every call site. -/
theorem C20_meta_walk (fuel : Nat) (path : Str) (node : Node) (names : List Str) (st : PState)
    (hl : fs.lstat path = .ok node) (hm : PackMetaOK st) :
    PackMetaOK (walkNode fs cwd o rules root src dst fuel path node st).1 ∧
    PackMetaOK (walkChildren fs cwd o rules root src dst fuel path names st).1 ∧
    PackMetaOK (visit fs cwd o rules root src dst fuel path node st).1 :=
  have h := pk_walk_emits fs cwd o rules root fuel
  ⟨(h.1 src dst path node st hl).metaOK hm, (h.2.1 src dst path names st).metaOK hm,
   (h.2.2 src dst path node st hl).metaOK hm⟩

/-- **C20_entries_only_grow.** The walk functions only append: the entry list of the state they
return extends the one they were given (no hypothesis on the arguments). -/
theorem C20_entries_only_grow (fuel : Nat) (path : Str) (node : Node) (names : List Str) (st : PState) :
    (∃ suffix, (walkNode fs cwd o rules root src dst fuel path node st).1.entries = st.entries ++ suffix) ∧
    (∃ suffix, (walkChildren fs cwd o rules root src dst fuel path names st).1.entries = st.entries ++ suffix) ∧
    (∃ suffix, (visit fs cwd o rules root src dst fuel path node st).1.entries = st.entries ++ suffix) :=
  have h := pk_walk_grows fs cwd o rules root fuel
  ⟨h.1 src dst path node st, h.2.1 src dst path names st, h.2.2 src dst path node st⟩

end

/-! ## non-vacuity and a finding -/

/-- `/t/lnk -> /u/v`, the source `/u/v/src` holds a file `b` and a relative link `f -> ../../x/g`;
`/t/x/g` (mode 0644, mtime 0) is where the link points when resolved against the *spelling*
`/t/lnk/src`, `/u/x/g` (mode 0600, mtime 5 s) where the kernel takes it -/
def c20fs : FS := [
  (["t".toList], .dir 0o755 0),
  (["t".toList, "lnk".toList], .link "/u/v".toList),
  (["t".toList, "x".toList], .dir 0o755 0),
  (["t".toList, "x".toList, "g".toList], .file 0o644 0 "AA".toList),
  (["u".toList], .dir 0o755 0),
  (["u".toList, "v".toList], .dir 0o755 0),
  (["u".toList, "v".toList, "src".toList], .dir 0o755 0),
  (["u".toList, "v".toList, "src".toList, "d".toList], .dir 0o700 0),
  (["u".toList, "v".toList, "src".toList, "f".toList], .link "../../x/g".toList),
  (["u".toList, "v".toList, "src".toList, "b".toList], .file 0o644 0 "héllo".toList),
  (["u".toList, "x".toList], .dir 0o755 0),
  (["u".toList, "x".toList, "g".toList], .file 0o600 5000000000 "BB".toList)]

/-- a run with a directory, a plain file (6 bytes: `é` is two) and a dereferenced file (2 bytes) -/
example :
    (pack c20fs "/".toList ⟨true, false, [], []⟩ "/t/lnk/src".toList).2 = .ok ∧
    (pack c20fs "/".toList ⟨true, false, [], []⟩ "/t/lnk/src".toList).1.pmeta =
      ⟨["b".toList, "d/".toList, "f".toList], 8⟩ := by decide

/-- without dereferencing the same tree is refused, after `b` and `d/` were written: the metadata
accounted so far still matches (`C20_meta` covers failing runs) -/
example :
    (pack c20fs "/".toList ⟨false, false, [], []⟩ "/t/lnk/src".toList).2 = .illegal ∧
    (pack c20fs "/".toList ⟨false, false, [], []⟩ "/t/lnk/src".toList).1.pmeta =
      ⟨["b".toList, "d/".toList], 6⟩ := by decide

/-- **C20_deref_header_body_may_differ** (finding).  `resolveExternalLink` resolves a relative
link lexically against the spelling of the walk path (`filepath.Join(filepath.Dir(path), target)`)
and takes the header (size, mode, time) from there; the body is read with `os.Open(path)`, which
the kernel resolves physically.  Below a symlinked directory component these are two files: the
entry `f` carries mode 0644 / mtime 0 of `/t/x/g` and the bytes `BB` of `/u/x/g` (mode 0600,
mtime 5 s).  The sizes agree here, so the archive is well-formed and `C20_meta` holds; when they
differ the tar writer fails and Pack returns an error. -/
theorem C20_deref_header_body_may_differ :
    (pack c20fs "/".toList ⟨true, false, [], []⟩ "/t/lnk/src".toList).1.entries.getLast? =
      some ⟨"f".toList, tReg, 0o644, 0, [], "BB".toList⟩ ∧
    (c20fs.lstat "/t/x/g".toList).toOption = some (.file 0o644 0 "AA".toList) ∧
    (c20fs.stat "/t/lnk/src/f".toList).toOption =
      some (["u".toList, "x".toList, "g".toList], .file 0o600 5000000000 "BB".toList) := by
  decide

end Slug
