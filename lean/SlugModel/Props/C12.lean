import SlugModel.Lemmas.UnpackBasic
/-!
# C12 (Unpack part) — reader failures are reported, policy rejections are distinguishable,
a successful Unpack has materialised the whole archive

Property theorems only; helper lemmas live in `Lemmas/UnpackBasic`.
`unpackEntry`, `unpackLoop`, `restoreDirs`, `unpack` (Unpack.lean) are the model of
`Packer.Unpack` (tied to the code by the `unpack` lane).  A `Fault` says where the input reader
fails: `.header k` = `Next()` fails when asked for entry `k` (`k = es.length`: when asked for the
end of the archive), `.body k n` = the body of entry `k` fails after `n` bytes.  `UResult.illegal`
is `*IllegalSlugError`, `UResult.ioerr` any other error: the two are different constructors, so a
policy rejection is distinguishable from a failed read or write by construction.
-/
namespace Slug

section
variable (cwd : Str) (allow : List Str) (priv : Bool) (dst : Str)

/-- **C12_unpack_ok_complete.** Whatever the reader fault, an `Unpack` that returns success has
done everything the fault-free run does: same filesystem, same (successful) result. -/
theorem C12_unpack_ok_complete (fault : Fault) (fs fs' : FS) (es : List Entry)
    (h : unpack cwd allow priv dst fault fs es = (fs', .ok)) :
    unpack cwd allow priv dst .none fs es = (fs', .ok) := by
  obtain ⟨st, hl, hr⟩ := (unpack_ok_iff cwd allow priv dst fault fs fs' es).1 h
  exact (unpack_ok_iff cwd allow priv dst .none fs fs' es).2
    ⟨st, unpackLoop_fault_same cwd allow priv dst fault 0 _ st es none (Or.inl rfl) hl, hr⟩

/-- **C12_unpack_header_fault_reported.** A failing `Next()` anywhere in the archive, including
at its end, makes `Unpack` return an error. -/
theorem C12_unpack_header_fault_reported (k : Nat) (fs : FS) (es : List Entry)
    (hk : k ≤ es.length) :
    (unpack cwd allow priv dst (.header k) fs es).2 ≠ .ok := by
  obtain ⟨r, hr⟩ := unpackLoop_header cwd allow priv dst k 0 { fs := fs, dirs := [] } es
    (Nat.zero_le _) (by omega)
  exact unpack_ne_ok_of_loop_some cwd allow priv dst hr

/-- **C12_unpack_body_fault_reported.** If the loop reaches entry `k` (the fault-free run over
the entries before it continues), and entry `k` is a named regular file, then a reader failure
anywhere inside its body — after any number `n` of delivered bytes — makes `Unpack` return an
error. -/
theorem C12_unpack_body_fault_reported (k n : Nat) (fs : FS) (es : List Entry) (st : UState)
    (e : Entry)
    (hreach : unpackLoop cwd allow priv dst .none 0 { fs := fs, dirs := [] } (es.take k) = (st, none))
    (hk : es[k]? = some e) (hn : e.name ≠ []) (hreg : e.isRegular = true) :
    (unpack cwd allow priv dst (.body k n) fs es).2 ≠ .ok := by
  obtain ⟨r, hr⟩ := unpackLoop_body cwd allow priv dst n e hn hreg es k 0 _ st hreach hk
  rw [Nat.zero_add] at hr
  exact unpack_ne_ok_of_loop_some cwd allow priv dst hr

/-- the loop under a body fault at entry `k` is the fault-free loop on the entries before `k` -/
theorem C12_body_fault_prefix (k n idx : Nat) (st : UState) (es : List Entry)
    (h : idx + es.length ≤ k) :
    unpackLoop cwd allow priv dst (.body k n) idx st es =
      unpackLoop cwd allow priv dst .none idx st es := by
  induction es generalizing idx st with
  | nil => rw [unpackLoop_nil, unpackLoop_nil]
  | cons x rest ih =>
    simp only [List.length_cons] at h
    have hfb : faultBody (.body k n) idx x = faultBody .none idx x := by
      simp only [faultBody]; rw [if_neg (by omega)]
    rw [unpackLoop_cons, unpackLoop_cons, if_neg (by simp), if_neg (by simp), hfb]
    rcases unpackEntry cwd allow priv dst st x (faultBody .none idx x).1 (faultBody .none idx x).2
      with ⟨st1, _ | r⟩
    · exact ih _ _ (by omega)
    · rfl

/-- **C12_fault_never_illegal.** A reader fault is never turned into a policy rejection: if a
faulty run reports an illegal slug, the fault-free run reports an illegal slug too (at the same
entry, leaving the same filesystem: `C12_fault_illegal_same`). -/
theorem C12_fault_never_illegal (fault : Fault) (fs : FS) (es : List Entry)
    (h : (unpack cwd allow priv dst fault fs es).2 = .illegal) :
    (unpack cwd allow priv dst .none fs es).2 = .illegal := by
  obtain ⟨st, hl⟩ := (unpack_illegal_iff cwd allow priv dst fault fs es).1 h
  exact (unpack_illegal_iff cwd allow priv dst .none fs es).2
    ⟨st, unpackLoop_fault_same cwd allow priv dst fault 0 _ st es _ (Or.inr rfl) hl⟩

theorem C12_fault_illegal_same (fault : Fault) (fs : FS) (es : List Entry)
    (h : (unpack cwd allow priv dst fault fs es).2 = .illegal) :
    unpack cwd allow priv dst .none fs es = unpack cwd allow priv dst fault fs es := by
  obtain ⟨st, hl⟩ := (unpack_illegal_iff cwd allow priv dst fault fs es).1 h
  rw [unpack_of_loop_some cwd allow priv dst hl, unpack_of_loop_some cwd allow priv dst
    (unpackLoop_fault_same cwd allow priv dst fault 0 _ st es _ (Or.inr rfl) hl)]

/-- **C12_illegal_step.** The only ways one entry produces the illegal-slug error: it is named,
and either `NewUnpackInfo` refused it, or it is a symlink entry for which `filepath.Rel` failed or
the link test of `Unpack` (`unpackLinkOK`: `validSymlink`, and an absolute target only when
allow-listed) said no; `C12_link_refusal_causes` takes that test apart. -/
theorem C12_illegal_step (st : UState) (e : Entry) (body : Str) (be : Bool)
    (h : (unpackEntry cwd allow priv dst st e body be).2 = some .illegal) :
    e.name ≠ [] ∧
    (newUnpackInfo st.fs dst e = none ∨
     (e.isSymlink = true ∧ ∀ path, newUnpackInfo st.fs dst e = some path →
        (pathRel dst path = none ∨
         ∃ ln, pathRel dst path = some ln ∧ unpackLinkOK cwd allow dst ln e.link = false))) :=
  unpackEntry_illegal_cause cwd allow priv dst st e body be h

/-- **C12_link_refusal_causes.** The link test of `Unpack` fails for one of two reasons:
`validSymlink` said no, or the target is absolute and not allow-listed. -/
theorem C12_link_refusal_causes (ln t : Str) (h : unpackLinkOK cwd allow dst ln t = false) :
    validSymlink cwd allow dst ln t = false ∨
      (isAbs t = true ∧ allowedTarget allow (pathAbs cwd dst) (pathClean t) = false) :=
  unpackLinkOK_false h

/-- **C12_illegal_has_culprit.** An illegal-slug result of `Unpack` has a culprit: a named entry
of the archive which, examined in the state the loop reached after the entries before it, was
refused by `NewUnpackInfo`, or is a symlink entry whose `filepath.Rel` failed or whose
link test (`unpackLinkOK`) said no. -/
theorem C12_illegal_has_culprit (fs : FS) (es : List Entry)
    (h : (unpack cwd allow priv dst .none fs es).2 = .illegal) :
    ∃ e ∈ es, e.name ≠ [] ∧ ∃ pre post st,
      es = pre ++ e :: post ∧
      unpackLoop cwd allow priv dst .none 0 { fs := fs, dirs := [] } pre = (st, none) ∧
      (newUnpackInfo st.fs dst e = none ∨
       (e.isSymlink = true ∧ ∀ path, newUnpackInfo st.fs dst e = some path →
          (pathRel dst path = none ∨
           ∃ ln, pathRel dst path = some ln ∧ unpackLinkOK cwd allow dst ln e.link = false))) := by
  obtain ⟨st', hl⟩ := (unpack_illegal_iff cwd allow priv dst .none fs es).1 h
  obtain ⟨pre, e, post, st, hes, hpre, hstep⟩ :=
    unpackLoop_illegal_culprit cwd allow priv dst 0 _ st' es hl
  have hc := unpackEntry_illegal_cause cwd allow priv dst st e e.body false (by rw [hstep])
  exact ⟨e, by rw [hes]; simp, hc.1, pre, post, st, hes, hpre, hc.2⟩

/-- whatever happens, the result is one of the three, and the loop/deferred pass never produce a
premature success: `Unpack` returns `.ok` exactly when the loop ran to the end and the deferred
directory pass completed -/
theorem C12_unpack_ok_iff (fault : Fault) (fs fs' : FS) (es : List Entry) :
    unpack cwd allow priv dst fault fs es = (fs', .ok) ↔
      ∃ st, unpackLoop cwd allow priv dst fault 0 { fs := fs, dirs := [] } es = (st, none) ∧
        restoreDirs st.fs st.dirs = (fs', none) :=
  unpack_ok_iff cwd allow priv dst fault fs fs' es

end

/-! ## non-vacuity -/

/-- `/t/dst` exists and is empty -/
def c12fs : FS := [(["t".toList], .dir 0o755 0), (["t".toList, "dst".toList], .dir 0o755 0)]
def c12dst : Str := "/t/dst".toList

def c12dir : Entry := ⟨"d".toList, tDir, 0o755, 7, [], []⟩
def c12file : Entry := ⟨"d/f".toList, tReg, 0o644, 5, [], "hello".toList⟩
def c12link : Entry := ⟨"l".toList, tSymlink, 0o777, 5, "d/f".toList, []⟩
def c12escLink : Entry := ⟨"bad".toList, tSymlink, 0o777, 5, "../../etcx".toList, []⟩
def c12escName : Entry := ⟨"../x".toList, tReg, 0o644, 5, [], []⟩

/-- the fault-free run of an ordinary archive succeeds -/
example : (unpack [] [] false c12dst .none c12fs [c12dir, c12file, c12link]).2 = .ok := by decide

/-- header faults at every position, including the end of the archive, are reported; a header
fault past the end is not a fault of this run -/
example : (unpack [] [] false c12dst (.header 0) c12fs [c12dir, c12file, c12link]).2 = .ioerr := by decide
example : (unpack [] [] false c12dst (.header 2) c12fs [c12dir, c12file, c12link]).2 = .ioerr := by decide
example : (unpack [] [] false c12dst (.header 3) c12fs [c12dir, c12file, c12link]).2 = .ioerr := by decide
example : (unpack [] [] false c12dst (.header 4) c12fs [c12dir, c12file, c12link]).2 = .ok := by decide

/-- the hypotheses of `C12_unpack_body_fault_reported` are met: the loop reaches entry 1, a named
regular file; the fault is reported, also when all five bytes were delivered before the failure -/
example : (unpackLoop [] [] false c12dst .none 0 { fs := c12fs, dirs := [] }
    ([c12dir, c12file, c12link].take 1)).2 = none ∧ [c12dir, c12file, c12link][1]? = some c12file ∧
    c12file.name ≠ [] ∧ c12file.isRegular = true := by decide
example : (unpack [] [] false c12dst (.body 1 2) c12fs [c12dir, c12file, c12link]).2 = .ioerr := by decide
example : (unpack [] [] false c12dst (.body 1 5) c12fs [c12dir, c12file, c12link]).2 = .ioerr := by decide
/-- a body fault in an entry without a body (a directory) is not a fault of this run -/
example : (unpack [] [] false c12dst (.body 0 0) c12fs [c12dir, c12file, c12link]).2 = .ok := by decide

/-- both kinds of policy rejection occur, and are reported as illegal slug — also under a later
reader fault (`C12_fault_never_illegal` is not vacuous) -/
example : (unpack [] [] false c12dst .none c12fs [c12dir, c12escLink, c12file]).2 = .illegal := by decide
example : (unpack [] [] false c12dst .none c12fs [c12dir, c12escName, c12file]).2 = .illegal := by decide
example : (unpack [] [] false c12dst (.header 2) c12fs [c12dir, c12escLink, c12file]).2 = .illegal := by
  decide
/-- … while a reader fault before the offending entry is reported as an I/O error -/
example : (unpack [] [] false c12dst (.header 1) c12fs [c12dir, c12escLink, c12file]).2 = .ioerr := by
  decide
/-- the two causes of `C12_illegal_step`, on concrete entries -/
example : newUnpackInfo c12fs c12dst c12escName = none := by decide
example : newUnpackInfo c12fs c12dst c12escLink = some "/t/dst/bad".toList ∧
    pathRel c12dst "/t/dst/bad".toList = some "bad".toList ∧
    validSymlink [] [] c12dst "bad".toList c12escLink.link = false ∧
    unpackLinkOK [] [] c12dst "bad".toList c12escLink.link = false := by decide

/-- the second cause of `C12_link_refusal_causes`: an absolute target inside the destination passes
`validSymlink`, is not allow-listed, and the run reports an illegal slug -/
def c12absLink : Entry := ⟨"abs".toList, tSymlink, 0o777, 5, "/t/dst/d".toList, []⟩
example : validSymlink [] [] c12dst "abs".toList c12absLink.link = true ∧
    unpackLinkOK [] [] c12dst "abs".toList c12absLink.link = false ∧
    (unpack [] [] false c12dst .none c12fs [c12dir, c12absLink, c12file]).2 = .illegal := by decide

end Slug
