import SlugModel.Lemmas.WalkFilter
import SlugModel.Props.C02
import SlugModel.Props.C03
import SlugModel.Props.C10
/-!
# C03 (walk level) — what the ignore rules do to the files of a package

`Props/C03` is about one rule and one rule set (`excludes`).  This file is about the two walks that
consult the rule set: `Packer.Pack` (`pack`, `walkNode`/`walkChildren`/`visit`, Pack.lean) and the
bundle builder's removal walk (`prepWalk`/`prepChildren`/`prepVisit`, `ensurePrepared`,
Sanitise.lean).  Helper lemmas live in `Lemmas/WalkFilter`.

* §1 ignore processing off: nothing is filtered.
* §2 secrecy (`C03_pack_excluded_never_ships_any`): whatever the tree, the rules and the OPTIONS —
  dereferencing included —, no entry of the slug has an excluded name.  No hypothesis on the rules.
  The callback matches the rules against the archive path of a file (the name its entry gets), also
  inside a dereferenced directory: `C03_visit_excluded_emits_nothing`,
  `C03_deref_rules_match_archive_path`.  (Before the repair of finding F43 it matched them against
  the path relative to the link's target there, and the statement needed `dereference = false`;
  that form is kept as `C03_pack_excluded_never_ships`.)
* §3 completeness.  `C03_pack_ships_iff`: for a physical source directory, without dereferencing,
  and for ANY rule set, exactly which nodes ship: those whose own path passes the callback's tests
  (`wfKept`) and none of whose ancestor directories is skipped (`wfPruned`, `wfOpenFrom`).
  `C03_pack_included_ships_partial`: when the rule set is `TailClosed` (the marking invariant
  `MarkedOK` holds for every rule set `Pack` loads) the second condition follows from the first —
  every reachable node whose own path is not excluded is shipped.  `C03_cex_pack_prune_star_tail`:
  without `TailClosed` it is false (rule `foo/*`).  `C03_pack_filter`: the entry list with ignore
  processing on is the entry list of C02 filtered, order and entries unchanged.
* §4 the bundle builder: what is excluded is removed (`C03_bundle_excluded_removed`), but a
  re-included file below an excluded directory is removed too (`C03_cex_bundle_reinclude`,
  `C03_cex_bundle_default_modules`: finding F9; `C03_cex_bundle_dir_pattern_fails`: a rule naming a
  non-empty directory without `/` makes the build fail); `C03_bundle_included_kept_partial` says what
  is kept.

Vocabulary (Lemmas/WalkFilter): `wfStrip name` is `name` without a trailing `/` (directory entries
are named `sub/`); `wfKept rs r nd`: the path `r` (components joined by `/`) is not excluded, nor —
for a directory `nd` — with a trailing `/`; `wfPruned rs q`: `q` is not excluded and `q/` is excluded
with a dominating match (the walk answers `SkipDir`); `wfOpenFrom 1 rs r`: no proper ancestor of `r`
is `wfPruned`; `rtRaw fs P r` (Lemmas/RoundTrip): the node at `P ++ r` when every directory on the way
is a real directory.  Closed examples avoid evaluating `pack` with a rule set by `decide` (the kernel
re-evaluates the lazily threaded state): they instantiate the theorems instead.
-/
namespace Slug

/-! ## 1. ignore processing off -/

/-- **C03_pack_nofilter.** With `applyIgnore = false` the walk runs without a rule set, and without
a rule set no path is excluded and no directory pruned; in the scope of C02 (no dereferencing,
physical source directory, accepted links) the slug then holds exactly the non-special nodes below
the source (`C02_pack_preorder`). -/
theorem C03_pack_nofilter (fs : FS) (cwd : Str) (o : PackOpts) (src : Str) (hoff : o.applyIgnore = false) :
    pkRules fs cwd o src = none ∧
    (∀ p, ruleExcludes none p = (false, false)) ∧
    (C02Scope fs cwd o src →
      (pack fs cwd o src).2 = .ok ∧
      (∀ r, r ∈ (pack fs cwd o src).1.entries.map (fun e => entryRel e.name) ↔
        (srcNode fs (pathSegs src) r).isSome = true) ∧
      (∀ e ∈ (pack fs cwd o src).1.entries, ∃ nd, rtRaw fs (pathSegs src) (entryRel e.name) = some nd ∧
        nd ≠ .special ∧ e = rtEntry (entryRel e.name) nd)) := by
  refine ⟨by unfold pkRules; rw [hoff]; rfl, fun _ => rfl, fun h => ?_⟩
  obtain ⟨h1, _, h3, h4, _⟩ := C02_pack_preorder fs cwd o src h
  exact ⟨h1, h3, h4⟩

/-! ## 2. secrecy: an excluded path never ships -/

/-- **C03_visit_excluded_emits_nothing.** The callback on a node whose ARCHIVE path is excluded —
`sub`, the path relative to `root` after the replacement of `src` by `dst`: the name the entry would
get —: nothing is written, the walk goes on — also into the node's children when it is a directory
(`filepath.Walk` continues; the children are judged on their own paths).  Any options, any
`root`/`src`/`dst`, so also inside a dereferenced directory, where `sub` differs from the path
`sub0` relative to the walk's `src`.  (Finding F43: the unrepaired code tested `sub0`; the statement
then read `(ruleExcludes rules sub0).1 = true`.) -/
theorem C03_visit_excluded_emits_nothing (fs : FS) (cwd : Str) (o : PackOpts) (rules : Option (List Rule))
    (root src dst : Str) (fuel : Nat) (path : Str) (node : Node) (st : PState) (sub0 sub : Str)
    (h1 : pathRel src path = some sub0) (h4 : pathRel root (replaceFirst path src dst) = some sub)
    (h2 : (ruleExcludes rules sub).1 = true) :
    visit fs cwd o rules root src dst (fuel + 1) path node st = (st, .cont) :=
  wf_visit_excluded fs cwd o rules root src dst fuel path node st sub0 sub h1 h4 h2

/-- the same for a walk that is not inside a dereferenced directory (`root = src = dst`): the
archive path is the path relative to the source -/
theorem C03_visit_excluded_emits_nothing_top (fs : FS) (cwd : Str) (o : PackOpts) (rules : Option (List Rule))
    (R : Str) (fuel : Nat) (path : Str) (node : Node) (st : PState) (sub : Str)
    (h1 : pathRel R path = some sub) (h2 : (ruleExcludes rules sub).1 = true) :
    visit fs cwd o rules R R R (fuel + 1) path node st = (st, .cont) :=
  wf_visit_excluded_same fs cwd o rules R fuel path node st sub h1 h2

/-- **C03_visit_dir_excluded_emits_nothing.** A directory whose archive path with a trailing `/` is
excluded writes nothing for itself; it is skipped with everything below it exactly when the match
dominates (and the path without the slash is not itself excluded), otherwise its children are
walked. -/
theorem C03_visit_dir_excluded_emits_nothing (fs : FS) (cwd : Str) (o : PackOpts) (rules : Option (List Rule))
    (root src dst : Str) (fuel : Nat) (path : Str) (perm : Nat) (mt : Int) (st : PState) (sub0 sub : Str)
    (h1 : pathRel src path = some sub0) (h4 : pathRel root (replaceFirst path src dst) = some sub)
    (h3 : (ruleExcludes rules (sub ++ ['/'])).1 = true) :
    visit fs cwd o rules root src dst (fuel + 1) path (.dir perm mt) st =
      (st, if sub0 = dot ∨ sub = dot ∨ (ruleExcludes rules sub).1 = true then .cont
           else if (ruleExcludes rules (sub ++ ['/'])).2 then .skipDir else .cont) :=
  wf_visit_dir_excluded fs cwd o rules root src dst fuel path perm mt st sub0 sub h1 h4 h3

/-- **C03_walk_excluded_never_ships.** The invariant of the three walk functions without
dereferencing (`root = src = dst = R` throughout): whatever the tree, the rules, the fuel and the
result, the final state is the initial one plus entries each of which has a name that is not
excluded — the name without its trailing slash, and for a directory entry also the name with it. -/
theorem C03_walk_excluded_never_ships (fs : FS) (cwd : Str) (o : PackOpts) (rules : Option (List Rule)) (R : Str)
    (hd : o.dereference = false) (fuel : Nat) :
    (∀ path node st, ∃ L, (walkNode fs cwd o rules R R R fuel path node st).1.entries = st.entries ++ L ∧
      ∀ e ∈ L, (ruleExcludes rules (wfStrip e.name)).1 = false ∧
        (e.isDir = true → (ruleExcludes rules e.name).1 = false)) ∧
    (∀ path names st, ∃ L, (walkChildren fs cwd o rules R R R fuel path names st).1.entries = st.entries ++ L ∧
      ∀ e ∈ L, (ruleExcludes rules (wfStrip e.name)).1 = false ∧
        (e.isDir = true → (ruleExcludes rules e.name).1 = false)) ∧
    (∀ path node st, ∃ L, (visit fs cwd o rules R R R fuel path node st).1.entries = st.entries ++ L ∧
      ∀ e ∈ L, (ruleExcludes rules (wfStrip e.name)).1 = false ∧
        (e.isDir = true → (ruleExcludes rules e.name).1 = false)) := by
  obtain ⟨hN, hC⟩ := wf_walk_ship fs cwd o rules R hd fuel
  have conv : ∀ {st st' : PState}, WfNew (WfShipOK rules) st st' →
      ∃ L, st'.entries = st.entries ++ L ∧
        ∀ e ∈ L, (ruleExcludes rules (wfStrip e.name)).1 = false ∧
          (e.isDir = true → (ruleExcludes rules e.name).1 = false) := by
    rintro st st' ⟨L, e1, hL⟩
    exact ⟨L, e1, fun e he => ⟨(hL e he).name.1, (hL e he).name.2.1⟩⟩
  exact ⟨fun p n st => conv (hN p n st), fun p ns st => conv (hC p ns st),
    fun p n st => conv (wf_visit_ship fs cwd o rules R hd fuel p n st)⟩

/-- **C03_walk_excluded_never_ships_any.** The same invariant for ANY options and any
`root`/`src`/`dst` — dereferencing on, inside a dereferenced directory, any nesting —: whatever the
tree, the rules, the fuel and the result, the final state is the initial one plus entries none of
which has an excluded name. -/
theorem C03_walk_excluded_never_ships_any (fs : FS) (cwd : Str) (rules : Option (List Rule)) (root : Str) (fuel : Nat) :
    (∀ (o : PackOpts) src dst path node st,
      ∃ L, (walkNode fs cwd o rules root src dst fuel path node st).1.entries = st.entries ++ L ∧
      ∀ e ∈ L, (ruleExcludes rules (wfStrip e.name)).1 = false ∧
        (e.isDir = true → (ruleExcludes rules e.name).1 = false)) ∧
    (∀ (o : PackOpts) src dst path names st,
      ∃ L, (walkChildren fs cwd o rules root src dst fuel path names st).1.entries = st.entries ++ L ∧
      ∀ e ∈ L, (ruleExcludes rules (wfStrip e.name)).1 = false ∧
        (e.isDir = true → (ruleExcludes rules e.name).1 = false)) ∧
    (∀ (o : PackOpts) src dst path node st,
      ∃ L, (visit fs cwd o rules root src dst fuel path node st).1.entries = st.entries ++ L ∧
      ∀ e ∈ L, (ruleExcludes rules (wfStrip e.name)).1 = false ∧
        (e.isDir = true → (ruleExcludes rules e.name).1 = false)) := by
  obtain ⟨hN, hC, hV⟩ := wf_walk_ship_all fs cwd rules root fuel
  have conv : ∀ {st st' : PState}, WfNew (WfShipOK rules) st st' →
      ∃ L, st'.entries = st.entries ++ L ∧
        ∀ e ∈ L, (ruleExcludes rules (wfStrip e.name)).1 = false ∧
          (e.isDir = true → (ruleExcludes rules e.name).1 = false) := by
    rintro st st' ⟨L, e1, hL⟩
    exact ⟨L, e1, fun e he => ⟨(hL e he).name.1, (hL e he).name.2.1⟩⟩
  exact ⟨fun o s d p n st => conv (hN o s d p n st), fun o s d p ns st => conv (hC o s d p ns st),
    fun o s d p n st => conv (hV o s d p n st)⟩

/-- **C03_pack_excluded_never_ships_any.** `Pack` with ignore processing on, for ANY options —
`Dereference` on or off —, every filesystem, working directory, source and allow-list, every rule
file (or none: the default rules) and whatever the result: with `rules` the rule set `Pack` loaded —
`loadIgnore` at the source directory after the root-symlink step (`pkSrc1`) —
* every entry `e` satisfies `PkNotExcluded rules e` (Lemmas/PackInv): there is a path `sub` that is
  not excluded such that `e` is named `sub`, or `e` is a directory entry named `sub/` and `sub/` is
  not excluded either;
* in terms of the name alone: the name without the trailing slash of a directory entry is not
  excluded, and a directory entry's name is not excluded with the slash either;
* hence for every excluded path `p` the slug has no entry named `p` and none named `p/`.
This is what the repair of finding F43 buys: the rules are matched against the name an entry gets in
the archive, also for the files of a dereferenced directory (on the unrepaired code the statement was
false with `Dereference` on). -/
theorem C03_pack_excluded_never_ships_any (fs : FS) (cwd : Str) (o : PackOpts) (src : Str)
    (hon : o.applyIgnore = true) :
    (∀ e ∈ (pack fs cwd o src).1.entries,
      PkNotExcluded (some (loadIgnore fs cwd (pkSrc1 fs cwd src))) e) ∧
    (∀ e ∈ (pack fs cwd o src).1.entries,
      (excludes (loadIgnore fs cwd (pkSrc1 fs cwd src)) (wfStrip e.name)).1 = false ∧
      (e.isDir = true → (excludes (loadIgnore fs cwd (pkSrc1 fs cwd src)) e.name).1 = false)) ∧
    (∀ p, (excludes (loadIgnore fs cwd (pkSrc1 fs cwd src)) p).1 = true →
      ∀ e ∈ (pack fs cwd o src).1.entries, e.name ≠ p ∧ e.name ≠ p ++ ['/']) := by
  have hrules : pkRules fs cwd o src = some (loadIgnore fs cwd (pkSrc1 fs cwd src)) := by
    unfold pkRules; rw [hon]; rfl
  have hne := pk_pack_names_not_excluded fs cwd o src
  have hship := wf_pack_ship_any fs cwd o src
  rw [hrules] at hne hship
  exact ⟨hne, fun e he => ⟨(hship e he).name.1, (hship e he).name.2.1⟩,
    fun p hp e he => (hship e he).not_named p hp⟩

/-- the same for any rule set source: whatever `pkRules` is (ignore processing on or off) -/
theorem C03_pack_excluded_never_ships_rules_any (fs : FS) (cwd : Str) (o : PackOpts) (src : Str) :
    ∀ e ∈ (pack fs cwd o src).1.entries,
      PkNotExcluded (pkRules fs cwd o src) e ∧
      (ruleExcludes (pkRules fs cwd o src) (wfStrip e.name)).1 = false ∧
      (e.isDir = true → (ruleExcludes (pkRules fs cwd o src) e.name).1 = false) :=
  fun e he => ⟨pk_pack_names_not_excluded fs cwd o src e he,
    (wf_pack_ship_any fs cwd o src e he).name.1, (wf_pack_ship_any fs cwd o src e he).name.2.1⟩

/-- **C03_pack_excluded_never_ships.** (The dereference-free case of
`C03_pack_excluded_never_ships_any`, kept in the form it had before the repair of finding F43, when
it needed `dereference = false`.)  `Pack` with ignore processing on and dereferencing off, for
every filesystem, working directory, source and allow-list, every rule file (or none: the default
rules) and whatever the result: with `rules` the rule set `Pack` loaded — `loadIgnore` at the source
directory after the root-symlink step (`pkSrc1`) —
* every entry's name, without the trailing slash of a directory entry, is not excluded, and a
  directory entry's name is not excluded with the slash either;
* hence for every excluded path `p` the slug has no entry named `p` and none named `p/`. -/
theorem C03_pack_excluded_never_ships (fs : FS) (cwd : Str) (o : PackOpts) (src : Str)
    (hon : o.applyIgnore = true) (hd : o.dereference = false) :
    (∀ e ∈ (pack fs cwd o src).1.entries,
      (excludes (loadIgnore fs cwd (pkSrc1 fs cwd src)) (wfStrip e.name)).1 = false ∧
      (e.isDir = true → (excludes (loadIgnore fs cwd (pkSrc1 fs cwd src)) e.name).1 = false)) ∧
    (∀ p, (excludes (loadIgnore fs cwd (pkSrc1 fs cwd src)) p).1 = true →
      ∀ e ∈ (pack fs cwd o src).1.entries, e.name ≠ p ∧ e.name ≠ p ++ ['/']) := by
  have hrules : pkRules fs cwd o src = some (loadIgnore fs cwd (pkSrc1 fs cwd src)) := by
    unfold pkRules; rw [hon]; rfl
  have hship := wf_pack_ship fs cwd o src hd
  rw [hrules] at hship
  refine ⟨fun e he => ⟨(hship e he).name.1, (hship e he).name.2.1⟩, ?_⟩
  intro p hp e he
  obtain ⟨h1, h2, h3⟩ := (hship e he).name
  refine ⟨?_, ?_⟩
  · intro hn
    by_cases hs : hasSuffix e.name ['/'] = true
    · have := h2 (h3 hs)
      rw [hn] at this
      exact absurd hp (by rw [ruleExcludes] at this; simp [this])
    · have hst : wfStrip e.name = p := by rw [wfStrip, if_neg hs, hn]
      rw [hst] at h1
      exact absurd hp (by rw [ruleExcludes] at h1; simp [h1])
  · intro hn
    have hst : wfStrip e.name = p := by
      rw [hn, wfStrip, if_pos (by simp [hasSuffix]), List.dropLast_concat]
    rw [hst] at h1
    exact absurd hp (by rw [ruleExcludes] at h1; simp [h1])

/-- the same for any rule set source: whatever `pkRules` is (ignore processing on or off) -/
theorem C03_pack_excluded_never_ships_rules (fs : FS) (cwd : Str) (o : PackOpts) (src : Str)
    (hd : o.dereference = false) :
    ∀ e ∈ (pack fs cwd o src).1.entries,
      (ruleExcludes (pkRules fs cwd o src) (wfStrip e.name)).1 = false ∧
      (e.isDir = true → (ruleExcludes (pkRules fs cwd o src) e.name).1 = false) :=
  fun e he => ⟨(wf_pack_ship fs cwd o src hd e he).name.1, (wf_pack_ship fs cwd o src hd e he).name.2.1⟩

/-! ### non-vacuity -/

/-- `/t/src` with a rule file (`*.key`, `build/`, `!build/keep.txt`), a secret, a directory `build`
with two files, and a plain file -/
def wfFs : FS := [
  (["t".toList], .dir 0o755 0),
  (["t".toList, "src".toList], .dir 0o755 0),
  (["t".toList, "src".toList, ".terraformignore".toList], .file 0o644 0 "*.key\nbuild/\n!build/keep.txt\n".toList),
  (["t".toList, "src".toList, "id.key".toList], .file 0o600 0 "secret".toList),
  (["t".toList, "src".toList, "build".toList], .dir 0o755 0),
  (["t".toList, "src".toList, "build".toList, "out.bin".toList], .file 0o644 0 "o".toList),
  (["t".toList, "src".toList, "build".toList, "keep.txt".toList], .file 0o644 0 "k".toList),
  (["t".toList, "src".toList, "main.tf".toList], .file 0o644 0 "m".toList)]

def wfSrc : Str := "/t/src".toList
def wfOn : PackOpts := { dereference := false, applyIgnore := true, allow := [] }

/-- the rule set `Pack` loads there: the three built-in rules, then the three of the file (marked by
the later `!` line) -/
def wfRules : List Rule :=
  [⟨"**/.terraform/**".toList, false, true⟩, ⟨"**/.terraform/modules/**".toList, true, true⟩,
   ⟨"**/.git/**".toList, false, true⟩, ⟨"**/*.key".toList, false, true⟩,
   ⟨"**/build/**".toList, false, true⟩, ⟨"**/build/keep.txt".toList, true, false⟩]

theorem wf_rules_eq : loadIgnore wfFs "/".toList (pkSrc1 wfFs "/".toList wfSrc) = wfRules := by decide

/-- the premise of the second clause of `C03_pack_excluded_never_ships` holds for the secret, for the
directory `build/` and for `build/out.bin`, and fails for the re-included file -/
example :
    (excludes wfRules "id.key".toList).1 = true ∧ excludes wfRules "build/".toList = (true, false) ∧
    (excludes wfRules "build/out.bin".toList).1 = true ∧
    (excludes wfRules "build/keep.txt".toList).1 = false := by decide

/-- the theorem instantiated: whatever `Pack` does with this tree, no entry is named `id.key` -/
example : ∀ e ∈ (pack wfFs "/".toList wfOn wfSrc).1.entries,
    e.name ≠ "id.key".toList ∧ e.name ≠ "id.key/".toList := by
  have h := (C03_pack_excluded_never_ships wfFs "/".toList wfOn wfSrc rfl rfl).2 "id.key".toList
  rw [wf_rules_eq] at h
  exact h (by decide)

/-! ### with dereferencing: the rules are matched against the archive path -/

/-- `/t/src` holds a rule file `ext/k` and a link `ext` to the directory `/t/out` outside the source,
which holds a file `k` -/
def wfFsDeref : FS := [
  (["t".toList], .dir 0o755 0),
  (["t".toList, "out".toList], .dir 0o755 0),
  (["t".toList, "out".toList, "k".toList], .file 0o600 0 "s".toList),
  (["t".toList, "src".toList], .dir 0o755 0),
  (["t".toList, "src".toList, ".terraformignore".toList], .file 0o644 0 "ext/k\n".toList),
  (["t".toList, "src".toList, "ext".toList], .link "/t/out".toList)]

def wfDerefOn : PackOpts := { dereference := true, applyIgnore := true, allow := [] }
/-- dereferencing on, ignore processing off -/
def wfDerefOff : PackOpts := { dereference := true, applyIgnore := false, allow := [] }
def wfRulesDeref : List Rule :=
  [⟨"**/.terraform/**".toList, false, true⟩, ⟨"**/.terraform/modules/**".toList, true, false⟩,
   ⟨"**/.git/**".toList, false, false⟩, ⟨"**/ext/k".toList, false, false⟩]

/-- the state after the rule file has been written -/
def wfStDeref : PState :=
  ⟨[⟨".terraformignore".toList, tReg, 0o644, 0, [], "ext/k\n".toList⟩], ⟨[".terraformignore".toList], 6⟩⟩

/-- **C03_deref_rules_match_archive_path.** (This filesystem was the counterexample
`C03_cex_deref_rules_relative_to_target` — finding F43 — on the unrepaired code: with `Dereference`
on, the files of a dereferenced directory are walked by a nested
`filepath.Walk(target, packWalkFn(root, target, path))`, and the rules were applied to their paths
relative to the link's TARGET, `filepath.Rel(src, path)` with `src = target`; the rule `ext/k`
excludes the slug path `ext/k`, but the file was tested as `k`, passed, and was shipped under the
excluded name `ext/k`.)  The repaired callback matches the rules against the path the file gets in
the archive: the file `/t/out/k`, reached through the link `ext`, is tested as `ext/k`, is excluded,
and the slug holds the rule file only — no entry named `ext/k`.  The last clause shows that the walk
does reach the file: with ignore processing off the same options ship it as `ext/k`.  (Staged
evaluation: every step is a closed computation.) -/
theorem C03_deref_rules_match_archive_path :
    pkRules wfFsDeref "/".toList wfDerefOn wfSrc = some wfRulesDeref ∧
    wfRulesDeref = readRules "ext/k\n".toList ∧
    (excludes wfRulesDeref "ext/k".toList).1 = true ∧
    (excludes wfRulesDeref "k".toList).1 = false ∧
    pack wfFsDeref "/".toList wfDerefOn wfSrc =
      (⟨[⟨".terraformignore".toList, tReg, 0o644, 0, [], "ext/k\n".toList⟩],
        ⟨[".terraformignore".toList], 6⟩⟩, .ok) ∧
    pack wfFsDeref "/".toList wfDerefOff wfSrc =
      (⟨[⟨".terraformignore".toList, tReg, 0o644, 0, [], "ext/k\n".toList⟩,
         ⟨"ext/k".toList, tReg, 0o600, 0, [], "s".toList⟩],
        ⟨[".terraformignore".toList, "ext/k".toList], 7⟩⟩, .ok) := by
  have hrules : pkRules wfFsDeref "/".toList wfDerefOn wfSrc = some wfRulesDeref := by decide
  have hnorules : pkRules wfFsDeref "/".toList wfDerefOff wfSrc = none := by decide
  have hroot : pkRoot wfFsDeref "/".toList wfSrc = wfSrc := by decide
  have hinfo : pkRootInfo wfFsDeref "/".toList wfSrc = .ok (.dir 0o755 0) := by rfl
  have hl : wfFsDeref.lstat wfSrc = .ok (.dir 0o755 0) := by rfl
  have hres : wfFsDeref.resolvePath wfSrc true = .ok ["t".toList, "src".toList] := by rfl
  have hdir : wfFsDeref.readdir ["t".toList, "src".toList] = [".terraformignore".toList, "ext".toList] := by decide
  have hj1 : pathJoin wfSrc ".terraformignore".toList = "/t/src/.terraformignore".toList := by decide
  have hj2 : pathJoin wfSrc "ext".toList = "/t/src/ext".toList := by decide
  have hl1 : wfFsDeref.lstat "/t/src/.terraformignore".toList = .ok (.file 0o644 0 "ext/k\n".toList) := by rfl
  have hl2 : wfFsDeref.lstat "/t/src/ext".toList = .ok (.link "/t/out".toList) := by rfl
  -- the callback on the link `ext`, up to the nested walk
  have hA : pathRel wfSrc "/t/src/ext".toList = some "ext".toList := by decide
  have hB : pathRel wfSrc (replaceFirst "/t/src/ext".toList wfSrc wfSrc) = some "ext".toList := by decide
  have hD : validSymlink "/".toList wfDerefOn.allow wfSrc "/t/src/ext".toList "/t/out".toList = false := by decide
  have hD' : validSymlink "/".toList wfDerefOff.allow wfSrc "/t/src/ext".toList "/t/out".toList = false := by decide
  have hE : resolveExternalLink wfFsDeref maxLinkHops "/t/src/ext".toList = .ok ("/t/out".toList, .dir 0o755 0) := by rfl
  have hF : wfFsDeref.resolvePath "/t/out".toList true = .ok ["t".toList, "out".toList] := by rfl
  have hG : wfFsDeref.lstat "/t/out".toList = .ok (.dir 0o755 0) := by rfl
  refine ⟨hrules, by decide, by decide, by decide, ?_, ?_⟩
  · -- ignore processing on
    have hw1 : walkNode wfFsDeref "/".toList wfDerefOn (some wfRulesDeref) wfSrc wfSrc wfSrc 3998
        "/t/src/.terraformignore".toList (.file 0o644 0 "ext/k\n".toList) pkEmpty = (wfStDeref, .cont) := by
      decide
    have hC : (ruleExcludes (some wfRulesDeref) "ext".toList).1 = false := by decide
    -- the nested walk of `/t/out` as `/t/src/ext`: `k` is tested as `ext/k` and dropped
    have hH : walkNode wfFsDeref "/".toList
        { wfDerefOn with visiting := ["t".toList, "out".toList] :: wfDerefOn.visiting } (some wfRulesDeref)
        wfSrc "/t/out".toList "/t/src/ext".toList 3995 "/t/out".toList (.dir 0o755 0) wfStDeref =
        (wfStDeref, .cont) := by decide
    have hw2 : walkNode wfFsDeref "/".toList wfDerefOn (some wfRulesDeref) wfSrc wfSrc wfSrc 3997
        "/t/src/ext".toList (.link "/t/out".toList) wfStDeref = (wfStDeref, .cont) := by
      rw [walkNode]
      · rw [visit]
        · simp only [hA, hB, hC, hD, hE, hF, hG, hH]
          rfl
        · intro _ _ h; cases h
      · intro _ _ h; cases h
    rw [pk_pack_eq, hinfo, hroot, hrules]
    simp only [hl]
    have hw0 : walkNode wfFsDeref "/".toList wfDerefOn (some wfRulesDeref) wfSrc wfSrc wfSrc packFuel wfSrc
        (.dir 0o755 0) pkEmpty =
        walkChildren wfFsDeref "/".toList wfDerefOn (some wfRulesDeref) wfSrc wfSrc wfSrc (3998 + 1) wfSrc
          (wfFsDeref.readdir ["t".toList, "src".toList]) pkEmpty :=
      pk_walkNode_dir_cont wfFsDeref "/".toList wfDerefOn _ wfSrc wfSrc wfSrc (3998 + 1) wfSrc 0o755 0 pkEmpty pkEmpty _
        (wf_visit_root _ _ _ _ _ 3998 _ _) hres
    rw [hw0, hdir,
      pk_walkChildren_cont_of_child _ _ _ _ _ _ _ 3998 _ _ _ _ _ _ (by rw [hj1]; exact hl1) (by rw [hj1]; exact hw1),
      pk_walkChildren_cont_of_child _ _ _ _ _ _ _ 3997 _ _ _ _ _ _ (by rw [hj2]; exact hl2) (by rw [hj2]; exact hw2)]
    rfl
  · -- ignore processing off: the same walk ships the file under the name `ext/k`
    have hw1 : walkNode wfFsDeref "/".toList wfDerefOff none wfSrc wfSrc wfSrc 3998
        "/t/src/.terraformignore".toList (.file 0o644 0 "ext/k\n".toList) pkEmpty = (wfStDeref, .cont) := by
      decide
    have hH : walkNode wfFsDeref "/".toList
        { wfDerefOff with visiting := ["t".toList, "out".toList] :: wfDerefOff.visiting } none
        wfSrc "/t/out".toList "/t/src/ext".toList 3995 "/t/out".toList (.dir 0o755 0) wfStDeref =
        (⟨[⟨".terraformignore".toList, tReg, 0o644, 0, [], "ext/k\n".toList⟩,
           ⟨"ext/k".toList, tReg, 0o600, 0, [], "s".toList⟩],
          ⟨[".terraformignore".toList, "ext/k".toList], 7⟩⟩, .cont) := by decide
    have hw2 : walkNode wfFsDeref "/".toList wfDerefOff none wfSrc wfSrc wfSrc 3997
        "/t/src/ext".toList (.link "/t/out".toList) wfStDeref =
        (⟨[⟨".terraformignore".toList, tReg, 0o644, 0, [], "ext/k\n".toList⟩,
           ⟨"ext/k".toList, tReg, 0o600, 0, [], "s".toList⟩],
          ⟨[".terraformignore".toList, "ext/k".toList], 7⟩⟩, .cont) := by
      rw [walkNode]
      · rw [visit]
        · simp only [hA, hB, ruleExcludes, hD', hE, hF, hG, hH]
          rfl
        · intro _ _ h; cases h
      · intro _ _ h; cases h
    rw [pk_pack_eq, hinfo, hroot, hnorules]
    simp only [hl]
    have hw0 : walkNode wfFsDeref "/".toList wfDerefOff none wfSrc wfSrc wfSrc packFuel wfSrc
        (.dir 0o755 0) pkEmpty =
        walkChildren wfFsDeref "/".toList wfDerefOff none wfSrc wfSrc wfSrc (3998 + 1) wfSrc
          (wfFsDeref.readdir ["t".toList, "src".toList]) pkEmpty :=
      pk_walkNode_dir_cont wfFsDeref "/".toList wfDerefOff _ wfSrc wfSrc wfSrc (3998 + 1) wfSrc 0o755 0 pkEmpty pkEmpty _
        (wf_visit_root _ _ _ _ _ 3998 _ _) hres
    rw [hw0, hdir,
      pk_walkChildren_cont_of_child _ _ _ _ _ _ _ 3998 _ _ _ _ _ _ (by rw [hj1]; exact hl1) (by rw [hj1]; exact hw1),
      pk_walkChildren_cont_of_child _ _ _ _ _ _ _ 3997 _ _ _ _ _ _ (by rw [hj2]; exact hl2) (by rw [hj2]; exact hw2)]
    rfl

theorem wf_rules_deref_eq : loadIgnore wfFsDeref "/".toList (pkSrc1 wfFsDeref "/".toList wfSrc) = wfRulesDeref := by
  decide

/-- `C03_pack_excluded_never_ships_any` instantiated with `Dereference` on (the premise of its last
clause holds for `ext/k`: third clause of `C03_deref_rules_match_archive_path`): whatever `Pack` does
with this tree, no entry is named `ext/k` -/
example : ∀ e ∈ (pack wfFsDeref "/".toList wfDerefOn wfSrc).1.entries,
    e.name ≠ "ext/k".toList ∧ e.name ≠ "ext/k/".toList := by
  have h := (C03_pack_excluded_never_ships_any wfFsDeref "/".toList wfDerefOn wfSrc rfl).2.2 "ext/k".toList
  rw [wf_rules_deref_eq] at h
  exact h (by decide)

/-! ## 3. completeness: what is not excluded ships -/

section
variable (fs : FS) (cwd : Str) (o : PackOpts) (src : Str)

/-- the scope of the completeness theorems: `C02Scope` with ignore processing ON, and links need to
be accepted only where their own path is not excluded (the callback returns before `validSymlink`
for an excluded path) -/
structure C03Scope : Prop where
  ignoreOn : o.applyIgnore = true
  noDeref : o.dereference = false
  srcClean : AbsClean src
  /-- `/`, …, the source directory itself are real directories -/
  srcPhysical : ∀ q, q ≠ [] → q <+: pathSegs src → ∃ perm mt, fs.get q = some (.dir perm mt)
  names : PackNamesOK fs
  depth : ∀ e ∈ fs, pathSegs src <+: e.1 → e.1.length < resolveFuel
  linksAccepted : ∀ r t, rtRaw fs (pathSegs src) r = some (.link t) →
    (excludes (loadIgnore fs cwd src) (joinWith '/' r)).1 = false →
    validSymlink cwd o.allow src (ofSegs (pathSegs src ++ r)) t = true
  /-- the fuel of the walk model suffices -/
  fuel : (pack fs cwd o src).2 ≠ .diverged

theorem C03Scope.ctx {fs : FS} {cwd : Str} {o : PackOpts} {src : Str} (h : C03Scope fs cwd o src) :
    WfCtx fs cwd o src (loadIgnore fs cwd src) :=
  ⟨h.noDeref, h.srcClean, h.srcPhysical, h.names, h.depth, h.linksAccepted⟩

/-- **C03_pack_ships_iff.** In scope and for ANY rule file (or none), with `rules` the rule set
loaded at the source: `Pack` succeeds; a relative path `r` has an entry exactly when a non-special node
is reachable at `r` through real directories, its own path passes the callback's tests (`wfKept`: `r`
not excluded, and for a directory `r/` not excluded either) and no proper ancestor directory `d` of it
is skipped (`wfPruned`: `d` not excluded, `d/` excluded with a dominating match); the entry is the
one C02 describes (`rtEntry`).  So a file's fate depends only on the relative paths of the file and of
its ancestor directories, and on the rules. -/
theorem C03_pack_ships_iff (h : C03Scope fs cwd o src) :
    (pack fs cwd o src).2 = .ok ∧
    (∀ r, r ∈ (pack fs cwd o src).1.entries.map (fun e => entryRel e.name) ↔
      ∃ nd, rtRaw fs (pathSegs src) r = some nd ∧ nd ≠ .special ∧
        wfKept (loadIgnore fs cwd src) r nd ∧ wfOpenFrom 1 (loadIgnore fs cwd src) r) ∧
    (∀ e ∈ (pack fs cwd o src).1.entries, ∃ nd, rtRaw fs (pathSegs src) (entryRel e.name) = some nd ∧
      nd ≠ .special ∧ e = rtEntry (entryRel e.name) nd) ∧
    (∀ r nd, rtRaw fs (pathSegs src) r = some nd → nd ≠ .special →
      wfKept (loadIgnore fs cwd src) r nd → wfOpenFrom 1 (loadIgnore fs cwd src) r →
      rtEntry r nd ∈ (pack fs cwd o src).1.entries) :=
  wf_pack_ships h.ctx h.ignoreOn h.fuel

/-- **C03_rules_marked.** Whatever is at the source, the rule set `Pack` loads satisfies the marking
invariant: `MarkedOK` is not a hypothesis of the theorems below. -/
theorem C03_rules_marked : MarkedOK (loadIgnore fs cwd src) := wf_loadIgnore_marked fs cwd src

/-- **C03_prune_loses_nothing.** For marked, tail-closed rules a skipped directory has only excluded
paths below it (`C03_prune_sound` in terms of component lists): if the own path of `r` is not
excluded, no ancestor of `r` is skipped. -/
theorem C03_prune_loses_nothing (rules : List Rule) (hm : MarkedOK rules) (ht : TailClosed rules) (r : RelPath)
    (hk : (excludes rules (joinWith '/' r)).1 = false) : wfOpenFrom 1 rules r :=
  wf_open_of_kept hm ht hk

/-- **C03_pack_included_ships_partial.** In scope, when the rule set loaded at the source is
`TailClosed`: `Pack` succeeds, and every non-special node reachable from the source through real
directories whose own relative path is not excluded has its entry in the slug — a file or link as
soon as `r` is not excluded (also below a directory that is excluded itself, or excluded as `d/`
without a dominating match: the callback writes nothing for that directory and `filepath.Walk`
goes on into it; and a dominating exclusion of `d/` cannot occur above a path that is not excluded,
`C03_prune_loses_nothing`), a directory when `r/` is not excluded either.  With
`C03_pack_excluded_never_ships`: a reachable file or link is in the slug iff its own path is not
excluded.  Partial: the scope, and `TailClosed` (`C03_cex_pack_prune_star_tail`). -/
theorem C03_pack_included_ships_partial (h : C03Scope fs cwd o src) (ht : TailClosed (loadIgnore fs cwd src)) :
    (pack fs cwd o src).2 = .ok ∧
    (∀ r perm mt c, rtRaw fs (pathSegs src) r = some (.file perm mt c) →
      (excludes (loadIgnore fs cwd src) (joinWith '/' r)).1 = false →
      rtEntry r (.file perm mt c) ∈ (pack fs cwd o src).1.entries) ∧
    (∀ r t, rtRaw fs (pathSegs src) r = some (.link t) →
      (excludes (loadIgnore fs cwd src) (joinWith '/' r)).1 = false →
      rtEntry r (.link t) ∈ (pack fs cwd o src).1.entries) ∧
    (∀ r perm mt, rtRaw fs (pathSegs src) r = some (.dir perm mt) →
      (excludes (loadIgnore fs cwd src) (joinWith '/' r)).1 = false →
      (excludes (loadIgnore fs cwd src) (joinWith '/' r ++ ['/'])).1 = false →
      rtEntry r (.dir perm mt) ∈ (pack fs cwd o src).1.entries) ∧
    (∀ r, r ∈ (pack fs cwd o src).1.entries.map (fun e => entryRel e.name) ↔
      ∃ nd, rtRaw fs (pathSegs src) r = some nd ∧ nd ≠ .special ∧ wfKept (loadIgnore fs cwd src) r nd) := by
  obtain ⟨hok, hiff, _, hin⟩ := C03_pack_ships_iff fs cwd o src h
  have hopen := fun r hk => C03_prune_loses_nothing _ (C03_rules_marked fs cwd src) ht r hk
  refine ⟨hok, ?_, ?_, ?_, ?_⟩
  · intro r perm mt c hr hk
    exact hin r _ hr (by intro e; cases e) ⟨hk, fun hd => by cases hd⟩ (hopen r hk)
  · intro r t hr hk
    exact hin r _ hr (by intro e; cases e) ⟨hk, fun hd => by cases hd⟩ (hopen r hk)
  · intro r perm mt hr hk hkd
    exact hin r _ hr (by intro e; cases e) ⟨hk, fun _ => hkd⟩ (hopen r hk)
  · intro r
    rw [hiff]
    constructor
    · rintro ⟨nd, h1, h2, h3, _⟩; exact ⟨nd, h1, h2, h3⟩
    · rintro ⟨nd, h1, h2, h3⟩; exact ⟨nd, h1, h2, h3, hopen r h3.1⟩

/-- **C03_pack_filter.** In the scope of C02 (ignore processing off, all links accepted): switching
ignore processing on removes entries and does nothing else — the slug's entry list is the entry list
of `C02_pack_preorder` (name-sorted pre-order) filtered by `wfShipB` ("own path passes the tests and no
ancestor is skipped", a function of the entry's relative path, its being a directory, and the rules),
in the same order, each remaining entry unchanged. -/
theorem C03_pack_filter (h : C02Scope fs cwd o src)
    (hfuel : (pack fs cwd { o with applyIgnore := true } src).2 ≠ .diverged) :
    (pack fs cwd { o with applyIgnore := true } src).1.entries =
      (pack fs cwd o src).1.entries.filter
        (fun e => wfShipB (loadIgnore fs cwd src) (entryRel e.name) e.isDir) :=
  wf_pack_filter h.ctx h.noIgnore h.fuel hfuel

/-- **C03_fuel_sufficient.** As for C02: under the other hypotheses of the scope a filesystem with
at most 1999 bindings is never reported as `diverged`. -/
theorem C03_fuel_sufficient
    (h1 : o.applyIgnore = true) (h2 : o.dereference = false) (h3 : AbsClean src)
    (h4 : ∀ q, q ≠ [] → q <+: pathSegs src → ∃ perm mt, fs.get q = some (.dir perm mt))
    (h5 : PackNamesOK fs) (h6 : ∀ e ∈ fs, pathSegs src <+: e.1 → e.1.length < resolveFuel)
    (h7 : ∀ r t, rtRaw fs (pathSegs src) r = some (.link t) →
      (excludes (loadIgnore fs cwd src) (joinWith '/' r)).1 = false →
      validSymlink cwd o.allow src (ofSegs (pathSegs src ++ r)) t = true)
    (hsize : 2 * fs.length + 2 ≤ packFuel) :
    (pack fs cwd o src).2 ≠ .diverged :=
  wf_pack_fuel ⟨h2, h3, h4, h5, h6, h7⟩ h1 hsize

/-- the scope from finite checks (for closed examples) -/
theorem C03Scope.of_checks {fs : FS} {cwd : Str} {o : PackOpts} {src : Str}
    (h1 : o.applyIgnore = true) (h2 : o.dereference = false) (h3 : AbsClean src)
    (h4 : rtPhysCheck fs (pathSegs src) = true) (h5 : PackNamesOK fs)
    (h6 : ∀ e ∈ fs, pathSegs src <+: e.1 → e.1.length < resolveFuel)
    (h7 : rtLinksCheck fs cwd o src = true) (h8 : 2 * fs.length + 2 ≤ packFuel) :
    C03Scope fs cwd o src :=
  ⟨h1, h2, h3, rt_phys_of_check h4, h5, h6, fun r t hr _ => rt_links_of_check h7 r t hr,
    C03_fuel_sufficient fs cwd o src h1 h2 h3 (rt_phys_of_check h4) h5 h6
      (fun r t hr _ => rt_links_of_check h7 r t hr) h8⟩

end

/-! ### non-vacuity -/

/-- the example tree of §2 is in scope -/
theorem wf_scope : C03Scope wfFs "/".toList wfOn wfSrc :=
  C03Scope.of_checks rfl rfl (by unfold AbsClean; decide) (by decide)
    (by unfold PackNamesOK NameNS Plain; decide) (by decide) (by decide) (by decide)

theorem wf_rules_src : loadIgnore wfFs "/".toList wfSrc = wfRules := by decide

/-- its rule set is tail-closed: every non-negated pattern ends in `**` or in a literal character
(`*.key`) -/
theorem wf_rules_tailClosed : TailClosed wfRules := wf_tailClosed_of_check _ (by decide)

/-- `C03_pack_included_ships_partial` instantiated: `Pack` succeeds, the re-included file
`build/keep.txt` is shipped although the directory `build/` is excluded; the path of `main.tf`
is not excluded, it ships; the paths that have an entry are exactly those of kept nodes -/
example :
    (pack wfFs "/".toList wfOn wfSrc).2 = .ok ∧
    rtEntry ["build".toList, "keep.txt".toList] (.file 0o644 0 "k".toList) ∈
      (pack wfFs "/".toList wfOn wfSrc).1.entries ∧
    rtEntry ["main.tf".toList] (.file 0o644 0 "m".toList) ∈ (pack wfFs "/".toList wfOn wfSrc).1.entries ∧
    ["build".toList] ∉ (pack wfFs "/".toList wfOn wfSrc).1.entries.map (fun e => entryRel e.name) ∧
    ["build".toList, "out.bin".toList] ∉
      (pack wfFs "/".toList wfOn wfSrc).1.entries.map (fun e => entryRel e.name) := by
  have h := C03_pack_included_ships_partial wfFs "/".toList wfOn wfSrc wf_scope
    (by rw [wf_rules_src]; exact wf_rules_tailClosed)
  rw [wf_rules_src] at h
  obtain ⟨h1, h2, _, _, h5⟩ := h
  refine ⟨h1, h2 _ _ _ _ (by decide) (by decide), h2 _ _ _ _ (by decide) (by decide), ?_, ?_⟩
  · rw [h5]
    rintro ⟨nd, hr, _, hk⟩
    have : nd = .dir 0o755 0 := Option.some.inj (hr.symm.trans (by decide))
    subst this
    revert hk; decide
  · rw [h5]
    rintro ⟨nd, _, _, hk⟩
    have := hk.1
    revert this; decide

/-- `C03_pack_filter` is not vacuous: the example tree of C02 is in its scope -/
example :
    (pack c02fs "/".toList { c02opts with applyIgnore := true } c02src).1.entries =
      (pack c02fs "/".toList c02opts c02src).1.entries.filter
        (fun e => wfShipB (loadIgnore c02fs "/".toList c02src) (entryRel e.name) e.isDir) :=
  C03_pack_filter c02fs "/".toList c02opts c02src c02_scope
    (C03_fuel_sufficient c02fs "/".toList { c02opts with applyIgnore := true } c02src rfl rfl
      c02_scope.srcClean c02_scope.srcPhysical c02_scope.names c02_scope.depth
      (fun r t hr _ => c02_scope.linksAccepted r t (rt_srcNode_link.mpr hr)) (by decide))

/-! ### counterexample without `TailClosed` -/

/-- `/t/src` with the rule file `foo/*` and a file two levels below `foo` -/
def wfFsStar : FS := [
  (["t".toList], .dir 0o755 0),
  (["t".toList, "src".toList], .dir 0o755 0),
  (["t".toList, "src".toList, ".terraformignore".toList], .file 0o644 0 "foo/*".toList),
  (["t".toList, "src".toList, "foo".toList], .dir 0o755 0),
  (["t".toList, "src".toList, "foo".toList, "a".toList], .dir 0o755 0),
  (["t".toList, "src".toList, "foo".toList, "a".toList, "b".toList], .file 0o644 0 "x".toList)]

theorem wf_scope_star : C03Scope wfFsStar "/".toList wfOn wfSrc :=
  C03Scope.of_checks rfl rfl (by unfold AbsClean; decide) (by decide)
    (by unfold PackNamesOK NameNS Plain; decide) (by decide) (by decide) (by decide)

/-- **C03_cex_pack_prune_star_tail.** The walk-level version of `C03_cex_prune_star_tail`.  With the
rule file `foo/*` the rule set is marked as the parser marks it but not `TailClosed`; `foo/` gets a
dominating exclusion and the walk skips the directory — so `Pack` succeeds and ships nothing for
`foo/a/b`, a regular file reachable through real directories whose own path is NOT excluded.  "A file
whose own path is not excluded always appears" is false of the code for such rules.  (All other
hypotheses of `C03_pack_included_ships_partial` hold: `wf_scope_star`.) -/
theorem C03_cex_pack_prune_star_tail :
    let rules := loadIgnore wfFsStar "/".toList wfSrc
    rules = readRules "foo/*".toList ∧ MarkedOK rules ∧ ¬ TailClosed rules ∧
    (excludes rules "foo/a/b".toList).1 = false ∧
    excludes rules "foo/".toList = (true, true) ∧
    rtRaw wfFsStar (pathSegs wfSrc) ["foo".toList, "a".toList, "b".toList] = some (.file 0o644 0 "x".toList) ∧
    (pack wfFsStar "/".toList wfOn wfSrc).2 = .ok ∧
    ["foo".toList, "a".toList, "b".toList] ∉
      (pack wfFsStar "/".toList wfOn wfSrc).1.entries.map (fun e => entryRel e.name) ∧
    (∀ e ∈ (pack wfFsStar "/".toList wfOn wfSrc).1.entries, e.name ≠ "foo/a/b".toList) := by
  have hr : loadIgnore wfFsStar "/".toList wfSrc = readRules "foo/*".toList := by decide
  obtain ⟨hok, hiff, _, _⟩ := C03_pack_ships_iff _ _ _ _ wf_scope_star
  have hnot : ["foo".toList, "a".toList, "b".toList] ∉
      (pack wfFsStar "/".toList wfOn wfSrc).1.entries.map (fun e => entryRel e.name) := by
    rw [hiff, hr]
    rintro ⟨nd, _, _, _, hopen⟩
    exact hopen ["foo".toList] (by decide) (by decide) (by decide) (by decide)
  dsimp only
  rw [hr]
  refine ⟨rfl, C03_marking _, ?_, by decide, by decide, by decide, hok, hnot, ?_⟩
  · intro ht
    have hmem : (⟨"**/foo/*".toList, false, false⟩ : Rule) ∈ readRules "foo/*".toList := by decide
    rcases ht _ hmem rfl [.dirs, .lit 'f', .lit 'o', .lit 'o', .lit '/', .star] (by decide) with ⟨ts, hts⟩ | hnever
    · have := congrArg List.getLast? hts
      simp at this
    · have := hnever "foo".toList
      revert this
      decide
  · intro e he hn
    apply hnot
    exact List.mem_map.mpr ⟨e, he, by rw [hn]; decide⟩

/-! ## 4. the bundle builder's removal walk -/

/-- **C03_bundle_excluded_removed.** After a walk of the work directory that did not fail, no binding
is left at or below it whose path relative to the work directory is excluded, and no directory whose
path with a trailing `/` is excluded (first clauses of `C10_walk_sanitised`). -/
theorem C03_bundle_excluded_removed (rules : List Rule) (fuel : Nat) (fs : FS) (work : Str) (node : Node) (fs1 : FS)
    (r : SRes) (hc : AbsClean work) (hreal : RealDir fs (pathSegs work)) (hk : KeysPhysical fs)
    (hN : SanNames (pathSegs work) fs) (hl : fs.lstat work = .ok node)
    (hw : prepWalk rules work fuel fs work node = (fs1, r)) (hr : r = .cont ∨ r = .skipDir) :
    ∀ x n, x ≠ [] → fs1.get (pathSegs work ++ x) = some n →
      (excludes rules (joinWith '/' x)).1 = false ∧
      ((∃ pm mt, n = .dir pm mt) → (excludes rules (joinWith '/' x ++ ['/'])).1 = false) := by
  intro x n hx hg
  have hpre : pathSegs work <+: pathSegs work ++ x := List.prefix_append _ _
  have hs : SnSub fs1 fs := by
    have := (snSub_walk rules work fuel).1 fs work node
    rw [hw] at this; exact this
  have hxn : ∀ c ∈ x, NameNS c := fun c hcm =>
    hN _ n (hs.get_some hg) hpre c (List.mem_append_right _ hcm)
  obtain ⟨hrel, hdot⟩ := sn_pathRel_below hc hxn hx
  obtain ⟨rel, hrel', hgood⟩ := C10_walk_sanitised rules fuel fs work node fs1 r hc hreal hk hN hl hw hr _ n hg hpre
  rw [hrel] at hrel'
  cases hrel'
  rcases hgood with e | ⟨h1, h2, _⟩
  · exact absurd e hdot
  · refine ⟨h1, ?_⟩
    rintro ⟨pm, mt, rfl⟩
    simpa [snIsDir] using h2

/-- **C03_bundle_included_kept_partial.** Whatever the result of the walk (also when it fails), it
removes a binding only for a reason: some path `y` at or above it, strictly below the work directory,
is excluded, or is a directory (in the fetched tree) excluded as `y/` — with or without a dominating
match, and whatever a later `!` rule says about the paths below (`C03_cex_bundle_reinclude`).  Hence a
node — file, link or directory — survives when none of the paths from the work directory down to it
is excluded and none of those that are directories is excluded with a trailing slash.  Partial: the
property ("not excluded ⇒ kept") needs the extra hypothesis on the ancestor directories. -/
theorem C03_bundle_included_kept_partial (rules : List Rule) (fuel : Nat) (fs : FS) (work : Str) (node : Node)
    (hc : AbsClean work) (hreal : RealDir fs (pathSegs work)) (hN : SanNames (pathSegs work) fs)
    (hl : fs.lstat work = .ok node) :
    (∀ q, (prepWalk rules work fuel fs work node).1.get q = fs.get q ∨
      ((prepWalk rules work fuel fs work node).1.get q = none ∧ wfRemovable rules fs (pathSegs work) q)) ∧
    (∀ x n, fs.get (pathSegs work ++ x) = some n →
      (∀ i, i < x.length → (excludes rules (joinWith '/' (x.take (i + 1)))).1 = false ∧
        (rtIsDir (fs.get (pathSegs work ++ x.take (i + 1))) = true →
          (excludes rules (joinWith '/' (x.take (i + 1)) ++ ['/'])).1 = false)) →
      (prepWalk rules work fuel fs work node).1.get (pathSegs work ++ x) = some n) := by
  have hrem := (wfRem_walk rules work fs hc fuel).1 fs work node (SnSub.refl _) hN (sanAt_root hc hreal) hl
  refine ⟨hrem, ?_⟩
  intro x n hg hall
  rcases hrem (pathSegs work ++ x) with e | ⟨_, y, hy, hpre, hwhy⟩
  · rw [e]; exact hg
  · exfalso
    have hyx : y <+: x := (List.prefix_append_right_inj _).mp hpre
    have hlen : 0 < y.length := by
      cases y with
      | nil => exact absurd rfl hy
      | cons a l => simp
    have hle := hyx.length_le
    have htake : x.take (y.length - 1 + 1) = y := by
      rw [show y.length - 1 + 1 = y.length by omega]
      exact (List.prefix_iff_eq_take.mp hyx).symm
    obtain ⟨h1, h2⟩ := hall (y.length - 1) (by omega)
    rw [htake] at h1 h2
    rcases hwhy with h | ⟨⟨pm, mt, hd⟩, h⟩
    · rw [h] at h1; cases h1
    · rw [h2 (by rw [hd]; rfl)] at h; cases h

/-- a package with the rule file `d/` + `!d/keep` and a directory `d` holding `keep` and `x` -/
def wfFsKeep : FS :=
  [(["t","b",".tmp-1",".terraformignore"].map String.toList, .file 0o644 0 "d/\n!d/keep\n".toList),
   (["t","b",".tmp-1","d","keep"].map String.toList, .file 0o644 0 "k".toList),
   (["t","b",".tmp-1","d","x"].map String.toList, .file 0o644 0 "x".toList),
   (["t","b",".tmp-1","d"].map String.toList, .dir 0o755 0),
   (["t","b",".tmp-1"].map String.toList, .dir 0o755 0),
   (["t","b"].map String.toList, .dir 0o755 0),
   (["t"].map String.toList, .dir 0o755 0)]

/-- its rule set -/
def wfRulesKeep : List Rule :=
  [⟨"**/.terraform/**".toList, false, true⟩, ⟨"**/.terraform/modules/**".toList, true, true⟩,
   ⟨"**/.git/**".toList, false, true⟩, ⟨"**/d/**".toList, false, true⟩, ⟨"**/d/keep".toList, true, false⟩]

theorem wf_scope_keep : C03Scope wfFsKeep "/".toList wfOn c10Work :=
  C03Scope.of_checks rfl rfl (by unfold AbsClean; decide) (by decide)
    (by unfold PackNamesOK NameNS Plain; decide) (by decide) (by decide) (by decide)

/-- **C03_cex_bundle_reinclude** (finding F9).  Rule file `d/` then `!d/keep`: the path `d/keep` is
not excluded (the later `!` rule re-includes it) and `d/` is excluded without a dominating match.
`Pack` on this tree ships `d/keep` (the rule set is `TailClosed`: `C03_pack_included_ships_partial`).
The bundle builder's callback removes the directory as soon as `d/` is `Excluded`, without looking at
`Dominating`: `ensurePrepared` succeeds and `d/keep` is gone from the prepared package. -/
theorem C03_cex_bundle_reinclude :
    let r := ensurePrepared wfFsKeep c10Work c10Final
    snRules wfFsKeep c10Work = wfRulesKeep ∧ loadIgnore wfFsKeep "/".toList c10Work = wfRulesKeep ∧
    wfRulesKeep = readRules "d/\n!d/keep\n".toList ∧
    (excludes wfRulesKeep "d/keep".toList).1 = false ∧ excludes wfRulesKeep "d/".toList = (true, false) ∧
    (excludes wfRulesKeep "d".toList).1 = false ∧
    wfFsKeep.get (c10W ++ ["d".toList, "keep".toList]) = some (.file 0o644 0 "k".toList) ∧
    r.2 = .ok c10F ∧
    r.1.get (c10F ++ ["d".toList, "keep".toList]) = none ∧ r.1.get (c10F ++ ["d".toList]) = none ∧
    r.1.get (c10F ++ [".terraformignore".toList]) = some (.file 0o644 0 "d/\n!d/keep\n".toList) ∧
    (pack wfFsKeep "/".toList wfOn c10Work).2 = .ok ∧
    rtEntry ["d".toList, "keep".toList] (.file 0o644 0 "k".toList) ∈
      (pack wfFsKeep "/".toList wfOn c10Work).1.entries := by
  have hr : loadIgnore wfFsKeep "/".toList c10Work = wfRulesKeep := by decide
  have hp := C03_pack_included_ships_partial _ _ _ _ wf_scope_keep
    (by rw [hr]; exact wf_tailClosed_of_check _ (by decide))
  rw [hr] at hp
  have hrun : ensurePrepared wfFsKeep c10Work c10Final =
      ([(["t","b","HASH",".terraformignore"].map String.toList, .file 0o644 0 "d/\n!d/keep\n".toList),
        (["t","b","HASH"].map String.toList, .dir 0o755 0),
        (["t","b"].map String.toList, .dir 0o755 0),
        (["t"].map String.toList, .dir 0o755 0)], .ok c10F) := by decide
  dsimp only
  rw [hrun]
  exact ⟨by decide, hr, by decide, by decide, by decide, by decide, by decide, rfl, by decide, by decide,
    by decide, hp.1, hp.2.1 _ _ _ _ (by decide) (by decide)⟩

/-- a package without a rule file that vendors a module below `.terraform/modules` -/
def wfFsMod : FS :=
  [(["t","b",".tmp-1",".terraform","modules","m","main.tf"].map String.toList, .file 0o644 0 "x".toList),
   (["t","b",".tmp-1",".terraform","modules","m"].map String.toList, .dir 0o755 0),
   (["t","b",".tmp-1",".terraform","modules"].map String.toList, .dir 0o755 0),
   (["t","b",".tmp-1",".terraform"].map String.toList, .dir 0o755 0),
   (["t","b",".tmp-1","main.tf"].map String.toList, .file 0o644 0 "m".toList),
   (["t","b",".tmp-1"].map String.toList, .dir 0o755 0),
   (["t","b"].map String.toList, .dir 0o755 0),
   (["t"].map String.toList, .dir 0o755 0)]

theorem wf_scope_mod : C03Scope wfFsMod "/".toList wfOn c10Work :=
  C03Scope.of_checks rfl rfl (by unfold AbsClean; decide) (by decide)
    (by unfold PackNamesOK NameNS Plain; decide) (by decide) (by decide) (by decide)

/-- **C03_cex_bundle_default_modules** (finding F9, default rules).  Without a rule file the built-in
rules apply: `.terraform/` is excluded, `.terraform/modules/**` re-included.
`.terraform/modules/m/main.tf` is not excluded and `Pack` ships it (the default rules are
`TailClosed`); the bundle builder removes the whole `.terraform` directory. -/
theorem C03_cex_bundle_default_modules :
    let r := ensurePrepared wfFsMod c10Work c10Final
    snRules wfFsMod c10Work = defaultRules ∧ loadIgnore wfFsMod "/".toList c10Work = defaultRules ∧
    (excludes defaultRules ".terraform/modules/m/main.tf".toList).1 = false ∧
    excludes defaultRules ".terraform/".toList = (true, false) ∧
    wfFsMod.get (c10W ++ [".terraform".toList, "modules".toList, "m".toList, "main.tf".toList]) =
      some (.file 0o644 0 "x".toList) ∧
    r.2 = .ok c10F ∧
    r.1.get (c10F ++ [".terraform".toList, "modules".toList, "m".toList, "main.tf".toList]) = none ∧
    r.1.get (c10F ++ [".terraform".toList]) = none ∧
    r.1.get (c10F ++ ["main.tf".toList]) = some (.file 0o644 0 "m".toList) ∧
    (pack wfFsMod "/".toList wfOn c10Work).2 = .ok ∧
    rtEntry [".terraform".toList, "modules".toList, "m".toList, "main.tf".toList] (.file 0o644 0 "x".toList) ∈
      (pack wfFsMod "/".toList wfOn c10Work).1.entries := by
  have hr : loadIgnore wfFsMod "/".toList c10Work = defaultRules := by decide
  have hp := C03_pack_included_ships_partial _ _ _ _ wf_scope_mod
    (by rw [hr]; exact wf_tailClosed_of_check _ (by decide))
  rw [hr] at hp
  have hrun : ensurePrepared wfFsMod c10Work c10Final =
      ([(["t","b","HASH","main.tf"].map String.toList, .file 0o644 0 "m".toList),
        (["t","b","HASH"].map String.toList, .dir 0o755 0),
        (["t","b"].map String.toList, .dir 0o755 0),
        (["t"].map String.toList, .dir 0o755 0)], .ok c10F) := by decide
  dsimp only
  rw [hrun]
  exact ⟨by decide, hr, by decide, by decide, by decide, rfl, by decide, by decide, by decide,
    hp.1, hp.2.1 _ _ _ _ (by decide) (by decide)⟩

/-- a package with the rule file `d` (a directory named without a trailing slash) -/
def wfFsDirPat : FS :=
  [(["t","b",".tmp-1",".terraformignore"].map String.toList, .file 0o644 0 "d\n".toList),
   (["t","b",".tmp-1","d","x"].map String.toList, .file 0o644 0 "x".toList),
   (["t","b",".tmp-1","d"].map String.toList, .dir 0o755 0),
   (["t","b",".tmp-1"].map String.toList, .dir 0o755 0),
   (["t","b"].map String.toList, .dir 0o755 0),
   (["t"].map String.toList, .dir 0o755 0)]

/-- **C03_cex_bundle_dir_pattern_fails** (finding F9, third form).  A rule that names a non-empty
directory without a trailing slash: the path `d` is excluded, `d/x` is not.  `Pack` writes no entry for
`d` and goes on into it (`C03_visit_excluded_emits_nothing`).  The builder's callback removes the
directory and also returns `nil`, so `filepath.Walk` — which read the names before the callback ran —
goes on to `Lstat` the removed `d/x` and the whole build fails; the work directory is left behind
without `d`. -/
theorem C03_cex_bundle_dir_pattern_fails :
    let rules := readRules "d\n".toList
    snRules wfFsDirPat c10Work = rules ∧
    excludes rules "d".toList = (true, true) ∧ (excludes rules "d/x".toList).1 = false ∧
    (ensurePrepared wfFsDirPat c10Work c10Final).2 = .fail ∧
    (ensurePrepared wfFsDirPat c10Work c10Final).1.get (c10W ++ ["d".toList]) = none ∧
    (ensurePrepared wfFsDirPat c10Work c10Final).1.get c10W = some (.dir 0o755 0) := by
  have hrun : ensurePrepared wfFsDirPat c10Work c10Final =
      ([(["t","b",".tmp-1",".terraformignore"].map String.toList, .file 0o644 0 "d\n".toList),
        (["t","b",".tmp-1"].map String.toList, .dir 0o755 0),
        (["t","b"].map String.toList, .dir 0o755 0),
        (["t"].map String.toList, .dir 0o755 0)], .fail) := by decide
  dsimp only
  rw [hrun]
  exact ⟨by decide, by decide, by decide, rfl, by decide, by decide⟩

/-! ### non-vacuity of `C03_bundle_included_kept_partial` -/

/-- in the package of `C03_cex_bundle_reinclude` the rule file itself satisfies the hypothesis and is
kept by the walk; `d/keep` does not satisfy it (`d/` is excluded) -/
example :
    (prepWalk wfRulesKeep c10Work prepFuel wfFsKeep c10Work (.dir 0o755 0)).1.get
      (c10W ++ [".terraformignore".toList]) = some (.file 0o644 0 "d/\n!d/keep\n".toList) := by
  have hsan : SanCheck wfFsKeep c10W := by decide
  obtain ⟨h1, _, h3⟩ := sanCheck_sound hsan
  have hW : pathSegs c10Work = c10W := by decide
  have h := (C03_bundle_included_kept_partial wfRulesKeep prepFuel wfFsKeep c10Work (.dir 0o755 0)
    (by unfold AbsClean; decide) (by rw [hW]; exact h1) (by rw [hW]; exact h3) (by rfl)).2
    [".terraformignore".toList] (.file 0o644 0 "d/\n!d/keep\n".toList)
  rw [hW] at h
  exact h (by decide) (by decide)

end Slug
