import SlugModel.Lemmas.Remote
/-!
# C07 — Accepted remote addresses always satisfy the documented transport policy

`Policy` (in `Spec/Policy.lean`) is the documentation as a predicate; it does not mention the
tables extracted from the Go source.  `parseRemote`, `makeRemote` are the model of
`sourceaddrs.ParseRemoteSource` / `MakeRemoteSource` (tied to the code by the `remote` lane);
they are parameterised by the extracted tables `Generated.*`, and the proofs below evaluate
those tables — after a change of the Go source the theorems are re-checked against the new
tables.  `net/url` is a parameter of the model: the theorems hold for *any* URL parser, because
every check the code makes is made on the parser's result.
-/
namespace Slug

/-- **C07_sound_parse.** Whatever the URL parser is, an address accepted by
`ParseRemoteSource` satisfies the transport policy and carries no user information. -/
theorem C07_sound_parse (urlParse : Str → Option UrlRec) (given : Str) (a : RemoteAddr)
    (h : parseRemote urlParse given = some a) : Policy a ∧ a.url.hasUser = false := by
  unfold parseRemote at h
  split at h
  · cases h
  · rename_i ty pkgRaw sub hfront
    obtain ⟨u, t, _, huser, _, _, hcore⟩ := parseRemoteWith_some ty sub _ a h
    obtain ⟨hpol, hu, _, _⟩ := makeRemoteCore_some t _ sub a hcore
    exact ⟨hpol (remoteFront_sub given ty pkgRaw sub hfront), by rw [hu]; exact huser⟩

/-- **C07_sound_make.** An address accepted by the constructor `MakeRemoteSource` satisfies the
transport policy and carries no user information. -/
theorem C07_sound_make (ty : Str) (u : UrlRec) (sub : Str) (a : RemoteAddr)
    (h : makeRemote ty u sub = some a) : Policy a ∧ a.url.hasUser = false := by
  unfold makeRemote at h
  split at h
  · cases h
  · rename_i sub' hn
    split at h
    · cases h
    · rename_i huser
      have hv := normalizeSubpath_some _ _ hn
      obtain ⟨hpol, hu, _, _⟩ := makeRemoteCore_some ty u sub' a h
      refine ⟨hpol (by rw [hv.1]; exact hv.2), ?_⟩
      rw [hu]
      have hm : Generated.makeChecksUser = true := by decide
      simp only [hm, true_and, Bool.not_eq_true] at huser
      exact huser

/-- what the parser saw had no user information either (the check is made on the parser's
result, before anything else is looked at) -/
theorem C07_parse_no_user (ty sub : Str) (u : UrlRec) (a : RemoteAddr)
    (h : parseRemoteWith ty sub (some u) = some a) : u.hasUser = false := by
  obtain ⟨u', _, e, huser, _⟩ := parseRemoteWith_some ty sub _ a h
  cases e; exact huser

end Slug
