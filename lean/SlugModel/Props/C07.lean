import SlugModel.Lemmas.Remote
/-!
# C07 — Accepted remote addresses always satisfy the documented transport policy

`Policy` (in `Spec/Policy.lean`) is the documentation as a predicate; it does not mention the
tables extracted from the Go source.  `parseRemote`, `makeRemote` are the model of
`sourceaddrs.ParseRemoteSource` / `MakeRemoteSource` (tied to the code by the `remote` lane);
they are parameterised by the extracted tables `Generated.*`, and the proofs below evaluate
those tables — after a change of the Go source the theorems are re-checked against the new
tables.  `net/url` is a parameter of the model: the theorems hold for *any* URL parser, because
every check the code makes is made on the parser's result.
-/
namespace Slug

/-- **C07_sound_parse.** Whatever the URL parser is, an address accepted by
`ParseRemoteSource` satisfies the transport policy and carries no user information. -/
theorem C07_sound_parse (urlParse : Str → Option UrlRec) (given : Str) (a : RemoteAddr)
    (h : parseRemote urlParse given = some a) : Policy a ∧ a.url.hasUser = false := by
  unfold parseRemote at h
  split at h
  · cases h
  · rename_i ty pkgRaw sub hfront
    obtain ⟨u, t, _, huser, _, _, hcore⟩ := parseRemoteWith_some ty sub _ a h
    obtain ⟨hpol, hu, _, _⟩ := makeRemoteCore_some t _ sub a hcore
    exact ⟨hpol (remoteFront_sub given ty pkgRaw sub hfront), by rw [hu]; exact huser⟩

/-- **C07_sound_make.** An address accepted by the constructor `MakeRemoteSource` satisfies the
transport policy, carries no user information, and the query it was given parses strictly
(so the policy was checked on the very pairs the address keeps in `RawQuery`). -/
theorem C07_sound_make (ty : Str) (u : UrlRec) (sub : Str) (a : RemoteAddr)
    (h : makeRemote ty u sub = some a) :
    Policy a ∧ a.url.hasUser = false ∧ u.queryErr = false := by
  unfold makeRemote at h
  split at h
  · cases h
  · rename_i sub' hn
    split at h
    · cases h
    · rename_i huser
      split at h
      · cases h
      · rename_i hq
        have hv := normalizeSubpath_some _ _ hn
        obtain ⟨hpol, hu, _, _⟩ := makeRemoteCore_some ty u sub' a h
        refine ⟨hpol (by rw [hv.1]; exact hv.2), ?_, ?_⟩
        · rw [hu]
          have hm : Generated.makeChecksUser = true := by decide
          simp only [hm, true_and, Bool.not_eq_true] at huser
          exact huser
        · have hm : Generated.makeChecksQuery = true := by decide
          simp only [hm, true_and, Bool.not_eq_true] at hq
          exact hq

/-- what the parser saw had no user information either (the check is made on the parser's
result, before anything else is looked at) -/
theorem C07_parse_no_user (ty sub : Str) (u : UrlRec) (a : RemoteAddr)
    (h : parseRemoteWith ty sub (some u) = some a) : u.hasUser = false := by
  obtain ⟨u', _, e, huser, _⟩ := parseRemoteWith_some ty sub _ a h
  cases e; exact huser

/-! ## case-insensitivity of source type and scheme -/

/-- **C07_case.** Source type and URL scheme are lower-cased (ASCII) before anything is looked
up: `ParseRemoteSource` cannot tell `GIT::HTTPS://…` from `git::https://…`. -/
theorem C07_case (ty sub : Str) (u : UrlRec) :
    parseRemoteWith ty sub (some u) =
      parseRemoteWith (toLowerAscii ty) sub (some { u with scheme := toLowerAscii u.scheme }) := by
  unfold parseRemoteWith
  simp only [toLowerAscii_idem, toLowerAscii_eq_nil]

/-! ## completeness on the documented grammar -/

/-- **C07_complete_partial.** Conversely, every address that follows the documented grammar is
accepted by the constructor `MakeRemoteSource`, provided the URL carries no user information;
type, sub-path, scheme, host, path and query are stored as given.  (`_partial`: the URL parser
itself — which strings `url.Parse` turns into which `UrlRec` — is outside the model; this is
completeness of everything the package does with the parser's result.) -/
theorem C07_complete_partial (ty : Str) (u : UrlRec) (sub : Str)
    (g : Grammar { sourceType := ty, url := u, subPath := sub }) (huser : u.hasUser = false)
    (hqe : u.queryErr = false) :
    ∃ a, makeRemote ty u sub = some a ∧ a.sourceType = ty ∧ a.subPath = sub ∧
      a.url.scheme = u.scheme ∧ a.url.host = u.host ∧ a.url.path = u.path ∧
      a.url.query = u.query := by
  obtain ⟨u', hcore, hu'⟩ := makeRemoteCore_complete ty u sub g
  refine ⟨{ sourceType := ty, url := normaliseRaw u', subPath := sub }, ?_, rfl, rfl, ?_⟩
  · unfold makeRemote
    rw [normalizeSubpath_of_validSub sub g.sub_ok]
    simp only [huser, hqe, Bool.false_eq_true, and_false, if_false]
    exact hcore
  · obtain ⟨h1, _, h3, _, _, _, h7, h8⟩ := normaliseRaw_fields u'
    simp only [h1, h3, h7, h8]
    rcases hu' with e | e <;> subst e <;> exact ⟨rfl, rfl, rfl, rfl⟩

/-- **C07_complete_parse_partial.** The same for the parser route, given what `url.Parse`
returned: the source-type prefix is omitted when it equals the scheme (writing it is an error,
`C07_redundant_prefix`) and written otherwise. -/
theorem C07_complete_parse_partial (ty : Str) (u : UrlRec) (sub : Str)
    (g : Grammar { sourceType := ty, url := u, subPath := sub }) (huser : u.hasUser = false)
    (hqe : u.queryErr = false) :
    ∃ a, parseRemoteWith (if ty = u.scheme then [] else ty) sub (some u) = some a ∧
      a.sourceType = ty ∧ a.subPath = sub ∧ a.url.scheme = u.scheme ∧ a.url.host = u.host ∧
      a.url.path = u.path ∧ a.url.query = u.query := by
  obtain ⟨u', hcore, hu'⟩ := makeRemoteCore_complete ty u sub g
  have hty : ty = "git".toList ∨ ty = "http".toList ∨ ty = "https".toList := g.type_ok
  have hsch : u.scheme = "https".toList ∨ u.scheme = "ssh".toList := by
    rcases g.type_ok with h | h
    · exact g.git_scheme h
    · exact Or.inl (g.archive_scheme h)
  have hne : u.scheme ≠ [] := by rcases hsch with e | e <;> rw [e] <;> decide
  have hlow : toLowerAscii u.scheme = u.scheme := by rcases hsch with e | e <;> rw [e] <;> decide
  have hlowty : toLowerAscii ty = ty := by rcases hty with e | e | e <;> rw [e] <;> decide
  have htyne : ty ≠ [] := by rcases hty with e | e | e <;> rw [e] <;> decide
  refine ⟨{ sourceType := ty, url := normaliseRaw u', subPath := sub }, ?_, rfl, rfl, ?_⟩
  · rw [parseRemoteWith_lowerScheme _ sub u hne hlow huser hqe]
    by_cases h : ty = u.scheme
    · simp only [h, if_true]
      have : toLowerAscii [] = ([] : Str) := rfl
      simp only [this, if_true]
      rw [← h]; exact hcore
    · simp only [h, if_false, hlowty, htyne]
      exact hcore
  · obtain ⟨h1, _, h3, _, _, _, h7, h8⟩ := normaliseRaw_fields u'
    simp only [h1, h3, h7, h8]
    rcases hu' with e | e <;> subst e <;> exact ⟨rfl, rfl, rfl, rfl⟩

/-- writing the source type when it equals the scheme is rejected
("don't specify redundant … source type") -/
theorem C07_redundant_prefix (ty sub : Str) (u : UrlRec) (h : toLowerAscii ty = toLowerAscii u.scheme)
    (hne : ty ≠ []) : parseRemoteWith ty sub (some u) = none := by
  unfold parseRemoteWith
  have : toLowerAscii ty ≠ [] := fun e => hne ((toLowerAscii_eq_nil ty).mp e)
  simp only [h] at this ⊢
  simp [this]

/-- the URL record `url.Parse` yields for a plain ASCII URL `scheme://host/path?query` without
user information, fragment or escapes (`rawQuery` is the query as written, `tgzQuery` its
re-encoding with `archive=tgz`) -/
def refUrl (scheme host path : Str) (query : List (Str × List Str)) (rawQuery tgzQuery : Str) : UrlRec :=
  { scheme := scheme, opaq := [], hasUser := false, host := host, path := path, rawPath := [],
    forceQuery := false, rawQuery := rawQuery, fragment := [], rawFragment := [],
    query := query, queryErr := false, escapedPath := path, escapedFragment := [],
    tgzQuery := tgzQuery }

theorem normaliseRaw_refUrl (s h p : Str) (q : List (Str × List Str)) (rq tq : Str) :
    normaliseRaw (refUrl s h p q rq tq) = refUrl s h p q rq tq := by
  simp [normaliseRaw, refUrl]

/-- **C07_complete_ref_git.** `git::scheme://host/path?ref=…//sub` with scheme `https` or `ssh`,
at most the one query argument `ref`, and any valid sub-path is accepted — by the parser route and
by the constructor — and stored exactly as given. -/
theorem C07_complete_ref_git (scheme host path : Str) (q : List (Str × List Str)) (rq tq sub : Str)
    (hs : scheme = "https".toList ∨ scheme = "ssh".toList)
    (hq : ∀ kv ∈ q, kv.1 = "ref".toList ∧ kv.2.length ≤ 1) (hsub : ValidSub sub) :
    parseRemoteWith "git".toList sub (some (refUrl scheme host path q rq tq)) =
        some { sourceType := "git".toList, url := refUrl scheme host path q rq tq, subPath := sub } ∧
    makeRemote "git".toList (refUrl scheme host path q rq tq) sub =
        some { sourceType := "git".toList, url := refUrl scheme host path q rq tq, subPath := sub } := by
  have hcore := makeRemoteCore_git (refUrl scheme host path q rq tq) sub hs hq
  rw [normaliseRaw_refUrl] at hcore
  constructor
  · have hne : (refUrl scheme host path q rq tq).scheme ≠ [] := by
      show scheme ≠ []; rcases hs with e | e <;> rw [e] <;> decide
    have hlow : toLowerAscii (refUrl scheme host path q rq tq).scheme =
        (refUrl scheme host path q rq tq).scheme := by
      show toLowerAscii scheme = scheme; rcases hs with e | e <;> rw [e] <;> decide
    rw [parseRemoteWith_lowerScheme _ sub _ hne hlow rfl rfl]
    have h1 : toLowerAscii "git".toList = "git".toList := by decide
    have h2 : ¬ "git".toList = (refUrl scheme host path q rq tq).scheme := by
      show ¬ "git".toList = scheme; rcases hs with e | e <;> rw [e] <;> decide
    simp only [h1, h2, if_false, show ¬ "git".toList = ([] : Str) by decide]
    exact hcore
  · unfold makeRemote
    rw [normalizeSubpath_of_validSub sub hsub]
    simp only [refUrl, Bool.false_eq_true, and_false, if_false]
    exact hcore

/-- **C07_complete_ref_suffix.** `https://host/path.tar.gz` / `….tgz` without `archive` and
`checksum` arguments and with any valid sub-path is accepted and stored exactly as given. -/
theorem C07_complete_ref_suffix (host path : Str) (q : List (Str × List Str)) (rq tq sub : Str)
    (ha : valuesOf q "archive".toList = []) (hc : valuesOf q "checksum".toList = [])
    (hsuf : hasSuffix path ".tar.gz".toList = true ∨ hasSuffix path ".tgz".toList = true)
    (hsub : ValidSub sub) :
    parseRemoteWith [] sub (some (refUrl "https".toList host path q rq tq)) =
        some { sourceType := "https".toList, url := refUrl "https".toList host path q rq tq, subPath := sub } ∧
    makeRemote "https".toList (refUrl "https".toList host path q rq tq) sub =
        some { sourceType := "https".toList, url := refUrl "https".toList host path q rq tq, subPath := sub } := by
  have hp := prepareHttp_complete_suffix (refUrl "https".toList host path q rq tq) rfl
    (by rw [← valuesOf_eq_lookupQ]; exact hc) (by rw [← valuesOf_eq_lookupQ]; exact ha) hsuf
  have hcore := makeRemoteCore_http "https".toList _ _ sub (Or.inr rfl) hp
  rw [normaliseRaw_refUrl] at hcore
  constructor
  · rw [parseRemoteWith_lowerScheme _ sub _ (show "https".toList ≠ [] by decide)
      (show toLowerAscii "https".toList = "https".toList by decide) rfl rfl]
    simp only [show toLowerAscii ([] : Str) = [] from rfl, if_true]
    exact hcore
  · unfold makeRemote
    rw [normalizeSubpath_of_validSub sub hsub]
    simp only [refUrl, Bool.false_eq_true, and_false, if_false]
    exact hcore

/-- **C07_complete_ref_archive.** `https://host/path?archive=tgz` (or `tar.gz`), no `checksum`,
any valid sub-path: accepted, and stored with the query normalised to `archive=tgz`. -/
theorem C07_complete_ref_archive (host path : Str) (q : List (Str × List Str)) (rq tq sub v : Str)
    (ha : valuesOf q "archive".toList = [v]) (hv : v = "tar.gz".toList ∨ v = "tgz".toList)
    (hc : valuesOf q "checksum".toList = []) (hsub : ValidSub sub) :
    parseRemoteWith [] sub (some (refUrl "https".toList host path q rq tq)) =
        some { sourceType := "https".toList, url := refUrl "https".toList host path q tq tq, subPath := sub } ∧
    makeRemote "https".toList (refUrl "https".toList host path q rq tq) sub =
        some { sourceType := "https".toList, url := refUrl "https".toList host path q tq tq, subPath := sub } := by
  have hp := prepareHttp_complete_archive (refUrl "https".toList host path q rq tq) v rfl
    (by rw [← valuesOf_eq_lookupQ]; exact hc) (by rw [← valuesOf_eq_lookupQ]; exact ha) hv
  have hcore := makeRemoteCore_http "https".toList _ _ sub (Or.inr rfl) hp
  have e : ({ refUrl "https".toList host path q rq tq with
      rawQuery := (refUrl "https".toList host path q rq tq).tgzQuery } : UrlRec) =
      refUrl "https".toList host path q tq tq := rfl
  rw [e, normaliseRaw_refUrl] at hcore
  constructor
  · rw [parseRemoteWith_lowerScheme _ sub _ (show "https".toList ≠ [] by decide)
      (show toLowerAscii "https".toList = "https".toList by decide) rfl rfl]
    simp only [show toLowerAscii ([] : Str) = [] from rfl, if_true]
    exact hcore
  · unfold makeRemote
    rw [normalizeSubpath_of_validSub sub hsub]
    simp only [refUrl, Bool.false_eq_true, and_false, if_false]
    exact hcore

/-! ## the front end: host shorthands -/

/-- **C07_front_shorthand.** `github.com/org/repo` and `gitlab.com/org/repo` (organisation and
repository non-empty, without `/`, `?`, newline) are rewritten to the git source
`git::https://host/org/repo.git` — `.git` is appended unless the URL already ends in `git`
(`withDotGit`) — with an empty sub-path. -/
theorem C07_front_shorthand (host org repo : Str) (hh : IsShortHost host) (ho : ShortPart org)
    (hr : ShortPart repo) :
    remoteFront (host ++ '/' :: (org ++ '/' :: repo)) =
      .url "git".toList (withDotGit ("https://".toList ++ (host ++ '/' :: (org ++ '/' :: repo)))) [] := by
  obtain ⟨last, hl, hw⟩ := withDotGit_shape host org repo hr
  obtain ⟨h1, _, h3⟩ := front_of_expanded host org last [] hh ho hl (by simp)
  unfold remoteFront
  rw [expandShorthands_short host _ _ hh (shorthand_hit3 host org repo hh ho hr), hw]
  simp only [h1, h3]
  rfl

/-- **C07_front_shorthand_sub.** Further path elements become the sub-path, which must
normalise (`github.com/org/repo/../x` is an error). -/
theorem C07_front_shorthand_sub (host org repo sub : Str) (hh : IsShortHost host) (ho : ShortPart org)
    (hr : ShortPart repo) (hsub : '?' ∉ sub) :
    remoteFront (host ++ '/' :: (org ++ '/' :: (repo ++ '/' :: sub))) =
      match normalizeSubpath sub with
      | none => .error
      | some s => .url "git".toList (withDotGit ("https://".toList ++ (host ++ '/' :: (org ++ '/' :: repo)))) s := by
  obtain ⟨last, hl, hw⟩ := withDotGit_shape host org repo hr
  obtain ⟨_, h2, h3⟩ := front_of_expanded host org last sub hh ho hl hsub
  unfold remoteFront
  rw [expandShorthands_short host _ _ hh (shorthand_hit4 host org repo sub hh ho hr), hw]
  simp only [h2, h3]
  cases normalizeSubpath sub <;> rfl

/-- **C07_front_shorthand_short.** A shorthand with fewer than three parts is an error. -/
theorem C07_front_shorthand_short (host org : Str) (hh : IsShortHost host) (ho : '/' ∉ org) :
    remoteFront (host ++ '/' :: org) = .error := by
  have hit : shorthand (host ++ ['/']) (host ++ '/' :: org) = some none := by
    unfold shorthand
    have h1 : hasPrefix (host ++ '/' :: org) (host ++ ['/']) = true := by
      unfold hasPrefix
      rw [List.isPrefixOf_iff_prefix]
      exact ⟨org, by simp⟩
    have h2 : splitOn '/' (host ++ '/' :: org) = [host, org] := by
      rw [splitOn_append, splitOn_of_noSep '/' host (shortHost_noSlash host hh).1,
        splitOn_of_noSep '/' org ho]
      rfl
    simp only [h1, h2, Bool.not_true, Bool.false_eq_true, if_false]
    rfl
  have hexp : expandShorthands (host ++ '/' :: org) = none := by
    unfold expandShorthands
    simp only [Generated.shorthandPrefixes, List.foldl]
    rcases hh with rfl | rfl
    · have e1 : "github.com/".toList = "github.com".toList ++ ['/'] := by decide
      rw [e1, hit]
    · have e1 : "gitlab.com/".toList = "gitlab.com".toList ++ ['/'] := by decide
      have h2 := shorthand_other "gitlab.com".toList org (Or.inr rfl) "github.com/" (by decide) (by decide)
      rw [e1, hit, h2]
  unfold remoteFront
  rw [hexp]

/-- closed instances of the above (evaluated by `decide`, independent of the general proofs).  `github.com/org/repo[/sub…]` and
`gitlab.com/org/repo[/sub…]` are rewritten to `git::https://host/org/repo.git[//sub…]` before
anything else happens; fewer than three parts is an error; `.git` is appended unless the
repository part already ends in `git`. -/
theorem C07_front_shorthand_github :
    remoteFront "github.com/org/repo".toList =
      .url "git".toList "https://github.com/org/repo.git".toList [] := by decide
theorem C07_front_shorthand_gitlab :
    remoteFront "gitlab.com/org/repo".toList =
      .url "git".toList "https://gitlab.com/org/repo.git".toList [] := by decide
theorem C07_front_shorthand_github_sub :
    remoteFront "github.com/org/repo/sub/dir".toList =
      .url "git".toList "https://github.com/org/repo.git".toList "sub/dir".toList := by decide
theorem C07_front_shorthand_gitlab_sub :
    remoteFront "gitlab.com/org/repo/sub/dir".toList =
      .url "git".toList "https://gitlab.com/org/repo.git".toList "sub/dir".toList := by decide
theorem C07_front_shorthand_dotgit :
    remoteFront "github.com/org/repo.git".toList =
      .url "git".toList "https://github.com/org/repo.git".toList [] := by decide
theorem C07_front_shorthand_short_github : remoteFront "github.com/org".toList = .error := by decide
theorem C07_front_shorthand_short_gitlab : remoteFront "gitlab.com/org".toList = .error := by decide
/-- a sub-directory that climbs is rejected by the front end already -/
theorem C07_front_shorthand_bad_sub : remoteFront "github.com/org/repo/../x".toList = .error := by decide

/-! ## non-vacuity -/

example : IsShortHost "gitlab.com".toList ∧ ShortPart "hashicorp".toList ∧ ShortPart "go-slug".toList := by
  refine ⟨Or.inr rfl, ?_, ?_⟩ <;> unfold ShortPart <;> decide

/-- what `url.Parse` returns for `https://example.com/repo.git?ref=v1` -/
def exGitUrl : UrlRec := refUrl "https".toList "example.com".toList "/repo.git".toList
  [("ref".toList, ["v1".toList])] "ref=v1".toList "archive=tgz&ref=v1".toList
/-- what `url.Parse` returns for `HTTPS://example.com/m.zip?archive=tar.gz` -/
def exArchUrl : UrlRec := refUrl "HTTPS".toList "example.com".toList "/m.zip".toList
  [("archive".toList, ["tar.gz".toList])] "archive=tar.gz".toList "archive=tgz".toList

example : parseRemote (fun _ => some exGitUrl) "git::https://example.com/repo.git//sub?ref=v1".toList
    = some { sourceType := "git".toList, url := exGitUrl, subPath := "sub".toList } := by decide
/-- upper-case type and scheme are accepted and stored lower-case; `archive=tar.gz` is stored as
`archive=tgz` -/
example : parseRemoteWith "GIT".toList [] (some { exGitUrl with scheme := "HTTPS".toList })
    = some { sourceType := "git".toList, url := exGitUrl, subPath := [] } := by decide
example : parseRemoteWith [] [] (some exArchUrl)
    = some { sourceType := "https".toList,
             url := { exArchUrl with scheme := "https".toList, rawQuery := "archive=tgz".toList },
             subPath := [] } := by decide
/-- rejected: plain `http`, user information, a second query argument for git, a checksum -/
example : parseRemoteWith [] [] (some { exArchUrl with scheme := "http".toList }) = none := by decide
example : parseRemoteWith "git".toList [] (some { exGitUrl with hasUser := true }) = none := by decide
example : parseRemoteWith "git".toList []
    (some { exGitUrl with query := [("ref".toList, ["v1".toList]), ("depth".toList, ["1".toList])] })
    = none := by decide
example : makeRemote "https".toList
    { exArchUrl with
      scheme := "https".toList
      query := [("archive".toList, ["tgz".toList]), ("checksum".toList, ["x".toList])] } []
    = none := by decide
example : makeRemote "git".toList exGitUrl "a/../b".toList = none := by decide
example : Grammar { sourceType := "git".toList, url := exGitUrl, subPath := "sub".toList } :=
  (C07_sound_make _ _ _ _ (by decide : makeRemote "git".toList exGitUrl "sub".toList =
    some { sourceType := "git".toList, url := exGitUrl, subPath := "sub".toList })).1.toGrammar

end Slug
