import SlugModel.Lemmas.Local
/-!
# C06 — Addresses print to strings that parse back (local sources and sub-paths)

A `LocalSource` prints as its stored `relPath`; registry and remote addresses print their
sub-path as `pkg//sub` (before the query string, if any).  `parseLocal`, `splitSubPath`,
`normalizeSubpath`, `resolveLocalLocal` are the model of `ParseLocalSource`, `splitSubPath`,
`normalizeSubpath` and the local case of `ResolveRelativeSource` (tied to the code by the `addr`
lane).  Printing a *remote* package needs `net/url` and is covered by the `remote` lane.
-/
namespace Slug

/-- **C06_local_roundtrip.** `ParseLocalSource` only accepts strings that are already in
canonical form: the stored (= printed) path is the given string, and parsing the printed form
gives the same value again. -/
theorem C06_local_roundtrip (s a : Str) (h : parseLocal s = some a) :
    a = s ∧ parseLocal a = some a := by
  have e : a = s := (parseLocal_some s a h).1
  exact ⟨e, by rw [e]; rw [e] at h; exact h⟩

/-- **C06_local_resolve_canonical.** Resolving one canonical local source against another
(`ResolveRelativeSource` on two `LocalSource`s, with the repair that turns a result of `.` or
`..` into `./` or `../`) yields a path that is again in canonical form: its printed form is
accepted by `ParseLocalSource` and parses to the same value. -/
theorem C06_local_resolve_canonical (a b : Str) (ha : parseLocal a = some a)
    (hb : parseLocal b = some b) :
    parseLocal (resolveLocalLocal a b) = some (resolveLocalLocal a b) := by
  obtain ⟨_, _, ha1, ha2⟩ := parseLocal_some a a ha
  obtain ⟨_, _, hb1, hb2⟩ := parseLocal_some b b hb
  obtain ⟨hane, haabs⟩ := local_start a ha2
  obtain ⟨hbne, _⟩ := local_start b hb2
  have hj : pathJoin a b = pathClean (a ++ '/' :: b) := by
    unfold pathJoin; simp only [hane, hbne, if_false]
  rw [resolveLocalLocal_eq, hj]
  apply parseLocal_relocalise
  · cases a with
    | nil => exact absurd rfl hane
    | cons c r => simpa [isAbs] using haabs
  · have h1 : a.any badLocalChar = false := ha1
    have h2 : b.any badLocalChar = false := hb1
    simp only [List.any_append, List.any_cons, h1, h2]
    decide

/-- the result of a local resolution is accepted as it stands: round trip of the resolved
address through its printed form -/
theorem C06_local_resolve_roundtrip (a b : Str) (ha : parseLocal a = some a)
    (hb : parseLocal b = some b) :
    ∃ r, resolveRelative (.loc a) (.loc b) = some (.loc r) ∧ parseLocal r = some r :=
  ⟨resolveLocalLocal a b, rfl, C06_local_resolve_canonical a b ha hb⟩

/-- **C06_normalize_idem.** A normalised sub-path is a fixed point of `normalizeSubpath`
(so the sub-path printed from an address is accepted verbatim when parsed back). -/
theorem C06_normalize_idem (s n : Str) (h : normalizeSubpath s = some n) :
    normalizeSubpath n = some n := by
  have hv := normalizeSubpath_some s n h
  rw [hv.1]
  exact normalizeSubpath_of_validSub s hv.2

/-- `normalizeSubpath` never rewrites: it accepts a string unchanged or rejects it -/
theorem C06_normalize_id (s n : Str) (h : normalizeSubpath s = some n) : n = s :=
  (normalizeSubpath_some s n h).1

/-- **C06_subpath_split_roundtrip_partial.** Registry-style printing `pkg//sub[?query]` splits back into
package (with the query re-attached) and sub-path, provided that

* neither part contains `?`,
* `pkg` contains no `//` and does not end in `/`,
* the printed string contains no `://`.

Each side condition is necessary (`C06_cex_split_*` below): the plain statement "`pkg` without
`//`, `?`, `://`" is false for packages ending in `/` or `:` and for sub-paths containing `://`,
hence `_partial`.  Take `qs = []` for an address without query string. -/
theorem C06_subpath_split_roundtrip_partial (pkg sub qs : Str)
    (hq : '?' ∉ pkg) (hs : '?' ∉ sub) (hqs : qs = [] ∨ ∃ t, qs = '?' :: t)
    (hss : contains (pkg ++ ['/']) ['/', '/'] = false)
    (hsch : contains (pkg ++ '/' :: '/' :: sub) [':', '/', '/'] = false) :
    splitSubPath (pkg ++ '/' :: '/' :: sub ++ qs) = (pkg ++ qs, sub) := by
  have hpre : '?' ∉ pkg ++ '/' :: '/' :: sub := by
    intro hm
    rcases List.mem_append.mp hm with h | h
    · exact hq h
    · simp only [List.mem_cons] at h
      rcases h with h | h | h
      · cases h
      · cases h
      · exact hs h
  unfold contains at hss hsch
  simp only [Option.isSome_eq_false_iff, Option.isNone_iff_eq_none] at hss hsch
  rw [splitSubPath_eq _ qs hpre hqs, splitPre_join_plain pkg sub hsch hss]

/-- the same for URL-shaped packages `scheme://rest` (remote sources): only the first `://` is
skipped, `rest` contains no `//` and does not end in `/`; the sub-path may contain anything
but `?`. -/
theorem C06_subpath_split_roundtrip_url (sch rest sub qs : Str)
    (hq1 : '?' ∉ sch) (hq2 : '?' ∉ rest) (hs : '?' ∉ sub) (hqs : qs = [] ∨ ∃ t, qs = '?' :: t)
    (hsch : contains (sch ++ [':', '/']) [':', '/', '/'] = false)
    (hss : contains (rest ++ ['/']) ['/', '/'] = false) :
    splitSubPath (sch ++ ':' :: '/' :: '/' :: (rest ++ '/' :: '/' :: sub) ++ qs) =
      (sch ++ ':' :: '/' :: '/' :: rest ++ qs, sub) := by
  have hpre : '?' ∉ sch ++ ':' :: '/' :: '/' :: (rest ++ '/' :: '/' :: sub) := by
    simp only [List.mem_append, List.mem_cons, not_or]
    exact ⟨hq1, by decide, by decide, by decide, hq2, by decide, by decide, hs⟩
  unfold contains at hss hsch
  simp only [Option.isSome_eq_false_iff, Option.isNone_iff_eq_none] at hss hsch
  rw [splitSubPath_eq _ qs hpre hqs, splitPre_join_url sch rest sub hsch hss]

/-- a package without `//` (printed without sub-path) splits into itself and no sub-path -/
theorem C06_subpath_split_none (pkg qs : Str) (hq : '?' ∉ pkg) (hqs : qs = [] ∨ ∃ t, qs = '?' :: t)
    (hss : contains pkg ['/', '/'] = false) :
    splitSubPath (pkg ++ qs) = (pkg ++ qs, []) := by
  unfold contains at hss
  simp only [Option.isSome_eq_false_iff, Option.isNone_iff_eq_none] at hss
  rw [splitSubPath_eq _ qs hq hqs, splitPre_none_plain pkg hss]

theorem C06_subpath_split_none_url (sch rest qs : Str)
    (hq1 : '?' ∉ sch) (hq2 : '?' ∉ rest) (hqs : qs = [] ∨ ∃ t, qs = '?' :: t)
    (hsch : contains (sch ++ [':', '/']) [':', '/', '/'] = false)
    (hss : contains rest ['/', '/'] = false) :
    splitSubPath (sch ++ ':' :: '/' :: '/' :: rest ++ qs) = (sch ++ ':' :: '/' :: '/' :: rest ++ qs, []) := by
  have hpre : '?' ∉ sch ++ ':' :: '/' :: '/' :: rest := by
    simp only [List.mem_append, List.mem_cons, not_or]
    exact ⟨hq1, by decide, by decide, by decide, hq2⟩
  unfold contains at hss hsch
  simp only [Option.isSome_eq_false_iff, Option.isNone_iff_eq_none] at hss hsch
  rw [splitSubPath_eq _ qs hpre hqs, splitPre_none_url sch rest hsch hss]

/-- the side conditions of `C06_subpath_split_roundtrip_partial` are needed: a package ending in `/` -/
theorem C06_cex_split_trailing_slash :
    splitSubPath ("a/".toList ++ '/' :: '/' :: "b".toList) ≠ ("a/".toList, "b".toList) := by decide
/-- … a package ending in `:` (the separator completes a `://`) -/
theorem C06_cex_split_colon :
    splitSubPath ("a:".toList ++ '/' :: '/' :: "b".toList) ≠ ("a:".toList, "b".toList) := by decide
/-- … a `://` inside the sub-path of a scheme-less package -/
theorem C06_cex_split_sub_scheme :
    splitSubPath ("a".toList ++ '/' :: '/' :: "b://c".toList) ≠ ("a".toList, "b://c".toList) := by decide

/-- non-vacuity -/
example : parseLocal "./a/b".toList = some "./a/b".toList := by decide
example : parseLocal "./a/../b".toList = none := by decide
example : resolveLocalLocal "./a".toList "../".toList = "./".toList := by decide
example : resolveLocalLocal "./a".toList "../../".toList = "../".toList := by decide
example : resolveLocalLocal "./a".toList "../b".toList = "./b".toList := by decide
example : resolveLocalLocal "../a".toList "../../b".toList = "../../b".toList := by decide
example : splitSubPath "example.com/ns/name/aws//modules/vpc".toList
    = ("example.com/ns/name/aws".toList, "modules/vpc".toList) := by decide
example : splitSubPath "git::https://example.com/repo.git//sub/dir?ref=v1".toList
    = ("git::https://example.com/repo.git?ref=v1".toList, "sub/dir".toList) := by decide

end Slug
