import SlugModel.Builder
import SlugModel.Lemmas.BundlePaths
/-!
# C09 — A bundle survives being re-opened (manifest round trip, at the level of the tables)

`manifestOf` is the model of `Builder.writeManifest` on the builder's final tables
(`BState.pkgDirs`, `pkgMeta`, `resolved`, `deprec`), `openDir` the model of `OpenDir`.
The real writer sorts the package rows and the registry rows; the order of the rows has no
influence on the maps `OpenDir` builds as long as the keys are distinct, so `manifestOf` does
not sort.  Printing and parsing of addresses and versions are external: the theorem assumes an
oracle that parses every printed key back to itself (`printSrc` is the printed form of a remote
source: the package, then `//` and the sub-path when there is one).
-/
namespace Slug

/-- printed form of a remote source address (`RemoteSource.String`, package part opaque) -/
def printSrc (s : RemoteSrc) : Str := if s.sub = [] then s.pkg else s.pkg ++ '/' :: '/' :: s.sub

/-- one package row: commit id and message are left empty when there is no metadata -/
def bnMkPkg (pm : List (PkgAddr × (Str × Str))) (e : PkgAddr × ContentId) : MPkg :=
  { source := e.1, localDir := e.2,
    commit := ((assoc pm e.1).map (·.1)).getD [],
    msg := ((assoc pm e.1).map (·.2)).getD [] }

/-- one version row; a missing deprecation entry is written like "not deprecated" -/
def bnMkVer (dp : List ((RegPkg × VerS) × Option (Str × Str))) (e : (RegPkg × VerS) × RemoteSrc) : MVer :=
  { ver := e.1.2, source := printSrc e.2,
    deprecated := ((assoc dp e.1).getD none).isSome,
    reason := (((assoc dp e.1).getD none).map (·.1)).getD [],
    link := (((assoc dp e.1).getD none).map (·.2)).getD [] }

/-- `writeManifest`, without the sorting of rows: format 1, one package row per entry of
`pkgDirs`, one registry row per registry package that has a resolved version, holding one version
row per resolved version of that package. -/
def manifestOf (st : BState) : Manifest :=
  { format := 1,
    packages := st.pkgDirs.map (bnMkPkg st.pkgMeta),
    registry := (st.resolved.map (fun e => e.1.1)).eraseDups.map (fun r =>
      { source := r,
        versions := (st.resolved.filter (fun e => e.1.1 = r)).map (bnMkVer st.deprec) }) }

/-! ## helper facts (association lists, rows of `manifestOf`) -/

theorem bn_assoc_mem {α β : Type} [DecidableEq α] (l : List (α × β)) (k : α) (v : β)
    (h : assoc l k = some v) : (k, v) ∈ l := by
  induction l with
  | nil => simp [assoc] at h
  | cons e r ih =>
    obtain ⟨a, b⟩ := e
    unfold assoc at h
    split at h
    · rename_i e1
      cases h
      rw [e1]; simp
    · exact List.mem_cons_of_mem _ (ih h)

theorem bn_assoc_none {α β : Type} [DecidableEq α] (l : List (α × β)) (k : α)
    (h : assoc l k = none) : ∀ e ∈ l, e.1 ≠ k := by
  induction l with
  | nil => intro e he; cases he
  | cons x r ih =>
    obtain ⟨a, b⟩ := x
    unfold assoc at h
    split at h
    · cases h
    · rename_i hne
      intro e he
      rcases List.mem_cons.mp he with h1 | h1
      · rw [h1]; exact hne
      · exact ih h e h1

/-- distinct keys: a key has at most one value -/
theorem bn_nodup_fun {α β : Type} (l : List (α × β)) (h : (l.map Prod.fst).Nodup) :
    ∀ k v v', (k, v) ∈ l → (k, v') ∈ l → v = v' := by
  induction l with
  | nil => intro k v v' h1; cases h1
  | cons e r ih =>
    rw [List.map_cons, List.nodup_cons] at h
    intro k v v' h1 h2
    have key : ∀ w, (k, w) ∈ r → k ∈ r.map Prod.fst :=
      fun w hw => List.mem_map.mpr ⟨(k, w), hw, rfl⟩
    rcases List.mem_cons.mp h1 with e1 | e1 <;> rcases List.mem_cons.mp h2 with e2 | e2
    · have := e1.trans e2.symm
      simp only [Prod.mk.injEq] at this
      exact this.2
    · exfalso; apply h.1; rw [← e1]; exact key v' e2
    · exfalso; apply h.1; rw [← e2]; exact key v e1
    · exact ih h.2 k v v' e1 e2

theorem bn_verDeprec_mkVer (dp : List ((RegPkg × VerS) × Option (Str × Str)))
    (e : (RegPkg × VerS) × RemoteSrc) : bnVerDeprec (bnMkVer dp e) = (assoc dp e.1).getD none := by
  unfold bnVerDeprec bnMkVer
  cases (assoc dp e.1).getD none with
  | none => rfl
  | some x => rfl

/-- the flattened version rows of `manifestOf`, as `OpenDir` traverses them -/
theorem bn_manifest_flat_mem {β : Type} (st : BState) (φ : MVer → β) (x : (Str × Str) × β) :
    x ∈ (manifestOf st).registry.flatMap (fun r => r.versions.map (fun v => ((r.source, v.ver), φ v))) ↔
      ∃ e ∈ st.resolved, x = (e.1, φ (bnMkVer st.deprec e)) := by
  unfold manifestOf
  constructor
  · intro hx
    obtain ⟨row, hrow, hx⟩ := List.mem_flatMap.mp hx
    obtain ⟨r, _, rfl⟩ := List.mem_map.mp hrow
    obtain ⟨v, hv, rfl⟩ := List.mem_map.mp hx
    obtain ⟨e, he, rfl⟩ := List.mem_map.mp hv
    obtain ⟨he1, he2⟩ := List.mem_filter.mp he
    simp only [decide_eq_true_eq] at he2
    refine ⟨e, he1, ?_⟩
    simp only [bnMkVer, ← he2]
  · rintro ⟨e, he, rfl⟩
    apply List.mem_flatMap.mpr
    refine ⟨MReg.mk e.1.1 ((st.resolved.filter (fun e' => e'.1.1 = e.1.1)).map (bnMkVer st.deprec)),
      ?_, ?_⟩
    · apply List.mem_map.mpr
      exact ⟨e.1.1, List.mem_eraseDups.mpr (List.mem_map.mpr ⟨e, he, rfl⟩), rfl⟩
    · apply List.mem_map.mpr
      refine ⟨bnMkVer st.deprec e, ?_, rfl⟩
      apply List.mem_map.mpr
      exact ⟨e, List.mem_filter.mpr ⟨he, by simp⟩, rfl⟩

/-- the package rows of `manifestOf` that carry metadata, as `OpenDir` sees them -/
theorem bn_manifest_meta_mem (st : BState) (x : Str × (Str × Str)) :
    x ∈ ((manifestOf st).packages.filter (fun p => p.commit ≠ [])).map
        (fun p => (p.source, (p.commit, p.msg))) ↔
      ((∃ d, (x.1, d) ∈ st.pkgDirs) ∧ assoc st.pkgMeta x.1 = some x.2 ∧ x.2.1 ≠ []) := by
  unfold manifestOf
  constructor
  · intro hx
    obtain ⟨p, hp, rfl⟩ := List.mem_map.mp hx
    obtain ⟨hp1, hp2⟩ := List.mem_filter.mp hp
    obtain ⟨e, he, rfl⟩ := List.mem_map.mp hp1
    have hc : ((assoc st.pkgMeta e.1).map (·.1)).getD [] ≠ [] := of_decide_eq_true hp2
    refine ⟨⟨e.2, he⟩, ?_⟩
    show assoc st.pkgMeta e.1 = some (((assoc st.pkgMeta e.1).map (·.1)).getD [],
      ((assoc st.pkgMeta e.1).map (·.2)).getD []) ∧ ((assoc st.pkgMeta e.1).map (·.1)).getD [] ≠ []
    cases ha : assoc st.pkgMeta e.1 with
    | none => rw [ha] at hc; exact absurd rfl hc
    | some cm => rw [ha] at hc; exact ⟨rfl, hc⟩
  · rintro ⟨⟨d, hd⟩, ha, hc⟩
    apply List.mem_map.mpr
    refine ⟨bnMkPkg st.pkgMeta (x.1, d), List.mem_filter.mpr ⟨List.mem_map.mpr ⟨(x.1, d), hd, rfl⟩, ?_⟩, ?_⟩
    · simp only [bnMkPkg, ha, decide_eq_true_eq]; exact hc
    · simp only [bnMkPkg, ha]; rfl

/-! ## the property -/

/-- **C09_reopen_packages_partial.** The package part: for an oracle that parses every package key
back to itself, valid directory names and distinct package keys, opening the manifest of the
builder's tables succeeds on the package rows and reproduces `pkgDirs`; metadata is reproduced
exactly when its commit id is non-empty (`OpenDir` drops the message of a package without commit id). -/
theorem C09_reopen_packages_partial (o : BundleOracle) (st : BState) (b0 : Bundle)
    (hpkg : ∀ e ∈ st.pkgDirs, o.parsePkg e.1 = some e.1 ∧ validLocalDir e.2 = true)
    (hnd : (st.pkgDirs.map Prod.fst).Nodup) :
    ∃ b, openPackages o (manifestOf st).packages b0 = some b ∧ b.root = b0.root ∧
      b.regSources = b0.regSources ∧ b.regDeprec = b0.regDeprec ∧
      (∀ k, aget b.pkgDirs k = (assoc st.pkgDirs k).orElse (fun _ => aget b0.pkgDirs k)) ∧
      (b0.pkgMeta = [] → ∀ k, aget b.pkgMeta k =
        (assoc st.pkgDirs k).bind (fun _ => (assoc st.pkgMeta k).filter (fun m => m.1 ≠ []))) := by
  have hrows : ∀ p ∈ (manifestOf st).packages,
      validLocalDir p.localDir = true ∧ o.parsePkg p.source = some p.source := by
    intro p hp
    obtain ⟨e, he, rfl⟩ := List.mem_map.mp hp
    exact ⟨(hpkg e he).2, (hpkg e he).1⟩
  obtain ⟨b, h0, h1, h2, h3, h4, h5⟩ := bn_openPackages_ok o _ b0 hrows
  refine ⟨b, h0, h1, h2, h3, ?_, ?_⟩
  · intro k
    have hlist : (manifestOf st).packages.map (fun p => (p.source, p.localDir)) = st.pkgDirs := by
      unfold manifestOf
      simp only [List.map_map]
      exact List.map_id'' (fun e => rfl) _
    rw [h4, hlist]
    cases hk : assoc st.pkgDirs k with
    | none =>
      rw [bn_aget_insertAll_other _ k _ (bn_assoc_none _ _ hk)]; rfl
    | some d =>
      have hm := bn_assoc_mem _ _ _ hk
      rw [bn_aget_insertAll_mem _ k d _ hm (fun v' hv' => bn_nodup_fun _ hnd k v' d hv' hm)]; rfl
  · intro hempty k
    rw [h5, hempty]
    cases hk : assoc st.pkgDirs k with
    | none =>
      have hno := bn_assoc_none _ _ hk
      rw [bn_aget_insertAll_other _ k _ (by
        intro e he e1
        obtain ⟨⟨d, hd⟩, _⟩ := (bn_manifest_meta_mem st e).mp he
        rw [e1] at hd
        exact hno (k, d) hd rfl)]
      rfl
    | some d =>
      have hd := bn_assoc_mem _ _ _ hk
      simp only [Option.bind_some]
      cases ha : assoc st.pkgMeta k with
      | none =>
        rw [bn_aget_insertAll_other _ k _ (by
          intro e he e1
          obtain ⟨_, ha', _⟩ := (bn_manifest_meta_mem st e).mp he
          rw [e1, ha] at ha'; cases ha')]
        rfl
      | some cm =>
        by_cases hc : cm.1 = []
        · rw [bn_aget_insertAll_other _ k _ (by
            intro e he e1
            obtain ⟨_, ha', hc'⟩ := (bn_manifest_meta_mem st e).mp he
            rw [e1, ha] at ha'
            simp only [Option.some.injEq] at ha'
            exact hc' (ha' ▸ hc))]
          simp [Option.filter, hc, aget]
        · rw [bn_aget_insertAll_mem _ k cm _
            ((bn_manifest_meta_mem st (k, cm)).mpr ⟨⟨d, hd⟩, ha, hc⟩) (by
            intro v' hv'
            obtain ⟨_, ha', _⟩ := (bn_manifest_meta_mem st (k, v')).mp hv'
            rw [ha] at ha'
            simp only [Option.some.injEq] at ha'
            exact ha'.symm)]
          simp [Option.filter, hc]

/-- **C09_reopen_partial.** For an oracle that parses every printed key of the builder's tables
back to itself, valid directory names, and pairwise distinct keys in `pkgDirs` and in `resolved`
(a builder fetches a package once and resolves a registry version once), the manifest written
from the tables opens again, and the opened bundle holds the same tables:
the same package directories; the same metadata, except that metadata whose commit id is empty is
dropped; the same registry sources; the same deprecations (a resolved version without a deprecation
entry reads as "not deprecated"). -/
theorem C09_reopen_partial (o : BundleOracle) (root : Str) (st : BState)
    (hpkg : ∀ e ∈ st.pkgDirs, o.parsePkg e.1 = some e.1 ∧ validLocalDir e.2 = true)
    (hreg : ∀ e ∈ st.resolved, o.parseRegPkg e.1.1 = some e.1.1 ∧ o.parseVer e.1.2 = some e.1.2 ∧
      o.parseRemoteSrc (printSrc e.2) = some (e.2.pkg, e.2.sub))
    (hnd1 : (st.pkgDirs.map Prod.fst).Nodup) (hnd2 : (st.resolved.map Prod.fst).Nodup) :
    ∃ b, openDir o root (manifestOf st) = some b ∧ b.root = root ∧
      (∀ k, aget b.pkgDirs k = assoc st.pkgDirs k) ∧
      (∀ k, aget b.pkgMeta k =
        (assoc st.pkgDirs k).bind (fun _ => (assoc st.pkgMeta k).filter (fun m => m.1 ≠ []))) ∧
      (∀ r v, aget b.regSources (r, v) = (assoc st.resolved (r, v)).map (fun s => (s.pkg, s.sub))) ∧
      (∀ r v, aget b.regDeprec (r, v) =
        (assoc st.resolved (r, v)).map (fun _ => (assoc st.deprec (r, v)).getD none)) := by
  obtain ⟨b0, g0, g1, g2, g3, g4, g5⟩ := C09_reopen_packages_partial o st
    { root := root, pkgDirs := [], pkgMeta := [], regSources := [], regDeprec := [] } hpkg hnd1
  -- the registry rows are all accepted
  let g : MVer → Str × Str := fun v => (o.parseRemoteSrc v.source).getD ([], [])
  have hrows : ∀ r ∈ (manifestOf st).registry, o.parseRegPkg r.source = some r.source ∧
      ∀ v ∈ r.versions, o.parseVer v.ver = some v.ver ∧ o.parseRemoteSrc v.source = some (g v) := by
    intro row hrow
    unfold manifestOf at hrow
    simp only [List.mem_map, List.mem_eraseDups] at hrow
    obtain ⟨r, ⟨e, he, her⟩, rfl⟩ := hrow
    refine ⟨by rw [← her]; exact (hreg e he).1, ?_⟩
    intro v hv
    simp only [List.mem_map, List.mem_filter] at hv
    obtain ⟨e', ⟨he', _⟩, rfl⟩ := hv
    obtain ⟨_, h2, h3⟩ := hreg e' he'
    refine ⟨h2, ?_⟩
    show o.parseRemoteSrc (printSrc e'.2) = some ((o.parseRemoteSrc (printSrc e'.2)).getD ([], []))
    rw [h3]; rfl
  obtain ⟨b, h0, h1, h2, h3, h4, h5⟩ := bn_openRegistry_ok o g _ b0 hrows
  have hg : ∀ e ∈ st.resolved, g (bnMkVer st.deprec e) = (e.2.pkg, e.2.sub) := by
    intro e he
    show (o.parseRemoteSrc (printSrc e.2)).getD ([], []) = _
    rw [(hreg e he).2.2]; rfl
  refine ⟨b, ?_, by rw [h1, g1], ?_, ?_, ?_, ?_⟩
  · unfold openDir
    have hf : (manifestOf st).format = 1 := rfl
    simp only [hf, ne_eq, not_true_eq_false, if_false, g0, h0]
  · intro k
    rw [h2, g4 k]
    cases assoc st.pkgDirs k <;> rfl
  · intro k
    rw [h3]; exact g5 rfl k
  · intro r v
    rw [h4, g2]
    cases hk : assoc st.resolved (r, v) with
    | none =>
      have hno := bn_assoc_none _ _ hk
      rw [bn_aget_insertAll_other _ (r, v) _ (by
        intro x hx e1
        obtain ⟨e, he, rfl⟩ := (bn_manifest_flat_mem st g x).mp hx
        exact hno e he e1)]
      rfl
    | some s =>
      have hs := bn_assoc_mem _ _ _ hk
      rw [bn_aget_insertAll_mem _ (r, v) (s.pkg, s.sub) _
        ((bn_manifest_flat_mem st g _).mpr ⟨((r, v), s), hs, by rw [hg _ hs]⟩) (by
          intro v' hv'
          obtain ⟨e, he, hx⟩ := (bn_manifest_flat_mem st g _).mp hv'
          simp only [Prod.mk.injEq] at hx
          obtain ⟨hx1, hx2⟩ := hx
          have he' : ((r, v), e.2) ∈ st.resolved := by rw [hx1]; exact he
          have := bn_nodup_fun _ hnd2 (r, v) e.2 s he' hs
          rw [hx2, hg e he, this])]
      rfl
  · intro r v
    rw [h5, g3]
    cases hk : assoc st.resolved (r, v) with
    | none =>
      have hno := bn_assoc_none _ _ hk
      rw [bn_aget_insertAll_other _ (r, v) _ (by
        intro x hx e1
        obtain ⟨e, he, rfl⟩ := (bn_manifest_flat_mem st bnVerDeprec x).mp hx
        exact hno e he e1)]
      rfl
    | some s =>
      have hs := bn_assoc_mem _ _ _ hk
      rw [bn_aget_insertAll_mem _ (r, v) ((assoc st.deprec (r, v)).getD none) _
        ((bn_manifest_flat_mem st bnVerDeprec _).mpr
          ⟨((r, v), s), hs, by rw [bn_verDeprec_mkVer]⟩) (by
          intro v' hv'
          obtain ⟨e, he, hx⟩ := (bn_manifest_flat_mem st bnVerDeprec _).mp hv'
          simp only [Prod.mk.injEq] at hx
          obtain ⟨hx1, hx2⟩ := hx
          rw [hx2, bn_verDeprec_mkVer, ← hx1])]
      rfl

/-- **C09_reopen_tables_partial.** The same with the two book-keeping facts of builder runs made
explicit — metadata is only recorded for fetched packages, and a deprecation entry is recorded
exactly with a resolved version (`findRegistrySource` conses both at once): then the opened bundle's
metadata and deprecation tables are the builder's, up to the dropped commit-less metadata. -/
theorem C09_reopen_tables_partial (o : BundleOracle) (root : Str) (st : BState)
    (hpkg : ∀ e ∈ st.pkgDirs, o.parsePkg e.1 = some e.1 ∧ validLocalDir e.2 = true)
    (hreg : ∀ e ∈ st.resolved, o.parseRegPkg e.1.1 = some e.1.1 ∧ o.parseVer e.1.2 = some e.1.2 ∧
      o.parseRemoteSrc (printSrc e.2) = some (e.2.pkg, e.2.sub))
    (hnd1 : (st.pkgDirs.map Prod.fst).Nodup) (hnd2 : (st.resolved.map Prod.fst).Nodup)
    (hmeta : ∀ k, assoc st.pkgDirs k = none → assoc st.pkgMeta k = none)
    (hdep : ∀ k, (assoc st.deprec k).isSome = (assoc st.resolved k).isSome) :
    ∃ b, openDir o root (manifestOf st) = some b ∧ b.root = root ∧
      (∀ k, aget b.pkgDirs k = assoc st.pkgDirs k) ∧
      (∀ k, aget b.pkgMeta k = (assoc st.pkgMeta k).filter (fun m => m.1 ≠ [])) ∧
      (∀ r v, aget b.regSources (r, v) = (assoc st.resolved (r, v)).map (fun s => (s.pkg, s.sub))) ∧
      (∀ r v, aget b.regDeprec (r, v) = assoc st.deprec (r, v)) := by
  obtain ⟨b, h0, h1, h2, h3, h4, h5⟩ := C09_reopen_partial o root st hpkg hreg hnd1 hnd2
  refine ⟨b, h0, h1, h2, ?_, h4, ?_⟩
  · intro k
    rw [h3 k]
    cases hk : assoc st.pkgDirs k with
    | none => rw [hmeta k hk]; rfl
    | some d => rfl
  · intro r v
    rw [h5 r v]
    have := hdep (r, v)
    cases hk : assoc st.resolved (r, v) with
    | none =>
      rw [hk] at this
      cases hd : assoc st.deprec (r, v) with
      | none => rfl
      | some x => rw [hd] at this; cases this
    | some s =>
      rw [hk] at this
      cases hd : assoc st.deprec (r, v) with
      | none => rw [hd] at this; cases this
      | some x => rfl

/-! ## non-vacuity, and why the hypotheses are there -/

/-- an oracle whose source parser is the model of the real splitter -/
def bnReopenOracle : BundleOracle :=
  { parsePkg := fun s => some s, parseRegPkg := fun s => some s, parseVer := fun s => some s,
    parseRemoteSrc := fun s => some (splitSubPath s) }

def bnReopenState : BState :=
  { BState.init with
    pkgDirs := [("git::https://example.com/b.git".toList, "h2".toList),
                ("git::https://example.com/a.git".toList, "h1".toList)],
    pkgMeta := [("git::https://example.com/b.git".toList, ([], "no commit id".toList)),
                ("git::https://example.com/a.git".toList, ("abc".toList, "m".toList))],
    resolved := [(("example.com/ns/mod/aws".toList, "1.0.0".toList),
                  { pkg := "git::https://example.com/a.git".toList, sub := "modules/x".toList }),
                 (("example.com/ns/mod/aws".toList, "0.9.0".toList),
                  { pkg := "git::https://example.com/a.git".toList, sub := [] })],
    deprec := [(("example.com/ns/mod/aws".toList, "1.0.0".toList), none),
               (("example.com/ns/mod/aws".toList, "0.9.0".toList), some ("old".toList, "l".toList))] }

/-- the hypotheses of `C09_reopen_tables_partial` hold for this state and oracle -/
example : (∀ e ∈ bnReopenState.pkgDirs, bnReopenOracle.parsePkg e.1 = some e.1 ∧ validLocalDir e.2 = true) ∧
    (∀ e ∈ bnReopenState.resolved, bnReopenOracle.parseRegPkg e.1.1 = some e.1.1 ∧
      bnReopenOracle.parseVer e.1.2 = some e.1.2 ∧
      bnReopenOracle.parseRemoteSrc (printSrc e.2) = some (e.2.pkg, e.2.sub)) ∧
    (bnReopenState.pkgDirs.map Prod.fst).Nodup ∧ (bnReopenState.resolved.map Prod.fst).Nodup := by
  decide

/-- one registry row with two version rows -/
example : ((manifestOf bnReopenState).registry.map (fun r => (r.source, r.versions.map (·.ver))))
    = [("example.com/ns/mod/aws".toList, ["1.0.0".toList, "0.9.0".toList])] := by decide
example : ((manifestOf bnReopenState).registry.flatMap (fun r => r.versions.map (·.source)))
    = ["git::https://example.com/a.git//modules/x".toList, "git::https://example.com/a.git".toList] := by
  decide

/-- the re-opened tables, computed: the message without commit id is gone, everything else is back -/
example : (openDir bnReopenOracle "/b".toList (manifestOf bnReopenState)).map (·.pkgMeta)
    = some [("git::https://example.com/a.git".toList, ("abc".toList, "m".toList))] := by decide
example : (openDir bnReopenOracle "/b".toList (manifestOf bnReopenState)).map
      (fun b => aget b.pkgDirs "git::https://example.com/a.git".toList) = some (some "h1".toList) := by
  decide
example : (openDir bnReopenOracle "/b".toList (manifestOf bnReopenState)).map
      (fun b => aget b.regSources ("example.com/ns/mod/aws".toList, "1.0.0".toList))
    = some (some ("git::https://example.com/a.git".toList, "modules/x".toList)) := by decide
example : (openDir bnReopenOracle "/b".toList (manifestOf bnReopenState)).map
      (fun b => aget b.regDeprec ("example.com/ns/mod/aws".toList, "0.9.0".toList))
    = some (some (some ("old".toList, "l".toList))) := by decide

/-- **C09_cex_meta_dropped.** Metadata is *not* preserved in general: a commit message recorded
without a commit id is written to the manifest but dropped by `OpenDir`. -/
theorem C09_cex_meta_dropped :
    assoc bnReopenState.pkgMeta "git::https://example.com/b.git".toList
      = some ([], "no commit id".toList) ∧
    (openDir bnReopenOracle "/b".toList (manifestOf bnReopenState)).map
      (fun b => aget b.pkgMeta "git::https://example.com/b.git".toList) = some none := by decide

/-- **C09_cex_shadowed.** The distinct-keys hypothesis is needed: with a shadowed duplicate in the
association list (never produced by a builder run) the later row overrides, so the re-opened
table shows the shadowed value. -/
theorem C09_cex_shadowed :
    let st : BState := { BState.init with pkgDirs := [("k".toList, "new".toList), ("k".toList, "old".toList)] }
    assoc st.pkgDirs "k".toList = some "new".toList ∧
    (openDir bnReopenOracle "/b".toList (manifestOf st)).map (fun b => aget b.pkgDirs "k".toList)
      = some (some "old".toList) := by decide

end Slug
