import SlugModel.Lemmas.TrEq_excludes
import SlugModel.Lemmas.TrEq_readRules
import SlugModel.Props.C03
/-!
# C03 (tie by translation)

Tie by translation: the model function the theorems of this property are stated over equals the Lean
translation of the Go function, regenerated from /repo on every run (harness/cmd/go2lean); a change of
the Go function changes the translated definition and this proof obligation no longer checks.

`Ruleset.Excludes` is translated with its loop (`for _, rule := range r.rules`), the last-match-wins
assignments and the `dominating` flag; `(*rule).match` — pattern compilation and the regexp engine — is
the model's `ruleMatches` (Ignore.lean: `compileRx`, `matchT`), tied by the `ignore` lane.  The result
struct is read as the pair (Excluded, Dominating), the error result as a Boolean (never set here: the
error of an invalid pattern is outside the modelled fragment).

`readRules` is translated with its line loop (the `continue` cases, the `!` prefix, the backwards loop that sets
`negationsAfter` with its `break`, the trailing-`/`, leading-`/` and implicit-`**/` rewriting, the `append`);
the `io.Reader` is read as the list of lines `bufio.Scanner` delivers (the model's `scanLines`, tied by the
`ignore` lane), the scanner's error is not modelled (the error result is never set).
-/
namespace Slug

/-- **C03_tie_excludes.** The model's `excludes` (last match wins, `dominating`) is the translated
`Ruleset.Excludes` (internal/ignorefiles/ignorerules.go), for every rule list and path. -/
theorem C03_tie_excludes (rules : List Rule) (path : Str) :
    Gen.excludes rules path = (excludes rules path, false) :=
  gen_excludes rules path

/-- **C03_tie_readRules.** The model's `readRules` (the default rules, then one rule per line that is neither
blank nor a comment nor a lone `!`, with the `negationsAfter` marks) is the translated `readRules`
(internal/ignorefiles/terraformignore.go) on the lines of the content, for every content. -/
theorem C03_tie_readRules (content : Str) :
    Gen.readRules (scanLines content) = (readRules content, false) :=
  gen_readRules content

/-! ### The property, stated over the translated functions -/

/-- **C03_gen_excludes_last_match.** The Go method `Ruleset.Excludes` (internal/ignorefiles/ignorerules.go), as
translated, for every rule list and path: no error; when no rule matches the path the result is "not excluded,
not dominating"; otherwise the last rule of the list that matches the path decides alone — excluded unless
that rule is negated, dominating when it is moreover not followed by a negated rule (`negationsAfter`). -/
theorem C03_gen_excludes_last_match (rules : List Rule) (path : Str) :
    Gen.excludes rules path =
      ((match lastMatch rules path with
        | none => (false, false)
        | some r => (!r.negated, !r.negated && !r.negAfter)), false) := by
  rw [gen_excludes, excludes_eq_foldl, fold_eq]
  cases lastMatch rules path <;> rfl

/-- **C03_gen_excludes_last_match_decomp.** What "the last matching rule" is: when the translated `Excludes`
answers through a rule `r`, the list splits as `pre ++ r :: post` with `r` matching the path and no rule of
`post` matching it. -/
theorem C03_gen_excludes_last_match_decomp (rules : List Rule) (path : Str) :
    (Gen.excludes rules path = ((false, false), false) ∧ ∀ q ∈ rules, ruleMatches q path = false) ∨
    (∃ pre r post, rules = pre ++ r :: post ∧ ruleMatches r path = true ∧
      (∀ q ∈ post, ruleMatches q path = false) ∧
      Gen.excludes rules path = ((!r.negated, !r.negated && !r.negAfter), false)) := by
  rw [C03_gen_excludes_last_match]
  cases h : lastMatch rules path with
  | none => exact Or.inl ⟨rfl, lastMatch_none path rules h⟩
  | some r =>
    obtain ⟨pre, post, e, hm, hp⟩ := lastMatch_decomp path rules r h
    exact Or.inr ⟨pre, r, post, e, hm, hp, rfl⟩

/-- **C03_gen_excludes_last_match_wins.** For well-formed rules the `Excluded` result of the translated
`Ruleset.Excludes` is the documented glob semantics: the last rule whose glob (segment-wise specification
`specMatches`) selects the path decides — a negated rule gives `false`, any other `true` — and with no rule
selecting the path the result is `false`; the error result is never set. -/
theorem C03_gen_excludes_last_match_wins (rules : List Rule) (path : Str) (h : ∀ r ∈ rules, WFVal r.val) :
    (Gen.excludes rules path).1.1 = specExcluded (rules.map fun r => ⟨r.val, r.negated⟩) path ∧
    (Gen.excludes rules path).2 = false := by
  rw [gen_excludes]
  exact ⟨C03_last_match_wins rules path h, rfl⟩

/-- a rule without its `negationsAfter` mark: stored pattern and negation -/
def ruleKey (r : Rule) : Str × Bool := (r.val, r.negated)

/-- the rule (stored pattern, negated) one line of a rule file contributes, `none` for a line that contributes
nothing: a blank line, a comment, a lone `!`.  The stored pattern is the trimmed line without its `!`, with
`**` appended after a trailing `/`, and then without its leading `/` or else with `**/` in front. -/
def lineRule (line : Str) : Option (Str × Bool) :=
  match trimSpace line with
  | [] => none
  | c :: rest =>
    if c = '#' then none
    else
      let p1 := if c = '!' then rest else c :: rest
      if p1 = [] then none
      else
        let p2 := if p1.getLast? = some '/' then p1 ++ ['*', '*'] else p1
        some ((match p2 with
          | '/' :: r => r
          | _ => '*' :: '*' :: '/' :: p2), decide (c = '!'))

/-- examples: a negated directory pattern, a rooted pattern, and the lines that contribute nothing -/
example : lineRule " !foo/ ".toList = some ("**/foo/**".toList, true) := by decide
example : lineRule "/a/b".toList = some ("a/b".toList, false) := by decide
example : lineRule "# c".toList = none ∧ lineRule "  ".toList = none ∧ lineRule "!".toList = none := by decide

theorem markBack_ruleKey (acc : List Rule) : (markBack acc).map ruleKey = acc.map ruleKey := by
  induction acc with
  | nil => rfl
  | cons r rs ih =>
    unfold markBack
    split
    · rfl
    · simp only [List.map_cons, ih]; rfl

theorem readLine_ruleKey (acc : List Rule) (line : Str) :
    (readLine acc line).map ruleKey = (lineRule line).toList ++ acc.map ruleKey := by
  unfold readLine lineRule
  by_cases h0 : line = []
  · subst h0; simp [trimSpace, trimLeft]
  · simp only [h0, if_false]
    generalize trimSpace line = t
    rcases t with _ | ⟨c, rest⟩
    · rfl
    · by_cases hc : c = '#'
      · subst hc; rfl
      · simp only [hc, if_false]
        by_cases hneg : c = '!'
        · subst hneg
          simp only [if_true, decide_true]
          split
          · rfl
          · simp [markBack_ruleKey, ruleKey]; rfl
        · simp only [hneg, if_false, decide_false]
          split
          · rfl
          · simp [ruleKey]; rfl

theorem foldl_readLine_ruleKey (lines : List Str) (acc : List Rule) :
    (lines.foldl readLine acc).map ruleKey = (lines.filterMap lineRule).reverse ++ acc.map ruleKey := by
  induction lines generalizing acc with
  | nil => rfl
  | cons l ls ih =>
    rw [List.foldl_cons, ih, readLine_ruleKey]
    cases h : lineRule l <;> simp [h]

/-- **C03_gen_readRules_defaults_first.** The Go function `readRules` (internal/ignorefiles/terraformignore.go), as
translated, on the lines of any content: no error, and the returned rule list — looking at each rule's stored
pattern and negation, i.e. up to the `negationsAfter` marks — is the default rules, in their order, followed by
exactly one rule for every line that is neither blank nor a comment nor a lone `!`, in the order of the lines
(`lineRule` says which rule). -/
theorem C03_gen_readRules_defaults_first (content : Str) :
    (Gen.readRules (scanLines content)).2 = false ∧
    (Gen.readRules (scanLines content)).1.map ruleKey =
      defaultRules.map ruleKey ++ (scanLines content).filterMap lineRule := by
  rw [gen_readRules]
  refine ⟨rfl, ?_⟩
  show (readRules content).map ruleKey = _
  unfold readRules
  rw [List.map_reverse, foldl_readLine_ruleKey]
  simp [List.map_reverse]

/-- **C03_gen_readRules_marking.** … and the marks: in the rule list the translated `readRules` returns, every
rule that is followed (later in the list) by a negated rule has `negationsAfter` set — the default rules
included, which is the "re-marking" a `!` line performs. -/
theorem C03_gen_readRules_marking (content : Str) : MarkedOK (Gen.readRules (scanLines content)).1 := by
  rw [gen_readRules]; exact C03_marking content

/-- **C03_gen_readRules_stored_vals.** Every stored pattern in the rule list the translated `readRules` returns
(default rules included) is non-empty and does not end with `/`. -/
theorem C03_gen_readRules_stored_vals (content : Str) :
    ∀ r ∈ (Gen.readRules (scanLines content)).1, r.val ≠ [] ∧ r.val.getLast? ≠ some '/' := by
  rw [gen_readRules]; exact C03_stored_vals content

end Slug
