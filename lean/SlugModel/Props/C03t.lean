import SlugModel.Lemmas.TrEq_excludes
import SlugModel.Lemmas.TrEq_readRules
/-!
# C03 (tie by translation)

Tie by translation: the model function the theorems of this property are stated over equals the Lean
translation of the Go function, regenerated from /repo on every run (harness/cmd/go2lean); a change of
the Go function changes the translated definition and this proof obligation no longer checks.

`Ruleset.Excludes` is translated with its loop (`for _, rule := range r.rules`), the last-match-wins
assignments and the `dominating` flag; `(*rule).match` — pattern compilation and the regexp engine — is
the model's `ruleMatches` (Ignore.lean: `compileRx`, `matchT`), tied by the `ignore` lane.  The result
struct is read as the pair (Excluded, Dominating), the error result as a Boolean (never set here: the
error of an invalid pattern is outside the modelled fragment).

`readRules` is translated with its line loop (the `continue` cases, the `!` prefix, the backwards loop that sets
`negationsAfter` with its `break`, the trailing-`/`, leading-`/` and implicit-`**/` rewriting, the `append`);
the `io.Reader` is read as the list of lines `bufio.Scanner` delivers (the model's `scanLines`, tied by the
`ignore` lane), the scanner's error is not modelled (the error result is never set).
-/
namespace Slug

/-- **C03_tie_excludes.** The model's `excludes` (last match wins, `dominating`) is the translated
`Ruleset.Excludes` (internal/ignorefiles/ignorerules.go), for every rule list and path. -/
theorem C03_tie_excludes (rules : List Rule) (path : Str) :
    Gen.excludes rules path = (excludes rules path, false) :=
  gen_excludes rules path

/-- **C03_tie_readRules.** The model's `readRules` (the default rules, then one rule per line that is neither
blank nor a comment nor a lone `!`, with the `negationsAfter` marks) is the translated `readRules`
(internal/ignorefiles/terraformignore.go) on the lines of the content, for every content. -/
theorem C03_tie_readRules (content : Str) :
    Gen.readRules (scanLines content) = (readRules content, false) :=
  gen_readRules content

end Slug
