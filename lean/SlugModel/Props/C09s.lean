import SlugModel.Lemmas.ReopenSorted
/-!
# C09s — re-opening the manifest *as it is written* (sorted rows)

`C09_reopen_tables_partial` (Props/C09) and `C08_reopen` (Props/C08b) are about `manifestOf st`, the
rows of `writeManifest` in the order of the builder's tables.  The file on disk holds the rows in
sorted order: `manifestSorted st` (Props/C13m), which `C13_manifestSorted_rows` shows to be the
same rows up to order.  `OpenDir` builds maps from the rows, so the order of the rows is
irrelevant as long as no two rows carry the same key.  This file proves that
(`C09_openDir_perm`, for arbitrary manifests and oracles) and transfers the re-open theorems to
`manifestSorted` (`C09_reopen_sorted_partial`, `C09_reopen_sorted`), with the consequence that
every lookup is answered the same way on the two opened bundles (`C09_lookups_same_sorted`).

Vocabulary (Lemmas/ReopenSorted): `rsManifestEquiv m m'` is the relation of
`C13_manifestSorted_rows` (same format, package rows a permutation, registry sources a
permutation, the version rows of every registry row of `m` a permutation of those of a row of
`m'` with the same source); `rsSameRows m m'` the weaker "same rows as sets";
`rsDistinctKeys o m'`: two package rows / two registry rows / two version rows of one registry row
whose keys parse alike are the same row.
-/
namespace Slug

/-! ## 1. the general fact -/

/-- **C09_openDir_sameRows.** Two manifests with the same rows as sets (order and multiplicity of
the rows are irrelevant), where in one of them rows with the same parsed key are the same row:
`OpenDir` rejects both or accepts both, and then the two bundles have the same root and their
four tables agree as finite maps. -/
theorem C09_openDir_sameRows (o : BundleOracle) (root : Str) (m m' : Manifest)
    (hs : rsSameRows m m') (hk : rsDistinctKeys o m') :
    (openDir o root m = none ↔ openDir o root m' = none) ∧
    ∀ b b', openDir o root m = some b → openDir o root m' = some b' →
      b.root = b'.root ∧
      (∀ k, aget b.pkgDirs k = aget b'.pkgDirs k) ∧
      (∀ k, aget b.pkgMeta k = aget b'.pkgMeta k) ∧
      (∀ k, aget b.regSources k = aget b'.regSources k) ∧
      (∀ k, aget b.regDeprec k = aget b'.regDeprec k) := by
  constructor
  · rw [rs_openDir_none, rs_openDir_none, rs_opens_sameRows o m m' hs]
  · intro b b' hb hb'
    obtain ⟨_, rfl⟩ := rs_openDir_some o root m b hb
    obtain ⟨_, rfl⟩ := rs_openDir_some o root m' b' hb'
    exact ⟨rfl, rs_opened_sameRows o root m m' hs hk⟩

/-- **C09_openDir_perm.** The same for manifests related as `C13_manifestSorted_rows` relates the
written manifest to `manifestOf`: same format, the package rows a permutation, the sources of the
registry rows a permutation, the version rows of matching registry rows permutations of each
other.  Keys distinct (`rsDistinctKeys o m'`; `rs_distinctKeys_of_nodup` is the `Nodup` form). -/
theorem C09_openDir_perm (o : BundleOracle) (root : Str) (m m' : Manifest)
    (he : rsManifestEquiv m m') (hk : rsDistinctKeys o m') :
    (openDir o root m = none ↔ openDir o root m' = none) ∧
    ∀ b b', openDir o root m = some b → openDir o root m' = some b' →
      b.root = b'.root ∧
      (∀ k, aget b.pkgDirs k = aget b'.pkgDirs k) ∧
      (∀ k, aget b.pkgMeta k = aget b'.pkgMeta k) ∧
      (∀ k, aget b.regSources k = aget b'.regSources k) ∧
      (∀ k, aget b.regDeprec k = aget b'.regDeprec k) :=
  C09_openDir_sameRows o root m m' (rs_sameRows_of_equiv o m m' he hk) hk

/-- the same with the relation spelled out in the shape `C13_manifestSorted_rows` has, and the
distinct-keys hypothesis in `Nodup` form -/
theorem C09_openDir_perm_nodup (o : BundleOracle) (root : Str) (m m' : Manifest)
    (hf : m.format = m'.format) (hp : m.packages.Perm m'.packages)
    (hr : (m.registry.map (·.source)).Perm (m'.registry.map (·.source)))
    (hv : ∀ row ∈ m.registry, ∃ row' ∈ m'.registry,
      row'.source = row.source ∧ row.versions.Perm row'.versions)
    (n1 : (m'.packages.map (fun p => o.parsePkg p.source)).Nodup)
    (n2 : (m'.registry.map (fun r => o.parseRegPkg r.source)).Nodup)
    (n3 : ∀ r ∈ m'.registry, (r.versions.map (fun v => o.parseVer v.ver)).Nodup) :
    (openDir o root m = none ↔ openDir o root m' = none) ∧
    ∀ b b', openDir o root m = some b → openDir o root m' = some b' →
      b.root = b'.root ∧
      (∀ k, aget b.pkgDirs k = aget b'.pkgDirs k) ∧
      (∀ k, aget b.pkgMeta k = aget b'.pkgMeta k) ∧
      (∀ k, aget b.regSources k = aget b'.regSources k) ∧
      (∀ k, aget b.regDeprec k = aget b'.regDeprec k) :=
  C09_openDir_perm o root m m' ⟨hf, hp, hr, hv⟩ (rs_distinctKeys_of_nodup o m' n1 n2 n3)

/-- **C09_openDir_keys.** Whatever the manifest, the tables of an opened bundle have pairwise
distinct keys (they model Go maps). -/
theorem C09_openDir_keys (o : BundleOracle) (root : Str) (m : Manifest) (b : Bundle)
    (hb : openDir o root m = some b) :
    (b.pkgDirs.map Prod.fst).Nodup ∧ (b.pkgMeta.map Prod.fst).Nodup ∧
    (b.regSources.map Prod.fst).Nodup ∧ (b.regDeprec.map Prod.fst).Nodup := by
  obtain ⟨_, rfl⟩ := rs_openDir_some o root m b hb
  exact rs_opened_keys o root m

/-- **C09_openDir_perm_tables.** Hence under the hypotheses of `C09_openDir_sameRows` the tables of
the two bundles hold the same rows: they are permutations of each other as lists. -/
theorem C09_openDir_perm_tables (o : BundleOracle) (root : Str) (m m' : Manifest)
    (hs : rsSameRows m m') (hk : rsDistinctKeys o m') (b b' : Bundle)
    (hb : openDir o root m = some b) (hb' : openDir o root m' = some b') :
    b.pkgDirs.Perm b'.pkgDirs ∧ b.pkgMeta.Perm b'.pkgMeta ∧
    b.regSources.Perm b'.regSources ∧ b.regDeprec.Perm b'.regDeprec := by
  obtain ⟨_, e1, e2, e3, e4⟩ := (C09_openDir_sameRows o root m m' hs hk).2 b b' hb hb'
  obtain ⟨k1, k2, k3, k4⟩ := C09_openDir_keys o root m b hb
  obtain ⟨k1', k2', k3', k4'⟩ := C09_openDir_keys o root m' b' hb'
  exact ⟨rs_perm_of_aget_eq _ _ k1 k1' e1, rs_perm_of_aget_eq _ _ k2 k2' e2,
    rs_perm_of_aget_eq _ _ k3 k3' e3, rs_perm_of_aget_eq _ _ k4 k4' e4⟩

/-- **C09_lookups_same.** Under the same hypotheses every lookup is answered alike by the two
bundles: both forward lookups, the reverse lookup (and its first half), metadata, deprecation. -/
theorem C09_lookups_same (o : BundleOracle) (root : Str) (m m' : Manifest)
    (hs : rsSameRows m m') (hk : rsDistinctKeys o m') (b b' : Bundle)
    (hb : openDir o root m = some b) (hb' : openDir o root m' = some b') :
    (∀ pkg sub, localPathForRemote b pkg sub = localPathForRemote b' pkg sub) ∧
    (∀ r v s, localPathForRegistry b r v s = localPathForRegistry b' r v s) ∧
    (∀ p, sourceForLocalPath b p = sourceForLocalPath b' p) ∧
    (∀ p, splitLocalPath b p = splitLocalPath b' p) ∧
    (∀ k, aget b.pkgMeta k = aget b'.pkgMeta k) ∧
    (∀ k, aget b.regDeprec k = aget b'.regDeprec k) := by
  obtain ⟨e0, e1, e2, e3, e4⟩ := (C09_openDir_sameRows o root m m' hs hk).2 b b' hb hb'
  obtain ⟨p1, _⟩ := C09_openDir_perm_tables o root m m' hs hk b b' hb hb'
  have hrem : ∀ pkg sub, localPathForRemote b pkg sub = localPathForRemote b' pkg sub := by
    intro pkg sub
    unfold localPathForRemote
    rw [e1 pkg, e0]
  refine ⟨hrem, ?_, fun p => C18_reverse_order_free b b' e0 p1 p,
    fun p => br_split_congr b b' p e0 (fun _ => p1.any_eq), e2, e4⟩
  intro r v s
  unfold localPathForRegistry
  rw [e3 (r, v)]
  cases aget b'.regSources (r, v) with
  | none => rfl
  | some x => exact hrem _ _

/-! ## 2. `manifestSorted` and `manifestOf` -/

/-- `C13_manifestSorted_rows`, as a relation -/
theorem C09_manifestSorted_equiv (st : BState)
    (hnd1 : (st.pkgDirs.map Prod.fst).Nodup) (hnd2 : (st.resolved.map Prod.fst).Nodup) :
    rsManifestEquiv (manifestSorted st) (manifestOf st) :=
  let ⟨h1, h2, h3, h4⟩ := C13_manifestSorted_rows st hnd1 hnd2
  ⟨h1, h2, h3, h4⟩

/-- the rows of `manifestOf st` have distinct keys when the builder's tables have and the oracle
parses the keys back to themselves -/
theorem C09_manifestOf_distinctKeys (o : BundleOracle) (st : BState)
    (hpkg : ∀ e ∈ st.pkgDirs, o.parsePkg e.1 = some e.1)
    (hreg : ∀ e ∈ st.resolved, o.parseRegPkg e.1.1 = some e.1.1 ∧ o.parseVer e.1.2 = some e.1.2)
    (hnd1 : (st.pkgDirs.map Prod.fst).Nodup) (hnd2 : (st.resolved.map Prod.fst).Nodup) :
    rsDistinctKeys o (manifestOf st) := by
  refine ⟨?_, ?_, ?_⟩
  · intro p hp q hq h
    obtain ⟨e, he, rfl⟩ := List.mem_map.mp hp
    obtain ⟨e', he', rfl⟩ := List.mem_map.mp hq
    have h' : o.parsePkg e.1 = o.parsePkg e'.1 := h
    rw [hpkg e he, hpkg e' he'] at h'
    have hk : e.1 = e'.1 := Option.some.inj h'
    obtain ⟨a, c⟩ := e
    obtain ⟨a', c'⟩ := e'
    simp only at hk
    subst hk
    rw [bn_nodup_fun _ hnd1 a c c' he he']
  · intro r hr r' hr' h
    unfold manifestOf at hr hr'
    simp only [List.mem_map, List.mem_eraseDups] at hr hr'
    obtain ⟨a, ⟨e, he, hea⟩, rfl⟩ := hr
    obtain ⟨a', ⟨e', he', hea'⟩, rfl⟩ := hr'
    have h' : o.parseRegPkg a = o.parseRegPkg a' := h
    rw [← hea, ← hea', (hreg e he).1, (hreg e' he').1, hea, hea'] at h'
    have hk : a = a' := Option.some.inj h'
    subst hk
    rfl
  · intro r hr v hv v' hv' h
    unfold manifestOf at hr
    simp only [List.mem_map, List.mem_eraseDups] at hr
    obtain ⟨a, _, rfl⟩ := hr
    obtain ⟨e, he, rfl⟩ := List.mem_map.mp hv
    obtain ⟨e', he', rfl⟩ := List.mem_map.mp hv'
    obtain ⟨he1, he2⟩ := List.mem_filter.mp he
    obtain ⟨he1', he2'⟩ := List.mem_filter.mp he'
    have he2 : e.1.1 = a := of_decide_eq_true he2
    have he2' : e'.1.1 = a := of_decide_eq_true he2'
    have h' : o.parseVer e.1.2 = o.parseVer e'.1.2 := h
    rw [(hreg e he1).2, (hreg e' he1').2] at h'
    have hk2 : e.1.2 = e'.1.2 := Option.some.inj h'
    obtain ⟨⟨r1, v1⟩, s⟩ := e
    obtain ⟨⟨r1', v1'⟩, s'⟩ := e'
    simp only at he2 he2' hk2
    subst he2
    subst he2'
    subst hk2
    rw [bn_nodup_fun _ hnd2 _ s s' he1 he1']

/-- **C09_openDir_sorted.** For a builder state with distinct keys and an oracle that parses the
keys back to themselves: `OpenDir` accepts the written (sorted) manifest exactly if it accepts
`manifestOf st`, and then the two bundles have the same root and the same tables as finite maps. -/
theorem C09_openDir_sorted (o : BundleOracle) (root : Str) (st : BState)
    (hpkg : ∀ e ∈ st.pkgDirs, o.parsePkg e.1 = some e.1)
    (hreg : ∀ e ∈ st.resolved, o.parseRegPkg e.1.1 = some e.1.1 ∧ o.parseVer e.1.2 = some e.1.2)
    (hnd1 : (st.pkgDirs.map Prod.fst).Nodup) (hnd2 : (st.resolved.map Prod.fst).Nodup) :
    (openDir o root (manifestSorted st) = none ↔ openDir o root (manifestOf st) = none) ∧
    ∀ b b', openDir o root (manifestSorted st) = some b → openDir o root (manifestOf st) = some b' →
      b.root = b'.root ∧
      (∀ k, aget b.pkgDirs k = aget b'.pkgDirs k) ∧
      (∀ k, aget b.pkgMeta k = aget b'.pkgMeta k) ∧
      (∀ k, aget b.regSources k = aget b'.regSources k) ∧
      (∀ k, aget b.regDeprec k = aget b'.regDeprec k) :=
  C09_openDir_perm o root _ _ (C09_manifestSorted_equiv st hnd1 hnd2)
    (C09_manifestOf_distinctKeys o st hpkg hreg hnd1 hnd2)

/-! ## 3. the re-open theorems for the written manifest -/

/-- **C09_reopen_sorted_weak_partial.** `C09_reopen_partial` for the written manifest. -/
theorem C09_reopen_sorted_weak_partial (o : BundleOracle) (root : Str) (st : BState)
    (hpkg : ∀ e ∈ st.pkgDirs, o.parsePkg e.1 = some e.1 ∧ validLocalDir e.2 = true)
    (hreg : ∀ e ∈ st.resolved, o.parseRegPkg e.1.1 = some e.1.1 ∧ o.parseVer e.1.2 = some e.1.2 ∧
      o.parseRemoteSrc (printSrc e.2) = some (e.2.pkg, e.2.sub))
    (hnd1 : (st.pkgDirs.map Prod.fst).Nodup) (hnd2 : (st.resolved.map Prod.fst).Nodup) :
    ∃ b, openDir o root (manifestSorted st) = some b ∧ b.root = root ∧
      (∀ k, aget b.pkgDirs k = assoc st.pkgDirs k) ∧
      (∀ k, aget b.pkgMeta k =
        (assoc st.pkgDirs k).bind (fun _ => (assoc st.pkgMeta k).filter (fun m => m.1 ≠ []))) ∧
      (∀ r v, aget b.regSources (r, v) = (assoc st.resolved (r, v)).map (fun s => (s.pkg, s.sub))) ∧
      (∀ r v, aget b.regDeprec (r, v) =
        (assoc st.resolved (r, v)).map (fun _ => (assoc st.deprec (r, v)).getD none)) := by
  obtain ⟨b', h0, h1, h2, h3, h4, h5⟩ := C09_reopen_partial o root st hpkg hreg hnd1 hnd2
  obtain ⟨hnone, htab⟩ := C09_openDir_sorted o root st (fun e he => (hpkg e he).1)
    (fun e he => ⟨(hreg e he).1, (hreg e he).2.1⟩) hnd1 hnd2
  cases hb : openDir o root (manifestSorted st) with
  | none => rw [hnone.mp hb] at h0; cases h0
  | some b =>
    obtain ⟨g1, g2, g3, g4, g5⟩ := htab b b' hb h0
    exact ⟨b, rfl, g1.trans h1, fun k => (g2 k).trans (h2 k), fun k => (g3 k).trans (h3 k),
      fun r v => (g4 (r, v)).trans (h4 r v), fun r v => (g5 (r, v)).trans (h5 r v)⟩

/-- **C09_reopen_sorted_partial.** `C09_reopen_tables_partial` for the manifest as it is written:
under the same hypotheses the sorted manifest opens again and the opened bundle holds the
builder's tables (metadata without commit id dropped, as in `C09_cex_meta_dropped`). -/
theorem C09_reopen_sorted_partial (o : BundleOracle) (root : Str) (st : BState)
    (hpkg : ∀ e ∈ st.pkgDirs, o.parsePkg e.1 = some e.1 ∧ validLocalDir e.2 = true)
    (hreg : ∀ e ∈ st.resolved, o.parseRegPkg e.1.1 = some e.1.1 ∧ o.parseVer e.1.2 = some e.1.2 ∧
      o.parseRemoteSrc (printSrc e.2) = some (e.2.pkg, e.2.sub))
    (hnd1 : (st.pkgDirs.map Prod.fst).Nodup) (hnd2 : (st.resolved.map Prod.fst).Nodup)
    (hmeta : ∀ k, assoc st.pkgDirs k = none → assoc st.pkgMeta k = none)
    (hdep : ∀ k, (assoc st.deprec k).isSome = (assoc st.resolved k).isSome) :
    ∃ b, openDir o root (manifestSorted st) = some b ∧ b.root = root ∧
      (∀ k, aget b.pkgDirs k = assoc st.pkgDirs k) ∧
      (∀ k, aget b.pkgMeta k = (assoc st.pkgMeta k).filter (fun m => m.1 ≠ [])) ∧
      (∀ r v, aget b.regSources (r, v) = (assoc st.resolved (r, v)).map (fun s => (s.pkg, s.sub))) ∧
      (∀ r v, aget b.regDeprec (r, v) = assoc st.deprec (r, v)) := by
  obtain ⟨b', h0, h1, h2, h3, h4, h5⟩ :=
    C09_reopen_tables_partial o root st hpkg hreg hnd1 hnd2 hmeta hdep
  obtain ⟨hnone, htab⟩ := C09_openDir_sorted o root st (fun e he => (hpkg e he).1)
    (fun e he => ⟨(hreg e he).1, (hreg e he).2.1⟩) hnd1 hnd2
  cases hb : openDir o root (manifestSorted st) with
  | none => rw [hnone.mp hb] at h0; cases h0
  | some b =>
    obtain ⟨g1, g2, g3, g4, g5⟩ := htab b b' hb h0
    exact ⟨b, rfl, g1.trans h1, fun k => (g2 k).trans (h2 k), fun k => (g3 k).trans (h3 k),
      fun r v => (g4 (r, v)).trans (h4 r v), fun r v => (g5 (r, v)).trans (h5 r v)⟩

/-- **C09_reopen_sorted.** `C08_reopen` for the manifest as it is written: the sorted manifest of
the state of any run opens again, and the opened bundle holds the builder's tables.  Hypotheses on
the environment only (`bbParses o w`). -/
theorem C09_reopen_sorted (o : BundleOracle) (root : Str) (w : World) (fuel : Nat) (ops : List Op)
    (hp : bbParses o w) :
    ∃ b, openDir o root (manifestSorted (runOps w fuel BState.init ops).1) = some b ∧ b.root = root ∧
      (∀ k, aget b.pkgDirs k = assoc (runOps w fuel BState.init ops).1.pkgDirs k) ∧
      (∀ k, aget b.pkgMeta k =
        (assoc (runOps w fuel BState.init ops).1.pkgMeta k).filter (fun m => m.1 ≠ [])) ∧
      (∀ r v, aget b.regSources (r, v) =
        (assoc (runOps w fuel BState.init ops).1.resolved (r, v)).map (fun s => (s.pkg, s.sub))) ∧
      (∀ r v, aget b.regDeprec (r, v) = assoc (runOps w fuel BState.init ops).1.deprec (r, v)) := by
  have s := bb_run_sinv w fuel ops
  have k := bb_run_keys w fuel ops
  exact C09_reopen_sorted_partial o root _ (bb_hpkg hp s k) (bb_hreg hp s k) k.dirs k.res
    s.meta_none (fun k' => bb_isSome_eq_of_none_iff (s.dep_keys k'))

/-! ## 4. every lookup is answered the same way -/

/-- **C09_lookups_same_sorted.** `b` opened from `manifestOf st`, `b'` from the written manifest
`manifestSorted st`: the package-directory tables are permutations of each other, and every lookup
— remote, registry, reverse (with its first half `splitLocalPath`), metadata, deprecation — is
answered the same way.  So the lookup theorems of Props/C08b and Props/C18, which are about a
bundle opened from `manifestOf`, hold of the bundle opened from the file on disk. -/
theorem C09_lookups_same_sorted (o : BundleOracle) (root : Str) (st : BState)
    (hpkg : ∀ e ∈ st.pkgDirs, o.parsePkg e.1 = some e.1)
    (hreg : ∀ e ∈ st.resolved, o.parseRegPkg e.1.1 = some e.1.1 ∧ o.parseVer e.1.2 = some e.1.2)
    (hnd1 : (st.pkgDirs.map Prod.fst).Nodup) (hnd2 : (st.resolved.map Prod.fst).Nodup)
    (b b' : Bundle) (hb : openDir o root (manifestOf st) = some b)
    (hb' : openDir o root (manifestSorted st) = some b') :
    b.root = b'.root ∧ b.pkgDirs.Perm b'.pkgDirs ∧
    (∀ pkg sub, localPathForRemote b pkg sub = localPathForRemote b' pkg sub) ∧
    (∀ r v s, localPathForRegistry b r v s = localPathForRegistry b' r v s) ∧
    (∀ p, sourceForLocalPath b p = sourceForLocalPath b' p) ∧
    (∀ p, splitLocalPath b p = splitLocalPath b' p) ∧
    (∀ k, aget b.pkgMeta k = aget b'.pkgMeta k) ∧
    (∀ k, aget b.regDeprec k = aget b'.regDeprec k) := by
  have hk := C09_manifestOf_distinctKeys o st hpkg hreg hnd1 hnd2
  have hs := rs_sameRows_of_equiv o _ _ (C09_manifestSorted_equiv st hnd1 hnd2) hk
  obtain ⟨l1, l2, l3, l4, l5, l6⟩ := C09_lookups_same o root _ _ hs hk b' b hb' hb
  obtain ⟨p1, _⟩ := C09_openDir_perm_tables o root _ _ hs hk b' b hb' hb
  exact ⟨(bn_openDir_root o root _ b hb).trans (bn_openDir_root o root _ b' hb').symm, p1.symm,
    fun pkg sub => (l1 pkg sub).symm, fun r v s => (l2 r v s).symm, fun p => (l3 p).symm,
    fun p => (l4 p).symm, fun k => (l5 k).symm, fun k => (l6 k).symm⟩

/-- **C09_lookups_same_run.** The same for the state of any run, hypotheses on the environment
only. -/
theorem C09_lookups_same_run (o : BundleOracle) (root : Str) (w : World) (fuel : Nat)
    (ops : List Op) (hp : bbParses o w) (b b' : Bundle)
    (hb : openDir o root (manifestOf (runOps w fuel BState.init ops).1) = some b)
    (hb' : openDir o root (manifestSorted (runOps w fuel BState.init ops).1) = some b') :
    b.root = b'.root ∧ b.pkgDirs.Perm b'.pkgDirs ∧
    (∀ pkg sub, localPathForRemote b pkg sub = localPathForRemote b' pkg sub) ∧
    (∀ r v s, localPathForRegistry b r v s = localPathForRegistry b' r v s) ∧
    (∀ p, sourceForLocalPath b p = sourceForLocalPath b' p) ∧
    (∀ p, splitLocalPath b p = splitLocalPath b' p) ∧
    (∀ k, aget b.pkgMeta k = aget b'.pkgMeta k) ∧
    (∀ k, aget b.regDeprec k = aget b'.regDeprec k) := by
  have s := bb_run_sinv w fuel ops
  have k := bb_run_keys w fuel ops
  exact C09_lookups_same_sorted o root _ (fun e he => (bb_hpkg hp s k e he).1)
    (fun e he => ⟨(bb_hreg hp s k e he).1, (bb_hreg hp s k e he).2.1⟩) k.dirs k.res b b' hb hb'

/-! ## 5. non-vacuity: the example world of Spec/Reach (`exWorld`, `exOps`, fuel 56), the oracle of
Props/C09, root `/b` -/

/-- the written manifest and `manifestOf` of the finished run differ as lists … -/
example : manifestSorted (runOps exWorld 56 BState.init exOps).1 ≠
    manifestOf (runOps exWorld 56 BState.init exOps).1 := by decide
example : (manifestSorted (runOps exWorld 56 BState.init exOps).1).packages.map (·.source) =
      ["a".toList, "b".toList, "r".toList] ∧
    (manifestOf (runOps exWorld 56 BState.init exOps).1).packages.map (·.source) =
      ["r".toList, "b".toList, "a".toList] := by decide

/-- … both open (`bbEx_open`, Props/C08b, is the unsorted one); the bundle of the written manifest: -/
def rsExBundleSorted : Bundle :=
  { root := "/b".toList,
    pkgDirs := [("r".toList, "cr".toList), ("b".toList, "cb".toList), ("a".toList, "ca".toList)],
    pkgMeta := [("b".toList, ("meta".toList, "x".toList))],
    regSources := [(("reg".toList, "2.0.0".toList), ("r".toList, "mod".toList))],
    regDeprec := [(("reg".toList, "2.0.0".toList), some ("old".toList, "link".toList))] }

theorem rsEx_open_sorted : openDir bnReopenOracle "/b".toList
    (manifestSorted (runOps exWorld 56 BState.init exOps).1) = some rsExBundleSorted := by rfl

/-- … the opened tables differ as lists (the rows were inserted in another order) … -/
example : rsExBundleSorted.pkgDirs ≠ bbExBundle.pkgDirs := by decide
/-- … and agree as maps, key by key … -/
example : aget rsExBundleSorted.pkgDirs "a".toList = aget bbExBundle.pkgDirs "a".toList ∧
    aget rsExBundleSorted.pkgDirs "r".toList = aget bbExBundle.pkgDirs "r".toList ∧
    aget rsExBundleSorted.pkgDirs "zz".toList = aget bbExBundle.pkgDirs "zz".toList ∧
    aget rsExBundleSorted.pkgMeta "b".toList = aget bbExBundle.pkgMeta "b".toList ∧
    aget rsExBundleSorted.regSources ("reg".toList, "2.0.0".toList) =
      aget bbExBundle.regSources ("reg".toList, "2.0.0".toList) ∧
    aget rsExBundleSorted.regDeprec ("reg".toList, "2.0.0".toList) =
      aget bbExBundle.regDeprec ("reg".toList, "2.0.0".toList) := by decide
example : aget rsExBundleSorted.pkgDirs "a".toList = some "ca".toList := by decide

/-- … as the theorems say: `C09_reopen_sorted` applies to this run, … -/
example : ∃ b, openDir bnReopenOracle "/b".toList
      (manifestSorted (runOps exWorld 56 BState.init exOps).1) = some b ∧ b.root = "/b".toList ∧
    (∀ k, aget b.pkgDirs k = assoc (runOps exWorld 56 BState.init exOps).1.pkgDirs k) :=
  let ⟨b, h0, h1, h2, _⟩ := C09_reopen_sorted bnReopenOracle "/b".toList exWorld 56 exOps bbEx_parses
  ⟨b, h0, h1, h2⟩

/-- … and `C09_lookups_same_run` to the two bundles, for every path and every address -/
example (p : Str) : sourceForLocalPath bbExBundle p = sourceForLocalPath rsExBundleSorted p :=
  (C09_lookups_same_run bnReopenOracle "/b".toList exWorld 56 exOps bbEx_parses _ _
    bbEx_open rsEx_open_sorted).2.2.2.2.1 p
example (r v s : Str) :
    localPathForRegistry bbExBundle r v s = localPathForRegistry rsExBundleSorted r v s :=
  (C09_lookups_same_run bnReopenOracle "/b".toList exWorld 56 exOps bbEx_parses _ _
    bbEx_open rsEx_open_sorted).2.2.2.1 r v s
example : sourceForLocalPath rsExBundleSorted "/b/cb/x".toList = some ("b".toList, "x".toList) := by
  decide
example : localPathForRegistry rsExBundleSorted "reg".toList "2.0.0".toList "sub".toList
    = some "/b/cr/mod/sub".toList := by decide
example : bbExBundle.pkgDirs.Perm rsExBundleSorted.pkgDirs :=
  (C09_lookups_same_run bnReopenOracle "/b".toList exWorld 56 exOps bbEx_parses _ _
    bbEx_open rsEx_open_sorted).2.1

/-- the state of Props/C09 (`bnReopenState`: two versions of one registry package, stored newest
first) also has its version rows reordered by the writer; the hypotheses of
`C09_reopen_sorted_partial` are decidable on it (Props/C09 checks the first four) -/
example : (manifestOf bnReopenState).registry.map (fun r => r.versions.map (·.ver)) =
      [["1.0.0".toList, "0.9.0".toList]] ∧
    (manifestSorted bnReopenState).registry.map (fun r => r.versions.map (·.ver)) =
      [["0.9.0".toList, "1.0.0".toList]] := by decide
example : (openDir bnReopenOracle "/b".toList (manifestSorted bnReopenState)).map
      (fun b => (aget b.regSources ("example.com/ns/mod/aws".toList, "1.0.0".toList),
        aget b.regDeprec ("example.com/ns/mod/aws".toList, "0.9.0".toList),
        aget b.pkgMeta "git::https://example.com/b.git".toList)) =
    (openDir bnReopenOracle "/b".toList (manifestOf bnReopenState)).map
      (fun b => (aget b.regSources ("example.com/ns/mod/aws".toList, "1.0.0".toList),
        aget b.regDeprec ("example.com/ns/mod/aws".toList, "0.9.0".toList),
        aget b.pkgMeta "git::https://example.com/b.git".toList)) := by rfl
example : (openDir bnReopenOracle "/b".toList (manifestSorted bnReopenState)).map (·.regSources) ≠
    (openDir bnReopenOracle "/b".toList (manifestOf bnReopenState)).map (·.regSources) := by decide

/-- `C09_reopen_sorted_weak_partial` applies to it: its four hypotheses, checked -/
example : ∃ b, openDir bnReopenOracle "/b".toList (manifestSorted bnReopenState) = some b ∧
    b.root = "/b".toList ∧ (∀ k, aget b.pkgDirs k = assoc bnReopenState.pkgDirs k) :=
  let ⟨b, h0, h1, h2, _⟩ := C09_reopen_sorted_weak_partial bnReopenOracle "/b".toList bnReopenState
    (by decide) (by decide) (by decide) (by decide)
  ⟨b, h0, h1, h2⟩

/-! ## why the distinct-keys hypothesis is there -/

def rsCexPkgs : Manifest :=
  { format := 1, registry := [],
    packages := [⟨"k".toList, "d1".toList, [], []⟩, ⟨"k".toList, "d2".toList, [], []⟩] }

def rsCexPkgs' : Manifest :=
  { format := 1, registry := [],
    packages := [⟨"k".toList, "d2".toList, [], []⟩, ⟨"k".toList, "d1".toList, [], []⟩] }

/-- **C09_cex_perm_needs_distinct.** Without distinct keys the order of the rows matters: two
package rows with the same address, swapped — the manifests are related (`rsManifestEquiv`), both
open, and the later row wins in each. -/
theorem C09_cex_perm_needs_distinct :
    rsManifestEquiv rsCexPkgs rsCexPkgs' ∧
    (openDir bnReopenOracle "/b".toList rsCexPkgs).map (fun b => aget b.pkgDirs "k".toList)
      = some (some "d2".toList) ∧
    (openDir bnReopenOracle "/b".toList rsCexPkgs').map (fun b => aget b.pkgDirs "k".toList)
      = some (some "d1".toList) :=
  ⟨⟨rfl, by decide, by decide, by decide⟩, by decide, by decide⟩

def rsCexVer (v : String) : MVer :=
  { ver := v.toList, source := "git::https://example.com/a.git".toList, deprecated := false,
    reason := [], link := [] }

def rsCexRegs : Manifest :=
  { format := 1, packages := [],
    registry := [⟨"reg".toList, [rsCexVer "1.0.0"]⟩, ⟨"reg".toList, [rsCexVer "1.0.0"]⟩] }

def rsCexRegs' : Manifest :=
  { format := 1, packages := [],
    registry := [⟨"reg".toList, [rsCexVer "1.0.0"]⟩, ⟨"reg".toList, [rsCexVer "2.0.0"]⟩] }

/-- **C09_cex_regs_needs_distinct.** The relation of `C13_manifestSorted_rows` matches every
registry row of the first manifest with *some* row of the second that has the same source; when
two registry rows of the second share a source this says nothing about the other one.  Here the
relation holds, both manifests open, and the second bundle knows a version the first does not. -/
theorem C09_cex_regs_needs_distinct :
    rsManifestEquiv rsCexRegs rsCexRegs' ∧
    (openDir bnReopenOracle "/b".toList rsCexRegs).map
      (fun b => aget b.regSources ("reg".toList, "2.0.0".toList)) = some none ∧
    (openDir bnReopenOracle "/b".toList rsCexRegs').map
      (fun b => aget b.regSources ("reg".toList, "2.0.0".toList))
        = some (some ("git::https://example.com/a.git".toList, [])) :=
  ⟨⟨rfl, by decide, by decide, by decide⟩, by decide, by decide⟩

end Slug
