import SlugModel.Generated.Locks
/-!
# C13 (lock discipline) — the fact the interleaving argument rests on

The model's `applyOp` is the granularity the builder's mutex gives: the append in `Add*` and the
whole of `resolvePending` each run with `b.mu` held.  That this is what the source does is an
extracted fact (`Generated.lockFacts`, regenerated from `sourcebundle/builder.go` on every
run): every method that touches the shared queues or memo tables takes the lock before its
first access, or is documented to be called with the lock held.  If a `Lock()` is removed the
extractor regenerates a `false` entry, this theorem no longer checks, and the race-detector
lane is what produces the concrete interleaving.
-/
namespace Slug

theorem C13_lock_discipline : ∀ f ∈ Generated.lockFacts, f.2 = true := by decide

/-- the table is not empty (the extractor found the methods) -/
theorem C13_lock_facts_present :
    (Generated.lockFacts.map Prod.fst).contains "resolvePending" = true ∧
    (Generated.lockFacts.map Prod.fst).contains "AddRemoteSource" = true ∧
    (Generated.lockFacts.map Prod.fst).contains "AddRegistrySource" = true := by decide

/-- **C13_resolvePending_holds_lock.** `resolvePending` takes the lock once and gives it up only in a
deferred function, i.e. when it returns: the fetcher, the registry client and the dependency finders —
whose callbacks append to the queues without locking — all run with `b.mu` held, which is what makes one
`resolvePending` an atomic step of the interleaving model (`C13_interleave`).  Extracted on every run
(`Generated.resolvePendingLockOps`: number of `Lock()` calls, number of `Unlock()` calls outside deferred
functions); releasing the lock around a callback changes the fact and this no longer checks. -/
theorem C13_resolvePending_holds_lock : Generated.resolvePendingLockOps = (1, 0) := by decide

end Slug
