import SlugModel.Lemmas.BuilderBundle
import SlugModel.Props.C08
/-!
# C08b — from the builder's tables to the consumer's lookups on the finished bundle

`C08` (Props/C08) stops at the builder's tables: after an error-free run every reachable artefact
is analysed and its package stored.  `C09` (Props/C09) shows that the manifest written from the
tables opens again to the same tables, under book-keeping hypotheses on the builder's state.
This file closes the gap between the two:

* `C08_tables_wellkept`: the book-keeping hypotheses hold in the state of *every* run;
* `C08_reopen`: hence the manifest of every run's state opens again to the same tables, under
  hypotheses on the environment only (`bbParses o w`: the external parsers on the world's tables);
* `C08_lookup_remote`, `C08_lookup_registry`, `C08_lookup_meta`, `C08_lookup_deprec`: after an
  error-free run, every lookup a consumer can make on the opened bundle for a reachable artefact
  / a registry request met succeeds, and the path answered is `root/<content id>/<sub-path>`,
  strictly inside the bundle's root.

`st` below is always `(runOps w fuel BState.init ops).1`, the state after the run.
-/
namespace Slug

/-- **C08_tables_wellkept.** In the state after any run whatsoever (errors, refused calls, too
little fuel): the keys of the package-directory table are pairwise distinct, so are the keys of
the table of resolved registry versions, metadata is only recorded for fetched packages, and a
deprecation entry is recorded exactly with a resolved version. -/
theorem C08_tables_wellkept (w : World) (fuel : Nat) (ops : List Op) :
    ((runOps w fuel BState.init ops).1.pkgDirs.map Prod.fst).Nodup ∧
    ((runOps w fuel BState.init ops).1.resolved.map Prod.fst).Nodup ∧
    (∀ k, assoc (runOps w fuel BState.init ops).1.pkgDirs k = none →
      assoc (runOps w fuel BState.init ops).1.pkgMeta k = none) ∧
    (∀ k, (assoc (runOps w fuel BState.init ops).1.deprec k).isSome =
      (assoc (runOps w fuel BState.init ops).1.resolved k).isSome) :=
  ⟨(bb_run_keys w fuel ops).dirs, (bb_run_keys w fuel ops).res, (bb_run_sinv w fuel ops).meta_none,
    fun k => bb_isSome_eq_of_none_iff ((bb_run_sinv w fuel ops).dep_keys k)⟩

/-- **C08_reopen.** The manifest written from the state of any run opens again, and the opened
bundle holds the builder's tables (metadata without commit id is dropped by `OpenDir`, see
`C09_cex_meta_dropped`).  The hypotheses are on the environment only: the parsers accept what the
fetcher and the registry of the world `w` can answer (`bbParses`). -/
theorem C08_reopen (o : BundleOracle) (root : Str) (w : World) (fuel : Nat) (ops : List Op)
    (hp : bbParses o w) :
    ∃ b, openDir o root (manifestOf (runOps w fuel BState.init ops).1) = some b ∧ b.root = root ∧
      (∀ k, aget b.pkgDirs k = assoc (runOps w fuel BState.init ops).1.pkgDirs k) ∧
      (∀ k, aget b.pkgMeta k =
        (assoc (runOps w fuel BState.init ops).1.pkgMeta k).filter (fun m => m.1 ≠ [])) ∧
      (∀ r v, aget b.regSources (r, v) =
        (assoc (runOps w fuel BState.init ops).1.resolved (r, v)).map (fun s => (s.pkg, s.sub))) ∧
      (∀ r v, aget b.regDeprec (r, v) = assoc (runOps w fuel BState.init ops).1.deprec (r, v)) := by
  have s := bb_run_sinv w fuel ops
  have k := bb_run_keys w fuel ops
  exact C09_reopen_tables_partial o root _ (bb_hpkg hp s k) (bb_hreg hp s k) k.dirs k.res
    s.meta_none (fun k' => bb_isSome_eq_of_none_iff (s.dep_keys k'))

/-- the same for a bundle known to be the opened one -/
theorem bb_reopen_of {o : BundleOracle} {root : Str} {w : World} {fuel : Nat} {ops : List Op}
    {b : Bundle} (hp : bbParses o w)
    (hb : openDir o root (manifestOf (runOps w fuel BState.init ops).1) = some b) :
    b.root = root ∧
      (∀ k, aget b.pkgDirs k = assoc (runOps w fuel BState.init ops).1.pkgDirs k) ∧
      (∀ k, aget b.pkgMeta k =
        (assoc (runOps w fuel BState.init ops).1.pkgMeta k).filter (fun m => m.1 ≠ [])) ∧
      (∀ r v, aget b.regSources (r, v) =
        (assoc (runOps w fuel BState.init ops).1.resolved (r, v)).map (fun s => (s.pkg, s.sub))) ∧
      (∀ r v, aget b.regDeprec (r, v) = assoc (runOps w fuel BState.init ops).1.deprec (r, v)) := by
  obtain ⟨b', hb', h⟩ := C08_reopen o root w fuel ops hp
  rw [hb] at hb'
  cases hb'
  exact h

/-- a remote lookup on the opened bundle of any run, for a package the builder has stored -/
theorem bb_lookup_stored {o : BundleOracle} {root : Str} {w : World} {fuel : Nat} {ops : List Op}
    {b : Bundle} (hp : bbParses o w) (hroot : AbsClean root)
    (hb : openDir o root (manifestOf (runOps w fuel BState.init ops).1) = some b)
    {pkg : PkgAddr} {c : ContentId} (sub : Str)
    (hc : assoc (runOps w fuel BState.init ops).1.pkgDirs pkg = some c) :
    localPathForRemote b pkg sub = some (pathJoin3 root c sub) ∧
    (ValidSub sub → isWithin root (pathJoin3 root c sub) = true ∧ pathJoin3 root c sub ≠ root) := by
  obtain ⟨e0, e1, _⟩ := bb_reopen_of hp hb
  have hl : localPathForRemote b pkg sub = some (pathJoin3 root c sub) := by
    unfold localPathForRemote
    rw [e1 pkg, hc, e0]
  exact ⟨hl, fun hs => C18_inside o root _ b pkg sub _ hroot hb hl hs⟩

/-- **C08_lookup_remote.** After an error-free run, for every reachable artefact `a` the opened
bundle answers `LocalPathForRemoteSource(a's package, a's sub-path)`: the answer is
`root/<content id the fetcher returned>/<sub-path>`, and it lies strictly inside the root.
(`ValidSub a.1.sub`: the artefact's sub-path is normalised, as every `RemoteSource` value's is;
see `C08_reach_validSub` for when reachability gives this.) -/
theorem C08_lookup_remote (o : BundleOracle) (root : Str) (w : World) (fuel : Nat) (ops : List Op)
    (hp : bbParses o w) (hroot : AbsClean root)
    (h : ErrorFree (runOps w fuel BState.init ops).2) (b : Bundle)
    (hb : openDir o root (manifestOf (runOps w fuel BState.init ops).1) = some b)
    (a : Art) (hr : Reach w ops a) (hs : ValidSub a.1.sub) :
    ∃ c p, fetchContent w a.1.pkg = some c ∧
      localPathForRemote b a.1.pkg a.1.sub = some p ∧ p = pathJoin3 root c a.1.sub ∧
      isWithin root p = true ∧ p ≠ root := by
  obtain ⟨_, c, hf, hc⟩ := C08_closure w fuel ops h a hr
  obtain ⟨hl, hin⟩ := bb_lookup_stored hp hroot hb a.1.sub hc
  exact ⟨c, _, hf, hl, rfl, hin hs⟩

/-- **C08_lookup_sound.** Conversely the opened bundle of an error-free run knows no other
package: a package has a directory exactly if it is the package of a reachable artefact, and the
directory is the content the fetcher returned. -/
theorem C08_lookup_sound (o : BundleOracle) (root : Str) (w : World) (fuel : Nat) (ops : List Op)
    (hp : bbParses o w) (h : ErrorFree (runOps w fuel BState.init ops).2) (b : Bundle)
    (hb : openDir o root (manifestOf (runOps w fuel BState.init ops).1) = some b)
    (p : PkgAddr) (c : ContentId) :
    aget b.pkgDirs p = some c ↔ (∃ a, Reach w ops a ∧ a.1.pkg = p) ∧ fetchContent w p = some c := by
  obtain ⟨_, e1, _⟩ := bb_reopen_of hp hb
  rw [e1 p]
  exact (runOps_final h).dirs_iff p c

/-- the sub-path of a resolved registry request is valid when the request's and the registry's
answer's are -/
theorem bb_finalSub_valid {regSub realSub : Str} (h1 : ValidSub regSub) (h2 : ValidSub realSub) :
    ValidSub (finalSourceSub regSub realSub) :=
  (validSubPath_iff _).mp (C19_finalSourceSub_valid regSub realSub h1 h2)

/-- **C08_lookup_registry.** After an error-free run, for every registry request met (by a call or
reported for a reachable artefact), with `sel` the version the listing selects and `real` the
source the registry names for it: `LocalPathForRegistrySource(package, sel, sub-path)` on the
opened bundle is `LocalPathForRemoteSource` of the artefact the builder analysed for the request
(`real`'s package, sub-paths joined by `finalSourceSub` — the consumer's join and the builder's
are the same function), it succeeds, answers `root/<content of real's package>/<joined sub-path>`,
and that lies strictly inside the root.  (`hs`, `hsrc`: the request's sub-path and the sub-paths
of the registry's answers are normalised, as the real parsers guarantee.) -/
theorem C08_lookup_registry (o : BundleOracle) (root : Str) (w : World) (fuel : Nat) (ops : List Op)
    (hp : bbParses o w) (hroot : AbsClean root)
    (h : ErrorFree (runOps w fuel BState.init ops).2) (b : Bundle)
    (hb : openDir o root (manifestOf (runOps w fuel BState.init ops).1) = some b)
    (rs : RegSrc) (al : List VerS) (f : FinderId) (hreq : ReqMet w ops (rs, al, f))
    (hs : ValidSub rs.sub)
    (hsrc : ∀ k real, assoc w.sources k = some (some real) → ValidSub real.sub) :
    ∃ vs sel real,
      assoc w.versions rs.pkg = some (some vs) ∧ selectVersion vs al = some sel ∧
      assoc w.sources (rs.pkg, sel.ver) = some (some real) ∧
      ({ pkg := real.pkg, sub := finalSourceSub rs.sub real.sub }, f) ∈
        (runOps w fuel BState.init ops).1.analyzed ∧
      localPathForRegistry b rs.pkg sel.ver rs.sub =
        localPathForRemote b real.pkg (finalSourceSub rs.sub real.sub) ∧
      ∃ c p, fetchContent w real.pkg = some c ∧
        localPathForRegistry b rs.pkg sel.ver rs.sub = some p ∧
        p = pathJoin3 root c (finalSourceSub rs.sub real.sub) ∧
        isWithin root p = true ∧ p ≠ root := by
  obtain ⟨vs, sel, real, hv, hsel, hsrc', hres, han⟩ :=
    C08_registry_same_place w fuel ops h rs al f hreq
  obtain ⟨_, _, _, e3, _⟩ := bb_reopen_of hp hb
  have hsame : localPathForRegistry b rs.pkg sel.ver rs.sub =
      localPathForRemote b real.pkg (finalSourceSub rs.sub real.sub) := by
    unfold localPathForRegistry
    rw [e3 rs.pkg sel.ver, hres]
    rfl
  have hreach := C08_sound w fuel ops _ han
  obtain ⟨_, c, hf, hc⟩ := C08_closure w fuel ops h _ hreach
  obtain ⟨hl, hin⟩ := bb_lookup_stored hp hroot hb (finalSourceSub rs.sub real.sub) hc
  refine ⟨vs, sel, real, hv, hsel, hsrc', han, hsame, c, _, hf, ?_, rfl,
    hin (bb_finalSub_valid hs (hsrc _ real hsrc'))⟩
  rw [hsame]; exact hl

/-- **C08_lookup_meta.** After an error-free run the opened bundle's metadata for the package of a
reachable artefact is the metadata the fetcher returned with it, provided it carries a commit id
(`OpenDir` drops metadata without one). -/
theorem C08_lookup_meta (o : BundleOracle) (root : Str) (w : World) (fuel : Nat) (ops : List Op)
    (hp : bbParses o w) (h : ErrorFree (runOps w fuel BState.init ops).2) (b : Bundle)
    (hb : openDir o root (manifestOf (runOps w fuel BState.init ops).1) = some b)
    (a : Art) (hr : Reach w ops a) :
    aget b.pkgMeta a.1.pkg = (fetchMeta w a.1.pkg).filter (fun m => m.1 ≠ []) := by
  obtain ⟨_, _, e2, _⟩ := bb_reopen_of hp hb
  obtain ⟨_, c, _, hc⟩ := C08_closure w fuel ops h a hr
  obtain ⟨pm, h1, h2⟩ := (bb_run_sinv w fuel ops).dirs a.1.pkg c hc
  have hm : fetchMeta w a.1.pkg = pm := by simp [fetchMeta, h1]
  rw [e2 a.1.pkg, h2, hm]

/-- **C08_lookup_deprec.** After an error-free run the opened bundle's deprecation entry for the
version selected for a registry request met is the notice the registry's listing attaches to that
version (`none` inside: listed, not deprecated). -/
theorem C08_lookup_deprec (o : BundleOracle) (root : Str) (w : World) (fuel : Nat) (ops : List Op)
    (hp : bbParses o w) (h : ErrorFree (runOps w fuel BState.init ops).2) (b : Bundle)
    (hb : openDir o root (manifestOf (runOps w fuel BState.init ops).1) = some b)
    (rs : RegSrc) (al : List VerS) (f : FinderId) (hreq : ReqMet w ops (rs, al, f)) :
    ∃ vs sel, assoc w.versions rs.pkg = some (some vs) ∧ selectVersion vs al = some sel ∧
      aget b.regDeprec (rs.pkg, sel.ver) = some (regDeprec w rs al) ∧
      regDeprec w rs al = depOf vs sel := by
  obtain ⟨vs, sel, real, hv, hsel, _, _, _⟩ := C08_registry_same_place w fuel ops h rs al f hreq
  obtain ⟨_, _, _, _, e4⟩ := bb_reopen_of hp hb
  refine ⟨vs, sel, hv, hsel, ?_, regDeprec_of hv hsel⟩
  rw [e4 rs.pkg sel.ver]
  exact ((runOps_final h).deprec_iff _ _).mpr ⟨rs, al, f, hreq, regKey_of hv hsel, rfl⟩

/-- **C08_reach_validSub.** When the sub-paths of the addresses the environment supplies (the
calls, the finders' reports, the registry's answers) are normalised, so are the sub-paths of every
reachable artefact and of every registry request met: the side conditions `hs` of
`C08_lookup_remote` and `hs`, `hsrc` of `C08_lookup_registry` are facts about the environment. -/
theorem C08_reach_validSub (w : World) (ops : List Op) (hv : bbSubsValid w ops) :
    (∀ a, Reach w ops a → ValidSub a.1.sub) ∧
    (∀ rs al f, ReqMet w ops (rs, al, f) → ValidSub rs.sub) ∧
    (∀ k real, assoc w.sources k = some (some real) → ValidSub real.sub) :=
  ⟨fun _ hr => (validSubPath_iff _).mp (bb_reach_validSub hv hr),
   fun _ _ _ hr => (validSubPath_iff _).mp (bb_req_validSub hv hr),
   fun _ real hk => (validSubPath_iff _).mp (hv.srcs _ (assoc_mem hk) real rfl)⟩

/-! ### non-vacuity: the example world of Spec/Reach (cycle `a → b//x/y → a`, relative hops, the
registry module `reg` resolved to `r//mod`, requested with and without a sub-path), the oracle of
Props/C09 whose source parser is the model of the real splitter, root `/b` -/

/-- the environment hypotheses hold of the example world … -/
theorem bbEx_parses : bbParses bnReopenOracle exWorld := bbParses.ofCheck (by decide) (by decide)
theorem bbEx_subs : bbSubsValid exWorld exOps :=
  bbSubsValid.ofCheck (by decide) (by decide) (by decide)
theorem bbEx_errorFree : ErrorFree (runOps exWorld 56 BState.init exOps).2 := by decide

/-- … the four book-keeping facts, computed … -/
example : ((runOps exWorld 56 BState.init exOps).1.pkgDirs.map Prod.fst).Nodup ∧
    ((runOps exWorld 56 BState.init exOps).1.resolved.map Prod.fst).Nodup := by decide
example : (runOps exWorld 56 BState.init exOps).1.deprec =
    [(("reg".toList, "2.0.0".toList), some ("old".toList, "link".toList))] := by decide

/-- … the bundle the finished run's manifest opens to … -/
def bbExBundle : Bundle :=
  { root := "/b".toList,
    pkgDirs := [("a".toList, "ca".toList), ("b".toList, "cb".toList), ("r".toList, "cr".toList)],
    pkgMeta := [("b".toList, ("meta".toList, "x".toList))],
    regSources := [(("reg".toList, "2.0.0".toList), ("r".toList, "mod".toList))],
    regDeprec := [(("reg".toList, "2.0.0".toList), some ("old".toList, "link".toList))] }

theorem bbEx_open : openDir bnReopenOracle "/b".toList
    (manifestOf (runOps exWorld 56 BState.init exOps).1) = some bbExBundle := by rfl

/-- … which is the bundle `C08_reopen` speaks of … -/
example : ∃ b, openDir bnReopenOracle "/b".toList
      (manifestOf (runOps exWorld 56 BState.init exOps).1) = some b ∧ b.root = "/b".toList ∧
    (∀ k, aget b.pkgDirs k = assoc (runOps exWorld 56 BState.init exOps).1.pkgDirs k) :=
  let ⟨b, h0, h1, h2, _⟩ := C08_reopen bnReopenOracle "/b".toList exWorld 56 exOps bbEx_parses
  ⟨b, h0, h1, h2⟩

/-- … a remote lookup: the artefact `b//x` is reached from `a` over a remote and a relative hop;
the theorem applies, and the answer is computed … -/
theorem bbEx_reach_bx : Reach exWorld exOps (⟨"b".toList, "x".toList⟩, 0) :=
  .step (⟨"b".toList, "x/y".toList⟩, 0) _
    (.step (⟨"a".toList, []⟩, 0) _ (.start _ _ List.mem_cons_self (.remote _ _))
      (.remote ⟨"b".toList, "x/y".toList⟩ 0 (by decide)))
    (.loc "./..".toList 0 "x".toList (by decide) (by decide))

example : ∃ c p, fetchContent exWorld "b".toList = some c ∧
    localPathForRemote bbExBundle "b".toList "x".toList = some p ∧
    p = pathJoin3 "/b".toList c "x".toList ∧ isWithin "/b".toList p = true ∧ p ≠ "/b".toList :=
  C08_lookup_remote bnReopenOracle "/b".toList exWorld 56 exOps bbEx_parses bnDemo_root
    bbEx_errorFree bbExBundle bbEx_open (⟨"b".toList, "x".toList⟩, 0) bbEx_reach_bx
    ((C08_reach_validSub exWorld exOps bbEx_subs).1 _ bbEx_reach_bx)
example : localPathForRemote bbExBundle "b".toList "x".toList = some "/b/cb/x".toList := by decide
example : fetchContent exWorld "b".toList = some "cb".toList := by decide

/-- … the registry lookup: `reg//sub` (any of two versions) is reported for `a`; the listing
selects 2.0.0, the registry names `r//mod`, and the consumer's lookup lands in `r`'s directory at
`mod/sub`, the artefact the builder analysed … -/
theorem bbEx_req : ReqMet exWorld exOps
    (⟨"reg".toList, "sub".toList⟩, ["1.0.0".toList, "2.0.0".toList], 0) :=
  .decl (⟨"a".toList, []⟩, 0) _ _ _ (.start _ _ List.mem_cons_self (.remote _ _)) (by decide)

example : ∃ vs sel real,
    assoc exWorld.versions "reg".toList = some (some vs) ∧
    selectVersion vs ["1.0.0".toList, "2.0.0".toList] = some sel ∧
    assoc exWorld.sources ("reg".toList, sel.ver) = some (some real) ∧
    ({ pkg := real.pkg, sub := finalSourceSub "sub".toList real.sub }, 0) ∈
      (runOps exWorld 56 BState.init exOps).1.analyzed ∧
    localPathForRegistry bbExBundle "reg".toList sel.ver "sub".toList =
      localPathForRemote bbExBundle real.pkg (finalSourceSub "sub".toList real.sub) ∧
    ∃ c p, fetchContent exWorld real.pkg = some c ∧
      localPathForRegistry bbExBundle "reg".toList sel.ver "sub".toList = some p ∧
      p = pathJoin3 "/b".toList c (finalSourceSub "sub".toList real.sub) ∧
      isWithin "/b".toList p = true ∧ p ≠ "/b".toList :=
  C08_lookup_registry bnReopenOracle "/b".toList exWorld 56 exOps bbEx_parses bnDemo_root
    bbEx_errorFree bbExBundle bbEx_open ⟨"reg".toList, "sub".toList⟩ _ 0 bbEx_req
    ((C08_reach_validSub exWorld exOps bbEx_subs).2.1 _ _ _ bbEx_req)
    (C08_reach_validSub exWorld exOps bbEx_subs).2.2
example : localPathForRegistry bbExBundle "reg".toList "2.0.0".toList "sub".toList
    = some "/b/cr/mod/sub".toList := by decide
example : localPathForRemote bbExBundle "r".toList "mod/sub".toList
    = some "/b/cr/mod/sub".toList := by decide

/-- … metadata and deprecation as the theorems say. -/
example : aget bbExBundle.pkgMeta "b".toList = (fetchMeta exWorld "b".toList).filter (fun m => m.1 ≠ []) :=
  C08_lookup_meta bnReopenOracle "/b".toList exWorld 56 exOps bbEx_parses bbEx_errorFree
    bbExBundle bbEx_open (⟨"b".toList, "x".toList⟩, 0) bbEx_reach_bx
example : aget bbExBundle.pkgMeta "b".toList = some ("meta".toList, "x".toList) := by decide
example : aget bbExBundle.regDeprec ("reg".toList, "2.0.0".toList)
    = some (regDeprec exWorld ⟨"reg".toList, "sub".toList⟩ ["1.0.0".toList, "2.0.0".toList]) := by
  decide
example : regDeprec exWorld ⟨"reg".toList, "sub".toList⟩ ["1.0.0".toList, "2.0.0".toList]
    = some ("old".toList, "link".toList) := by decide

/-- a run with an error still satisfies `C08_tables_wellkept` / `C08_reopen` (they hold of every
run) but not the lookup theorems' `ErrorFree` hypothesis: the failing package has no directory -/
example : (openDir bnReopenOracle "/b".toList (manifestOf (runOps exWorld 56 BState.init
    [.addRemote ⟨"bad".toList, []⟩ 0]).1)).map
      (fun b => localPathForRemote b "bad".toList []) = some none := by decide

/-! ### why `ValidSub` is a hypothesis of the lookup theorems -/

def bbCexWorld : World :=
  { fetch := [("a".toList, some ("ca".toList, none))], versions := [], sources := [], deps := [] }

def bbCexOps : List Op := [.addRemote ⟨"a".toList, "../..".toList⟩ 0]

/-- **C08_cex_sub_escapes.** The builder model does not itself check sub-paths (the real
`RemoteSource` type guarantees them normalised): a call with the unnormalised sub-path `../..`
runs error-free, the bundle opens, the lookup succeeds — and answers `/`, outside the root `/b`.
So `ValidSub a.1.sub` in `C08_lookup_remote` (equivalently `bbSubsValid` of the environment)
cannot be dropped. -/
theorem C08_cex_sub_escapes :
    ErrorFree (runOps bbCexWorld 56 BState.init bbCexOps).2 ∧
    (openDir bnReopenOracle "/b".toList
        (manifestOf (runOps bbCexWorld 56 BState.init bbCexOps).1)).map
      (fun b => localPathForRemote b "a".toList "../..".toList) = some (some "/".toList) ∧
    isWithin "/b".toList "/".toList = false := by decide

end Slug
