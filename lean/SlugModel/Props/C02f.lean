import SlugModel.Lemmas.FilteredTrip
import SlugModel.Props.C03w
import SlugModel.Props.C15r
/-!
# C02 with ignore processing ON — "the only omissions are entries excluded by ignore rules"

`Props/C02` proves the round trip Pack → Unpack for ignore processing off; `Props/C03w` says which
entries `Pack` writes with ignore processing on (`C03_pack_ships_iff`, `C03_pack_filter`: the C02 entry
list filtered by `wfShipB`, order and entries unchanged).  This file composes the two.  Helper lemmas
live in `Lemmas/FilteredTrip`.

The point is that a filtered archive may hold an entry `d/keep` without an entry `d/` (rule file
`d/` + `!d/keep`: the path `d/` is excluded, without a dominating match, so the walk enters `d`; the
callback writes nothing for `d` and writes `d/keep`).  Such an archive IS a `WellFormedArchive` in the
sense of Spec/Untar — that structure states its no-conflict clause on the abstract run, where
`mkParents` has already created the missing parents; it never asks that parents precede their children
as entries — so the Unpack refinement theorem `C15_refines_partial` applies to it unchanged
(`C02_untar_filter`, last clause; `C02_roundtrip_filtered_partial`).  What `untar` — and `Unpack`:
for a directory, link or file entry `unpackEntry` runs `MkdirAll(Dir(path), 0755)` first — makes of it:

* an entry that was kept materialises as itself (`C02_untar_filter`: the same node as without the
  filter), whatever `keep` is: no condition on `keep` is needed;
* a directory whose own entry was filtered out but which lies above a kept entry is created implicitly:
  mode `0755` (`applyUmask 0o755 = 0o755` in the model), modification time `nowT` = the time of the run.
  Its mode and time in the source are NOT reproduced (`C02_cex_excluded_dir_implicit`), and the
  directory is present although its own path `d/` is excluded;
* nothing else exists.

Vocabulary: `ftShips rules fs P r` (Lemmas/FilteredTrip) — at the relative path `r` below the physical
directory `P` a non-special node is reachable through real directories, its own path passes the
callback's tests (`wfKept`) and no proper ancestor directory is skipped (`wfOpenFrom 1`); this is the
right-hand side of `C03_pack_ships_iff`, and `wfShipB … = true` as a Boolean (`C02_ships_iff_shipB`).
`srcNode` (Lemmas/RoundTrip) is the source node as the archive records it: permission bits
`&&& 0o777`, time rounded to the second, link target and file content unchanged.
-/
namespace Slug

/-! ## 1. `untar` of a filtered pre-order archive -/

/-- **C02_untar_filter.** A fact about the archive semantics `untar` alone.  Let `es` be an archive in
name-sorted pre-order in which every directory is written before what is below it — the clauses of
`C02_pack_preorder` that do not mention the filesystem — whose entries are named, lie below the root
and are directories, regular files or links.  Let `keep` be ANY predicate on entries (no closure
condition).  Then both `es` and `es.filter keep` can be read, with trees `t` and `t'`, and
* `t` has at the path of every entry the node the entry stands for (`rtNodeOf`: kind, mode, time,
  content or target);
* a kept entry materialises as itself: `t'` and `t` agree at its path;
* an entry that was filtered out but whose path lies above the path of a kept entry is a directory in
  `t` and in `t'`; in `t'` it has the implicit mode `0755` and the time of the run (`nowT`) instead of
  the mode and time recorded in its entry;
* an entry that was filtered out and has no kept entry at or below its path is absent from `t'`;
* a non-empty path without an entry in `es` is absent from both trees;
* if `es` is a `WellFormedArchive`, so is `es.filter keep` — implicit parents do not violate
  well-formedness (Spec/Untar states the no-conflict clause on the abstract run). -/
theorem C02_untar_filter (es : List Entry) (keep : Entry → Bool)
    (hplain : ∀ e ∈ es, e.name ≠ [] ∧ entryRel e.name ≠ [] ∧ (e.isDir || e.isSymlink || e.isRegular) = true)
    (hpar : ∀ A e B, es = A ++ e :: B → ∀ q ∈ properPrefixes (entryRel e.name),
      ∃ d ∈ A, d.isDir = true ∧ entryRel d.name = q)
    (hsorted : (es.map (fun e => entryRel e.name)).Pairwise (· < ·)) :
    ∃ t t', untar es = some t ∧ untar (es.filter keep) = some t' ∧
      (∀ e ∈ es, treeGet t (entryRel e.name) = some (rtNodeOf e)) ∧
      (∀ e ∈ es, keep e = true → treeGet t' (entryRel e.name) = treeGet t (entryRel e.name)) ∧
      (∀ e ∈ es, keep e = false →
        (∃ e' ∈ es, keep e' = true ∧ entryRel e.name <+: entryRel e'.name) →
        e.isDir = true ∧ treeGet t (entryRel e.name) = some (.dir e.mode e.mtime) ∧
        treeGet t' (entryRel e.name) = some (.dir 0o755 nowT)) ∧
      (∀ e ∈ es, keep e = false →
        (∀ e' ∈ es, keep e' = true → ¬ entryRel e.name <+: entryRel e'.name) →
        treeGet t' (entryRel e.name) = none) ∧
      (∀ r, r ≠ [] → r ∉ es.map (fun e => entryRel e.name) → treeGet t r = none ∧ treeGet t' r = none) ∧
      (WellFormedArchive es → WellFormedArchive (es.filter keep)) := by
  have harch : FtArch es := ft_arch_of_preorder es hplain hpar hsorted
  have harch' : FtArch (es.filter keep) := harch.filter keep
  have hnd := harch.nodup
  obtain ⟨t, ht, h1, _, h3⟩ := ft_untar_arch es harch
  obtain ⟨t', ht', g1, g2, g3⟩ := ft_untar_arch _ harch'
  -- a non-empty prefix of an entry's path is an entry's path
  have hclosed : ∀ r, r ≠ [] → ∀ e ∈ es, r <+: entryRel e.name → r ∈ es.map (fun e => entryRel e.name) := by
    intro r hr e he hpre
    by_cases e1 : r = entryRel e.name
    · exact List.mem_map.mpr ⟨e, he, e1.symm⟩
    · have hlen : r.length < (entryRel e.name).length := by
        rcases Nat.lt_or_ge r.length (entryRel e.name).length with h' | h'
        · exact h'
        · exact absurd (hpre.eq_of_length (Nat.le_antisymm hpre.length_le h')) e1
      obtain ⟨A, B, hsplit⟩ := List.append_of_mem he
      obtain ⟨d, hd, _, hk⟩ := hpar A e B hsplit r (rt_properPrefixes_of hr hpre hlen)
      exact List.mem_map.mpr ⟨d, by rw [hsplit]; exact List.mem_append_left _ hd, hk⟩
  have hnotkept : ∀ e ∈ es, keep e = false →
      entryRel e.name ∉ (es.filter keep).map (fun e => entryRel e.name) := by
    intro e he hk hm
    obtain ⟨e', he', e1⟩ := List.mem_map.mp hm
    obtain ⟨he'm, hk'⟩ := List.mem_filter.mp he'
    have := ft_key_inj (fun e : Entry => entryRel e.name) es hnd e' he'm e he e1
    rw [this, hk] at hk'
    cases hk'
  refine ⟨t, t', ht, ht', h1, ?_, ?_, ?_, ?_, ?_⟩
  · intro e he hk
    rw [g1 e (List.mem_filter.mpr ⟨he, hk⟩), h1 e he]
  · rintro e he hk ⟨e', he', hk', hpre⟩
    have hdir : e.isDir = true := by
      have hne : e ≠ e' := fun e1 => by rw [e1, hk'] at hk; cases hk
      -- `e` is before `e'` in the list, and above it: a directory entry
      have hneK : entryRel e.name ≠ entryRel e'.name := fun e1 =>
        hne (ft_key_inj (fun e : Entry => entryRel e.name) es hnd e he e' he' e1)
      have hlen : (entryRel e.name).length < (entryRel e'.name).length := by
        rcases Nat.lt_or_ge (entryRel e.name).length (entryRel e'.name).length with h' | h'
        · exact h'
        · exact absurd (hpre.eq_of_length (Nat.le_antisymm hpre.length_le h')) hneK
      obtain ⟨A, B, hsplit⟩ := List.append_of_mem he'
      obtain ⟨d, hd, hdd, hkd⟩ := hpar A e' B hsplit _ (rt_properPrefixes_of (hplain e he).2.1 hpre hlen)
      have := ft_key_inj (fun e : Entry => entryRel e.name) es hnd d
        (by rw [hsplit]; exact List.mem_append_left _ hd) e he hkd
      rw [← this]; exact hdd
    refine ⟨hdir, by rw [h1 e he, ft_nodeOf_dir hdir], ?_⟩
    exact g2 _ (hplain e he).2.1 (hnotkept e he hk) ⟨e', List.mem_filter.mpr ⟨he', hk'⟩, hpre⟩
  · intro e he _ hno
    apply g3 _ (hplain e he).2.1
    intro e' he'
    obtain ⟨he'm, hk'⟩ := List.mem_filter.mp he'
    exact hno e' he'm hk'
  · intro r hr hnk
    constructor
    · exact h3 r hr (fun e he hpre => hnk (hclosed r hr e he hpre))
    · exact g3 r hr (fun e he hpre => hnk (hclosed r hr e (List.mem_filter.mp he).1 hpre))
  · intro hwf
    apply ft_arch_wellFormed _ harch'
    · intro e he
      have hem := (List.mem_filter.mp he).1
      exact hwf.names_plain e hem (hplain e hem).1
    · intro e he hs
      have hem := (List.mem_filter.mp he).1
      exact hwf.links_good e hem hs (hplain e hem).1

/-- **C02_untar_holes.** The same reading for any archive in the class `FtArch` (Lemmas/FilteredTrip):
entries named, below the root, directories / files / links; for `d` before `e` the path of `e` is not
at or above the path of `d`, and `d` is a directory entry when its path is above the path of `e`.
Parents need not have entries.  `untar` succeeds; an entry's path carries the entry's node; a path
without an entry that lies above an entry's path is a directory `0755`/`nowT`; everything else is
absent. -/
theorem C02_untar_holes (es : List Entry) (h : FtArch es) :
    ∃ t, untar es = some t ∧
      (∀ e ∈ es, treeGet t (entryRel e.name) = some (rtNodeOf e)) ∧
      (∀ r, r ≠ [] → r ∉ es.map (fun e => entryRel e.name) → (∃ e ∈ es, r <+: entryRel e.name) →
        treeGet t r = some (.dir 0o755 nowT)) ∧
      (∀ r, r ≠ [] → (∀ e ∈ es, ¬ r <+: entryRel e.name) → treeGet t r = none) :=
  ft_untar_arch es h

/-! ## 2. `Pack` with ignore processing on, read by `untar` -/

section
variable (fs : FS) (cwd : Str) (o : PackOpts) (src : Str)

/-- `ftShips` is `wfShipB` on the reachable non-special nodes -/
theorem C02_ships_iff_shipB (rules : List Rule) (P : PPath) (r : RelPath) :
    ftShips rules fs P r ↔
      ∃ nd, rtRaw fs P r = some nd ∧ nd ≠ .special ∧ wfShipB rules r (wfIsDir nd) = true :=
  ftShips_iff_shipB rules fs P r

/-- in scope `ftShips` says exactly which paths have an entry (`C03_pack_ships_iff`) -/
theorem C02_ships_iff_entry (h : C03Scope fs cwd o src) (r : RelPath) :
    ftShips (loadIgnore fs cwd src) fs (pathSegs src) r ↔
      r ∈ (pack fs cwd o src).1.entries.map (fun e => entryRel e.name) :=
  ((C03_pack_ships_iff fs cwd o src h).2.1 r).symm

/-- a proper ancestor of a reachable node is a real directory of the source -/
theorem C02_ancestor_is_dir (rules : List Rule) (P : PPath) (r r' : RelPath) (hr : r ≠ [])
    (hs : ftShips rules fs P r') (hpre : r <+: r') (hne : r ≠ r') :
    ∃ pm mt, rtRaw fs P r = some (.dir pm mt) := by
  obtain ⟨nd, g1, _⟩ := hs
  have hlen : r.length < r'.length := by
    rcases Nat.lt_or_ge r.length r'.length with h' | h'
    · exact h'
    · exact absurd (hpre.eq_of_length (Nat.le_antisymm hpre.length_le h')) hne
  exact rt_raw_prefix g1 (rt_properPrefixes_of hr hpre hlen)

/-- **C02_pack_untar_filtered.** In the scope of C03 (ignore processing ON, no dereferencing, physical
source directory, plain names, accepted links, enough fuel) and for ANY rule file: `Pack` succeeds and
the sequential reading of its output succeeds, with a tree `t` such that
* (a) where a node ships, `t` has the source node: same kind, file content, permission bits, link
  target, time rounded to the second (`srcNode`);
* (b) where nothing ships but something ships below — a real directory of the source (last clause)
  whose own entry the rules removed — `t` has a directory with the implicit mode `0755` and the time
  of the run, not the directory's own mode and time;
* (c) every other non-empty path is absent: excluded files, links and directories with nothing
  shipping below them, everything below a skipped directory, special files, paths where the source has
  nothing. -/
theorem C02_pack_untar_filtered (h : C03Scope fs cwd o src) :
    (pack fs cwd o src).2 = .ok ∧
    ∃ t, untar (pack fs cwd o src).1.entries = some t ∧
      (∀ r, ftShips (loadIgnore fs cwd src) fs (pathSegs src) r → treeGet t r = srcNode fs (pathSegs src) r) ∧
      (∀ r, r ≠ [] → ¬ ftShips (loadIgnore fs cwd src) fs (pathSegs src) r →
        (∃ r', ftShips (loadIgnore fs cwd src) fs (pathSegs src) r' ∧ r <+: r') →
        treeGet t r = some (.dir 0o755 nowT) ∧ ∃ pm mt, rtRaw fs (pathSegs src) r = some (.dir pm mt)) ∧
      (∀ r, r ≠ [] → (∀ r', ftShips (loadIgnore fs cwd src) fs (pathSegs src) r' → ¬ r <+: r') →
        treeGet t r = none) := by
  obtain ⟨⟨t, ht, h1, h2, h3⟩, _, _⟩ := ft_pack_untar h.ctx h.ignoreOn h.fuel
  refine ⟨(C03_pack_ships_iff fs cwd o src h).1, t, ht, h1, ?_, h3⟩
  rintro r hr hns ⟨r', hs', hpre⟩
  refine ⟨h2 r hr hns ⟨r', hs', hpre⟩, ?_⟩
  exact C02_ancestor_is_dir fs _ _ r r' hr hs' hpre (fun e1 => hns (by rw [e1]; exact hs'))

/-- **C02_pack_wellformed_filtered.** In the scope of C03, and when every link that ships is non-empty,
relative, tidy (all `..` first) and climbs fewer levels than its own depth: `Pack`'s output with ignore
processing on is a `WellFormedArchive` (the domain of C15) — although directory entries may be missing
above the entries it holds — and has no extended header entries. -/
theorem C02_pack_wellformed_filtered (h : C03Scope fs cwd o src)
    (htidy : ∀ r t, rtRaw fs (pathSegs src) r = some (.link t) →
      ftShips (loadIgnore fs cwd src) fs (pathSegs src) r → t ≠ [] ∧ isAbs t = false ∧
      ∃ ups names, pathSegs t = List.replicate ups dotdot ++ names ∧ (∀ s ∈ names, s ≠ dotdot) ∧ ups < r.length) :
    WellFormedArchive (pack fs cwd o src).1.entries ∧
    (∀ e ∈ (pack fs cwd o src).1.entries, e.isTypeX = false) := by
  obtain ⟨_, hwf, hx⟩ := ft_pack_untar h.ctx h.ignoreOn h.fuel
  exact ⟨hwf htidy, hx⟩

/-! ## 3. the round trip with ignore processing on -/

/-- **C02_roundtrip_filtered_model_partial.** The composed statement in the form of
`C02_roundtrip_model_partial`, with the Unpack half — the conclusion of `C15_refines_partial` for a
destination `dst` in a filesystem `fs'` — as the hypothesis `hRef`.  `Unpack` of `Pack`'s output (ignore
processing on) succeeds and below `dst`: (a) a node that ships is there as in the source (`srcNode`);
(b) a directory that does not ship but has something shipping below it is there with mode `0755` and
the time of the run; (c) nothing else is there.  Partial: the scope of `C03Scope`, tidy relative
in-tree links (those that ship), `hRef`'s own side conditions, and `r = []` is not covered. -/
theorem C02_roundtrip_filtered_model_partial (h : C03Scope fs cwd o src)
    (htidy : ∀ r t, rtRaw fs (pathSegs src) r = some (.link t) →
      ftShips (loadIgnore fs cwd src) fs (pathSegs src) r → t ≠ [] ∧ isAbs t = false ∧
      ∃ ups names, pathSegs t = List.replicate ups dotdot ++ names ∧ (∀ s ∈ names, s ≠ dotdot) ∧ ups < r.length)
    (cwd' dst : Str) (priv : Bool) (fs' : FS)
    (hshallow : ∀ r, ftShips (loadIgnore fs cwd src) fs (pathSegs src) r →
      (pathSegs dst).length + r.length < resolveFuel)
    (hRef : ∀ (es : List Entry) (t : Tree), WellFormedArchive es →
      (∀ e ∈ es, e.isTypeX = true → e.name ≠ [] → (entryRel e.name).length ≤ 1) →
      (∀ e ∈ es, (pathSegs dst).length + (entryRel e.name).length < resolveFuel) →
      untar es = some t →
      (unpack cwd' [] priv dst .none fs' es).2 = .ok ∧
      ∀ r, r ≠ [] → ((unpack cwd' [] priv dst .none fs' es).1).get (pathSegs dst ++ r) = treeGet t r) :
    (unpack cwd' [] priv dst .none fs' (pack fs cwd o src).1.entries).2 = .ok ∧
    (∀ r, ftShips (loadIgnore fs cwd src) fs (pathSegs src) r →
      ((unpack cwd' [] priv dst .none fs' (pack fs cwd o src).1.entries).1).get (pathSegs dst ++ r) =
        srcNode fs (pathSegs src) r) ∧
    (∀ r, r ≠ [] → ¬ ftShips (loadIgnore fs cwd src) fs (pathSegs src) r →
      (∃ r', ftShips (loadIgnore fs cwd src) fs (pathSegs src) r' ∧ r <+: r') →
      ((unpack cwd' [] priv dst .none fs' (pack fs cwd o src).1.entries).1).get (pathSegs dst ++ r) =
        some (.dir 0o755 nowT) ∧ ∃ pm mt, rtRaw fs (pathSegs src) r = some (.dir pm mt)) ∧
    (∀ r, r ≠ [] → (∀ r', ftShips (loadIgnore fs cwd src) fs (pathSegs src) r' → ¬ r <+: r') →
      ((unpack cwd' [] priv dst .none fs' (pack fs cwd o src).1.entries).1).get (pathSegs dst ++ r) = none) := by
  obtain ⟨hwf, hx⟩ := C02_pack_wellformed_filtered fs cwd o src h htidy
  obtain ⟨_, t, ht, h1, h2, h3⟩ := C02_pack_untar_filtered fs cwd o src h
  obtain ⟨hok, hget⟩ := hRef _ t hwf
    (fun e he hX => by rw [hx e he] at hX; cases hX)
    (fun e he => hshallow _ ((C02_ships_iff_entry fs cwd o src h _).mpr (List.mem_map.mpr ⟨e, he, rfl⟩)))
    ht
  refine ⟨hok, ?_, ?_, ?_⟩
  · intro r hs
    have hr : r ≠ [] := by obtain ⟨nd, g1, _⟩ := hs; exact (rt_raw_some.mp g1).1
    rw [hget r hr, h1 r hs]
  · intro r hr hns hex
    rw [hget r hr]
    exact h2 r hr hns hex
  · intro r hr hno
    rw [hget r hr, h3 r hr hno]

/-- **C02_roundtrip_filtered_partial.** The round trip with ignore processing on, against the Unpack
model itself (no refinement hypothesis: `C15_refines_partial` is applied — its `WellFormedArchive`
hypothesis holds for archives with missing parent entries, `C02_pack_wellformed_filtered`).  In the
scope of C03, with tidy relative in-tree links, for a destination `dst` (absolute, clean, not `/`) that
is an existing empty real directory of `fs'`, and extraction paths shorter than the resolver's fuel:
`Unpack` of `Pack`'s output succeeds, and below `dst` the filesystem holds exactly
* (a) every node of the source that ships, as it is in the source: kind, file content, permission bits
  (`&&& 0o777`), link target, modification time rounded to the second;
* (b) every directory of the source that does not ship itself but has a shipping node below it, as a
  directory with mode `0755` (`MkdirAll(…, 0755)` under the model's umask) and the time of the run —
  not its own mode and time;
* (c) nothing else.
Partial: the scope, the side conditions, and the destination directory itself is not covered. -/
theorem C02_roundtrip_filtered_partial (h : C03Scope fs cwd o src)
    (htidy : ∀ r t, rtRaw fs (pathSegs src) r = some (.link t) →
      ftShips (loadIgnore fs cwd src) fs (pathSegs src) r → t ≠ [] ∧ isAbs t = false ∧
      ∃ ups names, pathSegs t = List.replicate ups dotdot ++ names ∧ (∀ s ∈ names, s ≠ dotdot) ∧ ups < r.length)
    (cwd' dst : Str) (priv : Bool) (fs' : FS)
    (hdst : DstOK dst) (hreal : RealDir fs' (pathSegs dst))
    (hempty : ∀ q, pathSegs dst <+: q → q ≠ pathSegs dst → fs'.get q = none)
    (hshallow : ∀ r, ftShips (loadIgnore fs cwd src) fs (pathSegs src) r →
      (pathSegs dst).length + r.length < resolveFuel) :
    (unpack cwd' [] priv dst .none fs' (pack fs cwd o src).1.entries).2 = .ok ∧
    (∀ r, ftShips (loadIgnore fs cwd src) fs (pathSegs src) r →
      ((unpack cwd' [] priv dst .none fs' (pack fs cwd o src).1.entries).1).get (pathSegs dst ++ r) =
        srcNode fs (pathSegs src) r) ∧
    (∀ r, r ≠ [] → ¬ ftShips (loadIgnore fs cwd src) fs (pathSegs src) r →
      (∃ r', ftShips (loadIgnore fs cwd src) fs (pathSegs src) r' ∧ r <+: r') →
      ((unpack cwd' [] priv dst .none fs' (pack fs cwd o src).1.entries).1).get (pathSegs dst ++ r) =
        some (.dir 0o755 nowT) ∧ ∃ pm mt, rtRaw fs (pathSegs src) r = some (.dir pm mt)) ∧
    (∀ r, r ≠ [] → (∀ r', ftShips (loadIgnore fs cwd src) fs (pathSegs src) r' → ¬ r <+: r') →
      ((unpack cwd' [] priv dst .none fs' (pack fs cwd o src).1.entries).1).get (pathSegs dst ++ r) = none) :=
  C02_roundtrip_filtered_model_partial fs cwd o src h htidy cwd' dst priv fs' hshallow
    (fun _ _ hwf hx hsh hu => C15_refines_partial (cwd := cwd') (priv := priv) hdst hreal hempty hwf
      (UrXFlat.free hx) hsh hu)

/-! ## 4. the user-facing corollary: kept files and links survive the round trip -/

/-- **C02_roundtrip_kept_files.** Under the hypotheses of `C02_roundtrip_filtered_partial`: every
regular file of the source tree whose own relative path is not excluded and that no skipped directory
hides (`wfOpenFrom 1`: no proper ancestor `d` with `d` not excluded and `d/` excluded with a dominating
match) is present after Pack → Unpack, at the same relative path, as a regular file with the same
content, the same permission bits and its modification time rounded to the second; every such link is
present with the same target.  This also holds below a directory whose own entry the rules removed. -/
theorem C02_roundtrip_kept_files (h : C03Scope fs cwd o src)
    (htidy : ∀ r t, rtRaw fs (pathSegs src) r = some (.link t) →
      ftShips (loadIgnore fs cwd src) fs (pathSegs src) r → t ≠ [] ∧ isAbs t = false ∧
      ∃ ups names, pathSegs t = List.replicate ups dotdot ++ names ∧ (∀ s ∈ names, s ≠ dotdot) ∧ ups < r.length)
    (cwd' dst : Str) (priv : Bool) (fs' : FS)
    (hdst : DstOK dst) (hreal : RealDir fs' (pathSegs dst))
    (hempty : ∀ q, pathSegs dst <+: q → q ≠ pathSegs dst → fs'.get q = none)
    (hshallow : ∀ r, ftShips (loadIgnore fs cwd src) fs (pathSegs src) r →
      (pathSegs dst).length + r.length < resolveFuel) :
    (unpack cwd' [] priv dst .none fs' (pack fs cwd o src).1.entries).2 = .ok ∧
    (∀ r perm mt c, rtRaw fs (pathSegs src) r = some (.file perm mt c) →
      (excludes (loadIgnore fs cwd src) (joinWith '/' r)).1 = false → wfOpenFrom 1 (loadIgnore fs cwd src) r →
      ((unpack cwd' [] priv dst .none fs' (pack fs cwd o src).1.entries).1).get (pathSegs dst ++ r) =
        some (.file (perm &&& 0o777) (roundSec mt) c)) ∧
    (∀ r t, rtRaw fs (pathSegs src) r = some (.link t) →
      (excludes (loadIgnore fs cwd src) (joinWith '/' r)).1 = false → wfOpenFrom 1 (loadIgnore fs cwd src) r →
      ((unpack cwd' [] priv dst .none fs' (pack fs cwd o src).1.entries).1).get (pathSegs dst ++ r) =
        some (.link t)) ∧
    (∀ r perm mt, rtRaw fs (pathSegs src) r = some (.dir perm mt) →
      (excludes (loadIgnore fs cwd src) (joinWith '/' r)).1 = false →
      (excludes (loadIgnore fs cwd src) (joinWith '/' r ++ ['/'])).1 = false →
      wfOpenFrom 1 (loadIgnore fs cwd src) r →
      ((unpack cwd' [] priv dst .none fs' (pack fs cwd o src).1.entries).1).get (pathSegs dst ++ r) =
        some (.dir (perm &&& 0o777) (roundSec mt))) := by
  obtain ⟨hok, h1, _, _⟩ := C02_roundtrip_filtered_partial fs cwd o src h htidy cwd' dst priv fs' hdst hreal
    hempty hshallow
  refine ⟨hok, ?_, ?_, ?_⟩
  · intro r perm mt c hr hk ho
    rw [h1 r ⟨_, hr, (by intro e; cases e), ⟨hk, fun hd => by cases hd⟩, ho⟩]
    unfold srcNode; rw [hr]; rfl
  · intro r t hr hk ho
    rw [h1 r ⟨_, hr, (by intro e; cases e), ⟨hk, fun hd => by cases hd⟩, ho⟩]
    unfold srcNode; rw [hr]; rfl
  · intro r perm mt hr hk hkd ho
    rw [h1 r ⟨_, hr, (by intro e; cases e), ⟨hk, fun _ => hkd⟩, ho⟩]
    unfold srcNode; rw [hr]; rfl

/-- **C02_roundtrip_kept_files_tailClosed.** When the rule set loaded at the source is `TailClosed`
(every non-negated pattern ends in `**` or in a literal character; `C03_cex_pack_prune_star_tail` shows
what goes wrong otherwise) the condition on ancestors follows (`C03_prune_loses_nothing`): every regular
file and link of the source tree whose own path is not excluded survives the round trip unchanged
(mode `&&& 0o777`, time rounded). -/
theorem C02_roundtrip_kept_files_tailClosed (h : C03Scope fs cwd o src)
    (ht : TailClosed (loadIgnore fs cwd src))
    (htidy : ∀ r t, rtRaw fs (pathSegs src) r = some (.link t) →
      ftShips (loadIgnore fs cwd src) fs (pathSegs src) r → t ≠ [] ∧ isAbs t = false ∧
      ∃ ups names, pathSegs t = List.replicate ups dotdot ++ names ∧ (∀ s ∈ names, s ≠ dotdot) ∧ ups < r.length)
    (cwd' dst : Str) (priv : Bool) (fs' : FS)
    (hdst : DstOK dst) (hreal : RealDir fs' (pathSegs dst))
    (hempty : ∀ q, pathSegs dst <+: q → q ≠ pathSegs dst → fs'.get q = none)
    (hshallow : ∀ r, ftShips (loadIgnore fs cwd src) fs (pathSegs src) r →
      (pathSegs dst).length + r.length < resolveFuel) :
    (unpack cwd' [] priv dst .none fs' (pack fs cwd o src).1.entries).2 = .ok ∧
    (∀ r perm mt c, rtRaw fs (pathSegs src) r = some (.file perm mt c) →
      (excludes (loadIgnore fs cwd src) (joinWith '/' r)).1 = false →
      ((unpack cwd' [] priv dst .none fs' (pack fs cwd o src).1.entries).1).get (pathSegs dst ++ r) =
        some (.file (perm &&& 0o777) (roundSec mt) c)) ∧
    (∀ r t, rtRaw fs (pathSegs src) r = some (.link t) →
      (excludes (loadIgnore fs cwd src) (joinWith '/' r)).1 = false →
      ((unpack cwd' [] priv dst .none fs' (pack fs cwd o src).1.entries).1).get (pathSegs dst ++ r) =
        some (.link t)) := by
  obtain ⟨hok, h1, h2, _⟩ := C02_roundtrip_kept_files fs cwd o src h htidy cwd' dst priv fs' hdst hreal
    hempty hshallow
  have hopen := fun r hk => C03_prune_loses_nothing _ (C03_rules_marked fs cwd src) ht r hk
  exact ⟨hok, fun r perm mt c hr hk => h1 r perm mt c hr hk (hopen r hk),
    fun r t hr hk => h2 r t hr hk (hopen r hk)⟩

/-- the `untar`-level form of `C02_roundtrip_kept_files` (no destination, no link hypothesis) -/
theorem C02_untar_kept_files (h : C03Scope fs cwd o src) :
    ∃ t, untar (pack fs cwd o src).1.entries = some t ∧
    (∀ r perm mt c, rtRaw fs (pathSegs src) r = some (.file perm mt c) →
      (excludes (loadIgnore fs cwd src) (joinWith '/' r)).1 = false → wfOpenFrom 1 (loadIgnore fs cwd src) r →
      treeGet t r = some (.file (perm &&& 0o777) (roundSec mt) c)) ∧
    (∀ r tg, rtRaw fs (pathSegs src) r = some (.link tg) →
      (excludes (loadIgnore fs cwd src) (joinWith '/' r)).1 = false → wfOpenFrom 1 (loadIgnore fs cwd src) r →
      treeGet t r = some (.link tg)) := by
  obtain ⟨_, t, ht, h1, _, _⟩ := C02_pack_untar_filtered fs cwd o src h
  refine ⟨t, ht, ?_, ?_⟩
  · intro r perm mt c hr hk ho
    rw [h1 r ⟨_, hr, (by intro e; cases e), ⟨hk, fun hd => by cases hd⟩, ho⟩]
    unfold srcNode; rw [hr]; rfl
  · intro r tg hr hk ho
    rw [h1 r ⟨_, hr, (by intro e; cases e), ⟨hk, fun hd => by cases hd⟩, ho⟩]
    unfold srcNode; rw [hr]; rfl

end

/-! ## 5. the C02 entry list under an arbitrary filter -/

section
variable (fs : FS) (cwd : Str) (o : PackOpts) (src : Str)

/-- **C02_pack_untar_any_filter.** `C02_untar_filter` applies to what `Pack` writes with ignore
processing off (`C02_pack_preorder`): in the scope of C02 and for ANY predicate `keep` on entries, the
filtered entry list can be read; a kept entry's path carries the source node (`srcNode`), a dropped
directory above a kept entry is a directory `0755`/`nowT`, a dropped entry with nothing kept at or below
it and every path without an entry are absent; and the filtered list is a `WellFormedArchive` whenever
the full one is.  With `keep := wfShipB …` this is the entry list with ignore processing on
(`C03_pack_filter`). -/
theorem C02_pack_untar_any_filter (h : C02Scope fs cwd o src) (keep : Entry → Bool) :
    ∃ t', untar ((pack fs cwd o src).1.entries.filter keep) = some t' ∧
      (∀ e ∈ (pack fs cwd o src).1.entries, keep e = true →
        treeGet t' (entryRel e.name) = srcNode fs (pathSegs src) (entryRel e.name)) ∧
      (∀ e ∈ (pack fs cwd o src).1.entries, keep e = false →
        (∃ e' ∈ (pack fs cwd o src).1.entries, keep e' = true ∧ entryRel e.name <+: entryRel e'.name) →
        e.isDir = true ∧ treeGet t' (entryRel e.name) = some (.dir 0o755 nowT)) ∧
      (∀ e ∈ (pack fs cwd o src).1.entries, keep e = false →
        (∀ e' ∈ (pack fs cwd o src).1.entries, keep e' = true → ¬ entryRel e.name <+: entryRel e'.name) →
        treeGet t' (entryRel e.name) = none) ∧
      (∀ r, r ≠ [] → (srcNode fs (pathSegs src) r).isSome = false → treeGet t' r = none) ∧
      (WellFormedArchive (pack fs cwd o src).1.entries →
        WellFormedArchive ((pack fs cwd o src).1.entries.filter keep)) := by
  obtain ⟨_, _, hkeys, hent, hpar, hsorted⟩ := C02_pack_preorder fs cwd o src h
  have hplain : ∀ e ∈ (pack fs cwd o src).1.entries,
      e.name ≠ [] ∧ entryRel e.name ≠ [] ∧ (e.isDir || e.isSymlink || e.isRegular) = true := by
    intro e he
    obtain ⟨g1, g2, _⟩ := C02_entries_supported fs cwd o src e he
    obtain ⟨nd, g3, _⟩ := hent e he
    refine ⟨g1, (rt_raw_some.mp g3).1, ?_⟩
    revert g2
    cases e.isDir <;> cases e.isRegular <;> cases e.isSymlink <;> simp
  obtain ⟨t, t', ht, ht', h1, h2, h3, h4, h5, h6⟩ := C02_untar_filter _ keep hplain hpar hsorted
  refine ⟨t', ht', ?_, ?_, h4, ?_, h6⟩
  · intro e he hk
    rw [h2 e he hk, h1 e he, C02_pack_entry_fields fs cwd o src h e he]
  · intro e he hk hex
    obtain ⟨g1, _, g3⟩ := h3 e he hk hex
    exact ⟨g1, g3⟩
  · intro r hr hnone
    refine (h5 r hr ?_).2
    intro hm
    rw [(hkeys r).mp hm] at hnone
    cases hnone

end

/-! ## 6. non-vacuity, and the deviation from "reproduces the tree" -/

/-- `/t/src` with the rule file `d/`, `!d/keep`, `*.log`; a directory `d` (mode 0700, time 5 s) holding
the re-included file `keep` (mode with type bits, time 1.5 s), an excluded file `x` and an excluded
directory `sub` with a file; an excluded `a.log`; a link into `d`; a plain file (time 2.4 s); a fifo -/
def ftFs : FS := [
  (["t".toList], .dir 0o755 0),
  (["t".toList, "src".toList], .dir 0o755 0),
  (["t".toList, "src".toList, ".terraformignore".toList], .file 0o644 0 "d/\n!d/keep\n*.log\n".toList),
  (["t".toList, "src".toList, "a.log".toList], .file 0o644 0 "log".toList),
  (["t".toList, "src".toList, "d".toList], .dir 0o700 5000000000),
  (["t".toList, "src".toList, "d".toList, "keep".toList], .file 0o100640 1500000000 "k".toList),
  (["t".toList, "src".toList, "d".toList, "x".toList], .file 0o644 0 "x".toList),
  (["t".toList, "src".toList, "d".toList, "sub".toList], .dir 0o750 0),
  (["t".toList, "src".toList, "d".toList, "sub".toList, "deep".toList], .file 0o644 0 "y".toList),
  (["t".toList, "src".toList, "l".toList], .link "d/keep".toList),
  (["t".toList, "src".toList, "main.tf".toList], .file 0o644 2400000000 "m".toList),
  (["t".toList, "src".toList, "p".toList], .special)]

/-- the rule set `Pack` loads there: the three built-in rules, then the three of the file -/
def ftRules : List Rule :=
  [⟨"**/.terraform/**".toList, false, true⟩, ⟨"**/.terraform/modules/**".toList, true, true⟩,
   ⟨"**/.git/**".toList, false, true⟩, ⟨"**/d/**".toList, false, true⟩,
   ⟨"**/d/keep".toList, true, false⟩, ⟨"**/*.log".toList, false, false⟩]

/-- the physical source directory -/
def ftP : PPath := ["t".toList, "src".toList]

theorem ft_rules_src : loadIgnore ftFs "/".toList wfSrc = ftRules := by decide

theorem ft_P : pathSegs wfSrc = ftP := by decide

/-- the example is in the scope of C03 -/
theorem ft_scope : C03Scope ftFs "/".toList wfOn wfSrc :=
  C03Scope.of_checks rfl rfl (by unfold AbsClean; decide) (by decide)
    (by unfold PackNamesOK NameNS Plain; decide) (by decide) (by decide) (by decide)

/-- its link is tidy -/
theorem ft_tidy : ∀ r t, rtRaw ftFs (pathSegs wfSrc) r = some (.link t) →
    ftShips (loadIgnore ftFs "/".toList wfSrc) ftFs (pathSegs wfSrc) r → t ≠ [] ∧ isAbs t = false ∧
    ∃ ups names, pathSegs t = List.replicate ups dotdot ++ names ∧ (∀ s ∈ names, s ≠ dotdot) ∧ ups < r.length :=
  fun r t hr _ => rt_tidy_of_check (fs := ftFs) (P := pathSegs wfSrc) (by decide) r t hr

/-- extraction below `/t/dst` stays within the resolver's fuel -/
theorem ft_shallow : ∀ r, ftShips (loadIgnore ftFs "/".toList wfSrc) ftFs (pathSegs wfSrc) r →
    (pathSegs cexDst).length + r.length < resolveFuel := by
  rintro r ⟨nd, g1, _⟩
  have hm := rt_get_mem (rt_raw_some.mp g1).2.2
  have := ft_scope.depth _ hm (List.prefix_append _ _)
  rw [List.length_append, ft_P] at this
  rw [cex_dstP]
  exact this

/-- what ships: the rule file, `d/keep`, the link, `main.tf`; not `d`, `d/x`, `d/sub`, `a.log`, the fifo -/
example :
    ftShips ftRules ftFs ftP [".terraformignore".toList] ∧ ftShips ftRules ftFs ftP ["d".toList, "keep".toList] ∧
    ftShips ftRules ftFs ftP ["l".toList] ∧ ftShips ftRules ftFs ftP ["main.tf".toList] ∧
    ¬ ftShips ftRules ftFs ftP ["d".toList] ∧ ¬ ftShips ftRules ftFs ftP ["d".toList, "x".toList] ∧
    ¬ ftShips ftRules ftFs ftP ["d".toList, "sub".toList] ∧ ¬ ftShips ftRules ftFs ftP ["a.log".toList] ∧
    ¬ ftShips ftRules ftFs ftP ["p".toList] := by decide

/-- **C02_cex_excluded_dir_implicit.** The clause "the same set of relative paths, with the same …
permission bits … and modification times …; the only omissions are entries excluded by ignore rules"
does not hold for a directory whose own path is excluded while something below it is re-included.
Rule file `d/`, `!d/keep`, `*.log`: `d/` is excluded (no dominating match: a later `!` rule could
re-include below it), `d` and `d/keep` are not.  `Pack` succeeds and writes NO entry for `d` but one
for `d/keep`.  Reading the archive — `untar`, and the Unpack model into the empty directory `/t/dst`,
privileged or not — the directory `d` exists all the same: with the implicit mode `0755` and the time
of the run (`nowT`), where the source has mode `0700` and time 5 s (`srcNode`: what the round trip
would have reproduced had `d/` been written).  So `d` is neither omitted nor reproduced.  The rest is as
C02 says: `d/keep` (mode `0640`, 1.5 s ↦ 2), the link `l`, `main.tf` (2.4 s ↦ 2) and the rule file are
reproduced; `d/x`, `d/sub`, `d/sub/deep`, `a.log` (excluded), the fifo `p` and a name `zz` that does not
exist are absent.  (Each clause instantiates `C02_pack_untar_filtered` /
`C02_roundtrip_filtered_partial`; `pack` with a rule set is not evaluated by `decide`.) -/
theorem C02_cex_excluded_dir_implicit :
    loadIgnore ftFs "/".toList wfSrc = ftRules ∧
    excludes ftRules "d/".toList = (true, false) ∧ (excludes ftRules "d".toList).1 = false ∧
    (excludes ftRules "d/keep".toList).1 = false ∧
    srcNode ftFs ftP ["d".toList] = some (.dir 0o700 5) ∧
    (pack ftFs "/".toList wfOn wfSrc).2 = .ok ∧
    ["d".toList] ∉ (pack ftFs "/".toList wfOn wfSrc).1.entries.map (fun e => entryRel e.name) ∧
    ["d".toList, "keep".toList] ∈ (pack ftFs "/".toList wfOn wfSrc).1.entries.map (fun e => entryRel e.name) ∧
    (∃ t, untar (pack ftFs "/".toList wfOn wfSrc).1.entries = some t ∧
      treeGet t ["d".toList] = some (.dir 0o755 nowT) ∧
      treeGet t ["d".toList, "keep".toList] = some (.file 0o640 2 "k".toList) ∧
      treeGet t ["l".toList] = some (.link "d/keep".toList) ∧
      treeGet t ["main.tf".toList] = some (.file 0o644 2 "m".toList) ∧
      treeGet t [".terraformignore".toList] = some (.file 0o644 0 "d/\n!d/keep\n*.log\n".toList) ∧
      treeGet t ["d".toList, "x".toList] = none ∧ treeGet t ["d".toList, "sub".toList] = none ∧
      treeGet t ["d".toList, "sub".toList, "deep".toList] = none ∧ treeGet t ["a.log".toList] = none ∧
      treeGet t ["p".toList] = none ∧ treeGet t ["zz".toList] = none) ∧
    (∀ priv : Bool,
      (unpack cexCwd [] priv cexDst .none cexFs0 (pack ftFs "/".toList wfOn wfSrc).1.entries).2 = .ok ∧
      ((unpack cexCwd [] priv cexDst .none cexFs0 (pack ftFs "/".toList wfOn wfSrc).1.entries).1).get
        (cexDstP ++ ["d".toList]) = some (.dir 0o755 nowT) ∧
      ((unpack cexCwd [] priv cexDst .none cexFs0 (pack ftFs "/".toList wfOn wfSrc).1.entries).1).get
        (cexDstP ++ ["d".toList, "keep".toList]) = some (.file 0o640 2 "k".toList) ∧
      ((unpack cexCwd [] priv cexDst .none cexFs0 (pack ftFs "/".toList wfOn wfSrc).1.entries).1).get
        (cexDstP ++ ["l".toList]) = some (.link "d/keep".toList) ∧
      ((unpack cexCwd [] priv cexDst .none cexFs0 (pack ftFs "/".toList wfOn wfSrc).1.entries).1).get
        (cexDstP ++ ["d".toList, "x".toList]) = none ∧
      ((unpack cexCwd [] priv cexDst .none cexFs0 (pack ftFs "/".toList wfOn wfSrc).1.entries).1).get
        (cexDstP ++ ["d".toList, "sub".toList]) = none ∧
      ((unpack cexCwd [] priv cexDst .none cexFs0 (pack ftFs "/".toList wfOn wfSrc).1.entries).1).get
        (cexDstP ++ ["a.log".toList]) = none) := by
  have hiff := C02_ships_iff_entry ftFs "/".toList wfOn wfSrc ft_scope
  rw [ft_rules_src, ft_P] at hiff
  have hu := C02_pack_untar_filtered ftFs "/".toList wfOn wfSrc ft_scope
  rw [ft_rules_src, ft_P] at hu
  obtain ⟨hok, t, ht, h1, h2, h3⟩ := hu
  refine ⟨ft_rules_src, by decide, by decide, by decide, by decide, hok,
    fun hm => absurd ((hiff _).mpr hm) (by decide), (hiff _).mp (by decide), ⟨t, ht, ?_⟩, ?_⟩
  · refine ⟨(h2 _ (by decide) (by decide) ⟨["d".toList, "keep".toList], by decide, ⟨["keep".toList], rfl⟩⟩).1,
      (h1 _ (by decide)).trans (by decide), (h1 _ (by decide)).trans (by decide),
      (h1 _ (by decide)).trans (by decide), (h1 _ (by decide)).trans (by decide),
      h3 _ (by decide) (ft_absent_of_check (by decide)), h3 _ (by decide) (ft_absent_of_check (by decide)),
      h3 _ (by decide) (ft_absent_of_check (by decide)), h3 _ (by decide) (ft_absent_of_check (by decide)),
      h3 _ (by decide) (ft_absent_of_check (by decide)), h3 _ (by decide) (ft_absent_of_check (by decide))⟩
  · intro priv
    have hr := C02_roundtrip_filtered_partial ftFs "/".toList wfOn wfSrc ft_scope ft_tidy cexCwd cexDst priv cexFs0
      c15r_hyps.1 c15r_hyps.2.1 c15r_hyps.2.2.1 ft_shallow
    rw [ft_rules_src, ft_P, cex_dstP] at hr
    obtain ⟨gok, g1, g2, g3⟩ := hr
    exact ⟨gok,
      (g2 _ (by decide) (by decide) ⟨["d".toList, "keep".toList], by decide, ⟨["keep".toList], rfl⟩⟩).1,
      (g1 _ (by decide)).trans (by decide), (g1 _ (by decide)).trans (by decide),
      g3 _ (by decide) (ft_absent_of_check (by decide)), g3 _ (by decide) (ft_absent_of_check (by decide)),
      g3 _ (by decide) (ft_absent_of_check (by decide))⟩

/-- `C02_roundtrip_kept_files` instantiated: the re-included file below the excluded directory and the
link survive Pack → Unpack into `/t/dst` unchanged (mode masked, time rounded) -/
example (priv : Bool) :
    ((unpack cexCwd [] priv cexDst .none cexFs0 (pack ftFs "/".toList wfOn wfSrc).1.entries).1).get
      (cexDstP ++ ["d".toList, "keep".toList]) = some (.file 0o640 2 "k".toList) ∧
    ((unpack cexCwd [] priv cexDst .none cexFs0 (pack ftFs "/".toList wfOn wfSrc).1.entries).1).get
      (cexDstP ++ ["l".toList]) = some (.link "d/keep".toList) := by
  have hr := C02_roundtrip_kept_files ftFs "/".toList wfOn wfSrc ft_scope ft_tidy cexCwd cexDst priv cexFs0
    c15r_hyps.1 c15r_hyps.2.1 c15r_hyps.2.2.1 ft_shallow
  rw [ft_rules_src, ft_P, cex_dstP] at hr
  obtain ⟨_, g1, g2, _⟩ := hr
  exact ⟨g1 ["d".toList, "keep".toList] 0o100640 1500000000 "k".toList (by decide) (by decide)
      (wfOpenFrom_of_check (by decide)),
    g2 ["l".toList] "d/keep".toList (by decide) (by decide) (wfOpenFrom_of_check (by decide))⟩

/-- the rule set of the example is tail-closed, so `C02_roundtrip_kept_files_tailClosed` applies too -/
example : TailClosed (loadIgnore ftFs "/".toList wfSrc) := by
  rw [ft_rules_src]; exact wf_tailClosed_of_check _ (by decide)

/-- `Pack`'s output here is a well-formed archive although `d/keep` has no `d/` before it -/
example : WellFormedArchive (pack ftFs "/".toList wfOn wfSrc).1.entries :=
  (C02_pack_wellformed_filtered ftFs "/".toList wfOn wfSrc ft_scope ft_tidy).1

/-- `C02_untar_filter` / `C02_pack_untar_any_filter` are not vacuous: the example tree of C02 is in
scope, for any `keep` -/
example (keep : Entry → Bool) :
    ∃ t', untar ((pack c02fs "/".toList c02opts c02src).1.entries.filter keep) = some t' ∧
      WellFormedArchive ((pack c02fs "/".toList c02opts c02src).1.entries.filter keep) := by
  obtain ⟨t', ht', _, _, _, _, hwf⟩ := C02_pack_untar_any_filter c02fs "/".toList c02opts c02src c02_scope keep
  exact ⟨t', ht', hwf (C02_pack_wellformed _ _ _ _ c02_scope c02_tidy).1⟩

/-- and a closed instance of the archive semantics alone: `d/f` without `d/` -/
example :
    (untar ([⟨"a".toList, tReg, 0o644, 2, [], "hi".toList⟩, ⟨"d/".toList, tDir, 0o750, 4, [], []⟩,
        ⟨"d/f".toList, tReg, 0o600, 1, [], "x".toList⟩].filter (fun e => !e.isDir))).map
      (fun t => [treeGet t ["a".toList], treeGet t ["d".toList], treeGet t ["d".toList, "f".toList]]) =
    some [some (.file 0o644 2 "hi".toList), some (.dir 0o755 nowT), some (.file 0o600 1 "x".toList)] := by
  decide

end Slug
