import SlugModel.Lemmas.RoundTrip
/-!
# C02 — Pack followed by Unpack reproduces the source tree (the Pack half)

Property theorems only; helper lemmas live in `Lemmas/RoundTrip`.
`pack` (Pack.lean) models `Packer.Pack`; `untar` (Spec/Untar.lean) is the sequential reading of an
entry list into an abstract tree keyed by relative paths — the tree `Unpack` builds below its
destination (that refinement is C15's).  The round trip factors through the entry list; this file
is the Pack side: **what `untar` makes of the entries `Pack` emits is the source tree**, with
permission bits masked to `0o777` and modification times rounded to the second, link targets
unchanged, special files absent (`srcNode`, Lemmas/RoundTrip).

Scope of the universal theorems `C02_pack_preorder`, `C02_pack_untar`, `C02_roundtrip_model_partial`:
no ignore processing, no dereferencing; the source is an absolute clean path all of whose
components — the source directory included — are real directories (no symlinked ancestor:
`C02_cex_symlinked_ancestor`); names in the filesystem are plain (`PackNamesOK`); every link the
walk reaches is accepted by `validSymlink`; paths below the source have fewer than `resolveFuel`
(64) components, the bound of the path-resolution model; and the walk's fuel (`packFuel`) does not
run out — stated as "the result is not `diverged`"; `C02_fuel_sufficient` gives an explicit
sufficient size bound (`2 * fs.length + 2 ≤ packFuel`).
-/
namespace Slug

/-! ## 1. the entries are of the kinds `Unpack` accepts -/

/-- **C02_entries_supported.** For every filesystem, working directory, option set and source, and
whatever `Pack` returns: each entry it wrote has a non-empty name and is a directory, a regular
file or a symlink — so `Unpack`'s type gate (`Entry.supported`) never refuses `Pack`'s output and
no entry is skipped for an empty name —; directory entries end in `/`, the others do not. -/
theorem C02_entries_supported (fs : FS) (cwd : Str) (o : PackOpts) (src : Str) :
    ∀ e ∈ (pack fs cwd o src).1.entries,
      e.name ≠ [] ∧ (e.isDir || e.isRegular || e.isSymlink) = true ∧
      (e.isDir = true → hasSuffix e.name ['/'] = true) ∧
      (e.isDir = false → hasSuffix e.name ['/'] = false) := by
  intro e he
  obtain ⟨a, b, sub, hrel, hdot, hshape⟩ := rt_pack_names fs cwd o src e he
  obtain ⟨hne, hsuf⟩ := rt_pathRel_sub a b sub hrel hdot
  rcases hshape with ⟨ht, hn⟩ | ⟨ht, hn⟩
  · have hd : e.isDir = true := by simp [Entry.isDir, ht]
    refine ⟨by rw [hn]; simp, by simp [hd], fun _ => ?_, fun h => (by rw [hd] at h; cases h)⟩
    rw [hn]; simp [hasSuffix]
  · have hd : e.isDir = false := by
      rcases ht with ht | ht <;> simp [Entry.isDir, ht, tDir, tReg, tSymlink]
    refine ⟨by rw [hn]; exact hne, ?_, fun h => (by rw [hd] at h; cases h), fun _ => (by rw [hn]; exact hsuf)⟩
    rcases ht with ht | ht
    · simp [Entry.isRegular, ht]
    · simp [Entry.isSymlink, ht]

/-- in the vocabulary of Lemmas/UnpackBasic: every entry passes `Entry.supported` -/
theorem C02_entries_pass_type_gate (fs : FS) (cwd : Str) (o : PackOpts) (src : Str) :
    ∀ e ∈ (pack fs cwd o src).1.entries, (e.isDir || e.isSymlink || e.isRegular || e.isTypeX) = true := by
  intro e he
  have h := (C02_entries_supported fs cwd o src e he).2.1
  simp only [Bool.or_eq_true] at h ⊢
  rcases h with (h | h) | h
  · exact Or.inl (Or.inl (Or.inl h))
  · exact Or.inl (Or.inr h)
  · exact Or.inl (Or.inl (Or.inr h))

/-! ## 2. times are rounded to the second -/

/-- **C02_times_rounded.** `roundSec` — the time the tar header records for a file or directory
whose modification time is `ns` nanoseconds — is the nearest second, halves rounding up:
`roundSec ns = s` exactly when `s·10⁹ − 5·10⁸ ≤ ns < s·10⁹ + 5·10⁸`.  (`/` on `Int` is `Int.ediv`
in Lean 4 core — floor for a positive divisor — so the characterisation holds for negative
times, before 1970, as well.)  Four instances follow. -/
theorem C02_times_rounded (ns s : Int) :
    (roundSec ns = s ↔ s * 1000000000 - 500000000 ≤ ns ∧ ns < s * 1000000000 + 500000000) ∧
    roundSec (s * 1000000000) = s ∧
    roundSec (s * 1000000000 + 400000000) = s ∧
    roundSec (s * 1000000000 + 500000000) = s + 1 ∧
    roundSec (s * 1000000000 + 600000000) = s + 1 := by
  refine ⟨rt_roundSec_iff ns s, ?_, ?_, ?_, ?_⟩ <;> rw [rt_roundSec_iff] <;> omega

/-- rounding twice changes nothing: a tree that was unpacked (times in whole seconds) packs to
the same times -/
theorem C02_times_rounded_idem (s : Int) : roundSec (s * 1000000000) = s :=
  (C02_times_rounded 0 s).2.1

/-! ## 3. the entry list is the pre-order listing of the source tree -/

section
variable (fs : FS) (cwd : Str) (o : PackOpts) (src : Str)

/-- the hypotheses shared by the theorems below, spelled out (see the file header) -/
structure C02Scope : Prop where
  noIgnore : o.applyIgnore = false
  noDeref : o.dereference = false
  srcClean : AbsClean src
  /-- `/`, …, the source directory itself are real directories -/
  srcPhysical : ∀ q, q ≠ [] → q <+: pathSegs src → ∃ perm mt, fs.get q = some (.dir perm mt)
  names : PackNamesOK fs
  depth : ∀ e ∈ fs, pathSegs src <+: e.1 → e.1.length < resolveFuel
  /-- every link of the source tree is inside the source or allow-listed -/
  linksAccepted : ∀ r t, srcNode fs (pathSegs src) r = some (.link t) →
    validSymlink cwd o.allow src (ofSegs (pathSegs src ++ r)) t = true
  /-- the fuel of the walk model suffices -/
  fuel : (pack fs cwd o src).2 ≠ .diverged

theorem C02Scope.ctx {fs : FS} {cwd : Str} {o : PackOpts} {src : Str} (h : C02Scope fs cwd o src) :
    RtCtx fs cwd o src :=
  ⟨h.noDeref, h.srcClean, h.srcPhysical, h.names, h.depth,
    fun r t hr => h.linksAccepted r t (rt_srcNode_link.mpr hr)⟩

/-- **C02_pack_preorder.** In scope, `Pack` succeeds and its entry list, read as relative paths
(`entryRel` of the names), is a listing of the source tree in pre-order:
* no path occurs twice;
* the paths are exactly those `r` where the source tree has a node (`srcNode … r` is `some`): every
  file, directory — empty ones included — and link reachable from the source through real
  directories, and nothing for special files;
* each entry is `rtEntry r nd` for the node `nd` at its path `r`: name `r` joined by `/` (plus a
  final `/` for a directory), type by kind, mode `perm &&& 0o777`, time `roundSec mtime`, the
  file's content, the link's target as written (links: mode `0o777`, time 0);
* every directory is written before everything below it: all proper ancestors of an entry's path
  occur as directory entries earlier in the list;
* the paths increase strictly in the lexicographic order on component lists (components compared
  as character lists, i.e. in the byte order of their UTF-8 encodings, as `readDirNames` sorts):
  a directory, then its children in sorted order, each followed by its own subtree.
Together with the second clause this determines the list: it is *the* name-sorted pre-order
listing of the source tree. -/
theorem C02_pack_preorder (h : C02Scope fs cwd o src) :
    (pack fs cwd o src).2 = .ok ∧
    ((pack fs cwd o src).1.entries.map (fun e => entryRel e.name)).Nodup ∧
    (∀ r, r ∈ (pack fs cwd o src).1.entries.map (fun e => entryRel e.name) ↔
      (srcNode fs (pathSegs src) r).isSome = true) ∧
    (∀ e ∈ (pack fs cwd o src).1.entries, ∃ nd, rtRaw fs (pathSegs src) (entryRel e.name) = some nd ∧
      nd ≠ .special ∧ e = rtEntry (entryRel e.name) nd) ∧
    (∀ A e B, (pack fs cwd o src).1.entries = A ++ e :: B → ∀ q ∈ properPrefixes (entryRel e.name),
      ∃ d ∈ A, d.isDir = true ∧ entryRel d.name = q) ∧
    ((pack fs cwd o src).1.entries.map (fun e => entryRel e.name)).Pairwise (· < ·) :=
  rt_pack_preorder h.ctx h.noIgnore h.fuel

/-- the third clause of `C02_pack_preorder` in terms of the abstract tree: the node an entry stands
for (`rtNodeOf`: kind, mode, time, content or target as recorded in the entry) is the source
tree's node at the entry's path -/
theorem C02_pack_entry_fields (h : C02Scope fs cwd o src) :
    ∀ e ∈ (pack fs cwd o src).1.entries,
      srcNode fs (pathSegs src) (entryRel e.name) = some (rtNodeOf e) := by
  intro e he
  obtain ⟨nd, h1, h2, h3⟩ := (C02_pack_preorder fs cwd o src h).2.2.2.1 e he
  unfold srcNode
  rw [h1]
  show rtConv nd = _
  rw [← rt_nodeOf_rtEntry (entryRel e.name) nd h2, ← h3]

/-! ## 4. `untar` of Pack's output is the source tree -/

/-- **C02_pack_untar.** In scope, the sequential reading of `Pack`'s own output succeeds and is
the source tree: at every non-empty relative path `r` the tree `untar` builds has exactly
`srcNode fs (pathSegs src) r` — the same paths and kinds, file contents, permission bits, link
targets, and for files and directories the modification time rounded to the second; nothing where
the source has a special file or nothing.  (Parents are always written before their children, so
`mkParents` never invents a directory; the deferred directory metadata gives every directory its
own mode and time although children were created in it afterwards.) -/
theorem C02_pack_untar (h : C02Scope fs cwd o src) :
    ∃ t, untar (pack fs cwd o src).1.entries = some t ∧
      ∀ r, r ≠ [] → treeGet t r = srcNode fs (pathSegs src) r :=
  rt_pack_untar h.ctx h.noIgnore h.fuel

end

/-! ## 5. the round trip, given the Unpack half -/

section
variable (fs : FS) (cwd : Str) (o : PackOpts) (src : Str)

/-- **C02_pack_wellformed.** In scope, and when every link of the source tree is non-empty,
relative, tidy (all `..` first) and climbs fewer levels than its own depth below the source,
`Pack`'s output is a well-formed archive in the sense of Spec/Untar (the domain of C15): names
without `..`, no path used twice or through a non-directory, links good; and it has no extended
header entries. -/
theorem C02_pack_wellformed (h : C02Scope fs cwd o src)
    (htidy : ∀ r t, srcNode fs (pathSegs src) r = some (.link t) → t ≠ [] ∧ isAbs t = false ∧
      ∃ ups names, pathSegs t = List.replicate ups dotdot ++ names ∧ (∀ s ∈ names, s ≠ dotdot) ∧ ups < r.length) :
    WellFormedArchive (pack fs cwd o src).1.entries ∧
    (∀ e ∈ (pack fs cwd o src).1.entries, e.isTypeX = false) :=
  rt_pack_wellFormed h.ctx h.noIgnore h.fuel (fun r t hr => htidy r t (rt_srcNode_link.mpr hr))

/-- **C02_roundtrip_model_partial.** The composed statement, with the Unpack half — the
conclusion of `C15_refines_partial` (Props/C15r) for a destination `dst` in a filesystem `fs'` —
as the hypothesis `hRef`: for every well-formed archive without deep extended headers (the sufficient condition
`UrXFlat` of Props/C15r; `C15_refines_partial` itself asks less, `UrXFree`) whose
extraction paths are shorter than the resolver's fuel, `Unpack` succeeds and leaves below `dst`
exactly the tree `untar` reads.  Then `Unpack` of `Pack`'s output succeeds and below `dst` the
filesystem is the source tree: at every non-empty relative path `r` the node is
`srcNode fs (pathSegs src) r` — same relative paths and types, file contents, permission bits
(`&&& 0o777`), link targets, times of files and directories rounded to the second; special files
absent.  Partial: the scope of `C02Scope`, tidy relative in-tree links, `hRef`'s own side
conditions on `dst`/`fs'`, and the destination directory itself (`r = []`) is not covered. -/
theorem C02_roundtrip_model_partial (h : C02Scope fs cwd o src)
    (htidy : ∀ r t, srcNode fs (pathSegs src) r = some (.link t) → t ≠ [] ∧ isAbs t = false ∧
      ∃ ups names, pathSegs t = List.replicate ups dotdot ++ names ∧ (∀ s ∈ names, s ≠ dotdot) ∧ ups < r.length)
    (cwd' dst : Str) (priv : Bool) (fs' : FS)
    (hshallow : ∀ r, (srcNode fs (pathSegs src) r).isSome = true →
      (pathSegs dst).length + r.length < resolveFuel)
    (hRef : ∀ (es : List Entry) (t : Tree), WellFormedArchive es →
      (∀ e ∈ es, e.isTypeX = true → e.name ≠ [] → (entryRel e.name).length ≤ 1) →
      (∀ e ∈ es, (pathSegs dst).length + (entryRel e.name).length < resolveFuel) →
      untar es = some t →
      (unpack cwd' [] priv dst .none fs' es).2 = .ok ∧
      ∀ r, r ≠ [] → ((unpack cwd' [] priv dst .none fs' es).1).get (pathSegs dst ++ r) = treeGet t r) :
    (unpack cwd' [] priv dst .none fs' (pack fs cwd o src).1.entries).2 = .ok ∧
    ∀ r, r ≠ [] →
      ((unpack cwd' [] priv dst .none fs' (pack fs cwd o src).1.entries).1).get (pathSegs dst ++ r) =
        srcNode fs (pathSegs src) r := by
  obtain ⟨hwf, hx⟩ := C02_pack_wellformed fs cwd o src h htidy
  obtain ⟨t, ht, htree⟩ := C02_pack_untar fs cwd o src h
  have hkeys := (C02_pack_preorder fs cwd o src h).2.2.1
  obtain ⟨hok, hget⟩ := hRef _ t hwf
    (fun e he hX => by rw [hx e he] at hX; cases hX)
    (fun e he => hshallow _ ((hkeys _).mp (List.mem_map.mpr ⟨e, he, rfl⟩)))
    ht
  exact ⟨hok, fun r hr => by rw [hget r hr, htree r hr]⟩

/-- **C02_fuel_sufficient.** An explicit sufficient fuel: under the other hypotheses of the scope,
a filesystem with at most `(packFuel - 2) / 2 = 1999` bindings is never reported as `diverged`
(two units of fuel per binding: one for `walk`, one for the callback or the directory loop). -/
theorem C02_fuel_sufficient
    (h1 : o.applyIgnore = false) (h2 : o.dereference = false) (h3 : AbsClean src)
    (h4 : ∀ q, q ≠ [] → q <+: pathSegs src → ∃ perm mt, fs.get q = some (.dir perm mt))
    (h5 : PackNamesOK fs) (h6 : ∀ e ∈ fs, pathSegs src <+: e.1 → e.1.length < resolveFuel)
    (h7 : ∀ r t, srcNode fs (pathSegs src) r = some (.link t) →
      validSymlink cwd o.allow src (ofSegs (pathSegs src ++ r)) t = true)
    (hsize : 2 * fs.length + 2 ≤ packFuel) :
    (pack fs cwd o src).2 ≠ .diverged :=
  rt_pack_fuel ⟨h2, h3, h4, h5, h6, fun r t hr => h7 r t (rt_srcNode_link.mpr hr)⟩ h1 hsize

/-- the scope with the fuel clause replaced by the size bound -/
theorem C02Scope.of_size {fs : FS} {cwd : Str} {o : PackOpts} {src : Str}
    (h1 : o.applyIgnore = false) (h2 : o.dereference = false) (h3 : AbsClean src)
    (h4 : ∀ q, q ≠ [] → q <+: pathSegs src → ∃ perm mt, fs.get q = some (.dir perm mt))
    (h5 : PackNamesOK fs) (h6 : ∀ e ∈ fs, pathSegs src <+: e.1 → e.1.length < resolveFuel)
    (h7 : ∀ r t, srcNode fs (pathSegs src) r = some (.link t) →
      validSymlink cwd o.allow src (ofSegs (pathSegs src ++ r)) t = true)
    (hsize : 2 * fs.length + 2 ≤ packFuel) : C02Scope fs cwd o src :=
  ⟨h1, h2, h3, h4, h5, h6, h7, C02_fuel_sufficient fs cwd o src h1 h2 h3 h4 h5 h6 h7 hsize⟩

/-- the hypotheses of `C02Scope` that quantify over all paths, from finite checks (for closed
examples) -/
theorem C02Scope.of_checks {fs : FS} {cwd : Str} {o : PackOpts} {src : Str}
    (h1 : o.applyIgnore = false) (h2 : o.dereference = false) (h3 : AbsClean src)
    (h4 : rtPhysCheck fs (pathSegs src) = true) (h5 : PackNamesOK fs)
    (h6 : ∀ e ∈ fs, pathSegs src <+: e.1 → e.1.length < resolveFuel)
    (h7 : rtLinksCheck fs cwd o src = true) (h8 : (pack fs cwd o src).2 ≠ .diverged) :
    C02Scope fs cwd o src :=
  ⟨h1, h2, h3, rt_phys_of_check h4, h5, h6,
    fun r t hr => rt_links_of_check h7 r t (rt_srcNode_link.mp hr), h8⟩

end

/-! ## non-vacuity -/

/-- `/t/src` with a file (mode with type bits, time 1.5 s), an empty directory, a directory holding a
file, an in-tree relative link and a fifo -/
def c02fs : FS := [
  (["t".toList], .dir 0o755 0),
  (["t".toList, "src".toList], .dir 0o755 7),
  (["t".toList, "src".toList, "a".toList], .file 0o100644 1500000000 "hi".toList),
  (["t".toList, "src".toList, "e".toList], .dir 0o700 2400000000),
  (["t".toList, "src".toList, "d".toList], .dir 0o40750 3600000000),
  (["t".toList, "src".toList, "d".toList, "f".toList], .file 0o600 999999999 "x".toList),
  (["t".toList, "src".toList, "l".toList], .link "d/f".toList),
  (["t".toList, "src".toList, "p".toList], .special)]

def c02src : Str := "/t/src".toList
def c02opts : PackOpts := { dereference := false, applyIgnore := false, allow := [] }

/-- what `Pack` writes: name-sorted pre-order, `d/` before `d/f`, the empty directory `e/`
present, nothing for the fifo `p`; modes masked, times rounded (1.5 s ↦ 2, 3.6 s ↦ 4, 2.4 s ↦ 2,
0.999999999 s ↦ 1) -/
example :
    (pack c02fs "/".toList c02opts c02src).2 = .ok ∧
    (pack c02fs "/".toList c02opts c02src).1.entries =
      [⟨"a".toList, tReg, 0o644, 2, [], "hi".toList⟩,
       ⟨"d/".toList, tDir, 0o750, 4, [], []⟩,
       ⟨"d/f".toList, tReg, 0o600, 1, [], "x".toList⟩,
       ⟨"e/".toList, tDir, 0o700, 2, [], []⟩,
       ⟨"l".toList, tSymlink, 0o777, 0, "d/f".toList, []⟩] := by decide

/-- the example is in scope -/
theorem c02_scope : C02Scope c02fs "/".toList c02opts c02src :=
  C02Scope.of_checks rfl rfl (by unfold AbsClean; decide) (by decide) (by unfold PackNamesOK NameNS Plain; decide)
    (by decide) (by decide) (by decide)

/-- and its link has the shape `C02_pack_wellformed` asks for -/
theorem c02_tidy : ∀ r t, srcNode c02fs (pathSegs c02src) r = some (.link t) → t ≠ [] ∧ isAbs t = false ∧
    ∃ ups names, pathSegs t = List.replicate ups dotdot ++ names ∧ (∀ s ∈ names, s ≠ dotdot) ∧ ups < r.length :=
  fun r t hr => rt_tidy_of_check (fs := c02fs) (P := pathSegs c02src) (by decide) r t (rt_srcNode_link.mp hr)

/-- `untar` of the entries, spelled out: every directory carries its own (masked, rounded)
metadata although its children were created after it -/
example :
    (untar (pack c02fs "/".toList c02opts c02src).1.entries).map (fun t =>
      [treeGet t ["a".toList], treeGet t ["d".toList], treeGet t ["d".toList, "f".toList],
       treeGet t ["e".toList], treeGet t ["l".toList], treeGet t ["p".toList], treeGet t ["zz".toList]]) =
    some [some (.file 0o644 2 "hi".toList), some (.dir 0o750 4), some (.file 0o600 1 "x".toList),
          some (.dir 0o700 2), some (.link "d/f".toList), none, none] := by decide

/-- the same values from the source side -/
example :
    [srcNode c02fs (pathSegs c02src) ["a".toList], srcNode c02fs (pathSegs c02src) ["d".toList],
     srcNode c02fs (pathSegs c02src) ["d".toList, "f".toList], srcNode c02fs (pathSegs c02src) ["e".toList],
     srcNode c02fs (pathSegs c02src) ["l".toList], srcNode c02fs (pathSegs c02src) ["p".toList],
     srcNode c02fs (pathSegs c02src) ["zz".toList]] =
    [some (.file 0o644 2 "hi".toList), some (.dir 0o750 4), some (.file 0o600 1 "x".toList),
     some (.dir 0o700 2), some (.link "d/f".toList), none, none] := by decide

/-- `C02_pack_untar` and `C02_pack_wellformed` instantiated -/
example : ∃ t, untar (pack c02fs "/".toList c02opts c02src).1.entries = some t ∧
    ∀ r, r ≠ [] → treeGet t r = srcNode c02fs (pathSegs c02src) r :=
  C02_pack_untar _ _ _ _ c02_scope

example : WellFormedArchive (pack c02fs "/".toList c02opts c02src).1.entries :=
  (C02_pack_wellformed _ _ _ _ c02_scope c02_tidy).1

/-! ## a counterexample outside the scope -/

/-- `/t/lnk -> /u`; the source `/t/lnk/src` is an absolute clean path and `Lstat` reports a
directory, but it is physically `/u/src` -/
def c02fsLnk : FS := [
  (["t".toList], .dir 0o755 0),
  (["t".toList, "lnk".toList], .link "/u".toList),
  (["u".toList], .dir 0o755 0),
  (["u".toList, "src".toList], .dir 0o755 0),
  (["u".toList, "src".toList, "a".toList], .file 0o644 0 "hi".toList)]

/-- **C02_cex_symlinked_ancestor.** Without `srcPhysical` the statement with `pathSegs src` as the
root of the source tree is false: below a symlinked ancestor `Pack` (correctly) walks the physical
directory, while nothing is bound under the *spelled* path — `untar` has `a`, `srcNode` at the
spelled root has not.  (The round trip itself is fine here; the abstract source tree has to be
taken at the physical directory, `srcNode c02fsLnk [u, src]`.) -/
theorem C02_cex_symlinked_ancestor :
    AbsClean "/t/lnk/src".toList ∧
    (c02fsLnk.lstat "/t/lnk/src".toList).toOption = some (.dir 0o755 0) ∧
    (pack c02fsLnk "/".toList c02opts "/t/lnk/src".toList).2 = .ok ∧
    (untar (pack c02fsLnk "/".toList c02opts "/t/lnk/src".toList).1.entries).map
      (fun t => treeGet t ["a".toList]) = some (some (.file 0o644 0 "hi".toList)) ∧
    srcNode c02fsLnk (pathSegs "/t/lnk/src".toList) ["a".toList] = none ∧
    srcNode c02fsLnk ["u".toList, "src".toList] ["a".toList] = some (.file 0o644 0 "hi".toList) := by
  unfold AbsClean; decide

end Slug
