import SlugModel.Lemmas.TrEq_joinSubPath
import SlugModel.Lemmas.TrEq_normalizeSubpath
import SlugModel.Lemmas.TrEq_finalSourceAddr
/-!
# C11 (tie by translation)

Tie by translation: the model function the theorems of this property are stated over equals the Lean
translation of the Go function, regenerated from /repo on every run (harness/cmd/go2lean); a change of
the Go function changes the translated definition and this proof obligation no longer checks.

An error result of the Go function is read as `(zero value, true)`, a normal one as `(value, false)`.
An address (`RemoteSource`, `RegistrySource`) is read as the pair (package as printed, sub-path).
-/
namespace Slug

/-- **C11_tie_joinSubPath.** The model's `joinSubPath` is the translated `joinSubPath` (sourceaddrs/subpath.go). -/
theorem C11_tie_joinSubPath (a b : Str) :
    Gen.joinSubPath a b = (match joinSubPath a b with | some r => (r, false) | none => ([], true)) :=
  gen_joinSubPath a b

/-- **C11_tie_normalizeSubpath.** The model's `normalizeSubpath` is the translated `normalizeSubpath` (sourceaddrs/subpath.go). -/
theorem C11_tie_normalizeSubpath (g : Str) :
    Gen.normalizeSubpath g = (match normalizeSubpath g with | some r => (r, false) | none => ([], true)) :=
  gen_normalizeSubpath g

/-- **C11_tie_finalSourceAddr.** The model's `finalSourceSub` (the sub-path of a registry address joined onto the
sub-path of the remote address the registry named) is the sub-path of the translated
`RegistrySource.FinalSourceAddr` (sourceaddrs/source_registry.go), whose package is that of the named address. -/
theorem C11_tie_finalSourceAddr (s real : Str × Str) :
    Gen.finalSourceAddr s real = (real.1, finalSourceSub s.2 real.2) :=
  gen_finalSourceAddr s real

end Slug
