import SlugModel.Lemmas.TrEq_joinSubPath
import SlugModel.Lemmas.TrEq_normalizeSubpath
import SlugModel.Lemmas.TrEq_finalSourceAddr
import SlugModel.Props.C11
/-!
# C11 (tie by translation)

Tie by translation: the model function the theorems of this property are stated over equals the Lean
translation of the Go function, regenerated from /repo on every run (harness/cmd/go2lean); a change of
the Go function changes the translated definition and this proof obligation no longer checks.

An error result of the Go function is read as `(zero value, true)`, a normal one as `(value, false)`.
An address (`RemoteSource`, `RegistrySource`) is read as the pair (package as printed, sub-path).
-/
namespace Slug

/-- **C11_tie_joinSubPath.** The model's `joinSubPath` is the translated `joinSubPath` (sourceaddrs/subpath.go). -/
theorem C11_tie_joinSubPath (a b : Str) :
    Gen.joinSubPath a b = (match joinSubPath a b with | some r => (r, false) | none => ([], true)) :=
  gen_joinSubPath a b

/-- **C11_tie_normalizeSubpath.** The model's `normalizeSubpath` is the translated `normalizeSubpath` (sourceaddrs/subpath.go). -/
theorem C11_tie_normalizeSubpath (g : Str) :
    Gen.normalizeSubpath g = (match normalizeSubpath g with | some r => (r, false) | none => ([], true)) :=
  gen_normalizeSubpath g

/-- **C11_tie_finalSourceAddr.** The model's `finalSourceSub` (the sub-path of a registry address joined onto the
sub-path of the remote address the registry named) is the sub-path of the translated
`RegistrySource.FinalSourceAddr` (sourceaddrs/source_registry.go), whose package is that of the named address. -/
theorem C11_tie_finalSourceAddr (s real : Str × Str) :
    Gen.finalSourceAddr s real = (real.1, finalSourceSub s.2 real.2) :=
  gen_finalSourceAddr s real

/-! ### The property, stated over the translated function -/

/-- **C11_gen_joinSubPath_spec.** The Go function `joinSubPath` (sourceaddrs/subpath.go), as translated: for
every valid base sub-path `sub` and every relative path `rel` (non-empty, not rooted; any depth, any mix of
names, `.` and `..`), the call succeeds exactly when applying the segments of `rel` one by one to the segment
stack of `sub` (`""`/`.` do nothing, a name is pushed, `..` pops) never pops the empty stack — that is, never
climbs above the package root — and then it returns the printed stack; otherwise it returns the error. -/
theorem C11_gen_joinSubPath_spec (sub rel : Str) (ha : ValidSub sub) (hb : RelLike rel) :
    Gen.joinSubPath sub rel =
      (match applyRel (some (segsOf sub).reverse) (splitOn '/' rel) with
       | some st => (printStack st, false)
       | none => ([], true)) := by
  rw [gen_joinSubPath, C11_join_spec sub rel ha hb]
  unfold specJoin
  cases applyRel (some (segsOf sub).reverse) (splitOn '/' rel) <;> rfl

/-- **C11_gen_joinSubPath_spec_iff.** The same, read as an equivalence: the translated `joinSubPath` returns
`r` without error exactly when the segment stack does not underflow and `r` is its printed form. -/
theorem C11_gen_joinSubPath_spec_iff (sub rel r : Str) (ha : ValidSub sub) (hb : RelLike rel) :
    Gen.joinSubPath sub rel = (r, false) ↔
      ∃ st, applyRel (some (segsOf sub).reverse) (splitOn '/' rel) = some st ∧ r = printStack st := by
  rw [C11_gen_joinSubPath_spec sub rel ha hb]
  cases applyRel (some (segsOf sub).reverse) (splitOn '/' rel) with
  | none => simp
  | some st => simp [eq_comm]

/-- **C11_gen_joinSubPath_never_escapes.** Whatever the two arguments, a result the translated Go function
`joinSubPath` returns without error is the empty sub-path (the package root) or a normalised sub-path: it is
accepted by `fs.ValidPath`, is not `.`, and none of its `/`-separated segments is empty, `.` or `..` — so it
cannot denote anything above the package root. -/
theorem C11_gen_joinSubPath_never_escapes (sub rel r : Str) (h : Gen.joinSubPath sub rel = (r, false)) :
    ValidSub r ∧ ∀ e ∈ segsOf r, e ≠ [] ∧ e ≠ dot ∧ e ≠ dotdot := by
  rw [gen_joinSubPath] at h
  have hv : ValidSub r := by
    cases hj : joinSubPath sub rel with
    | none => rw [hj] at h; simp at h
    | some x =>
      rw [hj] at h
      have hx : x = r := by simpa using h
      subst hx
      exact C11_never_escapes sub rel x hj
  exact ⟨hv, validSub_allPlain r hv⟩

end Slug
