import SlugModel.Lemmas.TrEq_joinSubPath
import SlugModel.Lemmas.TrEq_normalizeSubpath
/-!
# C11 (tie by translation)

Tie by translation: the model function the theorems of this property are stated over equals the Lean
translation of the Go function, regenerated from /repo on every run (harness/cmd/go2lean); a change of
the Go function changes the translated definition and this proof obligation no longer checks.

An error result of the Go function is read as `(zero value, true)`, a normal one as `(value, false)`.
-/
namespace Slug

/-- **C11_tie_joinSubPath.** The model's `joinSubPath` is the translated `joinSubPath` (sourceaddrs/subpath.go). -/
theorem C11_tie_joinSubPath (a b : Str) :
    Gen.joinSubPath a b = (match joinSubPath a b with | some r => (r, false) | none => ([], true)) :=
  gen_joinSubPath a b

/-- **C11_tie_normalizeSubpath.** The model's `normalizeSubpath` is the translated `normalizeSubpath` (sourceaddrs/subpath.go). -/
theorem C11_tie_normalizeSubpath (g : Str) :
    Gen.normalizeSubpath g = (match normalizeSubpath g with | some r => (r, false) | none => ([], true)) :=
  gen_normalizeSubpath g

end Slug
