import SlugModel.Lemmas.BuilderLog
/-!
# C12 (builder part) — an error diagnostic is returned and the builder then refuses further use

Property theorems only; helper lemmas live in `Lemmas/BuilderLog`.
`applyOp` is the model of one `Builder.Add*Source` call, `runOps` a sequence of them, `drain` the
model of `resolvePending` (tied to the code by the `builder` lane).  `OpResult.refused` stands for
the panic of the real code on a builder that has already returned an error.
Diagnostic kinds: 0 registry resolution, 1 package installation, 2 relative dependency escaping its
package, 3 forwarded from a dependency finder.
-/
namespace Slug

/-! ## 1. poisoning -/

/-- **C12_builder_poison.** An operation that returns an error diagnostic leaves the builder
poisoned. -/
theorem C12_builder_poison (w : World) (fuel : Nat) (st st' : BState) (op : Op) (ds : List Diag)
    (h : applyOp w fuel st op = (st', .diags ds)) (he : hasErrors ds = true) :
    st'.poisoned = true := by
  unfold applyOp at h
  split at h
  · cases h
  · cases op with
    | addRemote src f =>
      simp only at h
      split at h
      · cases h; simp [hasErrors] at he
      · split at h
        · cases h
        · cases h; exact he
    | addRegistry src allowed f =>
      simp only at h
      split at h
      · cases h
      · cases h; exact he

/-- **C12_builder_refuses.** A poisoned builder refuses every operation and does not change. -/
theorem C12_builder_refuses (w : World) (fuel : Nat) (st : BState) (op : Op)
    (h : st.poisoned = true) : applyOp w fuel st op = (st, .refused) := by
  unfold applyOp
  rw [if_pos h]

/-- poisoning has no other cause: an operation on a usable builder leaves it poisoned only if it
returned an error diagnostic -/
theorem C12_builder_poison_only_by_error (w : World) (fuel : Nat) (st st' : BState) (op : Op)
    (res : OpResult) (h : applyOp w fuel st op = (st', res)) (h0 : st.poisoned = false)
    (hp : st'.poisoned = true) : ∃ ds, res = .diags ds ∧ hasErrors ds = true := by
  unfold applyOp at h
  have hnp : ¬ st.poisoned = true := by simp [h0]
  rw [if_neg hnp] at h
  cases op with
  | addRemote src f =>
    simp only at h
    split at h
    · cases h; rw [h0] at hp; cases hp
    · next st1 hq =>
      have h1 : st1.poisoned = false := by
        split at hq
        · cases hq
        · cases hq; exact h0
      split at h
      · cases h; rw [h1] at hp; cases hp
      · cases h; exact ⟨_, rfl, hp⟩
  | addRegistry src allowed f =>
    simp only at h
    split at h
    · cases h; rw [h0] at hp; cases hp
    · cases h; exact ⟨_, rfl, hp⟩

/-- a poisoned builder stays as it is and refuses everything, whatever is asked of it -/
theorem C12_builder_refuses_all (w : World) (fuel : Nat) (st : BState) (ops : List Op)
    (h : st.poisoned = true) :
    runOps w fuel st ops = (st, ops.map fun _ => .refused) := by
  induction ops with
  | nil => rfl
  | cons op r ih => simp only [runOps, C12_builder_refuses w fuel st op h, ih, List.map_cons]

/-- **C12_builder_poison_runOps.** In a sequence of operations, after the first one whose result
carries an error diagnostic every later result is `refused` and the state no longer changes. -/
theorem C12_builder_poison_runOps (w : World) (fuel : Nat) (st st2 : BState) (pre post : List Op)
    (op : Op) (ds : List Diag)
    (h : applyOp w fuel (runOps w fuel st pre).1 op = (st2, .diags ds))
    (he : hasErrors ds = true) :
    runOps w fuel st (pre ++ op :: post) =
      (st2, (runOps w fuel st pre).2 ++ .diags ds :: post.map fun _ => .refused) := by
  have hp := C12_builder_poison w fuel _ st2 op ds h he
  rw [runOps_append]
  simp only [runOps, h, C12_builder_refuses_all w fuel st2 post hp]

/-! ## 2. errors are reported -/

/-- (registry) the step that pops a registry request whose resolution fails continues with an
error diagnostic of kind 0 appended -/
theorem C12_builder_errors_are_reported_registry (w : World) (fuel : Nat) (st st1 : BState)
    (ds : List Diag) (src : RegSrc) (allowed : List VerS) (f : FinderId)
    (hq : st.pendingRegistry.getLast? = some (src, allowed, f))
    (hf : findRegistrySource w { st with pendingRegistry := st.pendingRegistry.dropLast } src allowed
      = (st1, none)) :
    drain w (fuel + 1) false st ds =
      drain w fuel false st1
        (ds ++ [{ isError := true, kind := 0, summary := [], file := [], rewritten := false,
                  pkg := src.pkg }]) := by
  simp only [drain, hq, hf]

/-- (install) the step that pops a remote artefact whose package cannot be fetched continues with
an error diagnostic of kind 1 appended -/
theorem C12_builder_errors_are_reported_install (w : World) (fuel : Nat) (st st1 : BState)
    (ds : List Diag) (src : RemoteSrc) (f : FinderId)
    (hq : st.pendingRemote.getLast? = some (src, f))
    (hf : ensurePackage w { st with pendingRemote := st.pendingRemote.dropLast } src.pkg
      = (st1, none)) :
    drain w (fuel + 1) true st ds =
      drain w fuel true st1
        (ds ++ [{ isError := true, kind := 1, summary := [], file := [], rewritten := false,
                  pkg := src.pkg }]) := by
  simp only [drain, hq, hf]

/-- (relative, one declaration) an escaping relative dependency queues nothing and appends an error
diagnostic of kind 2 -/
theorem C12_builder_errors_are_reported_relative (base : RemoteSrc) (rel : Str) (f : FinderId)
    (r : List Decl) (st : BState) (ds : List Diag) (h : joinSubPath base.sub rel = none) :
    applyDecls base (.loc rel f :: r) st ds =
      applyDecls base r st
        (ds ++ [{ isError := true, kind := 2, summary := [], file := [], rewritten := false,
                  pkg := base.pkg }]) := by
  simp only [applyDecls, h]

/-- (relative, all declarations) `applyDecls` appends exactly one kind-2 error per escaping relative
dependency, in order, and nothing else -/
theorem C12_builder_errors_are_reported_relative_all (base : RemoteSrc) (decls : List Decl)
    (st : BState) (ds : List Diag) :
    (applyDecls base decls st ds).2 = ds ++ escapeDiags base decls :=
  applyDecls_diags base decls st ds

/-- (finder) the diagnostics of a finder are forwarded one for one, in order: `finderDiags` is the
list of `finderDiagOf` of the `.diag` declarations … -/
theorem C12_builder_errors_are_reported_finder (pkg : PkgAddr) (decls : List Decl) :
    finderDiags pkg decls = decls.filterMap fun d =>
      match d with
      | .diag e s f => some (finderDiagOf pkg e s f)
      | _ => none :=
  finderDiags_eq pkg decls

/-- … where `finderDiagOf` keeps severity and summary, attributes the diagnostic to the package, and
rewrites the file name exactly when it is a valid sub-path -/
theorem C12_finderDiagOf_fields (pkg : PkgAddr) (e : Bool) (s f : Str) :
    (finderDiagOf pkg e s f).isError = e ∧ (finderDiagOf pkg e s f).summary = s ∧
    (finderDiagOf pkg e s f).pkg = pkg ∧ (finderDiagOf pkg e s f).kind = 3 ∧
    (∀ n, normalizeSubpath f = some n →
      (finderDiagOf pkg e s f).file = n ∧ (finderDiagOf pkg e s f).rewritten = true) ∧
    (normalizeSubpath f = none →
      (finderDiagOf pkg e s f).file = f ∧ (finderDiagOf pkg e s f).rewritten = false) := by
  unfold finderDiagOf
  cases h : normalizeSubpath f with
  | none => simp
  | some n => simp

/-- severities and summaries, in order, are those the finder reported -/
theorem C12_finder_severity_summary (pkg : PkgAddr) (decls : List Decl) :
    (finderDiags pkg decls).map (fun d => (d.isError, d.summary)) =
      decls.filterMap fun d =>
        match d with
        | .diag e s _ => some (e, s)
        | _ => none := by
  rw [finderDiags_eq]
  induction decls with
  | nil => rfl
  | cons d r ih =>
    cases d with
    | diag e s f =>
      simp only [List.filterMap_cons, List.map_cons, ih]
      rw [(C12_finderDiagOf_fields pkg e s f).1, (C12_finderDiagOf_fields pkg e s f).2.1]
    | _ => simpa [List.filterMap_cons] using ih

/-- membership form: every finder diagnostic has its wrapped counterpart in the result -/
theorem C12_finder_diag_mem (pkg : PkgAddr) (decls : List Decl) (e : Bool) (s f : Str)
    (h : Decl.diag e s f ∈ decls) : finderDiagOf pkg e s f ∈ finderDiags pkg decls := by
  rw [finderDiags_eq, List.mem_filterMap]
  exact ⟨_, h, rfl⟩

/-- (analysis step) after analysing an artefact the loop continues with the diagnostics so far,
then the escape errors of its declarations, then the finder's diagnostics -/
theorem C12_builder_errors_are_reported_analysis (w : World) (fuel : Nat) (st st1 : BState)
    (ds : List Diag) (src : RemoteSrc) (f : FinderId) (content : ContentId)
    (hq : st.pendingRemote.getLast? = some (src, f))
    (hf : ensurePackage w { st with pendingRemote := st.pendingRemote.dropLast } src.pkg
      = (st1, some content))
    (hn : st1.analyzed.contains (src, f) = false) :
    ∃ st4, drain w (fuel + 1) true st ds =
      drain w fuel true st4
        (ds ++ escapeDiags src ((assoc w.deps (content, src.sub, f)).getD []) ++
          finderDiags src.pkg ((assoc w.deps (content, src.sub, f)).getD [])) := by
  simp only [drain, hq, hf, hn, Bool.false_eq_true, if_false, applyDecls_diags]
  exact ⟨_, rfl⟩

/-- **the loop never drops a diagnostic.** What `drain` returns extends what it was given. -/
theorem C12_builder_diags_kept (w : World) (fuel : Nat) (ph : Bool) (st : BState) (ds : List Diag)
    (st' : BState) (ds' : List Diag) (hd : drain w fuel ph st ds = .done st' ds') :
    ∃ extra, ds' = ds ++ extra :=
  drain_diags_prefix w fuel ph st ds st' ds' hd

/-- hence an error, once appended, is among the diagnostics the loop returns -/
theorem C12_builder_error_kept (w : World) (fuel : Nat) (ph : Bool) (st : BState) (ds : List Diag)
    (st' : BState) (ds' : List Diag) (hd : drain w fuel ph st ds = .done st' ds')
    (he : hasErrors ds = true) : hasErrors ds' = true := by
  obtain ⟨x, rfl⟩ := drain_diags_prefix w fuel ph st ds st' ds' hd
  rw [hasErrors_appendL, he]; rfl

/-- **C12_builder_errors_are_reported.** The one-step facts together: a failed registry
resolution, a failed installation and an escaping relative dependency each append an error
diagnostic (kinds 0, 1, 2); finder diagnostics are forwarded with severity, summary and package,
file name rewritten exactly when it is a valid sub-path; and nothing appended is ever dropped. -/
theorem C12_builder_errors_are_reported (w : World) :
    (∀ fuel st st1 ds src allowed f,
      st.pendingRegistry.getLast? = some (src, allowed, f) →
      findRegistrySource w { st with pendingRegistry := st.pendingRegistry.dropLast } src allowed
        = (st1, none) →
      drain w (fuel + 1) false st ds = drain w fuel false st1
        (ds ++ [{ isError := true, kind := 0, summary := [], file := [], rewritten := false,
                  pkg := src.pkg }])) ∧
    (∀ fuel st st1 ds src f,
      st.pendingRemote.getLast? = some (src, f) →
      ensurePackage w { st with pendingRemote := st.pendingRemote.dropLast } src.pkg = (st1, none) →
      drain w (fuel + 1) true st ds = drain w fuel true st1
        (ds ++ [{ isError := true, kind := 1, summary := [], file := [], rewritten := false,
                  pkg := src.pkg }])) ∧
    (∀ base rel f r st ds, joinSubPath base.sub rel = none →
      applyDecls base (.loc rel f :: r) st ds = applyDecls base r st
        (ds ++ [{ isError := true, kind := 2, summary := [], file := [], rewritten := false,
                  pkg := base.pkg }])) ∧
    (∀ pkg decls e s f, Decl.diag e s f ∈ decls →
      ∃ d ∈ finderDiags pkg decls, d.isError = e ∧ d.summary = s ∧ d.pkg = pkg ∧ d.kind = 3 ∧
        (∀ n, normalizeSubpath f = some n → d.file = n ∧ d.rewritten = true) ∧
        (normalizeSubpath f = none → d.file = f ∧ d.rewritten = false)) ∧
    (∀ fuel ph st ds st' ds', drain w fuel ph st ds = .done st' ds' → ∃ extra, ds' = ds ++ extra) :=
  ⟨fun fuel st st1 ds src allowed f =>
      C12_builder_errors_are_reported_registry w fuel st st1 ds src allowed f,
   fun fuel st st1 ds src f => C12_builder_errors_are_reported_install w fuel st st1 ds src f,
   fun base rel f r st ds => C12_builder_errors_are_reported_relative base rel f r st ds,
   fun pkg decls e s f h =>
      ⟨_, C12_finder_diag_mem pkg decls e s f h, C12_finderDiagOf_fields pkg e s f⟩,
   fun fuel ph st ds st' ds' => C12_builder_diags_kept w fuel ph st ds st' ds'⟩

/-! ## non-vacuity

On `exWorldL` / `exOpsL` (Lemmas/BuilderLog): the first operation succeeds with a forwarded warning,
the second asks for a registry version nobody offers and gets a kind-0 error, the third is
refused. -/

example : (runOps exWorldL 40 BState.init exOpsL).2.map OpResult.isRefused = [false, false, true] := by
  decide
example : (runOps exWorldL 40 BState.init exOpsL).1.poisoned = true := by decide
example : (runOps exWorldL 40 BState.init (exOpsL.take 1)).1.poisoned = false := by decide

example : (runOps exWorldL 40 BState.init exOpsL).2.map OpResult.diagsOf =
    [some [{ isError := false, kind := 3, summary := "careful".toList, file := "main.tf".toList,
             rewritten := true, pkg := exPkgA }],
     some [{ isError := true, kind := 0, summary := [], file := [], rewritten := false,
             pkg := exReg }],
     none] := by
  decide

/-- the hypotheses of `C12_builder_poison_runOps` hold with `pre` = the first operation -/
example :
    ((applyOp exWorldL 40 (runOps exWorldL 40 BState.init (exOpsL.take 1)).1
        (.addRegistry ⟨exReg, []⟩ ["3.0.0".toList] 0)).2.diagsOf.map hasErrors) = some true := by
  decide

/-- an escaping relative dependency: `B//deep` depends on `../..` -/
example :
    (runOps exWorldL 40 BState.init [.addRemote ⟨exPkgB, "deep".toList⟩ 0,
        .addRemote ⟨exPkgA, []⟩ 0]).2.map OpResult.diagsOf =
      [some [escapeDiag ⟨exPkgB, "deep".toList⟩], none] := by
  decide

/-- a package that cannot be fetched: kind 1 -/
example :
    (runOps exWorldL 40 BState.init [.addRemote ⟨"C".toList, []⟩ 0]).2.map OpResult.diagsOf =
      [some [{ isError := true, kind := 1, summary := [], file := [], rewritten := false,
               pkg := "C".toList }]] := by
  decide

/-- a finder diagnostic whose file name is not a valid sub-path is passed through unrewritten -/
example : finderDiags exPkgA [.diag true "bad".toList "../x.tf".toList, .loc "./c".toList 0,
      .diag false "w".toList "a/b.tf".toList] =
    [{ isError := true, kind := 3, summary := "bad".toList, file := "../x.tf".toList,
       rewritten := false, pkg := exPkgA },
     { isError := false, kind := 3, summary := "w".toList, file := "a/b.tf".toList,
       rewritten := true, pkg := exPkgA }] := by decide

end Slug
