import SlugModel.BundleArchive
import SlugModel.Bundle
import SlugModel.Lemmas.ArchiveTrip
/-!
# C09 — the archive half: `ExtractArchive` of `WriteArchive` gives back the bundle directory

Property C09 (excerpt): "Opening a finished bundle directory again, or extracting an archive written
from it into another directory, gives a bundle indistinguishable from the one returned when the
builder was closed: … the same answer to every lookup …, and the same files."  Props/C09 and
Props/C09s are the re-open half (`OpenDir` on the manifest the builder wrote).  This file is the
archive half: `Bundle.WriteArchive` = `Pack` with dereferencing ON, ignore processing off, empty
allow-list; `ExtractArchive` = `Unpack` into the target directory, then `OpenDir` of the target
(BundleArchive.lean).

The dereference flag is the one thing Props/C02 does not cover (`C02Scope.noDeref`).  In `packWalkFn`
(and in `visit`, Pack.lean) the flag is read only after `validSymlink` rejected a link; a finished
bundle has no such link (C10: every link a package directory keeps is relative, lexically local and
resolves to a regular file of the package), so the flag is irrelevant — `pack_deref_irrelevant`,
Lemmas/ArchiveTrip — and the round trip of C02/C15 applies.

`OpenDir` is modelled on the *decoded* manifest (`openDir o root m`, Bundle.lean: JSON decoding is
`encoding/json`'s, trusted); what this file contributes to "the same answer to every lookup" is
that the manifest file the target directory ends up with has the bytes of the bundle's manifest
file, and that `openDir` depends on its root argument only in the `root` field of the result.
-/
namespace Slug

/-! ## the scope -/

/-- the hypotheses on the bundle directory `root` (in the filesystem `fs`, working directory `cwd`) -/
structure C09ArchiveScope (fs : FS) (cwd root : Str) : Prop where
  /-- `root` is an absolute clean path (`OpenDir` makes it so: `filepath.Abs`) … -/
  rootClean : AbsClean root
  /-- … and `/`, …, `root` itself are real directories (no symlinked ancestor: `C02_cex_symlinked_ancestor`) -/
  rootPhysical : ∀ q, q ≠ [] → q <+: pathSegs root → ∃ perm mt, fs.get q = some (.dir perm mt)
  /-- names in the filesystem are plain (no `/`, not empty, not `.` or `..`) -/
  names : PackNamesOK fs
  /-- paths below `root` have fewer components than the fuel of the path-resolution model (64) -/
  depth : ∀ e ∈ fs, pathSegs root <+: e.1 → e.1.length < resolveFuel
  /-- every link of the bundle directory is non-empty, relative, tidy (all `..` first) and climbs fewer
  levels than its own depth below `root` (so it stays inside the bundle) -/
  linksTidy : ∀ r t, srcNode fs (pathSegs root) r = some (.link t) → t ≠ [] ∧ isAbs t = false ∧
    ∃ ups names, pathSegs t = List.replicate ups dotdot ++ names ∧ (∀ s ∈ names, s ≠ dotdot) ∧ ups < r.length
  /-- the fuel of the walk model suffices (`C09ArchiveScope.of_size`: at most 1999 bindings) -/
  fuel : (writeArchive fs cwd root).2 ≠ .diverged

/-- in scope every link is accepted by `validSymlink`, so the scope of C02 with the dereference flag
left open (`ArchiveScope`, Lemmas/ArchiveTrip) holds for the packer of `WriteArchive` -/
theorem C09ArchiveScope.toArchive {fs : FS} {cwd root : Str} (h : C09ArchiveScope fs cwd root) :
    ArchiveScope fs cwd archiveOpts root :=
  ⟨rfl, h.rootClean, h.rootPhysical, h.names, h.depth,
    at_links_of_tidy cwd archiveOpts.allow h.rootClean h.names h.linksTidy, h.fuel⟩

/-- the fuel clause from a size bound: a filesystem with at most 1999 bindings -/
theorem C09ArchiveScope.of_size {fs : FS} {cwd root : Str} (h1 : AbsClean root)
    (h2 : ∀ q, q ≠ [] → q <+: pathSegs root → ∃ perm mt, fs.get q = some (.dir perm mt))
    (h3 : PackNamesOK fs) (h4 : ∀ e ∈ fs, pathSegs root <+: e.1 → e.1.length < resolveFuel)
    (h5 : ∀ r t, srcNode fs (pathSegs root) r = some (.link t) → t ≠ [] ∧ isAbs t = false ∧
      ∃ ups names, pathSegs t = List.replicate ups dotdot ++ names ∧ (∀ s ∈ names, s ≠ dotdot) ∧ ups < r.length)
    (hsize : 2 * fs.length + 2 ≤ packFuel) : C09ArchiveScope fs cwd root :=
  ⟨h1, h2, h3, h4, h5,
    (ArchiveScope.of_size (o := archiveOpts) rfl h1 h2 h3 h4
      (at_links_of_tidy cwd archiveOpts.allow h1 h3 h5) hsize).fuel⟩

/-! ## 1. dereferencing makes no difference on a bundle directory -/

/-- **C09_archive_deref_irrelevant.** In scope, `WriteArchive` — `Pack` with `DereferenceSymlinks()` —
writes exactly what `Pack` without dereferencing writes for the bundle directory: the same entries,
the same `Meta`, the same result.  (Every link is written as a link entry; nothing is replaced by its
target.) -/
theorem C09_archive_deref_irrelevant (fs : FS) (cwd root : Str) (h : C09ArchiveScope fs cwd root) :
    writeArchive fs cwd root = pack fs cwd { archiveOpts with dereference := false } root :=
  h.toArchive.pack_eq

/-! ## 2. the same files -/

/-- **C09_archive_files_partial.** Let `root` be a bundle directory in scope (`C09ArchiveScope`), and
`dst` an absolute clean path other than `/` that is an existing, empty, real directory of a filesystem
`fs'` (possibly another machine's), with `dst`'s depth plus the depth of any node of the bundle below
the resolver's fuel.  Then `WriteArchive` succeeds, `Unpack` of the entries it wrote into `dst`
succeeds (privileged or not, whatever the working directory), and at every non-empty relative path `r`
the target has exactly the bundle directory's node as an archive records it (`srcNode`, Lemmas/RoundTrip):
the same regular files with the same content and permission bits (`&&& 0o777`), the same directories
(empty ones included) with their permission bits, the same links with the same targets, nothing else;
modification times of files and directories rounded to the second.

Partial, relative to "the same files": the scope (in particular tidy links — C10 gives relative,
lexically local links that resolve to a file, which allows `a/../b`, not covered here —, the depth and
size bounds of the model, a destination that exists and is empty), special files (a finished bundle has
none: C10) are absent from the archive, sub-second parts of modification times are lost and links carry
no time, and the target directory's own mode and time (`r = []`) are not covered.  The gzip/tar byte
level is not modelled: the archive is the entry list. -/
theorem C09_archive_files_partial (fs : FS) (cwd root : Str) (h : C09ArchiveScope fs cwd root)
    (cwd' dst : Str) (priv : Bool) (fs' : FS)
    (hdst : DstOK dst) (hreal : RealDir fs' (pathSegs dst))
    (hempty : ∀ q, pathSegs dst <+: q → q ≠ pathSegs dst → fs'.get q = none)
    (hshallow : ∀ r, (srcNode fs (pathSegs root) r).isSome = true →
      (pathSegs dst).length + r.length < resolveFuel) :
    (writeArchive fs cwd root).2 = .ok ∧
    (extractArchive cwd' priv dst fs' (writeArchive fs cwd root).1.entries).2 = .ok ∧
    ∀ r, r ≠ [] →
      ((extractArchive cwd' priv dst fs' (writeArchive fs cwd root).1.entries).1).get (pathSegs dst ++ r) =
        srcNode fs (pathSegs root) r := by
  obtain ⟨hok, hget⟩ := at_roundtrip h.toArchive h.linksTidy cwd' dst priv fs' hdst hreal hempty hshallow
  exact ⟨(at_pack_preorder h.toArchive).1, hok, hget⟩

/-- **C09_archive_files_kinds.** The conclusion of `C09_archive_files_partial` spelled out per kind,
in terms of the bindings of the two filesystems: for a path `r` below the bundle directory all of
whose proper ancestors are real directories (what a walk that does not follow links reaches),
* a regular file `perm, mt, c` at `root/r` gives a regular file with content `c`, mode `perm &&& 0o777`
  and time `roundSec mt` at `dst/r`;
* a directory gives a directory (mode `&&& 0o777`, time rounded);
* a link with target `t` gives a link with target `t`;
and where the bundle directory has nothing reachable at `r`, or a special file, `dst/r` is unbound. -/
theorem C09_archive_files_kinds (fs : FS) (cwd root : Str) (h : C09ArchiveScope fs cwd root)
    (cwd' dst : Str) (priv : Bool) (fs' : FS)
    (hdst : DstOK dst) (hreal : RealDir fs' (pathSegs dst))
    (hempty : ∀ q, pathSegs dst <+: q → q ≠ pathSegs dst → fs'.get q = none)
    (hshallow : ∀ r, (srcNode fs (pathSegs root) r).isSome = true →
      (pathSegs dst).length + r.length < resolveFuel) :
    (∀ r perm mt c, rtRaw fs (pathSegs root) r = some (.file perm mt c) →
      ((extractArchive cwd' priv dst fs' (writeArchive fs cwd root).1.entries).1).get (pathSegs dst ++ r) =
        some (.file (perm &&& 0o777) (roundSec mt) c)) ∧
    (∀ r perm mt, rtRaw fs (pathSegs root) r = some (.dir perm mt) →
      ((extractArchive cwd' priv dst fs' (writeArchive fs cwd root).1.entries).1).get (pathSegs dst ++ r) =
        some (.dir (perm &&& 0o777) (roundSec mt))) ∧
    (∀ r t, rtRaw fs (pathSegs root) r = some (.link t) →
      ((extractArchive cwd' priv dst fs' (writeArchive fs cwd root).1.entries).1).get (pathSegs dst ++ r) =
        some (.link t)) ∧
    (∀ r, r ≠ [] → (rtRaw fs (pathSegs root) r = none ∨ rtRaw fs (pathSegs root) r = some .special) →
      ((extractArchive cwd' priv dst fs' (writeArchive fs cwd root).1.entries).1).get (pathSegs dst ++ r) =
        none) := by
  obtain ⟨_, _, hget⟩ := C09_archive_files_partial fs cwd root h cwd' dst priv fs' hdst hreal hempty hshallow
  refine ⟨?_, ?_, ?_, ?_⟩
  · intro r perm mt c hr
    rw [hget r (rt_raw_some.mp hr).1]; unfold srcNode; rw [hr]; rfl
  · intro r perm mt hr
    rw [hget r (rt_raw_some.mp hr).1]; unfold srcNode; rw [hr]; rfl
  · intro r t hr
    rw [hget r (rt_raw_some.mp hr).1]; unfold srcNode; rw [hr]; rfl
  · intro r hne hr
    rw [hget r hne]; unfold srcNode
    rcases hr with hr | hr <;> rw [hr] <;> rfl

/-! ## 3. the manifest, and what `OpenDir` makes of it -/

/-- the bytes of the regular file bound at the manifest's place directly below the physical directory
`P` (`none` when there is no regular file there) -/
def c09ManifestBytes (fs : FS) (P : PPath) : Option Str :=
  match fs.get (P ++ [manifestFileName]) with
  | some (.file _ _ c) => some c
  | _ => none

/-- `manifestPath root` is the physical location "`terraform-sources.json` directly below `root`" -/
theorem C09_manifestPath_segs (root : Str) (h : AbsClean root) :
    pathSegs (manifestPath root) = pathSegs root ++ [manifestFileName] := by
  have hN := absClean_segs root h
  have hn : NameNS manifestFileName := by unfold NameNS Plain; decide
  unfold manifestPath
  rw [absClean_eq_ofSegs root h, rt_pathJoin_ofSegs _ _ hN hn, ← absClean_eq_ofSegs root h]
  apply pathSegs_ofSegs
  intro x hx
  rcases List.mem_append.mp hx with hx | hx
  · exact hN x hx
  · rw [List.mem_singleton.mp hx]; exact hn

/-- a bundle with its root directory replaced -/
def Bundle.withRoot (b : Bundle) (R : Str) : Bundle := { b with root := R }

theorem C09_openPackages_root (o : BundleOracle) (R : Str) : ∀ (ps : List MPkg) (b : Bundle),
    openPackages o ps (b.withRoot R) = (openPackages o ps b).map (·.withRoot R) := by
  intro ps
  induction ps with
  | nil => intro b; rfl
  | cons p rest ih =>
    intro b
    rw [openPackages, openPackages]
    by_cases hv : (!validLocalDir p.localDir) = true
    · rw [if_pos hv, if_pos hv]; rfl
    · rw [if_neg hv, if_neg hv]
      cases o.parsePkg p.source with
      | none => rfl
      | some key =>
        simp only []
        by_cases hc : p.commit ≠ []
        · rw [if_pos hc, if_pos hc]
          exact ih { root := b.root, pkgDirs := aset b.pkgDirs key p.localDir,
                     pkgMeta := aset b.pkgMeta key (p.commit, p.msg), regSources := b.regSources,
                     regDeprec := b.regDeprec }
        · rw [if_neg hc, if_neg hc]
          exact ih { root := b.root, pkgDirs := aset b.pkgDirs key p.localDir, pkgMeta := b.pkgMeta,
                     regSources := b.regSources, regDeprec := b.regDeprec }

theorem C09_openVersions_root (o : BundleOracle) (R : Str) (reg : Str) : ∀ (vs : List MVer) (b : Bundle),
    openVersions o reg vs (b.withRoot R) = (openVersions o reg vs b).map (·.withRoot R) := by
  intro vs
  induction vs with
  | nil => intro b; rfl
  | cons v rest ih =>
    intro b
    rw [openVersions, openVersions]
    cases o.parseVer v.ver with
    | none => rfl
    | some vk =>
      cases o.parseRemoteSrc v.source with
      | none => rfl
      | some src =>
        exact ih { root := b.root, pkgDirs := b.pkgDirs, pkgMeta := b.pkgMeta,
                   regSources := aset b.regSources (reg, vk) src,
                   regDeprec := aset b.regDeprec (reg, vk)
                     (if v.deprecated then some (v.reason, v.link) else none) }

theorem C09_openRegistry_root (o : BundleOracle) (R : Str) : ∀ (rs : List MReg) (b : Bundle),
    openRegistry o rs (b.withRoot R) = (openRegistry o rs b).map (·.withRoot R) := by
  intro rs
  induction rs with
  | nil => intro b; rfl
  | cons r rest ih =>
    intro b
    rw [openRegistry, openRegistry]
    cases o.parseRegPkg r.source with
    | none => rfl
    | some rk =>
      simp only [C09_openVersions_root]
      cases openVersions o rk r.versions b with
      | none => rfl
      | some b1 => exact ih b1

/-- **C09_openDir_root.** `OpenDir` uses the directory it is given for nothing but the `root` field of
the bundle it returns: opening the same manifest under another root succeeds or fails alike, and the
bundle is the same with the root replaced — the same four tables (package directories, package
metadata, registry sources, deprecations). -/
theorem C09_openDir_root (o : BundleOracle) (root R : Str) (m : Manifest) :
    openDir o R m = (openDir o root m).map (·.withRoot R) := by
  unfold openDir
  by_cases hf : m.format ≠ 1
  · rw [if_pos hf, if_pos hf]; rfl
  · rw [if_neg hf, if_neg hf]
    have h := C09_openPackages_root o R m.packages
      { root := root, pkgDirs := [], pkgMeta := [], regSources := [], regDeprec := [] }
    unfold Bundle.withRoot at h
    simp only at h
    rw [h]
    cases openPackages o m.packages
        { root := root, pkgDirs := [], pkgMeta := [], regSources := [], regDeprec := [] } with
    | none => rfl
    | some b => exact C09_openRegistry_root o R m.registry b

/-- **C09_archive_manifest_same.** Under the hypotheses of `C09_archive_files_partial`:
* the manifest file is one of the files — if `terraform-sources.json` directly below `root` is a
  regular file `perm, mt, c`, then directly below `dst` there is a regular file with the same content
  `c` and permission bits (`perm &&& 0o777`), time `roundSec mt`; the two places are the physical
  locations of `manifestPath root` and `manifestPath dst`;
* hence the bytes at the manifest's place are the same in both directories (also when they are absent);
* hence, for every JSON decoder `decode` (a function of the bytes — `encoding/json`, not modelled) and
  every answer table of the address parsers `o`, `OpenDir` of the target — `openDir o dst` applied to
  the decoded manifest, Bundle.lean — succeeds exactly when `OpenDir` of the bundle directory does, and
  the bundle it returns is that one with `root` replaced by `dst`: the same package directories,
  metadata, registry sources and deprecations.

What is missing relative to the property text: the Bundle model takes the *decoded* manifest as its
argument, so "`OpenDir` reads that file and decodes it" is the trusted step (it is a function of the
file's bytes: `os.ReadFile` + `json.Unmarshal`); and the lookups of the extracted bundle answer with
paths below `dst` instead of below `root` (`localPathForRemote` joins `b.root`), which is what the
property means by the same bundle in another directory.  That the bundle directory's `OpenDir` agrees
with the builder's tables is the re-open half (`C09_reopen_partial`, `C09_reopen_sorted`). -/
theorem C09_archive_manifest_same (fs : FS) (cwd root : Str) (h : C09ArchiveScope fs cwd root)
    (cwd' dst : Str) (priv : Bool) (fs' : FS)
    (hdst : DstOK dst) (hreal : RealDir fs' (pathSegs dst))
    (hempty : ∀ q, pathSegs dst <+: q → q ≠ pathSegs dst → fs'.get q = none)
    (hshallow : ∀ r, (srcNode fs (pathSegs root) r).isSome = true →
      (pathSegs dst).length + r.length < resolveFuel) :
    (∀ perm mt c, fs.get (pathSegs (manifestPath root)) = some (.file perm mt c) →
      ((extractArchive cwd' priv dst fs' (writeArchive fs cwd root).1.entries).1).get
        (pathSegs (manifestPath dst)) = some (.file (perm &&& 0o777) (roundSec mt) c)) ∧
    c09ManifestBytes (extractArchive cwd' priv dst fs' (writeArchive fs cwd root).1.entries).1 (pathSegs dst) =
      c09ManifestBytes fs (pathSegs root) ∧
    ∀ (decode : Str → Option Manifest) (o : BundleOracle),
      ((c09ManifestBytes (extractArchive cwd' priv dst fs' (writeArchive fs cwd root).1.entries).1
          (pathSegs dst)).bind decode).bind (openDir o dst) =
        (((c09ManifestBytes fs (pathSegs root)).bind decode).bind (openDir o root)).map (·.withRoot dst) := by
  obtain ⟨_, _, hget⟩ := C09_archive_files_partial fs cwd root h cwd' dst priv fs' hdst hreal hempty hshallow
  have hraw : rtRaw fs (pathSegs root) [manifestFileName] = fs.get (pathSegs root ++ [manifestFileName]) :=
    rt_raw_child (rel := []) manifestFileName (Or.inl rfl)
  have hm := hget [manifestFileName] (by simp)
  unfold srcNode at hm
  rw [hraw] at hm
  have hbytes : c09ManifestBytes (extractArchive cwd' priv dst fs' (writeArchive fs cwd root).1.entries).1
      (pathSegs dst) = c09ManifestBytes fs (pathSegs root) := by
    unfold c09ManifestBytes
    rw [hm]
    cases fs.get (pathSegs root ++ [manifestFileName]) with
    | none => rfl
    | some n => cases n <;> rfl
  refine ⟨?_, hbytes, ?_⟩
  · intro perm mt c hf
    rw [C09_manifestPath_segs root h.rootClean] at hf
    rw [C09_manifestPath_segs dst hdst.absClean, hm, hf]
    rfl
  · intro decode o
    rw [hbytes]
    cases (c09ManifestBytes fs (pathSegs root)).bind decode with
    | none => rfl
    | some m => exact C09_openDir_root o root dst m

/-! ## non-vacuity -/

/-- the depth condition on the destination from a bound on the bindings below `root` -/
theorem C09_archive_shallow_of_depth {fs : FS} {root dst : Str} (k : Nat)
    (hk : ∀ e ∈ fs, pathSegs root <+: e.1 → e.1.length < k)
    (hd : (pathSegs dst).length + k ≤ (pathSegs root).length + resolveFuel) :
    ∀ r, (srcNode fs (pathSegs root) r).isSome = true → (pathSegs dst).length + r.length < resolveFuel := by
  intro r hr
  obtain ⟨nd, hraw, _⟩ := rt_srcNode_isSome.mp hr
  have := hk _ (rt_get_mem (rt_raw_some.mp hraw).2.2) (List.prefix_append _ _)
  rw [List.length_append] at this
  omega

/-- a bundle directory `/t/b`: the manifest file, and one package directory `p1` with a file, a
sub-directory holding a file, and a relative in-package link to that file -/
def c09aFs : FS := [
  (["t".toList], .dir 0o755 0),
  (["t".toList, "b".toList], .dir 0o755 5000000000),
  (["t".toList, "b".toList, "terraform-sources.json".toList],
    .file 0o644 1500000000 "{}".toList),
  (["t".toList, "b".toList, "p1".toList], .dir 0o755 2400000000),
  (["t".toList, "b".toList, "p1".toList, "main.tf".toList], .file 0o100644 999999999 "module".toList),
  (["t".toList, "b".toList, "p1".toList, "sub".toList], .dir 0o40750 3600000000),
  (["t".toList, "b".toList, "p1".toList, "sub".toList, "v.tf".toList], .file 0o600 0 "x".toList),
  (["t".toList, "b".toList, "p1".toList, "l".toList], .link "sub/v.tf".toList)]

def c09aRoot : Str := "/t/b".toList

/-- the bundle directory is in scope … -/
theorem c09a_scope : C09ArchiveScope c09aFs "/".toList c09aRoot :=
  C09ArchiveScope.of_size (by unfold AbsClean; decide) (rt_phys_of_check (by decide))
    (by unfold PackNamesOK NameNS Plain; decide) (by decide)
    (fun r t hr => rt_tidy_of_check (fs := c09aFs) (P := pathSegs c09aRoot) (by decide) r t
      (rt_srcNode_link.mp hr))
    (by decide)

/-- … and the destination `/t/dst` of the shared closed examples (Lemmas/UnpackInv: `cexFs0`, an empty
real directory) satisfies the hypotheses on the target -/
theorem c09a_dst : DstOK cexDst ∧ RealDir cexFs0 (pathSegs cexDst) ∧
    (∀ q, pathSegs cexDst <+: q → q ≠ pathSegs cexDst → cexFs0.get q = none) ∧
    (∀ r, (srcNode c09aFs (pathSegs c09aRoot) r).isSome = true →
      (pathSegs cexDst).length + r.length < resolveFuel) :=
  ⟨c15r_hyps.1, c15r_hyps.2.1, c15r_hyps.2.2.1,
    C09_archive_shallow_of_depth 6 (by decide) (by decide)⟩

/-- all hypotheses of `C09_archive_files_partial` and `C09_archive_manifest_same` hold for the example:
the theorems instantiated (unprivileged and privileged) -/
example (priv : Bool) :
    (writeArchive c09aFs "/".toList c09aRoot).2 = .ok ∧
    (extractArchive cexCwd priv cexDst cexFs0 (writeArchive c09aFs "/".toList c09aRoot).1.entries).2 = .ok ∧
    ∀ r, r ≠ [] →
      ((extractArchive cexCwd priv cexDst cexFs0 (writeArchive c09aFs "/".toList c09aRoot).1.entries).1).get
        (pathSegs cexDst ++ r) = srcNode c09aFs (pathSegs c09aRoot) r :=
  C09_archive_files_partial _ _ _ c09a_scope cexCwd cexDst priv cexFs0 c09a_dst.1 c09a_dst.2.1 c09a_dst.2.2.1
    c09a_dst.2.2.2

example (priv : Bool) :
    c09ManifestBytes (extractArchive cexCwd priv cexDst cexFs0
      (writeArchive c09aFs "/".toList c09aRoot).1.entries).1 (pathSegs cexDst) =
      c09ManifestBytes c09aFs (pathSegs c09aRoot) :=
  (C09_archive_manifest_same _ _ _ c09a_scope cexCwd cexDst priv cexFs0 c09a_dst.1 c09a_dst.2.1 c09a_dst.2.2.1
    c09a_dst.2.2.2).2.1

/-- what `WriteArchive` writes for it (dereferencing on): name-sorted pre-order; the link `p1/l` is a
link entry, not a copy of `p1/sub/v.tf` -/
example :
    (writeArchive c09aFs "/".toList c09aRoot).1.entries =
      [⟨"p1/".toList, tDir, 0o755, 2, [], []⟩,
       ⟨"p1/l".toList, tSymlink, 0o777, 0, "sub/v.tf".toList, []⟩,
       ⟨"p1/main.tf".toList, tReg, 0o644, 1, [], "module".toList⟩,
       ⟨"p1/sub/".toList, tDir, 0o750, 4, [], []⟩,
       ⟨"p1/sub/v.tf".toList, tReg, 0o600, 0, [], "x".toList⟩,
       ⟨"terraform-sources.json".toList, tReg, 0o644, 2, [],
         "{}".toList⟩] := by decide +kernel

/-- and, independently of the theorems, the model run itself: the manifest and the link after
extraction (unprivileged) -/
example :
    ((extractArchive cexCwd false cexDst cexFs0 (writeArchive c09aFs "/".toList c09aRoot).1.entries).1).get
      (pathSegs (manifestPath cexDst)) =
      some (.file 0o644 2 "{}".toList) ∧
    ((extractArchive cexCwd false cexDst cexFs0 (writeArchive c09aFs "/".toList c09aRoot).1.entries).1).get
      (pathSegs cexDst ++ ["p1".toList, "l".toList]) = some (.link "sub/v.tf".toList) := by decide +kernel

/-! ## outside the scope: a link that leaves the bundle directory -/

/-- `/t/b/p1/l -> /t/out/f`, an absolute link out of the bundle directory (the builder never leaves
one: C10) -/
def c09aFsOut : FS := [
  (["t".toList], .dir 0o755 0),
  (["t".toList, "out".toList], .dir 0o755 0),
  (["t".toList, "out".toList, "f".toList], .file 0o600 0 "secret".toList),
  (["t".toList, "b".toList], .dir 0o755 0),
  (["t".toList, "b".toList, "p1".toList], .dir 0o755 0),
  (["t".toList, "b".toList, "p1".toList, "l".toList], .link "/t/out/f".toList)]

/-- **C09_archive_cex_rejected_link.** Why the link clause is there: for a link `validSymlink` rejects
the dereference flag does matter.  Without it `Pack` refuses the directory (illegal slug); with it —
`WriteArchive` — the archive holds a regular file `p1/l` with the target's content and mode, so the
extracted directory has a file where the bundle directory has a link: not "the same files". -/
theorem C09_archive_cex_rejected_link :
    (pack c09aFsOut "/".toList { archiveOpts with dereference := false } c09aRoot).2 = .illegal ∧
    (writeArchive c09aFsOut "/".toList c09aRoot).2 = .ok ∧
    (writeArchive c09aFsOut "/".toList c09aRoot).1.entries =
      [⟨"p1/".toList, tDir, 0o755, 0, [], []⟩, ⟨"p1/l".toList, tReg, 0o600, 0, [], "secret".toList⟩] ∧
    srcNode c09aFsOut (pathSegs c09aRoot) ["p1".toList, "l".toList] = some (.link "/t/out/f".toList) := by
  decide +kernel

/-! ## the lookups of the extracted bundle: the same answers, below `dst` -/

/-- `LocalPathForRemoteSource` computed with the bundle directory `R` instead of the bundle's own root: the
directory name recorded for the package, joined below `R` with the sub-path -/
def localPathForRemoteAt (R : Str) (b : Bundle) (pkg sub : Str) : Option Str :=
  (aget b.pkgDirs pkg).map fun dir => pathJoin3 R dir sub

/-- `LocalPathForRegistrySource` computed with the bundle directory `R` -/
def localPathForRegistryAt (R : Str) (b : Bundle) (reg ver regSub : Str) : Option Str :=
  (aget b.regSources (reg, ver)).bind fun ps => localPathForRemoteAt R b ps.1 (finalSourceSub regSub ps.2)

/-- the forward lookup uses the bundle's root for nothing but the first argument of the final join -/
theorem C09_localPathForRemote_at (b : Bundle) (pkg sub : Str) :
    localPathForRemote b pkg sub = localPathForRemoteAt b.root b pkg sub := by
  unfold localPathForRemote localPathForRemoteAt
  cases aget b.pkgDirs pkg <;> rfl

theorem C09_localPathForRegistry_at (b : Bundle) (reg ver regSub : Str) :
    localPathForRegistry b reg ver regSub = localPathForRegistryAt b.root b reg ver regSub := by
  unfold localPathForRegistry localPathForRegistryAt
  cases aget b.regSources (reg, ver) with
  | none => rfl
  | some ps => exact C09_localPathForRemote_at b ps.1 _

/-- the lookups of `b.withRoot R` are the lookups of `b` computed with root `R` -/
theorem C09_localPathForRemote_withRoot (b : Bundle) (R pkg sub : Str) :
    localPathForRemote (b.withRoot R) pkg sub = localPathForRemoteAt R b pkg sub :=
  C09_localPathForRemote_at (b.withRoot R) pkg sub

theorem C09_localPathForRegistry_withRoot (b : Bundle) (R reg ver regSub : Str) :
    localPathForRegistry (b.withRoot R) reg ver regSub = localPathForRegistryAt R b reg ver regSub :=
  C09_localPathForRegistry_at (b.withRoot R) reg ver regSub

/-- the reverse lookups of `b.withRoot R` at a path `p'` that lies relative to `R` where `p` lies relative to
the root of `b` are those of `b` at `p` -/
theorem C09_reverse_withRoot (b : Bundle) (R p p' : Str) (h : pathRel R p' = pathRel b.root p) :
    splitLocalPath (b.withRoot R) p' = splitLocalPath b p ∧
    sourceForLocalPath (b.withRoot R) p' = sourceForLocalPath b p := by
  have h1 : splitLocalPath (b.withRoot R) p' = splitLocalPath b p := by
    unfold splitLocalPath Bundle.withRoot
    simp only [h]
  refine ⟨h1, ?_⟩
  unfold sourceForLocalPath
  rw [h1]
  rfl

/-- the bundle `OpenDir` returns has the directory it was given as its root -/
theorem C09_openDir_root_eq {o : BundleOracle} {root : Str} {m : Manifest} {b : Bundle}
    (h : openDir o root m = some b) : b.root = root := by
  have e := C09_openDir_root o root root m
  rw [h] at e
  have e' : b = b.withRoot root := by simpa using e
  rw [e']; rfl

/-- **C09_archive_lookups_rebased.** Under the hypotheses of `C09_archive_files_partial`, for every JSON
decoder and every answer table of the address parsers: when `OpenDir` of the bundle directory `root` gives the
bundle `b`, then `OpenDir` of the directory `dst` the archive was extracted into gives a bundle `b'` — namely `b`
with its root replaced by `dst` — and every forward lookup of `b'` answers as the same lookup of `b` does, with
`dst` in the place of `root`:

* `LocalPathForRemoteSource(pkg, sub)` fails on both, or there is one recorded directory name `dir` with the
  answers `root/dir/sub` on `b` and `dst/dir/sub` on `b'` (`pathJoin3`);
* `LocalPathForRegistrySource(reg, ver, regSub)` fails on both, or there are one recorded directory name `dir`
  and one sub-path `sub` (the registry's joined with the caller's) with the answers `root/dir/sub` and
  `dst/dir/sub`;
* in function form: the lookups of `b` are `localPathFor…At root b`, those of `b'` are `localPathFor…At dst b`. -/
theorem C09_archive_lookups_rebased (fs : FS) (cwd root : Str) (h : C09ArchiveScope fs cwd root)
    (cwd' dst : Str) (priv : Bool) (fs' : FS)
    (hdst : DstOK dst) (hreal : RealDir fs' (pathSegs dst))
    (hempty : ∀ q, pathSegs dst <+: q → q ≠ pathSegs dst → fs'.get q = none)
    (hshallow : ∀ r, (srcNode fs (pathSegs root) r).isSome = true →
      (pathSegs dst).length + r.length < resolveFuel)
    (decode : Str → Option Manifest) (o : BundleOracle) (b : Bundle)
    (hb : ((c09ManifestBytes fs (pathSegs root)).bind decode).bind (openDir o root) = some b) :
    ∃ b', ((c09ManifestBytes (extractArchive cwd' priv dst fs' (writeArchive fs cwd root).1.entries).1
        (pathSegs dst)).bind decode).bind (openDir o dst) = some b' ∧
      b' = b.withRoot dst ∧ b.root = root ∧
      (∀ pkg sub,
        localPathForRemote b pkg sub = localPathForRemoteAt root b pkg sub ∧
        localPathForRemote b' pkg sub = localPathForRemoteAt dst b pkg sub) ∧
      (∀ reg ver regSub,
        localPathForRegistry b reg ver regSub = localPathForRegistryAt root b reg ver regSub ∧
        localPathForRegistry b' reg ver regSub = localPathForRegistryAt dst b reg ver regSub) ∧
      (∀ pkg sub,
        (localPathForRemote b pkg sub = none ∧ localPathForRemote b' pkg sub = none) ∨
        ∃ dir, localPathForRemote b pkg sub = some (pathJoin3 root dir sub) ∧
          localPathForRemote b' pkg sub = some (pathJoin3 dst dir sub)) ∧
      (∀ reg ver regSub,
        (localPathForRegistry b reg ver regSub = none ∧ localPathForRegistry b' reg ver regSub = none) ∨
        ∃ dir sub, localPathForRegistry b reg ver regSub = some (pathJoin3 root dir sub) ∧
          localPathForRegistry b' reg ver regSub = some (pathJoin3 dst dir sub)) := by
  obtain ⟨_, _, hopen⟩ :=
    C09_archive_manifest_same fs cwd root h cwd' dst priv fs' hdst hreal hempty hshallow
  have hroot : b.root = root := by
    cases hm : (c09ManifestBytes fs (pathSegs root)).bind decode with
    | none => rw [hm] at hb; cases hb
    | some m => rw [hm] at hb; exact C09_openDir_root_eq hb
  have hR : ∀ pkg sub, localPathForRemote b pkg sub = localPathForRemoteAt root b pkg sub := by
    intro pkg sub; rw [C09_localPathForRemote_at, hroot]
  have hG : ∀ reg ver regSub,
      localPathForRegistry b reg ver regSub = localPathForRegistryAt root b reg ver regSub := by
    intro reg ver regSub; rw [C09_localPathForRegistry_at, hroot]
  refine ⟨b.withRoot dst, ?_, rfl, hroot, ?_, ?_, ?_, ?_⟩
  · rw [hopen decode o, hb]; rfl
  · exact fun pkg sub => ⟨hR pkg sub, C09_localPathForRemote_withRoot b dst pkg sub⟩
  · exact fun reg ver regSub => ⟨hG reg ver regSub, C09_localPathForRegistry_withRoot b dst reg ver regSub⟩
  · intro pkg sub
    rw [hR, C09_localPathForRemote_withRoot]
    unfold localPathForRemoteAt
    cases aget b.pkgDirs pkg with
    | none => exact Or.inl ⟨rfl, rfl⟩
    | some dir => exact Or.inr ⟨dir, rfl, rfl⟩
  · intro reg ver regSub
    rw [hG, C09_localPathForRegistry_withRoot]
    unfold localPathForRegistryAt localPathForRemoteAt
    cases aget b.regSources (reg, ver) with
    | none => exact Or.inl ⟨rfl, rfl⟩
    | some ps =>
      cases hd : aget b.pkgDirs ps.1 with
      | none => left; simp [hd]
      | some dir => right; exact ⟨dir, finalSourceSub regSub ps.2, by simp [hd], by simp [hd]⟩

end Slug
