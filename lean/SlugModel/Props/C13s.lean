import SlugModel.Lemmas.BuilderSched
/-!
# C13 (schedules) — the bundle does not depend on how concurrent `Add*` calls interleave

`Lemmas/BuilderSched` models several goroutines calling `Add*` on one builder: the mutex makes
the locked append (`enq i`) and the whole of `resolvePending` (`drn i`) of each call atomic, so an
execution is a `ValidSched`: an interleaving of these actions in which every call enqueues before
it drains.  (That the source takes the lock where the model says is `C13_lock_discipline`.)
A drain processes whatever any call has enqueued so far; the diagnostics go to the call whose
drain did the work.

Tables are compared as finite maps (`assoc`) and the analysed artefacts as a set, exactly as in
`C13_order`; the lists and the log do depend on the schedule (last examples).
-/
namespace Slug

/-- **C13_sequential_is_schedule.** The sequential run is the run of the schedule
`[enq 0, drn 0, enq 1, drn 1, …]`: same final state, same results. -/
theorem C13_sequential_is_schedule (w : World) (fuel : Nat) (ops : List Op) :
    runSched w fuel ops (seqSched ops.length) = runOps w fuel BState.init ops := by
  have h := runSchedFrom_seq w fuel ops ops [] ⟨BState.init, []⟩ rfl
  simp only [List.length_nil] at h
  unfold runSched seqSched
  exact Prod.ext h.1 h.2

/-- the sequential schedule is a valid schedule -/
theorem C13_sequential_valid (n : Nat) : ValidSched n (seqSched n) := by
  refine ⟨List.Perm.refl _, fun i hi => ?_⟩
  have key : ∀ (m k : Nat), k ≤ i → i < k + m →
      (seqSchedFrom k m).idxOf (Act.enq i) < (seqSchedFrom k m).idxOf (Act.drn i) := by
    intro m
    induction m with
    | zero => intro k h1 h2; omega
    | succ m ih =>
      intro k h1 h2
      by_cases hik : k = i
      · subst hik
        simp [seqSchedFrom, List.idxOf_cons, cond_eq_ite]
      · have := ih (k + 1) (by omega) (by omega)
        simp only [seqSchedFrom, List.idxOf_cons, cond_eq_ite, beq_iff_eq, Act.enq.injEq,
          Act.drn.injEq, hik, reduceCtorEq, if_false]
        omega
  exact key n 0 (Nat.zero_le _) (by omega)

/-- **C13_interleave_closure.** After any valid schedule whose calls all came back without errors
the builder is in the state C08 describes: it has analysed exactly the reachable artefacts, both
queues are empty, and every table is the order-free function of the reachable graph. -/
theorem C13_interleave_closure (w : World) (fuel : Nat) (ops : List Op) (s : List Act)
    (hv : ValidSched ops.length s) (h : ErrorFree (runSched w fuel ops s).2) :
    (∀ a, a ∈ (runSched w fuel ops s).1.analyzed ↔ Reach w ops a) ∧
    (runSched w fuel ops s).1.pendingRemote = [] ∧
    (runSched w fuel ops s).1.pendingRegistry = [] ∧
    (∀ p c, assoc (runSched w fuel ops s).1.pkgDirs p = some c ↔
      (∃ a, Reach w ops a ∧ a.1.pkg = p) ∧ fetchContent w p = some c) ∧
    (∀ p m, assoc (runSched w fuel ops s).1.pkgMeta p = some m ↔
      (∃ a, Reach w ops a ∧ a.1.pkg = p) ∧ fetchMeta w p = some m) ∧
    (∀ k real, assoc (runSched w fuel ops s).1.resolved k = some real ↔
      (∃ rs al f, ReqMet w ops (rs, al, f) ∧ regKey w rs al = some k) ∧
      regSource w k = some real) ∧
    (∀ k d, assoc (runSched w fuel ops s).1.deprec k = some d ↔
      ∃ rs al f, ReqMet w ops (rs, al, f) ∧ regKey w rs al = some k ∧ regDeprec w rs al = d) := by
  have g := runSched_good hv h
  exact ⟨g.analyzed_iff, g.rem, g.reg, g.dirs_iff, g.meta_iff, g.resolved_iff, g.deprec_iff⟩

/-- **C13_interleave.** For every valid schedule of the calls: if every call of the schedule came
back without errors, and so did every call of the sequential run, then the two builders have
analysed the same artefacts and hold the same package directories, package metadata, resolved
registry sources and deprecation notices.  (No assumption on the fuel: a call that ran out of
fuel is not error-free.) -/
theorem C13_interleave (w : World) (fuel fuel' : Nat) (ops : List Op) (s : List Act)
    (hv : ValidSched ops.length s)
    (h : ErrorFree (runSched w fuel ops s).2)
    (h' : ErrorFree (runOps w fuel' BState.init ops).2) :
    (∀ a, a ∈ (runSched w fuel ops s).1.analyzed ↔
          a ∈ (runOps w fuel' BState.init ops).1.analyzed) ∧
    (∀ p, assoc (runSched w fuel ops s).1.pkgDirs p =
          assoc (runOps w fuel' BState.init ops).1.pkgDirs p) ∧
    (∀ p, assoc (runSched w fuel ops s).1.pkgMeta p =
          assoc (runOps w fuel' BState.init ops).1.pkgMeta p) ∧
    (∀ k, assoc (runSched w fuel ops s).1.resolved k =
          assoc (runOps w fuel' BState.init ops).1.resolved k) ∧
    (∀ k, assoc (runSched w fuel ops s).1.deprec k =
          assoc (runOps w fuel' BState.init ops).1.deprec k) := by
  have g := runSched_good hv h
  have g' := runOps_final h'
  refine ⟨fun a => ?_, fun p => opt_ext fun c => ?_, fun p => opt_ext fun m => ?_,
    fun k => opt_ext fun real => ?_, fun k => opt_ext fun d => ?_⟩
  · rw [g.analyzed_iff, g'.analyzed_iff]
  · rw [g.dirs_iff, g'.dirs_iff]
  · rw [g.meta_iff, g'.meta_iff]
  · rw [g.resolved_iff, g'.resolved_iff]
  · rw [g.deprec_iff, g'.deprec_iff]

/-- **C13_interleave_any.** …and hence any two valid schedules of the same calls (both error-free)
agree with each other. -/
theorem C13_interleave_any (w : World) (fuel fuel' : Nat) (ops : List Op) (s s' : List Act)
    (hv : ValidSched ops.length s) (hv' : ValidSched ops.length s')
    (h : ErrorFree (runSched w fuel ops s).2) (h' : ErrorFree (runSched w fuel' ops s').2) :
    (∀ a, a ∈ (runSched w fuel ops s).1.analyzed ↔ a ∈ (runSched w fuel' ops s').1.analyzed) ∧
    (∀ p, assoc (runSched w fuel ops s).1.pkgDirs p = assoc (runSched w fuel' ops s').1.pkgDirs p) ∧
    (∀ p, assoc (runSched w fuel ops s).1.pkgMeta p = assoc (runSched w fuel' ops s').1.pkgMeta p) ∧
    (∀ k, assoc (runSched w fuel ops s).1.resolved k =
          assoc (runSched w fuel' ops s').1.resolved k) ∧
    (∀ k, assoc (runSched w fuel ops s).1.deprec k = assoc (runSched w fuel' ops s').1.deprec k) := by
  have g := runSched_good hv h
  have g' := runSched_good hv' h'
  refine ⟨fun a => ?_, fun p => opt_ext fun c => ?_, fun p => opt_ext fun m => ?_,
    fun k => opt_ext fun real => ?_, fun k => opt_ext fun d => ?_⟩
  · rw [g.analyzed_iff, g'.analyzed_iff]
  · rw [g.dirs_iff, g'.dirs_iff]
  · rw [g.meta_iff, g'.meta_iff]
  · rw [g.resolved_iff, g'.resolved_iff]
  · rw [g.deprec_iff, g'.deprec_iff]

/-- **C13_interleave_clean_errorfree.** If nothing on the reachable graph fails (`Clean`) then
every call of every valid schedule comes back without errors.  The fuel is the bound of C14 plus
three units per call (`schedFuelBound`): one drain may find the work of all calls queued. -/
theorem C13_interleave_clean_errorfree (w : World) (fuel : Nat) (ops : List Op) (s : List Act)
    (hv : ValidSched ops.length s) (hc : Clean w ops)
    (hf : schedFuelBound w ops.length ≤ fuel) :
    ErrorFree (runSched w fuel ops s).2 :=
  runSched_clean hc hf hv

/-- **C13_interleave_clean.** So on a clean world the bundle is the same for every valid schedule
of the calls: the same as that of the sequential run. -/
theorem C13_interleave_clean (w : World) (fuel : Nat) (ops : List Op) (s : List Act)
    (hv : ValidSched ops.length s) (hc : Clean w ops)
    (hf : schedFuelBound w ops.length ≤ fuel) :
    ErrorFree (runSched w fuel ops s).2 ∧
    ErrorFree (runOps w fuel BState.init ops).2 ∧
    (∀ a, a ∈ (runSched w fuel ops s).1.analyzed ↔
          a ∈ (runOps w fuel BState.init ops).1.analyzed) ∧
    (∀ p, assoc (runSched w fuel ops s).1.pkgDirs p =
          assoc (runOps w fuel BState.init ops).1.pkgDirs p) ∧
    (∀ p, assoc (runSched w fuel ops s).1.pkgMeta p =
          assoc (runOps w fuel BState.init ops).1.pkgMeta p) ∧
    (∀ k, assoc (runSched w fuel ops s).1.resolved k =
          assoc (runOps w fuel BState.init ops).1.resolved k) ∧
    (∀ k, assoc (runSched w fuel ops s).1.deprec k =
          assoc (runOps w fuel BState.init ops).1.deprec k) := by
  have h := C13_interleave_clean_errorfree w fuel ops s hv hc hf
  have h' : ErrorFree (runOps w fuel BState.init ops).2 :=
    runOps_clean hc (by unfold schedFuelBound at hf; omega) ops BState.init (ready_init w ops)
      (fun _ h => h)
  exact ⟨h, h', C13_interleave w fuel fuel ops s hv h h'⟩

/-- **C13_interleave_sound.** In the state after any schedule whatsoever (valid or not, with
errors, refused calls or too little fuel) every analysed artefact is reachable from the calls. -/
theorem C13_interleave_sound (w : World) (fuel : Nat) (ops : List Op) (s : List Act) (a : Art)
    (ha : a ∈ (runSched w fuel ops s).1.analyzed) : Reach w ops a :=
  (runSchedFrom_sinv (w := w) (fuel := fuel) (ops := ops) s ⟨BState.init, []⟩
    (SInv.init w ops)).an a ha

/-- **C13_interleave_results.** A valid schedule reports exactly one result per call (so
"error-free" is a statement about every call). -/
theorem C13_interleave_results (w : World) (fuel : Nat) (ops : List Op) (s : List Act)
    (hv : ValidSched ops.length s) : (runSched w fuel ops s).2.length = ops.length :=
  runSched_results_length hv

/-! ### the fuel of `C13_interleave_clean` cannot be the single-call bound of C14

Five calls on a world without dependency rows (`fuelBound = 6`), all enqueued before the first
drain: that drain needs seven units.  Fuel is an artefact of the model (the real loop has none);
the point is only that the bound must grow with the number of calls a drain may find queued. -/

def scWorld : World :=
  { fetch := [("a".toList, some ("ca".toList, none))], versions := [], sources := [], deps := [] }

def scOps : List Op :=
  [.addRemote ⟨"a".toList, "1".toList⟩ 0, .addRemote ⟨"a".toList, "2".toList⟩ 0,
   .addRemote ⟨"a".toList, "3".toList⟩ 0, .addRemote ⟨"a".toList, "4".toList⟩ 0,
   .addRemote ⟨"a".toList, "5".toList⟩ 0]

/-- all enqueues first, then the drains -/
def scBatch : List Act :=
  [.enq 0, .enq 1, .enq 2, .enq 3, .enq 4, .drn 0, .drn 1, .drn 2, .drn 3, .drn 4]

theorem scWorld_clean : Clean scWorld scOps := by
  have hd : ∀ a, declsOf scWorld a = [] := by
    intro a; unfold declsOf; split <;> rfl
  have hr : ∀ a, Reach scWorld scOps a → a.1.pkg = "a".toList := by
    intro a ha
    induction ha with
    | start op a hm hs =>
      cases hs with
      | remote s f =>
        simp only [scOps, List.mem_cons, List.not_mem_nil, or_false] at hm
        rcases hm with hm | hm | hm | hm | hm <;> cases hm <;> rfl
      | registry rs al f r hres =>
        simp [scOps] at hm
    | step a b _ hy _ =>
      cases hy with
      | remote s g h => rw [hd] at h; cases h
      | loc rel g sub' h _ => rw [hd] at h; cases h
      | registry rs al g r h _ => rw [hd] at h; cases h
  refine ⟨fun a ha => ?_, fun rs al f hq => ?_, fun a rel g _ h => ?_, fun a su fi _ h => ?_⟩
  · rw [hr a ha]; decide
  · cases hq with
    | op _ _ _ hm => simp [scOps] at hm
    | decl a _ _ _ _ h => rw [hd] at h; cases h
  · rw [hd] at h; cases h
  · rw [hd] at h; cases h

/-- **C13_interleave_clean_fuel_cex.** With `fuelBound w ≤ fuel` alone (the hypothesis of
`C13_clean_same`) the conclusion of `C13_interleave_clean_errorfree` fails. -/
theorem C13_interleave_clean_fuel_cex :
    ¬ ∀ (w : World) (fuel : Nat) (ops : List Op) (s : List Act), ValidSched ops.length s →
        Clean w ops → fuelBound w ≤ fuel → ErrorFree (runSched w fuel ops s).2 := by
  intro h
  have := h scWorld 6 scOps scBatch (by decide) scWorld_clean (by decide)
  revert this
  decide

example : (runSched scWorld 6 scOps scBatch).2.map OpResult.finished =
    [false, false, false, false, false] := by decide
example : schedFuelBound scWorld scOps.length = 21 := by decide
example : ErrorFree (runSched scWorld 21 scOps scBatch).2 := by decide
example : ErrorFree (runSched scWorld 7 scOps scBatch).2 := by decide
example : ErrorFree (runOps scWorld 6 BState.init scOps).2 := by decide

/-! ### non-vacuity: a schedule of the example calls that is not sequential -/

/-- call 1 (the registry request) drains what call 0 enqueued as well; call 0's own drain finds
nothing to do, and call 2 (the same artefact as call 0) returns early -/
def exSched : List Act := [.enq 0, .enq 1, .drn 1, .enq 2, .drn 0, .drn 2]

/-- all three calls enqueue before anyone drains -/
def exBatch : List Act := [.enq 0, .enq 1, .enq 2, .drn 2, .drn 0, .drn 1]

example : ValidSched exOps.length exSched := by decide
example : ValidSched exOps.length exBatch := by decide
example : ValidSched exOps.length (seqSched exOps.length) := by decide
/-- a drain before its enqueue, a call that never drains, a call twice: not valid -/
example : ¬ ValidSched exOps.length [.enq 0, .drn 1, .enq 1, .enq 2, .drn 0, .drn 2] := by decide
example : ¬ ValidSched exOps.length [.enq 0, .enq 1, .enq 2, .drn 1, .drn 0] := by decide
example : ¬ ValidSched exOps.length [.enq 0, .enq 1, .enq 2, .drn 1, .drn 0, .drn 2, .drn 2] := by
  decide

example : ErrorFree (runSched exWorld 56 exOps exSched).2 := by decide
example : ErrorFree (runSched exWorld 56 exOps exBatch).2 := by decide

/-- so `C13_interleave` applies to the example -/
example : ∀ p, assoc (runSched exWorld 56 exOps exSched).1.pkgDirs p =
    assoc (runOps exWorld 56 BState.init exOps).1.pkgDirs p :=
  (C13_interleave exWorld 56 56 exOps exSched (by decide) (by decide) (by decide)).2.1

/-- the tables of the three runs hold the same entries … -/
example : (runSched exWorld 56 exOps exSched).1.pkgDirs =
    [("b".toList, "cb".toList), ("a".toList, "ca".toList), ("r".toList, "cr".toList)] := by decide
example : (runOps exWorld 56 BState.init exOps).1.pkgDirs =
    [("r".toList, "cr".toList), ("b".toList, "cb".toList), ("a".toList, "ca".toList)] := by decide
example : (runSched exWorld 56 exOps exSched).1.pkgDirs.Perm
    (runOps exWorld 56 BState.init exOps).1.pkgDirs := by decide
example : (runSched exWorld 56 exOps exSched).1.analyzed.Perm
    (runOps exWorld 56 BState.init exOps).1.analyzed := by decide
example : (runSched exWorld 56 exOps exBatch).1.analyzed.Perm
    (runOps exWorld 56 BState.init exOps).1.analyzed := by decide
example : (runSched exWorld 56 exOps exSched).1.pkgMeta =
    (runOps exWorld 56 BState.init exOps).1.pkgMeta := by decide
example : (runSched exWorld 56 exOps exSched).1.resolved =
    (runOps exWorld 56 BState.init exOps).1.resolved := by decide
example : (runSched exWorld 56 exOps exSched).1.deprec =
    (runOps exWorld 56 BState.init exOps).1.deprec := by decide
/-- … but the raw lists and the log depend on the schedule: the theorem is about sets and maps -/
example : (runSched exWorld 56 exOps exSched).1.analyzed ≠
    (runOps exWorld 56 BState.init exOps).1.analyzed := by decide
example : (runSched exWorld 56 exOps exSched).1.pkgDirs ≠
    (runOps exWorld 56 BState.init exOps).1.pkgDirs := by decide
example : (runSched exWorld 56 exOps exSched).1.log ≠
    (runOps exWorld 56 BState.init exOps).1.log := by decide
example : (runSched exWorld 56 exOps exBatch).1.analyzed ≠
    (runOps exWorld 56 BState.init exOps).1.analyzed := by decide

/-! ### `C13_interleave_clean` is not vacuous: the example world is `Clean` -/

/-- executable check that nothing a finder reports for `a` fails -/
def scDeclOk (w : World) (a : Art) : Decl → Bool
  | .registry rs al _ => (resolveReg w rs al).isSome
  | .loc rel _ => (joinSubPath a.1.sub rel).isSome
  | .diag e _ _ => !e
  | .remote _ _ => true

/-- by `C13_interleave_closure` the reachable artefacts are the six analysed by the schedule, and
nothing fails on those -/
theorem scExWorld_clean : Clean exWorld exOps := by
  have hef : ErrorFree (runSched exWorld 56 exOps exSched).2 := by decide
  have hall : ∀ a, Reach exWorld exOps a → a ∈ (runSched exWorld 56 exOps exSched).1.analyzed :=
    fun a ha => ((C13_interleave_closure exWorld 56 exOps exSched (by decide) hef).1 a).mpr ha
  have hdecls : ∀ a ∈ (runSched exWorld 56 exOps exSched).1.analyzed,
      (fetchContent exWorld a.1.pkg).isSome = true ∧
      ∀ d ∈ declsOf exWorld a, scDeclOk exWorld a d = true := by decide
  refine ⟨fun a ha e => ?_, ?_, ?_, ?_⟩
  · have := (hdecls a (hall a ha)).1
    rw [e] at this; cases this
  · intro rs al f hr e
    cases hr with
    | op _ _ _ hm =>
      simp only [exOps, List.mem_cons, List.not_mem_nil, or_false] at hm
      rcases hm with hm | hm | hm
      · cases hm
      · cases hm; revert e; decide
      · cases hm
    | decl a _ _ _ ha hd =>
      have := (hdecls a (hall a ha)).2 _ hd
      simp only [scDeclOk] at this
      rw [e] at this; cases this
  · intro a rel g ha hd e
    have := (hdecls a (hall a ha)).2 _ hd
    simp only [scDeclOk] at this
    rw [e] at this; cases this
  · intro a s file ha hd
    have := (hdecls a (hall a ha)).2 _ hd
    simp [scDeclOk] at this

example : schedFuelBound exWorld exOps.length = 65 := by decide

example : ErrorFree (runSched exWorld 65 exOps exBatch).2 ∧
    ∀ k, assoc (runSched exWorld 65 exOps exBatch).1.deprec k =
         assoc (runOps exWorld 65 BState.init exOps).1.deprec k :=
  have h := C13_interleave_clean exWorld 65 exOps exBatch (by decide) scExWorld_clean (by decide)
  ⟨h.1, h.2.2.2.2.2.2⟩

end Slug
