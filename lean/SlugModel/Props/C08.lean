import SlugModel.Lemmas.BuilderClosure
/-!
# C08 — A finished bundle contains everything that was added or discovered

Property theorems only; the invariants (`SInv`: everything queued or analysed is reachable and
every memo table agrees with the world; `CInv`: nothing asked for is forgotten) and their
preservation by every loop step live in `Lemmas/BuilderClosure`.
`runOps`, `applyOp`, `drain`, `findRegistrySource`, `ensurePackage` are the model of
`sourcebundle.Builder` (tied to the code by the `builder` lane); `Reach`, `ReqMet`, `resolveReg`,
`ErrorFree` (Spec/Reach) are the order-free specification.

"Error-free run" = every `Add*` call of the run returned diagnostics without errors
(`ErrorFree`); in particular none was refused and none ran out of fuel.
-/
namespace Slug

/-- **C08_closure.** After an error-free run from the empty builder, every artefact reachable from
the calls — through remote references, relative references inside a package and registry
requests, over any number of hops — has been analysed, and its package is stored under the
content the fetcher returned for it. -/
theorem C08_closure (w : World) (fuel : Nat) (ops : List Op)
    (h : ErrorFree (runOps w fuel BState.init ops).2) (a : Art) (hr : Reach w ops a) :
    a ∈ (runOps w fuel BState.init ops).1.analyzed ∧
    ∃ c, fetchContent w a.1.pkg = some c ∧
      assoc (runOps w fuel BState.init ops).1.pkgDirs a.1.pkg = some c := by
  have g := runOps_final h
  have ha := g.complete hr
  obtain ⟨c, hc⟩ := g.s.an_dirs a ha
  exact ⟨ha, c, ((g.dirs_iff _ c).mp hc).2, hc⟩

/-- **C08_sound.** Conversely nothing else is ever analysed: in the state after any run
whatsoever (with errors, refused calls, or too little fuel) every analysed artefact is reachable
from the calls. -/
theorem C08_sound (w : World) (fuel : Nat) (ops : List Op) (a : Art)
    (ha : a ∈ (runOps w fuel BState.init ops).1.analyzed) : Reach w ops a :=
  (runOps_sinv (w := w) (ops := ops) (fuel := fuel) ops BState.init (SInv.init w ops)
    (fun _ h => h)).an a ha

/-- **C08_exact.** Hence the analysed set of an error-free run is exactly the reachable set. -/
theorem C08_exact (w : World) (fuel : Nat) (ops : List Op)
    (h : ErrorFree (runOps w fuel BState.init ops).2) (a : Art) :
    a ∈ (runOps w fuel BState.init ops).1.analyzed ↔ Reach w ops a :=
  (runOps_final h).analyzed_iff a

/-- **C08_nothing_pending.** …and nothing is left in either queue. -/
theorem C08_nothing_pending (w : World) (fuel : Nat) (ops : List Op)
    (h : ErrorFree (runOps w fuel BState.init ops).2) :
    (runOps w fuel BState.init ops).1.pendingRemote = [] ∧
    (runOps w fuel BState.init ops).1.pendingRegistry = [] :=
  ⟨(runOps_final h).rem, (runOps_final h).reg⟩

/-- **C08_registry_lookup.** In the state after any run, the (memoised) registry lookup answers
exactly `resolveReg`: the listing's newest allowed version, the registry's source for it, and the
caller's sub-path joined onto that source's by `finalSourceSub`.  The caches never change the
answer. -/
theorem C08_registry_lookup (w : World) (fuel : Nat) (ops : List Op) (rs : RegSrc)
    (al : List VerS) :
    (findRegistrySource w (runOps w fuel BState.init ops).1 rs al).2 = resolveReg w rs al := by
  have s := runOps_sinv (w := w) (ops := ops) (fuel := fuel) ops BState.init (SInv.init w ops)
    (fun _ h => h)
  have s' : SInv w (Op.addRegistry rs al 0 :: ops) (runOps w fuel BState.init ops).1 :=
    s.mono_ops (fun _ h => List.mem_cons_of_mem _ h)
  exact (s'.findReg (f := 0) (.op rs al 0 List.mem_cons_self) rfl).2.1

/-- **C08_registry_same_place.** After an error-free run, for every registry request met (made by
a call or reported for a reachable artefact) the selected version's real source is recorded as the
registry gave it, and the artefact analysed for the request is that source's package with the
requested sub-path joined on — the same place whoever asked. -/
theorem C08_registry_same_place (w : World) (fuel : Nat) (ops : List Op)
    (h : ErrorFree (runOps w fuel BState.init ops).2) (rs : RegSrc) (al : List VerS)
    (f : FinderId) (hreq : ReqMet w ops (rs, al, f)) :
    ∃ vs sel real,
      assoc w.versions rs.pkg = some (some vs) ∧ selectVersion vs al = some sel ∧
      assoc w.sources (rs.pkg, sel.ver) = some (some real) ∧
      assoc (runOps w fuel BState.init ops).1.resolved (rs.pkg, sel.ver) = some real ∧
      ({ pkg := real.pkg, sub := finalSourceSub rs.sub real.sub }, f) ∈
        (runOps w fuel BState.init ops).1.analyzed := by
  have g := runOps_final h
  obtain ⟨r, hres, han, hkey⟩ := g.req_done hreq
  obtain ⟨vs, sel, real, hv, hs, hsrc, hk, rfl⟩ := resolveReg_some hres
  refine ⟨vs, sel, real, hv, hs, hsrc, ?_, han⟩
  exact (g.resolved_iff _ real).mpr ⟨⟨rs, al, f, hreq, hk⟩, regSource_of hsrc⟩

/-- **C08_meta_kept.** In the state after any run, a package that has been fetched has exactly
the metadata the fetcher returned with its content (and a package not fetched has none). -/
theorem C08_meta_kept (w : World) (fuel : Nat) (ops : List Op) (p : PkgAddr) :
    (∀ c, assoc (runOps w fuel BState.init ops).1.pkgDirs p = some c →
      ∀ m, assoc (runOps w fuel BState.init ops).1.pkgMeta p = some m ↔
        assoc w.fetch p = some (some (c, some m))) ∧
    (assoc (runOps w fuel BState.init ops).1.pkgDirs p = none →
      assoc (runOps w fuel BState.init ops).1.pkgMeta p = none) := by
  have s := runOps_sinv (w := w) (ops := ops) (fuel := fuel) ops BState.init (SInv.init w ops)
    (fun _ h => h)
  refine ⟨fun c hc m => ?_, s.meta_none p⟩
  obtain ⟨pm, h1, h2⟩ := s.dirs p c hc
  rw [h2, h1]
  constructor
  · intro e; rw [e]
  · intro e; cases e; rfl

/-- **C08_meta_reachable.** After an error-free run the metadata table is the fetcher's metadata
on the packages of the reachable artefacts. -/
theorem C08_meta_reachable (w : World) (fuel : Nat) (ops : List Op)
    (h : ErrorFree (runOps w fuel BState.init ops).2) (p : PkgAddr) (m : Str × Str) :
    assoc (runOps w fuel BState.init ops).1.pkgMeta p = some m ↔
      (∃ a, Reach w ops a ∧ a.1.pkg = p) ∧ fetchMeta w p = some m :=
  (runOps_final h).meta_iff p m

/-! ### non-vacuity: the example world (cycle `a → b//x/y → a`, relative hops, a registry hop
made twice with different sub-paths, `a` added twice) -/

/-- the run is error-free (one call returns a warning) … -/
example : ErrorFree (runOps exWorld 56 BState.init exOps).2 := by decide
/-- … the reachable set contains the cycle and the registry hop … -/
example : Reach exWorld exOps (⟨"b".toList, "x".toList⟩, 0) :=
  .step (⟨"b".toList, "x/y".toList⟩, 0) _
    (.step (⟨"a".toList, []⟩, 0) _ (.start _ _ List.mem_cons_self (.remote _ _))
      (.remote ⟨"b".toList, "x/y".toList⟩ 0 (by decide)))
    (.loc "./..".toList 0 "x".toList (by decide) (by decide))
example : Reach exWorld exOps (⟨"a".toList, []⟩, 0) :=
  .step (⟨"b".toList, "x/y".toList⟩, 0) _
    (.step (⟨"a".toList, []⟩, 0) _ (.start _ _ List.mem_cons_self (.remote _ _))
      (.remote ⟨"b".toList, "x/y".toList⟩ 0 (by decide)))
    (.remote ⟨"a".toList, []⟩ 0 (by decide))
example : Reach exWorld exOps (⟨"r".toList, "mod/sub".toList⟩, 0) :=
  .step (⟨"a".toList, []⟩, 0) _ (.start _ _ List.mem_cons_self (.remote _ _))
    (.registry ⟨"reg".toList, "sub".toList⟩ ["1.0.0".toList, "2.0.0".toList] 0 _ (by decide)
      (by decide))
/-- … and the final tables are as the theorems say. -/
example : (runOps exWorld 56 BState.init exOps).1.analyzed =
    [(⟨"r".toList, "mod".toList⟩, 0), (⟨"r".toList, "mod/sub".toList⟩, 0),
     (⟨"b".toList, "x".toList⟩, 0), (⟨"b".toList, []⟩, 1), (⟨"b".toList, "x/y".toList⟩, 0),
     (⟨"a".toList, []⟩, 0)] := by decide
example : (runOps exWorld 56 BState.init exOps).1.pkgDirs =
    [("r".toList, "cr".toList), ("b".toList, "cb".toList), ("a".toList, "ca".toList)] := by decide
example : (runOps exWorld 56 BState.init exOps).1.pkgMeta =
    [("b".toList, ("meta".toList, "x".toList))] := by decide
example : (runOps exWorld 56 BState.init exOps).1.resolved =
    [(("reg".toList, "2.0.0".toList), ⟨"r".toList, "mod".toList⟩)] := by decide
/-- a run with an error is not `ErrorFree` (the hypothesis excludes something): a failing fetch
poisons the builder and the next call is refused -/
example : ¬ ErrorFree (runOps exWorld 56 BState.init
    [.addRemote ⟨"bad".toList, []⟩ 0, .addRemote ⟨"a".toList, []⟩ 0]).2 := by decide

end Slug
