import SlugModel.Props.C11
import SlugModel.Lemmas.Local
/-!
# C11 (composition) — successive relative resolutions compose

`applyRel` is the segment-stack specification of relative resolution (`Spec/SubPath.lean`);
`C11_join_spec` (in `Props/C11.lean`) says the code's `joinSubPath` *is* that specification.
Here: resolving `b` and then `c` is resolving the concatenated path, and a path may be replaced
by its cleaned form (what `path.Join` computes) without changing the outcome — including the
failure outcome (climbing above the package root).
-/
namespace Slug

theorem applyRel_append (acc : Option (List Seg)) (b c : List Seg) :
    applyRel acc (b ++ c) = applyRel (applyRel acc b) c := by
  simp [applyRel, List.foldl_append]

theorem applyStep_skip (v : Option (List Seg)) (x : Seg) (h : x = [] ∨ x = dot) : applyStep v x = v := by
  cases v with
  | none => rfl
  | some st => simp [applyStep, h]

theorem applyStep_push_pop (v : Option (List Seg)) (t : Seg) (ht : Plain t) :
    applyStep (applyStep v t) dotdot = v := by
  cases v with
  | none => rfl
  | some st =>
    obtain ⟨h1, h2, h3⟩ := ht
    simp [applyStep, h1, h2, h3]

/-- one machine step on the accumulator is one more segment applied -/
theorem applyRel_step (st acc : List Seg) (x : Seg) (hn : Normal false acc) :
    applyRel (some st) (step false acc x).reverse = applyRel (some st) (acc.reverse ++ [x]) := by
  rw [applyRel_append, applyRel_cons, applyRel_nil]
  by_cases h1 : x = [] ∨ x = dot
  · rw [applyStep_skip _ x h1]
    have : step false acc x = acc := by simp [step, h1]
    rw [this]
  · by_cases h2 : x = dotdot
    · subst h2
      cases acc with
      | nil =>
        have : step false [] dotdot = [dotdot] := by simp [step]
        rw [this]; rfl
      | cons t r =>
        by_cases ht : t = dotdot
        · have : step false (t :: r) dotdot = dotdot :: t :: r := by simp [step, ht]
          rw [this, List.reverse_cons, applyRel_append, applyRel_cons, applyRel_nil]
        · have : step false (t :: r) dotdot = r := by simp [step, ht]
          rw [this, List.reverse_cons, applyRel_append, applyRel_cons, applyRel_nil]
          have hp : Plain t := by
            rcases normal_mem _ hn t (by simp) with h | h
            · exact h
            · exact absurd h ht
          rw [applyStep_push_pop _ t hp]
    · have : step false acc x = x :: acc := by simp [step, h1, h2]
      rw [this, List.reverse_cons, applyRel_append, applyRel_cons, applyRel_nil]

/-- generalisation over the machine's accumulator -/
theorem applyRel_run (st : List Seg) (xs : List Seg) : ∀ acc : List Seg, Normal false acc →
    applyRel (some st) (acc.reverse ++ xs) = applyRel (some st) (run false acc xs).reverse := by
  induction xs with
  | nil => intro acc _; simp [run_nil]
  | cons x xs ih =>
    intro acc hn
    rw [run_cons, ← ih _ (step_normal false acc x hn), applyRel_append (some st) (step false acc x).reverse,
      applyRel_step st acc x hn, ← applyRel_append]
    simp

/-- **C11_apply_clean.** Applying a relative path equals applying its cleaned form (the
segments `path.Clean` / `path.Join` keep): cleaning never changes where a relative address
leads, nor whether it escapes. -/
theorem C11_apply_clean (st : List Seg) (xs : List Seg) :
    applyRel (some st) xs = applyRel (some st) (cleanSegs false xs) := by
  have := applyRel_run st xs [] Normal.nil
  simpa [cleanSegs] using this

/-- **C11_compose_segs.** Resolving `b` and then `c` is resolving `b ++ c` in one go
(`none` = an intermediate or final escape). -/
theorem C11_compose_segs (st : List Seg) (b c : List Seg) :
    applyRel (applyRel (some st) b) c = applyRel (some st) (b ++ c) :=
  (applyRel_append (some st) b c).symm

/-- … and hence resolving the cleaned concatenation, which is what `path.Join(b, c)` denotes -/
theorem C11_compose_clean (st : List Seg) (b c : List Seg) :
    applyRel (applyRel (some st) b) c = applyRel (some st) (cleanSegs false (b ++ c)) := by
  rw [C11_compose_segs, C11_apply_clean]

/-! ## the same on strings -/

/-- a successful `joinSubPath` on the stack level -/
theorem joinSubPath_some_stack (a b ab : Str) (ha : ValidSub a) (hb : RelLike b)
    (h : joinSubPath a b = some ab) :
    ∃ st, applyRel (some (segsOf a).reverse) (splitOn '/' b) = some st ∧ ab = printStack st ∧
      (segsOf ab).reverse = st := by
  rw [C11_join_spec a b ha hb] at h
  unfold specJoin at h
  cases hap : applyRel (some (segsOf a).reverse) (splitOn '/' b) with
  | none => rw [hap] at h; cases h
  | some st =>
    rw [hap] at h
    simp only [Option.map_some, Option.some.injEq] at h
    refine ⟨st, rfl, h.symm, ?_⟩
    have hA : AllPlain (segsOf a).reverse :=
      fun s hs => validSub_allPlain a ha s (List.mem_reverse.mp hs)
    have hrv := run_vs_apply (splitOn '/' b) _ hA
    rw [hap] at hrv
    obtain ⟨hrun, hpl⟩ := hrv
    have hnoslash : ∀ s ∈ st, '/' ∉ s := by
      intro s hs
      rw [← hrun] at hs
      rcases run_mem false _ _ s hs with h1 | h1 | h1
      · have h1' := List.mem_reverse.mp h1
        unfold segsOf at h1'
        split at h1'
        · cases h1'
        · exact splitOn_noSep '/' a s h1'
      · exact splitOn_noSep '/' b s h1
      · rw [h1]; decide
    rw [← h]
    unfold printStack
    by_cases hst : st = []
    · subst hst; rfl
    · have hrne : st.reverse ≠ [] := by simpa using hst
      have hjne : joinWith '/' st.reverse ≠ [] := by
        cases hr : st.reverse with
        | nil => exact absurd hr hrne
        | cons s r =>
          have hs : s ∈ st := List.mem_reverse.mp (by rw [hr]; simp)
          have : s ≠ [] := (hpl s hs).1
          cases s with
          | nil => exact absurd rfl this
          | cons c s' =>
            obtain ⟨tl, htl⟩ := lc_joinWith_head _ c s' r rfl
            rw [htl]; exact List.cons_ne_nil _ _
      unfold segsOf
      simp only [hjne, if_false]
      rw [splitOn_joinWith '/' _ hrne (fun s hs => hnoslash s (List.mem_reverse.mp hs))]
      simp

/-- resolving a joined relative path is resolving the concatenated segments -/
theorem joinSubPath_pathJoin (a b c : Str) (ha : ValidSub a) (hb : RelLike b) (hc : RelLike c) :
    joinSubPath a (pathJoin b c) =
      (applyRel (some (segsOf a).reverse) (splitOn '/' b ++ splitOn '/' c)).map printStack := by
  have hj : pathJoin b c = pathClean (b ++ '/' :: c) := by
    unfold pathJoin; simp only [hb.1, hc.1, if_false]
  have habs : isAbs (b ++ '/' :: c) = false := by
    have := hb.2
    cases b with
    | nil => exact absurd rfl hb.1
    | cons x xs => simpa [isAbs] using this
  have hsplit : splitOn '/' (b ++ '/' :: c) = splitOn '/' b ++ splitOn '/' c := splitOn_append '/' b c
  rw [C11_apply_clean, ← hsplit]
  rcases pathClean_rel_segs (b ++ '/' :: c) habs with ⟨hnil, hdot⟩ | ⟨_, _, hsp, hne, hnabs⟩
  · rw [hj, hdot, C11_join_spec a dot ha ⟨by decide, by decide⟩]
    unfold specJoin
    have : splitOn '/' dot = [dot] := by decide
    rw [this, applyRel_cons, applyRel_nil, applyStep_skip _ dot (Or.inr rfl), hnil, applyRel_nil]
  · rw [hj, C11_join_spec a _ ha ⟨hne, hnabs⟩]
    unfold specJoin
    rw [hsp]

/-- **C11_compose_eq.** Successive resolutions compose on the string level, as an equation
between outcomes: resolving `b` against sub-path `a` and then `c` against the result is — in
success *and* in failure — resolving `path.Join(b, c)` against `a`. -/
theorem C11_compose_eq (a b c : Str) (ha : ValidSub a) (hb : RelLike b) (hc : RelLike c) :
    (joinSubPath a b).bind (fun ab => joinSubPath ab c) = joinSubPath a (pathJoin b c) := by
  rw [joinSubPath_pathJoin a b c ha hb hc, ← C11_compose_segs]
  cases hab : joinSubPath a b with
  | none =>
    have := C11_join_spec a b ha hb
    rw [hab] at this
    unfold specJoin at this
    cases hap : applyRel (some (segsOf a).reverse) (splitOn '/' b) with
    | none => rw [applyRel_none]; rfl
    | some st => rw [hap] at this; cases this
  | some ab =>
    obtain ⟨st1, hap1, _, hseg1⟩ := joinSubPath_some_stack a b ab ha hb hab
    have hvab : ValidSub ab := C11_never_escapes a b ab hab
    simp only [Option.bind_some]
    rw [C11_join_spec ab c hvab hc, hap1]
    unfold specJoin
    rw [hseg1]

/-- **C11_compose.** If resolving `b` against sub-path `a` succeeds with `ab` and resolving `c`
against `ab` succeeds with `r`, then resolving the joined relative path `path.Join(b, c)`
against `a` gives the same `r` in one go. -/
theorem C11_compose (a b c r : Str) (ha : ValidSub a) (hb : RelLike b) (hc : RelLike c)
    (h : (joinSubPath a b).bind (fun ab => joinSubPath ab c) = some r) :
    joinSubPath a (pathJoin b c) = some r := by
  rw [← C11_compose_eq a b c ha hb hc]; exact h

/-- … and on addresses: two relative resolutions against a remote / registry address -/
theorem C11_compose_resolve (a : Addr) (b c : Str) (hloc : a.isLocal = false) (ha : ValidSub a.sub)
    (hb : RelLike b) (hc : RelLike c) :
    (resolveRelative a (.loc b)).bind (fun ab => resolveRelative ab (.loc c)) =
      resolveRelative a (.loc (pathJoin b c)) := by
  cases a with
  | loc _ => simp [Addr.isLocal] at hloc
  | registry p s =>
    simp only [resolveRelative, Addr.sub] at *
    rw [← C11_compose_eq s b c ha hb hc]
    cases joinSubPath s b <;> simp
  | registryFinal p v s =>
    simp only [resolveRelative, Addr.sub] at *
    rw [← C11_compose_eq s b c ha hb hc]
    cases joinSubPath s b <;> simp
  | remote p s =>
    simp only [resolveRelative, Addr.sub] at *
    rw [← C11_compose_eq s b c ha hb hc]
    cases joinSubPath s b <;> simp

/-- non-vacuity -/
example : (joinSubPath "a/b".toList "../c".toList).bind (fun ab => joinSubPath ab "../d".toList)
    = some "a/d".toList := by decide
example : joinSubPath "a/b".toList (pathJoin "../c".toList "../d".toList) = some "a/d".toList := by decide
example : (joinSubPath "a".toList "../..".toList).bind (fun ab => joinSubPath ab "x/y".toList) = none := by
  decide
example : joinSubPath "a".toList (pathJoin "../..".toList "x/y".toList) = none := by decide

end Slug
