import SlugModel.Lemmas.TrEq_finalSourceAddr
import SlugModel.Props.C19a
/-!
# C08 (tie by translation)

Tie by translation: the model function the theorems of this property are stated over equals the Lean
translation of the Go function, regenerated from /repo on every run (harness/cmd/go2lean); a change of
the Go function changes the translated definition and this proof obligation no longer checks.

C08: a registry source resolves to the same location as the remote address the registry named joined with the
caller's sub-path.  That join is `RegistrySource.FinalSourceAddr`; an address is read as the pair (package as
printed, sub-path), the method's receiver as the registry address and its argument as the remote address the
registry named.  The model's builder and the specification (`resolveReg`, Spec/Reach) take the package of the
named address and join the sub-paths with `finalSourceSub`.
-/
namespace Slug

/-- **C08_tie_finalSourceAddr.** The address the model resolves a registry source to — the package of the
address the registry named, the sub-paths joined by `finalSourceSub` — is the result of the translated
`RegistrySource.FinalSourceAddr` (sourceaddrs/source_registry.go), for every pair of addresses. -/
theorem C08_tie_finalSourceAddr (s real : Str × Str) :
    Gen.finalSourceAddr s real = (real.1, finalSourceSub s.2 real.2) :=
  gen_finalSourceAddr s real

/-! ### The property, stated over the translated function -/

/-- **C08_gen_finalSourceAddr_spec.** The Go method `RegistrySource.FinalSourceAddr`
(sourceaddrs/source_registry.go), as translated, for a registry address `s` and the remote address `real` the
registry named (each read as package and sub-path): the package of the result is always that of `real`; its
sub-path is the sub-path of `real` followed by the registry address's sub-path, joined with `path.Join` — with
the two degenerate cases: a registry address without sub-path gives `real` itself, and a `real` without
sub-path gives the registry address's sub-path as it stands. -/
theorem C08_gen_finalSourceAddr_spec (s real : Str × Str) :
    (Gen.finalSourceAddr s real).1 = real.1 ∧
    (s.2 = [] → Gen.finalSourceAddr s real = real) ∧
    (s.2 ≠ [] → real.2 = [] → (Gen.finalSourceAddr s real).2 = s.2) ∧
    (s.2 ≠ [] → real.2 ≠ [] → (Gen.finalSourceAddr s real).2 = pathJoin real.2 s.2) := by
  rw [gen_finalSourceAddr]
  unfold finalSourceSub
  refine ⟨rfl, ?_, ?_, ?_⟩
  · intro h; simp [h]
  · intro h1 h2; simp [h1, h2]
  · intro h1 h2; simp [h1, h2]

/-- **C08_gen_finalSourceAddr_valid.** For valid sub-paths on both sides (what the parsers store) the sub-path of
the address the translated `FinalSourceAddr` returns is again a valid sub-path — so the `panic` of the Go
method on an invalid joined sub-path is not reached. -/
theorem C08_gen_finalSourceAddr_valid (s real : Str × Str) (h1 : ValidSub s.2) (h2 : ValidSub real.2) :
    ValidSub (Gen.finalSourceAddr s real).2 := by
  rw [gen_finalSourceAddr]
  exact (validSubPath_iff _).mp (C19_finalSourceSub_valid s.2 real.2 h1 h2)

end Slug
