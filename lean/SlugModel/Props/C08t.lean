import SlugModel.Lemmas.TrEq_finalSourceAddr
/-!
# C08 (tie by translation)

Tie by translation: the model function the theorems of this property are stated over equals the Lean
translation of the Go function, regenerated from /repo on every run (harness/cmd/go2lean); a change of
the Go function changes the translated definition and this proof obligation no longer checks.

C08: a registry source resolves to the same location as the remote address the registry named joined with the
caller's sub-path.  That join is `RegistrySource.FinalSourceAddr`; an address is read as the pair (package as
printed, sub-path), the method's receiver as the registry address and its argument as the remote address the
registry named.  The model's builder and the specification (`resolveReg`, Spec/Reach) take the package of the
named address and join the sub-paths with `finalSourceSub`.
-/
namespace Slug

/-- **C08_tie_finalSourceAddr.** The address the model resolves a registry source to — the package of the
address the registry named, the sub-paths joined by `finalSourceSub` — is the result of the translated
`RegistrySource.FinalSourceAddr` (sourceaddrs/source_registry.go), for every pair of addresses. -/
theorem C08_tie_finalSourceAddr (s real : Str × Str) :
    Gen.finalSourceAddr s real = (real.1, finalSourceSub s.2 real.2) :=
  gen_finalSourceAddr s real

end Slug
