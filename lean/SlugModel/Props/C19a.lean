import SlugModel.Lemmas.Local
/-!
# C19 (address part) — the panicking branches of the address code are unreachable

`sourceaddrs` contains two deliberate panics: `ParseRegistryPackage`-style code panics with
"post-split registry address still has subdir" if the package part returned by `splitSubPath`
can be split again, and `SourceAddr` / `FinalSourceAddr` panic when handed an invalid sub-path.
These theorems show that the values the code feeds them can never trigger either.
-/
namespace Slug

/-- **C19_split_idem.** For *every* string the package part returned by `splitSubPath` has no
sub-path left: splitting it again yields an empty sub-path.  (No hypothesis on `s`: queries,
several `://`, several `//` are all covered.) -/
theorem C19_split_idem (s : Str) : (splitSubPath (splitSubPath s).1).2 = [] := by
  obtain ⟨pre, qs, e, hpre, hqs⟩ := query_decomp s
  subst e
  rw [splitSubPath_eq pre qs hpre hqs]
  have hpre' : '?' ∉ (splitPre pre).1 := by
    unfold splitPre
    split
    · exact hpre
    · exact fun hm => hpre (List.mem_of_mem_take hm)
  simp only
  rw [splitSubPath_eq _ qs hpre' hqs]
  exact splitPre_idem pre

/-- the package part is even a fixed point of the split -/
theorem C19_split_pkg_fixed (s : Str) :
    splitSubPath (splitSubPath s).1 = ((splitSubPath s).1, []) := by
  obtain ⟨pre, qs, e, hpre, hqs⟩ := query_decomp s
  subst e
  rw [splitSubPath_eq pre qs hpre hqs]
  have hpre' : '?' ∉ (splitPre pre).1 := by
    unfold splitPre
    split
    · exact hpre
    · exact fun hm => hpre (List.mem_of_mem_take hm)
  simp only
  rw [splitSubPath_eq _ qs hpre' hqs, splitPre_fixed pre]

/-- **C19_normalize_valid.** Whatever `normalizeSubpath` returns is accepted by
`isValidSubPath`-style checks: values stored in addresses can be passed to the panicking
`SourceAddr`. -/
theorem C19_normalize_valid (s n : Str) (h : normalizeSubpath s = some n) : validSubPath n = true := by
  have hv := normalizeSubpath_some s n h
  rw [hv.1]
  exact (validSubPath_iff s).mpr hv.2

/-- **C19_joinSubPath_valid.** The result of a successful `joinSubPath` is a valid sub-path. -/
theorem C19_joinSubPath_valid (a b r : Str) (h : joinSubPath a b = some r) : validSubPath r = true := by
  apply (validSubPath_iff r).mpr
  unfold joinSubPath at h
  simp only at h
  split at h
  · cases h; exact Or.inl rfl
  · split at h
    · cases h
      rename_i hnd hv
      exact Or.inr ⟨hv, hnd⟩
    · cases h

/-- `finalSourceSub` (the sub-path handed to the panicking `FinalSourceAddr`) of two stored
sub-paths is valid -/
theorem C19_finalSourceSub_valid (regSub realSub : Str) (h1 : ValidSub regSub) (h2 : ValidSub realSub) :
    validSubPath (finalSourceSub regSub realSub) = true := by
  apply (validSubPath_iff _).mpr
  unfold finalSourceSub
  split
  · exact h2
  · split
    · exact h1
    · rename_i hr hs
      rcases h1 with e | ⟨v1, d1⟩
      · exact absurd e hr
      rcases h2 with e | ⟨v2, d2⟩
      · exact absurd e hs
      have hv := validPath_join realSub regSub v2 d2 v1 d1
      have hj : pathJoin realSub regSub = realSub ++ '/' :: regSub := by
        unfold pathJoin
        simp only [hr, hs, if_false]
        exact pathClean_of_validPath _ hv
      rw [hj]
      refine Or.inr ⟨hv, ?_⟩
      intro e
      have := congrArg List.length e
      simp only [dot, List.length_append, List.length_cons, List.length_nil] at this
      exact hs (List.length_eq_zero_iff.mp (by omega))

/-- non-vacuity -/
example : splitSubPath "git::https://example.com/repo.git//sub/dir?ref=v1".toList
    = ("git::https://example.com/repo.git?ref=v1".toList, "sub/dir".toList) := by decide
example : splitSubPath "a//b//c?x=//y".toList = ("a?x=//y".toList, "b//c".toList) := by decide
example : normalizeSubpath "sub/dir".toList = some "sub/dir".toList := by decide
example : normalizeSubpath "sub/../dir".toList = none := by decide

end Slug
