import SlugModel.BundleArchive
import SlugModel.Props.C12p
/-!
# C09 (write side of WriteArchive) — a failing destination writer is reported

`Bundle.WriteArchive` is `Packer.Pack` with dereferencing on; a destination that fails while the archive
is written (disk full, closed pipe) must make `WriteArchive` return an error — otherwise a truncated
archive passes for a bundle archive and `ExtractArchive` of it fails later.  This restates the write-side
theorem of Props/C12p (model `PackIO.lean`) for the archive options; it depends on the regenerated fact
`Generated.ioErrChecks` (every write-side error result of `Pack`, the two `Close` calls included, is tested
at its call site), so deferring or dropping such a check breaks this obligation of C09 too.
-/
namespace Slug

/-- **C09_archive_write_fault_reported.** For every bundle directory: if the destination writer's failure
surfaces at any write-side operation of `WriteArchive` (header or body of any entry, the tar close, the
gzip close), `WriteArchive` returns an error. -/
theorem C09_archive_write_fault_reported (fs : FS) (cwd root : Str) (k : Nat)
    (hk : k < (writerOps (writeArchive fs cwd root).1.entries).length) :
    (packIO ioChecks fs cwd archiveOpts root (some k)).2 ≠ .ok :=
  (C12_pack_write_fault_reported fs cwd archiveOpts root k hk).1

end Slug
