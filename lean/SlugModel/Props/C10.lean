import SlugModel.Lemmas.SanitiseInv
/-!
# C10 — What the package preparation of `ensureRemotePackage` leaves behind

Property theorems only; helper lemmas live in `Lemmas/SanitiseInv` (what the preparation walk
changes and checks), `Lemmas/Resolve`, `Lemmas/FSFrame`, `Lemmas/PathSegs`.  `prepVisit`,
`prepWalk`/`prepChildren`, `hashable`, `ensurePrepared` are the model of `packagePrepareWalkFn`,
`filepath.Walk`, `dirhash.HashDir` and the tail of `Builder.ensureRemotePackage` (tied to the code
by the `sanitise` lane); `FS`, `resolve` the model of the kernel.

Vocabulary (`W = pathSegs work`, the physical components of the temporary work directory):
* `AbsClean work` — `work` is absolute and clean.
* `RealDir fs W` — every prefix of `W` is a directory (no link among the components of `work`).
* `SanNames W fs` — the components of every key bound at or below `W` are names a directory entry
  can have (not `""`, `.`, `..`, no `/`); needed because `FS` is an abstract map.
* `SanAt W fs path` — `path` is absolute, clean, at or below `W`, and no proper prefix of it is a
  link: every path the walk hands to the callback is like that.
* `snIsDir node` — the node is a directory; `snCheck fs root rel` — the containment and kind check of
  the callback (`prepVisit_eq` is the callback in normal form).
* `snRules fs work` — the ignore rules `ensurePrepared` loads.
-/
namespace Slug

/-! ## 1. decision logic of the callback -/

/-- **C10_fail_on_dangling.** A visited path that is not excluded and whose physical resolution
fails (a dangling link, a loop) makes the callback fail; nothing is changed. -/
theorem C10_fail_on_dangling (rules : List Rule) (root : Str) (fs : FS) (absPath : Str) (node : Node)
    (rel : Str) (absRoot : PPath)
    (hrel : pathRel root absPath = some rel) (hdot : rel ≠ dot)
    (hex : (excludes rules rel).1 = false)
    (hexd : (snIsDir node && (excludes rules (rel ++ ['/'])).1) = false)
    (hroot : fs.evalSymlinks root = some absRoot)
    (hdang : fs.evalSymlinks (pathJoin (ofSegs absRoot) rel) = none) :
    prepVisit rules root fs absPath node = (fs, .fail) := by
  rw [prepVisit_eq]
  simp only [hrel, hdot, hex, hexd, if_false, Bool.false_eq_true]
  unfold snCheck
  simp only [hroot, hdang]

/-- **C10_fail_on_escape.** … whose physical resolution lands outside the (physical) root makes the
callback fail. -/
theorem C10_fail_on_escape (rules : List Rule) (root : Str) (fs : FS) (absPath : Str) (node : Node)
    (rel : Str) (absRoot real : PPath)
    (hrel : pathRel root absPath = some rel) (hdot : rel ≠ dot)
    (hex : (excludes rules rel).1 = false)
    (hexd : (snIsDir node && (excludes rules (rel ++ ['/'])).1) = false)
    (hroot : fs.evalSymlinks root = some absRoot)
    (hreal : fs.evalSymlinks (pathJoin (ofSegs absRoot) rel) = some real)
    (hesc : ¬ absRoot <+: real) :
    prepVisit rules root fs absPath node = (fs, .fail) := by
  rw [prepVisit_eq]
  simp only [hrel, hdot, hex, hexd, if_false, Bool.false_eq_true]
  unfold snCheck
  have : absRoot.isPrefixOf real = false := by
    cases hb : absRoot.isPrefixOf real with
    | false => rfl
    | true => exact absurd (List.isPrefixOf_iff_prefix.mp hb) hesc
  simp only [hroot, hreal, this, Bool.not_false, if_true]

/-- … that resolves to anything but a regular file or a directory makes the callback fail. -/
theorem C10_fail_unless_file_or_dir (rules : List Rule) (root : Str) (fs : FS) (absPath : Str) (node : Node)
    (rel : Str) (absRoot real : PPath)
    (hrel : pathRel root absPath = some rel) (hdot : rel ≠ dot)
    (hex : (excludes rules rel).1 = false)
    (hexd : (snIsDir node && (excludes rules (rel ++ ['/'])).1) = false)
    (hroot : fs.evalSymlinks root = some absRoot)
    (hreal : fs.evalSymlinks (pathJoin (ofSegs absRoot) rel) = some real)
    (hf : ∀ pm mt c, fs.lookup real ≠ some (.file pm mt c))
    (hd : ∀ pm mt, fs.lookup real ≠ some (.dir pm mt)) :
    prepVisit rules root fs absPath node = (fs, .fail) := by
  rw [prepVisit_eq]
  simp only [hrel, hdot, hex, hexd, if_false, Bool.false_eq_true]
  unfold snCheck
  simp only [hroot, hreal]
  cases hl : fs.lookup real with
  | none => split <;> rfl
  | some n =>
    cases n with
    | file pm mt c => exact absurd hl (hf pm mt c)
    | dir pm mt => exact absurd hl (hd pm mt)
    | link t => split <;> rfl
    | special => split <;> rfl

/-- **C10_fail_on_special.** … that resolves to a special file (fifo, socket, device) — or to a link,
which cannot happen after a resolution — makes the callback fail. -/
theorem C10_fail_on_special (rules : List Rule) (root : Str) (fs : FS) (absPath : Str) (node : Node)
    (rel : Str) (absRoot real : PPath)
    (hrel : pathRel root absPath = some rel) (hdot : rel ≠ dot)
    (hex : (excludes rules rel).1 = false)
    (hexd : (snIsDir node && (excludes rules (rel ++ ['/'])).1) = false)
    (hroot : fs.evalSymlinks root = some absRoot)
    (hreal : fs.evalSymlinks (pathJoin (ofSegs absRoot) rel) = some real)
    (hk : fs.lookup real = some .special ∨ ∃ t, fs.lookup real = some (.link t)) :
    prepVisit rules root fs absPath node = (fs, .fail) := by
  apply C10_fail_unless_file_or_dir rules root fs absPath node rel absRoot real hrel hdot hex hexd hroot hreal
  · intro pm mt c h
    rcases hk with e | ⟨t, e⟩ <;> rw [e] at h <;> cases h
  · intro pm mt h
    rcases hk with e | ⟨t, e⟩ <;> rw [e] at h <;> cases h

/-- a root that does not resolve, or a path that is not relative to the root, fails as well -/
theorem C10_fail_on_missing_root (rules : List Rule) (root : Str) (fs : FS) (absPath : Str) (node : Node)
    (rel : Str) (hrel : pathRel root absPath = some rel) (hdot : rel ≠ dot)
    (hex : (excludes rules rel).1 = false)
    (hexd : (snIsDir node && (excludes rules (rel ++ ['/'])).1) = false)
    (hroot : fs.evalSymlinks root = none) :
    prepVisit rules root fs absPath node = (fs, .fail) := by
  rw [prepVisit_eq]
  simp only [hrel, hdot, hex, hexd, if_false, Bool.false_eq_true]
  unfold snCheck
  simp only [hroot]

/-! ### `.fail` propagates -/

/-- a failing child makes the loop over the directory fail, in the state the child left -/
theorem C10_fail_propagates_children (rules : List Rule) (root : Str) (fuel : Nat) (fs : FS) (path name : Str)
    (rest : List Str) (child : Node) (fs1 : FS)
    (hl : fs.lstat (pathJoin path name) = .ok child)
    (hw : prepWalk rules root fuel fs (pathJoin path name) child = (fs1, .fail)) :
    prepChildren rules root (fuel + 1) fs path (name :: rest) = (fs1, .fail) := by
  rw [prepChildren]
  simp only [hl, hw]

/-- a child that cannot be `Lstat`ed makes the loop fail -/
theorem C10_fail_on_lstat_error (rules : List Rule) (root : Str) (fuel : Nat) (fs : FS) (path name : Str)
    (rest : List Str) (e : Errno) (hl : fs.lstat (pathJoin path name) = .error e) :
    prepChildren rules root (fuel + 1) fs path (name :: rest) = (fs, .fail) := by
  rw [prepChildren]
  simp only [hl]

/-- after a child that was accepted (or a directory that was skipped) the loop goes on with the
remaining names: a later failure is the result of the loop -/
theorem C10_children_step (rules : List Rule) (root : Str) (fuel : Nat) (fs : FS) (path name : Str)
    (rest : List Str) (child : Node) (fs1 : FS) (r : SRes)
    (hl : fs.lstat (pathJoin path name) = .ok child)
    (hw : prepWalk rules root fuel fs (pathJoin path name) child = (fs1, r))
    (hr : r = .cont ∨ (r = .skipDir ∧ snIsDir child = true)) :
    prepChildren rules root (fuel + 1) fs path (name :: rest) = prepChildren rules root fuel fs1 path rest := by
  rw [prepChildren]
  simp only [hl, hw]
  rcases hr with rfl | ⟨rfl, hd⟩
  · rfl
  · cases child with
    | dir pm mt => rfl
    | file pm mt c => cases hd
    | link t => cases hd
    | special => cases hd

/-- a directory on which the callback fails makes the walk of that directory fail -/
theorem C10_fail_propagates_walk (rules : List Rule) (root : Str) (fuel : Nat) (fs : FS) (path : Str)
    (node : Node) (fs1 : FS) (hv : prepVisit rules root fs path node = (fs1, .fail)) :
    prepWalk rules root (fuel + 1) fs path node = (fs1, .fail) := by
  cases node with
  | dir pm mt => rw [prepWalk]; simp only [hv]
  | file pm mt c => rw [prepWalk]; exact hv; intro _ _ h; cases h
  | link t => rw [prepWalk]; exact hv; intro _ _ h; cases h
  | special => rw [prepWalk]; exact hv; intro _ _ h; cases h

/-- a directory the callback accepts is walked: the result is the result of the loop over its names
(read before the callback ran) -/
theorem C10_walk_dir_step (rules : List Rule) (root : Str) (fuel : Nat) (fs : FS) (path : Str)
    (pm : Nat) (mt : Int) (fs1 : FS) (p : PPath)
    (hp : fs.resolvePath path true = .ok p)
    (hv : prepVisit rules root fs path (.dir pm mt) = (fs1, .cont)) :
    prepWalk rules root (fuel + 1) fs path (.dir pm mt) = prepChildren rules root fuel fs1 path (fs.readdir p) := by
  rw [prepWalk]
  simp only [hv, hp]

/-- a failing walk makes `ensurePrepared` fail, in the state the walk left -/
theorem C10_fail_propagates_ensure (fs : FS) (work final : Str) (n : Node) (fs1 : FS)
    (hl : fs.lstat work = .ok n)
    (hw : prepWalk (snRules fs work) work prepFuel fs work n = (fs1, .fail)) :
    ensurePrepared fs work final = (fs1, .fail) := by
  rw [ensurePrepared_eq]
  simp only [hl, hw]

/-! ## 2. what an accepted path looks like -/

/-- **C10_visited_ok.** If the callback lets a path that is not excluded pass, it has changed nothing,
and in that state the root and the path both resolve physically, the path at or below the physical
root, to a regular file or a directory. -/
theorem C10_visited_ok (rules : List Rule) (root : Str) (fs fs' : FS) (absPath : Str) (node : Node)
    (rel : Str) (hrel : pathRel root absPath = some rel) (hdot : rel ≠ dot)
    (hex : (excludes rules rel).1 = false)
    (h : prepVisit rules root fs absPath node = (fs', .cont)) :
    fs' = fs ∧
    ∃ absRoot real, fs.evalSymlinks root = some absRoot ∧
      fs.evalSymlinks (pathJoin (ofSegs absRoot) rel) = some real ∧ absRoot <+: real ∧
      ((∃ pm mt c, fs.lookup real = some (.file pm mt c)) ∨ (∃ pm mt, fs.lookup real = some (.dir pm mt))) := by
  rw [prepVisit_eq] at h
  simp only [hrel, hdot, hex, if_false, Bool.false_eq_true] at h
  split at h
  · cases h
  · have h1 : fs = fs' := congrArg Prod.fst h
    have h2 : snCheck fs root rel = .cont := congrArg Prod.snd h
    refine ⟨h1.symm, ?_⟩
    unfold snCheck at h2
    split at h2
    · cases h2
    · rename_i absRoot hroot
      split at h2
      · cases h2
      · rename_i real hreal
        split at h2
        · cases h2
        · rename_i hpre
          have hpre' : absRoot <+: real := by
            apply List.isPrefixOf_iff_prefix.mp
            cases hb : absRoot.isPrefixOf real with
            | true => rfl
            | false => rw [hb] at hpre; simp at hpre
          refine ⟨absRoot, real, hroot, hreal, hpre', ?_⟩
          split at h2
          · rename_i pm mt c hl; exact Or.inl ⟨pm, mt, c, hl⟩
          · rename_i pm mt hl; exact Or.inr ⟨pm, mt, hl⟩
          · cases h2

/-- the callback never answers `SkipDir` for anything but a directory -/
theorem C10_skipDir_only_dirs (rules : List Rule) (root : Str) (fs fs' : FS) (absPath : Str) (node : Node)
    (h : prepVisit rules root fs absPath node = (fs', .skipDir)) : snIsDir node = true := by
  rw [prepVisit_eq] at h
  split at h
  · cases h
  · split at h
    · cases h
    · split at h
      · cases h
      · split at h
        · rename_i hc
          simp only [Bool.and_eq_true] at hc
          exact hc.1
        · have h2 : snCheck fs root _ = .skipDir := congrArg Prod.snd h
          unfold snCheck at h2
          repeat' split at h2
          all_goals cases h2

/-! ## 3. the hash opens every non-directory -/

/-- a successful hash has read every non-directory bound below `dir` -/
theorem C10_hash_reads_all (fs : FS) (dir : PPath) (h : hashable fs dir = true) :
    ∀ k n, fs.get k = some n → dir <+: k → k ≠ dir → (∀ pm mt, n ≠ .dir pm mt) →
      ∃ c, fs.readFile (ofSegs k) = .ok c :=
  sn_hashable h

/-- **C10_hash_rejects_bad_links.** If the hash succeeds, every link bound below `dir` can be opened
and read: its path resolves physically to a regular file — not to a directory, not to nothing. -/
theorem C10_hash_rejects_bad_links (fs : FS) (dir : PPath) (h : hashable fs dir = true) :
    ∀ k t, fs.get k = some (.link t) → dir <+: k → k ≠ dir →
      ∃ real pm mt c, fs.readFile (ofSegs k) = .ok c ∧ fs.evalSymlinks (ofSegs k) = some real ∧
        fs.lookup real = some (.file pm mt c) := by
  intro k t hg hu hne
  obtain ⟨c, hc⟩ := sn_hashable h k _ hg hu hne (by intro pm mt e; cases e)
  obtain ⟨p, pm, mt, h1, h2⟩ := sn_readFile_ok hc
  exact ⟨p, pm, mt, c, hc, sn_evalSymlinks_of_resolve h1 h2, h2⟩

/-- a link that dangles or points to a directory makes the hash fail -/
theorem C10_hash_fails_on_bad_link (fs : FS) (dir k : PPath) (t : Str)
    (hg : fs.get k = some (.link t)) (hu : dir <+: k) (hne : k ≠ dir)
    (hbad : fs.evalSymlinks (ofSegs k) = none ∨
      ∃ real pm mt, fs.evalSymlinks (ofSegs k) = some real ∧ fs.lookup real = some (.dir pm mt)) :
    hashable fs dir = false := by
  cases hh : hashable fs dir with
  | false => rfl
  | true =>
    obtain ⟨real, pm, mt, c, _, h1, h2⟩ := C10_hash_rejects_bad_links fs dir hh k t hg hu hne
    rcases hbad with e | ⟨real', pm', mt', e1, e2⟩
    · rw [e] at h1; cases h1
    · rw [e1] at h1; cases h1; rw [e2] at h2; cases h2

/-- **C10_no_bad_link_before_rename.** After a successful `ensurePrepared`, in the state `fs1` the
walk left — the one that is hashed, then renamed — every link below the (physical) work directory
reads as a regular file: no dangling link and no link to a directory. -/
theorem C10_no_bad_link_before_rename (fs : FS) (work final : Str) (fs' : FS) (d : PPath)
    (h : ensurePrepared fs work final = (fs', .ok d)) :
    ∃ n fs1 r wp, fs.lstat work = .ok n ∧
      prepWalk (snRules fs work) work prepFuel fs work n = (fs1, r) ∧
      fs1.resolvePath work true = .ok wp ∧
      (fs' = fs1.removeAll work ∨ fs' = fs1.renameDir wp (pathSegs final)) ∧
      ∀ k t, fs1.get k = some (.link t) → wp <+: k → k ≠ wp →
        ∃ real pm mt c, fs1.evalSymlinks (ofSegs k) = some real ∧ fs1.lookup real = some (.file pm mt c) := by
  obtain ⟨n, fs1, r, hl, hw, _, hf⟩ := sn_ensure_ok h
  obtain ⟨wp, hwp, hh, _, hcase⟩ := sn_finish_ok hf
  refine ⟨n, fs1, r, wp, hl, hw, hwp, hcase, ?_⟩
  intro k t hg hu hne
  obtain ⟨real, pm, mt, c, _, h1, h2⟩ := C10_hash_rejects_bad_links fs1 wp hh k t hg hu hne
  exact ⟨real, pm, mt, c, h1, h2⟩

/-! ## 4. an absolute link into the work directory survives the checks (finding F31) -/

def c10Work : Str := "/t/b/.tmp-1".toList
def c10Final : Str := "/t/b/HASH".toList
def c10W : PPath := ["t","b",".tmp-1"].map String.toList
def c10F : PPath := ["t","b","HASH"].map String.toList

/-- `/t/b/.tmp-1` holding a file `a` and a link `d -> /t/b/.tmp-1/a` (absolute, into the work
directory itself) -/
def c10FsAbs : FS :=
  [(["t","b",".tmp-1","d"].map String.toList, .link "/t/b/.tmp-1/a".toList),
   (["t","b",".tmp-1","a"].map String.toList, .file 0o644 0 "x".toList),
   (["t","b",".tmp-1"].map String.toList, .dir 0o755 0),
   (["t","b"].map String.toList, .dir 0o755 0),
   (["t"].map String.toList, .dir 0o755 0)]

/-- **C10_cex_abs_link_into_workdir.** The link `d -> /t/b/.tmp-1/a` resolves inside the work
directory while the walk runs and reads as a regular file when the tree is hashed, so
`ensurePrepared` succeeds; after the rename to `/t/b/HASH` the link is still there with the same
target, which no longer exists: the prepared package contains a dangling link. -/
theorem C10_cex_abs_link_into_workdir :
    let r := ensurePrepared c10FsAbs c10Work c10Final
    r.2 = .ok c10F ∧
    r.1.get (c10F ++ ["d".toList]) = some (.link "/t/b/.tmp-1/a".toList) ∧
    r.1.evalSymlinks "/t/b/HASH/d".toList = none ∧
    (r.1.readFile "/t/b/HASH/d".toList).toOption = none ∧
    (∀ q, c10W <+: q → r.1.get q = none) := by
  have hrun : ensurePrepared c10FsAbs c10Work c10Final =
      ([(["t","b","HASH","d"].map String.toList, .link "/t/b/.tmp-1/a".toList),
        (["t","b","HASH","a"].map String.toList, .file 0o644 0 "x".toList),
        (["t","b","HASH"].map String.toList, .dir 0o755 0),
        (["t","b"].map String.toList, .dir 0o755 0),
        (["t"].map String.toList, .dir 0o755 0)], .ok c10F) := by decide
  dsimp only
  rw [hrun]
  refine ⟨rfl, by decide, by decide, by decide, ?_⟩
  intro q hq
  rw [sn_get_eq_none]
  intro e he heq
  simp only [List.mem_cons, List.not_mem_nil, or_false] at he
  rw [← heq] at hq
  rcases he with rfl | rfl | rfl | rfl | rfl <;> revert hq <;> decide

/-- the hypotheses of the theorems below hold in that run, except the one on absolute targets -/
theorem C10_cex_abs_link_hyps :
    AbsClean c10Work ∧ pathSegs c10Work = c10W ∧ pathSegs c10Final = c10F ∧
    ¬ c10W <+: c10F ∧ ¬ c10F <+: c10W ∧
    (∀ e ∈ c10FsAbs, ¬ c10F <+: e.1) ∧
    c10FsAbs.get (c10W ++ ["d".toList]) = some (.link "/t/b/.tmp-1/a".toList) ∧
    isAbs "/t/b/.tmp-1/a".toList = true := by
  refine ⟨by unfold AbsClean; decide, ?_⟩
  decide

/-! ## 5. what the ignore rules exclude is removed -/

/-- **C10_ignored_removed.** A visited path (file, link, directory, anything) that the rules exclude
is removed with everything below it, and the walk goes on. -/
theorem C10_ignored_removed (rules : List Rule) (root : Str) (fs : FS) (absPath : Str) (node : Node)
    (rel : Str) (hrel : pathRel root absPath = some rel) (hdot : rel ≠ dot)
    (hex : (excludes rules rel).1 = true) :
    prepVisit rules root fs absPath node = (fs.removeAll absPath, .cont) := by
  rw [prepVisit_eq]
  simp only [hrel, hdot, hex, if_false, if_true]

/-- a directory excluded only as a directory (`rel/` matches) is removed and not descended into -/
theorem C10_ignored_dir_removed (rules : List Rule) (root : Str) (fs : FS) (absPath : Str) (pm : Nat) (mt : Int)
    (rel : Str) (hrel : pathRel root absPath = some rel) (hdot : rel ≠ dot)
    (hex : (excludes rules rel).1 = false) (hexd : (excludes rules (rel ++ ['/'])).1 = true) :
    prepVisit rules root fs absPath (.dir pm mt) = (fs.removeAll absPath, .skipDir) := by
  rw [prepVisit_eq]
  simp only [hrel, hdot, hex, hexd, snIsDir, Bool.and_self, if_false, if_true, Bool.false_eq_true]

/-- … and `RemoveAll` does remove it: when the components of the path above the last are real
directories and `Lstat` found the node, nothing stays bound at or below its physical location. -/
theorem C10_ignored_removed_gone (fs : FS) (absPath : Str) (node : Node) (hc : AbsClean absPath)
    (hreal : RealDir fs (pathSegs absPath).dropLast) (hne : pathSegs absPath ≠ [])
    (hl : fs.lstat absPath = .ok node) :
    ∀ q, pathSegs absPath <+: q → (fs.removeAll absPath).get q = none :=
  sn_removeAll_gone (sanAt_of_realParent hc hreal) hne hl

/-- the same for any path the walk visits (`SanAt`: no link above the last component) -/
theorem C10_ignored_removed_gone_at (W : PPath) (fs : FS) (absPath : Str) (node : Node)
    (hA : SanAt W fs absPath) (hne : pathSegs absPath ≠ []) (hl : fs.lstat absPath = .ok node) :
    ∀ q, pathSegs absPath <+: q → (fs.removeAll absPath).get q = none :=
  sn_removeAll_gone hA hne hl

/-! ## 6. the walk only deletes, and only below the work directory -/

/-- **C10_only_deletes.** Whatever the tree, the rules and the result, the walk only removes
bindings. -/
theorem C10_only_deletes (rules : List Rule) (root : Str) (fuel : Nat) (fs : FS) (path : Str) (node : Node) :
    ∀ q, (prepWalk rules root fuel fs path node).1.get q = fs.get q ∨
      (prepWalk rules root fuel fs path node).1.get q = none :=
  (snSub_walk rules root fuel).1 fs path node

/-- every path handed to the callback below a walked directory is as `SanAt` says: the start of the
walk of the work directory -/
theorem C10_work_is_sanAt (fs : FS) (work : Str) (hc : AbsClean work) (hreal : RealDir fs (pathSegs work)) :
    SanAt (pathSegs work) fs work := sanAt_root hc hreal

/-- **C10_frame.** The walk of the work directory changes nothing outside it: a binding is either
kept, or it was at or below `W` and is gone. -/
theorem C10_frame (rules : List Rule) (root : Str) (fuel : Nat) (fs : FS) (work : Str) (node : Node)
    (hc : AbsClean work) (hreal : RealDir fs (pathSegs work)) (hN : SanNames (pathSegs work) fs)
    (hl : fs.lstat work = .ok node) :
    ∀ q, ¬ pathSegs work <+: q → (prepWalk rules root fuel fs work node).1.get q = fs.get q :=
  ((snStep_walk rules root (pathSegs work) fuel).1 fs work node hN (sanAt_root hc hreal) hl).frame

/-- the walk keeps `KeysPhysical` (whole subtrees are removed) -/
theorem C10_walk_keysPhysical (rules : List Rule) (root : Str) (fuel : Nat) (fs : FS) (work : Str) (node : Node)
    (hc : AbsClean work) (hreal : RealDir fs (pathSegs work)) (hN : SanNames (pathSegs work) fs)
    (hl : fs.lstat work = .ok node) (hk : KeysPhysical fs) :
    KeysPhysical (prepWalk rules root fuel fs work node).1 :=
  ((snStep_walk rules root (pathSegs work) fuel).1 fs work node hN (sanAt_root hc hreal) hl).keys hk

/-- after the walk the work directory still resolves to itself -/
theorem sn_work_resolves {fs fs1 : FS} {work : Str} (hc : AbsClean work) (hreal : RealDir fs (pathSegs work))
    (hs : SnSub fs1 fs) {wp : PPath} (h : fs1.resolvePath work true = .ok wp) :
    wp = pathSegs work ∧ fs1.resolvePath work false = .ok (pathSegs work) := by
  have hA : SanAt (pathSegs work) fs1 work := (sanAt_root hc hreal).sub hs
  have hnl := sn_notLink_sub hs (sn_root_notLink hreal)
  rw [hA.resolve_eq hnl] at h
  have := hA.resolve_false h
  subst this
  exact ⟨rfl, h⟩

/-- **C10_frame_ensure.** `ensurePrepared` — walk, hash, rename or drop — changes nothing outside
the work directory and the final directory, whatever the result. -/
theorem C10_frame_ensure (fs : FS) (work final : Str)
    (hc : AbsClean work) (hreal : RealDir fs (pathSegs work)) (hN : SanNames (pathSegs work) fs) :
    ∀ q, ¬ pathSegs work <+: q → ¬ pathSegs final <+: q →
      (ensurePrepared fs work final).1.get q = fs.get q := by
  intro q hq1 hq2
  rcases sn_ensure_fst fs work final with e | ⟨n, hl, e⟩
  · rw [e]
  · have hstep := (snStep_walk (snRules fs work) work (pathSegs work) prepFuel).1 fs work n hN
      (sanAt_root hc hreal) hl
    generalize (prepWalk (snRules fs work) work prepFuel fs work n).1 = fs1 at hstep e
    have hA : SanAt (pathSegs work) fs1 work := (sanAt_root hc hreal).sub hstep.sub
    rcases e with e | e
    · rw [e]; exact hstep.frame q hq1
    · rw [e]
      rcases sn_finish_fst fs1 work final with e' | e' | ⟨wp, hwp, e'⟩
      · rw [e']; exact hstep.frame q hq1
      · rw [e', (snStep_removeAll hA).frame q hq1]; exact hstep.frame q hq1
      · obtain ⟨rfl, _⟩ := sn_work_resolves hc hreal hstep.sub hwp
        rw [e', sn_renameDir_frame _ _ _ _ hq1 hq2]; exact hstep.frame q hq1

/-! ## 7. no temporary directory is left -/

/-- **C10_no_tmp_left.** After a successful `ensurePrepared` no name at or below the work directory is
bound any more (the final directory is neither inside the work directory nor above it). -/
theorem C10_no_tmp_left (fs : FS) (work final : Str) (fs' : FS) (d : PPath)
    (hc : AbsClean work) (hreal : RealDir fs (pathSegs work))
    (h1 : ¬ pathSegs work <+: pathSegs final) (h2 : ¬ pathSegs final <+: pathSegs work)
    (h : ensurePrepared fs work final = (fs', .ok d)) :
    d = pathSegs final ∧ ∀ q, pathSegs work <+: q → fs'.get q = none := by
  obtain ⟨n, fs1, r, hl, hw, _, hf⟩ := sn_ensure_ok h
  obtain ⟨wp, hwp, _, hd, hcase⟩ := sn_finish_ok hf
  refine ⟨hd, ?_⟩
  have hs : SnSub fs1 fs := by
    have := (snSub_walk (snRules fs work) work prepFuel).1 fs work n
    rw [hw] at this; exact this
  obtain ⟨rfl, hres⟩ := sn_work_resolves hc hreal hs hwp
  have hWne : pathSegs work ≠ [] := by
    intro e; apply h1; rw [e]; exact List.nil_prefix
  intro q hq
  rcases hcase with e | e
  · rw [e]
    unfold FS.removeAll
    rw [hres]
    simp only [hWne, if_false]
    rw [sn_get_delTree, if_pos hq]
  · rw [e]
    exact sn_renameDir_src_gone fs1 _ _ q h1 h2 hq

end Slug
