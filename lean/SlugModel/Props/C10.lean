import SlugModel.Lemmas.SanitiseInv
/-!
# C10 — What the package preparation of `ensureRemotePackage` leaves behind

Property theorems only; helper lemmas live in `Lemmas/SanitiseInv` (what the preparation walk
changes and checks), `Lemmas/Resolve`, `Lemmas/FSFrame`, `Lemmas/PathSegs`.  `prepVisit`,
`prepWalk`/`prepChildren`, `hashable`, `ensurePrepared` are the model of `packagePrepareWalkFn`,
`filepath.Walk`, `dirhash.HashDir` and the tail of `Builder.ensureRemotePackage` (tied to the code
by the `sanitise` lane); `FS`, `resolve` the model of the kernel.

Vocabulary (`W = pathSegs work`, the physical components of the temporary work directory,
`F = pathSegs final`):
* `AbsClean work` — `work` is absolute and clean.
* `RealDir fs W` — every prefix of `W` is a directory (no link among the components of `work`).
* `KeysPhysical fs` — every bound path's parent is bound to a directory.
* `SanNames W fs` — the components of every key bound at or below `W` are names a directory entry
  can have (not `""`, `.`, `..`, no `/`); needed because `FS` is an abstract map
  (`C10_cex_frame_nonplain_key`).
* `SanAt W fs path` — `path` is absolute, clean, at or below `W`, and no proper prefix of it is a
  link: every path the walk hands to the callback is like that.
* `snIsDir node` — the node is a directory; `snCheck fs root rel` — the containment and kind check of
  the callback (`sn_prepVisit_eq` is the callback in normal form).
* `snRules fs work` — the ignore rules `ensurePrepared` loads.
* `SanGood rules work fs' k n` — the binding `k ↦ n` has passed the callback: `k` is the root, or
  its relative path is not excluded, `SanKind`: `n` is a regular file, a directory, or a link that
  resolved (when visited) to a regular file or directory physically at or below `W`, and `snLinkOK`.
* `snLinkOK rel node` — the lexical check of the callback: a link's target is relative and
  `filepath.IsLocal (Join (Dir rel) target)`.

Findings recorded here:
* F31 (repaired) `C10_abs_link_into_workdir_refused`, `C10_rel_link_through_workdir_name_refused`: the
  physical checks are made while the package still has its temporary name; a link whose target
  mentions that name (absolute, or relative through `../.tmp-N/`) used to pass the walk and the hash
  and dangle after the rename.  The callback now also requires a relative target that is local when
  joined to the link's directory (`snLinkOK`, `C10_fail_on_nonlocal_link`); with that,
  `C10_links_survive_rename` / `C10_sanitised` speak of the finished package, after the rename, with
  no hypothesis on the links of the fetched tree.
* `C10_walk_alone_not_enough`: the lexical and the physical check of the walk together still let a
  link through that dangles after the rename (`l -> z/../.tmp-1/a` with `z -> .`); it is the hash,
  which refuses links to directories, that stops it — `C10_links_survive_rename` uses all three.
* `C10_cex_tmp_left_on_failure`: when the preparation fails the temporary directory is left behind.
-/
namespace Slug

/-! ## 1. decision logic of the callback -/

/-- **C10_fail_on_dangling.** A visited path that is not excluded and whose physical resolution
fails (a dangling link, a loop) makes the callback fail; nothing is changed. -/
theorem C10_fail_on_dangling (rules : List Rule) (root : Str) (fs : FS) (absPath : Str) (node : Node)
    (rel : Str) (absRoot : PPath)
    (hrel : pathRel root absPath = some rel) (hdot : rel ≠ dot)
    (hex : (excludes rules rel).1 = false)
    (hexd : (snIsDir node && (excludes rules (rel ++ ['/'])).1) = false)
    (hroot : fs.evalSymlinks root = some absRoot)
    (hdang : fs.evalSymlinks (pathJoin (ofSegs absRoot) rel) = none) :
    prepVisit rules root fs absPath node = (fs, .fail) := by
  rw [sn_prepVisit_eq]
  simp only [hrel, hdot, hex, hexd, if_false, Bool.false_eq_true]
  rw [sn_visit_tail_fail]
  unfold snCheck
  simp only [hroot, hdang]

/-- **C10_fail_on_escape.** … whose physical resolution lands outside the (physical) root makes the
callback fail. -/
theorem C10_fail_on_escape (rules : List Rule) (root : Str) (fs : FS) (absPath : Str) (node : Node)
    (rel : Str) (absRoot real : PPath)
    (hrel : pathRel root absPath = some rel) (hdot : rel ≠ dot)
    (hex : (excludes rules rel).1 = false)
    (hexd : (snIsDir node && (excludes rules (rel ++ ['/'])).1) = false)
    (hroot : fs.evalSymlinks root = some absRoot)
    (hreal : fs.evalSymlinks (pathJoin (ofSegs absRoot) rel) = some real)
    (hesc : ¬ absRoot <+: real) :
    prepVisit rules root fs absPath node = (fs, .fail) := by
  rw [sn_prepVisit_eq]
  simp only [hrel, hdot, hex, hexd, if_false, Bool.false_eq_true]
  rw [sn_visit_tail_fail]
  unfold snCheck
  have : absRoot.isPrefixOf real = false := by
    cases hb : absRoot.isPrefixOf real with
    | false => rfl
    | true => exact absurd (List.isPrefixOf_iff_prefix.mp hb) hesc
  simp only [hroot, hreal, this, Bool.not_false, if_true]

/-- … that resolves to anything but a regular file or a directory makes the callback fail. -/
theorem C10_fail_unless_file_or_dir (rules : List Rule) (root : Str) (fs : FS) (absPath : Str) (node : Node)
    (rel : Str) (absRoot real : PPath)
    (hrel : pathRel root absPath = some rel) (hdot : rel ≠ dot)
    (hex : (excludes rules rel).1 = false)
    (hexd : (snIsDir node && (excludes rules (rel ++ ['/'])).1) = false)
    (hroot : fs.evalSymlinks root = some absRoot)
    (hreal : fs.evalSymlinks (pathJoin (ofSegs absRoot) rel) = some real)
    (hf : ∀ pm mt c, fs.lookup real ≠ some (.file pm mt c))
    (hd : ∀ pm mt, fs.lookup real ≠ some (.dir pm mt)) :
    prepVisit rules root fs absPath node = (fs, .fail) := by
  rw [sn_prepVisit_eq]
  simp only [hrel, hdot, hex, hexd, if_false, Bool.false_eq_true]
  rw [sn_visit_tail_fail]
  unfold snCheck
  simp only [hroot, hreal]
  cases hl : fs.lookup real with
  | none => split <;> rfl
  | some n =>
    cases n with
    | file pm mt c => exact absurd hl (hf pm mt c)
    | dir pm mt => exact absurd hl (hd pm mt)
    | link t => split <;> rfl
    | special => split <;> rfl

/-- **C10_fail_on_special.** … that resolves to a special file (fifo, socket, device) — or to a link,
which cannot happen after a resolution — makes the callback fail. -/
theorem C10_fail_on_special (rules : List Rule) (root : Str) (fs : FS) (absPath : Str) (node : Node)
    (rel : Str) (absRoot real : PPath)
    (hrel : pathRel root absPath = some rel) (hdot : rel ≠ dot)
    (hex : (excludes rules rel).1 = false)
    (hexd : (snIsDir node && (excludes rules (rel ++ ['/'])).1) = false)
    (hroot : fs.evalSymlinks root = some absRoot)
    (hreal : fs.evalSymlinks (pathJoin (ofSegs absRoot) rel) = some real)
    (hk : fs.lookup real = some .special ∨ ∃ t, fs.lookup real = some (.link t)) :
    prepVisit rules root fs absPath node = (fs, .fail) := by
  apply C10_fail_unless_file_or_dir rules root fs absPath node rel absRoot real hrel hdot hex hexd hroot hreal
  · intro pm mt c h
    rcases hk with e | ⟨t, e⟩ <;> rw [e] at h <;> cases h
  · intro pm mt h
    rcases hk with e | ⟨t, e⟩ <;> rw [e] at h <;> cases h

/-- a root that does not resolve, or a path that is not relative to the root, fails as well -/
theorem C10_fail_on_missing_root (rules : List Rule) (root : Str) (fs : FS) (absPath : Str) (node : Node)
    (rel : Str) (hrel : pathRel root absPath = some rel) (hdot : rel ≠ dot)
    (hex : (excludes rules rel).1 = false)
    (hexd : (snIsDir node && (excludes rules (rel ++ ['/'])).1) = false)
    (hroot : fs.evalSymlinks root = none) :
    prepVisit rules root fs absPath node = (fs, .fail) := by
  rw [sn_prepVisit_eq]
  simp only [hrel, hdot, hex, hexd, if_false, Bool.false_eq_true]
  rw [sn_visit_tail_fail]
  unfold snCheck
  simp only [hroot]

/-- **C10_fail_on_nonlocal_link.** A visited link that is not excluded and whose target is absolute,
or leaves the package as written when joined to the link's directory (`!filepath.IsLocal`), makes the
callback fail — wherever it resolves (repair of F31). -/
theorem C10_fail_on_nonlocal_link (rules : List Rule) (root : Str) (fs : FS) (absPath : Str) (t : Str)
    (rel : Str) (hrel : pathRel root absPath = some rel) (hdot : rel ≠ dot)
    (hex : (excludes rules rel).1 = false)
    (hbad : isAbs t = true ∨ isLocal (pathJoin (pathDir rel) t) = false) :
    prepVisit rules root fs absPath (.link t) = (fs, .fail) := by
  rw [sn_prepVisit_eq]
  simp only [hrel, hdot, hex, if_false, Bool.false_eq_true, snIsDir, Bool.false_and]
  have : snLinkOK rel (.link t) = false := by
    rcases hbad with e | e <;> simp [snLinkOK, e]
  rw [this]
  simp

/-! ### `.fail` propagates -/

/-- a failing child makes the loop over the directory fail, in the state the child left -/
theorem C10_fail_propagates_children (rules : List Rule) (root : Str) (fuel : Nat) (fs : FS) (path name : Str)
    (rest : List Str) (child : Node) (fs1 : FS)
    (hl : fs.lstat (pathJoin path name) = .ok child)
    (hw : prepWalk rules root fuel fs (pathJoin path name) child = (fs1, .fail)) :
    prepChildren rules root (fuel + 1) fs path (name :: rest) = (fs1, .fail) := by
  rw [prepChildren]
  simp only [hl, hw]

/-- a child that cannot be `Lstat`ed makes the loop fail -/
theorem C10_fail_on_lstat_error (rules : List Rule) (root : Str) (fuel : Nat) (fs : FS) (path name : Str)
    (rest : List Str) (e : Errno) (hl : fs.lstat (pathJoin path name) = .error e) :
    prepChildren rules root (fuel + 1) fs path (name :: rest) = (fs, .fail) := by
  rw [prepChildren]
  simp only [hl]

/-- after a child that was accepted (or a directory that was skipped) the loop goes on with the
remaining names: a later failure is the result of the loop -/
theorem C10_children_step (rules : List Rule) (root : Str) (fuel : Nat) (fs : FS) (path name : Str)
    (rest : List Str) (child : Node) (fs1 : FS) (r : SRes)
    (hl : fs.lstat (pathJoin path name) = .ok child)
    (hw : prepWalk rules root fuel fs (pathJoin path name) child = (fs1, r))
    (hr : r = .cont ∨ (r = .skipDir ∧ snIsDir child = true)) :
    prepChildren rules root (fuel + 1) fs path (name :: rest) = prepChildren rules root fuel fs1 path rest := by
  rw [prepChildren]
  simp only [hl, hw]
  rcases hr with rfl | ⟨rfl, hd⟩
  · rfl
  · cases child with
    | dir pm mt => rfl
    | file pm mt c => cases hd
    | link t => cases hd
    | special => cases hd

/-- a directory on which the callback fails makes the walk of that directory fail -/
theorem C10_fail_propagates_walk (rules : List Rule) (root : Str) (fuel : Nat) (fs : FS) (path : Str)
    (node : Node) (fs1 : FS) (hv : prepVisit rules root fs path node = (fs1, .fail)) :
    prepWalk rules root (fuel + 1) fs path node = (fs1, .fail) := by
  cases node with
  | dir pm mt => rw [prepWalk]; simp only [hv]
  | file pm mt c => rw [prepWalk]; exact hv; intro _ _ h; cases h
  | link t => rw [prepWalk]; exact hv; intro _ _ h; cases h
  | special => rw [prepWalk]; exact hv; intro _ _ h; cases h

/-- a directory the callback accepts is walked: the result is the result of the loop over its names
(read before the callback ran) -/
theorem C10_walk_dir_step (rules : List Rule) (root : Str) (fuel : Nat) (fs : FS) (path : Str)
    (pm : Nat) (mt : Int) (fs1 : FS) (p : PPath)
    (hp : fs.resolvePath path true = .ok p)
    (hv : prepVisit rules root fs path (.dir pm mt) = (fs1, .cont)) :
    prepWalk rules root (fuel + 1) fs path (.dir pm mt) = prepChildren rules root fuel fs1 path (fs.readdir p) := by
  rw [prepWalk]
  simp only [hv, hp]

/-- a failing walk makes `ensurePrepared` fail, in the state the walk left -/
theorem C10_fail_propagates_ensure (fs : FS) (work final : Str) (n : Node) (fs1 : FS)
    (hl : fs.lstat work = .ok n)
    (hw : prepWalk (snRules fs work) work prepFuel fs work n = (fs1, .fail)) :
    ensurePrepared fs work final = (fs1, .fail) := by
  rw [sn_ensurePrepared_eq]
  simp only [hl, hw]

/-! ## 2. what an accepted path looks like -/

/-- **C10_visited_ok.** If the callback lets a path that is not excluded pass, it has changed nothing,
and in that state the root and the path both resolve physically, the path at or below the physical
root, to a regular file or a directory. -/
theorem C10_visited_ok (rules : List Rule) (root : Str) (fs fs' : FS) (absPath : Str) (node : Node)
    (rel : Str) (hrel : pathRel root absPath = some rel) (hdot : rel ≠ dot)
    (hex : (excludes rules rel).1 = false)
    (h : prepVisit rules root fs absPath node = (fs', .cont)) :
    fs' = fs ∧
    ∃ absRoot real, fs.evalSymlinks root = some absRoot ∧
      fs.evalSymlinks (pathJoin (ofSegs absRoot) rel) = some real ∧ absRoot <+: real ∧
      ((∃ pm mt c, fs.lookup real = some (.file pm mt c)) ∨ (∃ pm mt, fs.lookup real = some (.dir pm mt))) := by
  rw [sn_prepVisit_eq] at h
  simp only [hrel, hdot, hex, if_false, Bool.false_eq_true] at h
  split at h
  · cases h
  · have h1 : fs = fs' := congrArg Prod.fst h
    have h2 : (if snLinkOK rel node then snCheck fs root rel else .fail) = SRes.cont := congrArg Prod.snd h
    split at h2
    · exact ⟨h1.symm, sn_check_cont h2⟩
    · cases h2

/-- **C10_visited_link_ok.** … and if the path is a link, its target is relative and, joined to the
directory of the link (relative to the root), stays inside the root as written (`filepath.IsLocal`):
the link does not depend on the name the package directory has while it is prepared. -/
theorem C10_visited_link_ok (rules : List Rule) (root : Str) (fs fs' : FS) (absPath : Str) (t : Str)
    (rel : Str) (hrel : pathRel root absPath = some rel) (hdot : rel ≠ dot)
    (hex : (excludes rules rel).1 = false)
    (h : prepVisit rules root fs absPath (.link t) = (fs', .cont)) :
    isAbs t = false ∧ isLocal (pathJoin (pathDir rel) t) = true := by
  rw [sn_prepVisit_eq] at h
  simp only [hrel, hdot, hex, if_false, Bool.false_eq_true, snIsDir, Bool.false_and] at h
  have h2 : (if snLinkOK rel (.link t) then snCheck fs root rel else .fail) = SRes.cont := congrArg Prod.snd h
  split at h2
  · rename_i hok
    simpa [snLinkOK] using hok
  · cases h2

/-- the callback never answers `SkipDir` for anything but a directory -/
theorem C10_skipDir_only_dirs (rules : List Rule) (root : Str) (fs fs' : FS) (absPath : Str) (node : Node)
    (h : prepVisit rules root fs absPath node = (fs', .skipDir)) : snIsDir node = true :=
  sn_skipDir_only_dirs h

/-! ## 3. the hash opens every non-directory -/

/-- a successful hash has read every non-directory bound below `dir` -/
theorem C10_hash_reads_all (fs : FS) (dir : PPath) (h : hashable fs dir = true) :
    ∀ k n, fs.get k = some n → dir <+: k → k ≠ dir → (∀ pm mt, n ≠ .dir pm mt) →
      ∃ c, fs.readFile (ofSegs k) = .ok c :=
  sn_hashable h

/-- **C10_hash_rejects_bad_links.** If the hash succeeds, every link bound below `dir` can be opened
and read: its path resolves physically to a regular file — not to a directory, not to nothing. -/
theorem C10_hash_rejects_bad_links (fs : FS) (dir : PPath) (h : hashable fs dir = true) :
    ∀ k t, fs.get k = some (.link t) → dir <+: k → k ≠ dir →
      ∃ real pm mt c, fs.readFile (ofSegs k) = .ok c ∧ fs.evalSymlinks (ofSegs k) = some real ∧
        fs.lookup real = some (.file pm mt c) := by
  intro k t hg hu hne
  obtain ⟨c, hc⟩ := sn_hashable h k _ hg hu hne (by intro pm mt e; cases e)
  obtain ⟨p, pm, mt, h1, h2⟩ := sn_readFile_ok hc
  exact ⟨p, pm, mt, c, hc, sn_evalSymlinks_of_resolve h1 h2, h2⟩

/-- a link that dangles or points to a directory makes the hash fail -/
theorem C10_hash_fails_on_bad_link (fs : FS) (dir k : PPath) (t : Str)
    (hg : fs.get k = some (.link t)) (hu : dir <+: k) (hne : k ≠ dir)
    (hbad : fs.evalSymlinks (ofSegs k) = none ∨
      ∃ real pm mt, fs.evalSymlinks (ofSegs k) = some real ∧ fs.lookup real = some (.dir pm mt)) :
    hashable fs dir = false := by
  cases hh : hashable fs dir with
  | false => rfl
  | true =>
    obtain ⟨real, pm, mt, c, _, h1, h2⟩ := C10_hash_rejects_bad_links fs dir hh k t hg hu hne
    rcases hbad with e | ⟨real', pm', mt', e1, e2⟩
    · rw [e] at h1; cases h1
    · rw [e1] at h1; cases h1; rw [e2] at h2; cases h2

/-- **C10_no_bad_link_before_rename.** After a successful `ensurePrepared`, in the state `fs1` the
walk left — the one that is hashed, then renamed — every link below the (physical) work directory
reads as a regular file: no dangling link and no link to a directory. -/
theorem C10_no_bad_link_before_rename (fs : FS) (work final : Str) (fs' : FS) (d : PPath)
    (h : ensurePrepared fs work final = (fs', .ok d)) :
    ∃ n fs1 r wp, fs.lstat work = .ok n ∧
      prepWalk (snRules fs work) work prepFuel fs work n = (fs1, r) ∧
      fs1.resolvePath work true = .ok wp ∧
      (fs' = fs1.removeAll work ∨ fs' = fs1.renameDir wp (pathSegs final)) ∧
      ∀ k t, fs1.get k = some (.link t) → wp <+: k → k ≠ wp →
        ∃ real pm mt c, fs1.evalSymlinks (ofSegs k) = some real ∧ fs1.lookup real = some (.file pm mt c) := by
  obtain ⟨n, fs1, r, hl, hw, _, hf⟩ := sn_ensure_ok h
  obtain ⟨wp, hwp, hh, _, hcase⟩ := sn_finish_ok hf
  refine ⟨n, fs1, r, wp, hl, hw, hwp, hcase, ?_⟩
  intro k t hg hu hne
  obtain ⟨real, pm, mt, c, _, h1, h2⟩ := C10_hash_rejects_bad_links fs1 wp hh k t hg hu hne
  exact ⟨real, pm, mt, c, h1, h2⟩

/-! ## 4. an absolute link into the work directory is refused (finding F31, repaired) -/

def c10Work : Str := "/t/b/.tmp-1".toList
def c10Final : Str := "/t/b/HASH".toList
def c10W : PPath := ["t","b",".tmp-1"].map String.toList
def c10F : PPath := ["t","b","HASH"].map String.toList

/-- `/t/b/.tmp-1` holding a file `a` and a link `d -> /t/b/.tmp-1/a` (absolute, into the work
directory itself) -/
def c10FsAbs : FS :=
  [(["t","b",".tmp-1","d"].map String.toList, .link "/t/b/.tmp-1/a".toList),
   (["t","b",".tmp-1","a"].map String.toList, .file 0o644 0 "x".toList),
   (["t","b",".tmp-1"].map String.toList, .dir 0o755 0),
   (["t","b"].map String.toList, .dir 0o755 0),
   (["t"].map String.toList, .dir 0o755 0)]

/-- **C10_abs_link_into_workdir_refused.** (F31, repaired.)  The link `d -> /t/b/.tmp-1/a` resolves
inside the work directory while the walk runs and would read as a regular file when the tree is
hashed — and would dangle after the rename to `/t/b/HASH`.  The callback now refuses it because its
target is absolute: `ensurePrepared` fails and nothing is changed. -/
theorem C10_abs_link_into_workdir_refused :
    ensurePrepared c10FsAbs c10Work c10Final = (c10FsAbs, .fail) := by decide

/-- it is the lexical check alone that refuses it: the filesystem satisfies the standing hypotheses,
nothing is bound at the final name, and the link resolves physically to the regular file `a` inside
the work directory -/
theorem C10_abs_link_refused_hyps :
    AbsClean c10Work ∧ pathSegs c10Work = c10W ∧ pathSegs c10Final = c10F ∧
    ¬ c10W <+: c10F ∧ ¬ c10F <+: c10W ∧ SanCheck c10FsAbs c10W ∧
    (∀ e ∈ c10FsAbs, ¬ c10F <+: e.1) ∧
    c10FsAbs.get (c10W ++ ["d".toList]) = some (.link "/t/b/.tmp-1/a".toList) ∧
    c10FsAbs.evalSymlinks "/t/b/.tmp-1/d".toList = some (c10W ++ ["a".toList]) ∧
    isAbs "/t/b/.tmp-1/a".toList = true := by
  refine ⟨by unfold AbsClean; decide, ?_⟩
  decide

/-! ## 5. what the ignore rules exclude is removed -/

/-- **C10_ignored_removed.** A visited path (file, link, directory, anything) that the rules exclude
is removed with everything below it, and the walk goes on. -/
theorem C10_ignored_removed (rules : List Rule) (root : Str) (fs : FS) (absPath : Str) (node : Node)
    (rel : Str) (hrel : pathRel root absPath = some rel) (hdot : rel ≠ dot)
    (hex : (excludes rules rel).1 = true) :
    prepVisit rules root fs absPath node = (fs.removeAll absPath, .cont) := by
  rw [sn_prepVisit_eq]
  simp only [hrel, hdot, hex, if_false, if_true]

/-- a directory excluded only as a directory (`rel/` matches) is removed and not descended into -/
theorem C10_ignored_dir_removed (rules : List Rule) (root : Str) (fs : FS) (absPath : Str) (pm : Nat) (mt : Int)
    (rel : Str) (hrel : pathRel root absPath = some rel) (hdot : rel ≠ dot)
    (hex : (excludes rules rel).1 = false) (hexd : (excludes rules (rel ++ ['/'])).1 = true) :
    prepVisit rules root fs absPath (.dir pm mt) = (fs.removeAll absPath, .skipDir) := by
  rw [sn_prepVisit_eq]
  simp only [hrel, hdot, hex, hexd, snIsDir, Bool.and_self, if_false, if_true, Bool.false_eq_true]

/-- … and `RemoveAll` does remove it: when the components of the path above the last are real
directories and `Lstat` found the node, nothing stays bound at or below its physical location. -/
theorem C10_ignored_removed_gone (fs : FS) (absPath : Str) (node : Node) (hc : AbsClean absPath)
    (hreal : RealDir fs (pathSegs absPath).dropLast) (hne : pathSegs absPath ≠ [])
    (hl : fs.lstat absPath = .ok node) :
    ∀ q, pathSegs absPath <+: q → (fs.removeAll absPath).get q = none :=
  sn_removeAll_gone (sanAt_of_realParent hc hreal) hne hl

/-- the same for any path the walk visits (`SanAt`: no link above the last component) -/
theorem C10_ignored_removed_gone_at (W : PPath) (fs : FS) (absPath : Str) (node : Node)
    (hA : SanAt W fs absPath) (hne : pathSegs absPath ≠ []) (hl : fs.lstat absPath = .ok node) :
    ∀ q, pathSegs absPath <+: q → (fs.removeAll absPath).get q = none :=
  sn_removeAll_gone hA hne hl

/-! ## 6. the walk only deletes, and only below the work directory -/

/-- **C10_only_deletes.** Whatever the tree, the rules and the result, the walk only removes
bindings. -/
theorem C10_only_deletes (rules : List Rule) (root : Str) (fuel : Nat) (fs : FS) (path : Str) (node : Node) :
    ∀ q, (prepWalk rules root fuel fs path node).1.get q = fs.get q ∨
      (prepWalk rules root fuel fs path node).1.get q = none :=
  (snSub_walk rules root fuel).1 fs path node

/-- every path handed to the callback below a walked directory is as `SanAt` says: the start of the
walk of the work directory -/
theorem C10_work_is_sanAt (fs : FS) (work : Str) (hc : AbsClean work) (hreal : RealDir fs (pathSegs work)) :
    SanAt (pathSegs work) fs work := sanAt_root hc hreal

/-- **C10_frame.** The walk of the work directory changes nothing outside it: a binding is either
kept, or it was at or below `W` and is gone. -/
theorem C10_frame (rules : List Rule) (root : Str) (fuel : Nat) (fs : FS) (work : Str) (node : Node)
    (hc : AbsClean work) (hreal : RealDir fs (pathSegs work)) (hN : SanNames (pathSegs work) fs)
    (hl : fs.lstat work = .ok node) :
    ∀ q, ¬ pathSegs work <+: q → (prepWalk rules root fuel fs work node).1.get q = fs.get q :=
  ((snStep_walk rules root (pathSegs work) fuel).1 fs work node hN (sanAt_root hc hreal) hl).frame

/-- the walk keeps `KeysPhysical` (whole subtrees are removed) -/
theorem C10_walk_keysPhysical (rules : List Rule) (root : Str) (fuel : Nat) (fs : FS) (work : Str) (node : Node)
    (hc : AbsClean work) (hreal : RealDir fs (pathSegs work)) (hN : SanNames (pathSegs work) fs)
    (hl : fs.lstat work = .ok node) (hk : KeysPhysical fs) :
    KeysPhysical (prepWalk rules root fuel fs work node).1 :=
  ((snStep_walk rules root (pathSegs work) fuel).1 fs work node hN (sanAt_root hc hreal) hl).keys hk

/-- **C10_frame_ensure.** `ensurePrepared` — walk, hash, rename or drop — changes nothing outside
the work directory and the final directory, whatever the result. -/
theorem C10_frame_ensure (fs : FS) (work final : Str)
    (hc : AbsClean work) (hreal : RealDir fs (pathSegs work)) (hN : SanNames (pathSegs work) fs) :
    ∀ q, ¬ pathSegs work <+: q → ¬ pathSegs final <+: q →
      (ensurePrepared fs work final).1.get q = fs.get q := by
  intro q hq1 hq2
  rcases sn_ensure_fst fs work final with e | ⟨n, hl, e⟩
  · rw [e]
  · have hstep := (snStep_walk (snRules fs work) work (pathSegs work) prepFuel).1 fs work n hN
      (sanAt_root hc hreal) hl
    generalize (prepWalk (snRules fs work) work prepFuel fs work n).1 = fs1 at hstep e
    have hA : SanAt (pathSegs work) fs1 work := (sanAt_root hc hreal).sub hstep.sub
    rcases e with e | e
    · rw [e]; exact hstep.frame q hq1
    · rw [e]
      rcases sn_finish_fst fs1 work final with e' | e' | ⟨wp, hwp, e'⟩
      · rw [e']; exact hstep.frame q hq1
      · rw [e', (snStep_removeAll hA).frame q hq1]; exact hstep.frame q hq1
      · obtain ⟨rfl, _⟩ := sn_work_resolves hc hreal hstep.sub hwp
        rw [e', sn_renameDir_frame _ _ _ _ hq1 hq2]; exact hstep.frame q hq1

/-! ## 7. no temporary directory is left -/

/-- **C10_no_tmp_left.** After a successful `ensurePrepared` no name at or below the work directory is
bound any more (the final directory is neither inside the work directory nor above it). -/
theorem C10_no_tmp_left (fs : FS) (work final : Str) (fs' : FS) (d : PPath)
    (hc : AbsClean work) (hreal : RealDir fs (pathSegs work))
    (h1 : ¬ pathSegs work <+: pathSegs final) (h2 : ¬ pathSegs final <+: pathSegs work)
    (h : ensurePrepared fs work final = (fs', .ok d)) :
    d = pathSegs final ∧ ∀ q, pathSegs work <+: q → fs'.get q = none := by
  obtain ⟨n, fs1, r, hl, hw, _, hf⟩ := sn_ensure_ok h
  obtain ⟨wp, hwp, _, hd, hcase⟩ := sn_finish_ok hf
  refine ⟨hd, ?_⟩
  have hs : SnSub fs1 fs := by
    have := (snSub_walk (snRules fs work) work prepFuel).1 fs work n
    rw [hw] at this; exact this
  obtain ⟨rfl, hres⟩ := sn_work_resolves hc hreal hs hwp
  have hWne : pathSegs work ≠ [] := by
    intro e; apply h1; rw [e]; exact List.nil_prefix
  intro q hq
  rcases hcase with e | e
  · rw [e]
    unfold FS.removeAll
    rw [hres]
    simp only [hWne, if_false]
    rw [sn_get_delTree, if_pos hq]
  · rw [e]
    exact sn_renameDir_src_gone fs1 _ _ q h1 h2 hq

/-! ## 8. what a successful preparation has checked -/

/-- **C10_walk_sanitised.** If the walk of the work directory does not fail, every binding still
there at or below it has passed the callback (`SanGood`): it is the root, or the rules do not exclude
it and it is a regular file, a directory, or a link that resolved physically to a regular file or
directory inside the work directory (in the state in which it was visited). -/
theorem C10_walk_sanitised (rules : List Rule) (fuel : Nat) (fs : FS) (work : Str) (node : Node) (fs1 : FS)
    (r : SRes) (hc : AbsClean work) (hreal : RealDir fs (pathSegs work)) (hk : KeysPhysical fs)
    (hN : SanNames (pathSegs work) fs) (hl : fs.lstat work = .ok node)
    (hw : prepWalk rules work fuel fs work node = (fs1, r)) (hr : r = .cont ∨ r = .skipDir) :
    ∀ k n, fs1.get k = some n → pathSegs work <+: k → SanGood rules work fs1 k n :=
  (sn_walk_post rules work fs fuel).1 fs work node fs1 r ⟨hc, hreal, SnSub.refl _, hN, hk⟩
    (sanAt_root hc hreal) hl hw hr

/-- **C10_kept_links_relative_local.** Every link the walk of the work directory leaves (when it does
not fail) has a relative target which, joined to the directory of the link relative to the package
root, is local (`filepath.IsLocal`): as written it never climbs above the package root, so it does not
mention the name the package directory has during the preparation. -/
theorem C10_kept_links_relative_local (rules : List Rule) (fuel : Nat) (fs : FS) (work : Str) (node : Node)
    (fs1 : FS) (r : SRes) (hc : AbsClean work) (hreal : RealDir fs (pathSegs work)) (hk : KeysPhysical fs)
    (hN : SanNames (pathSegs work) fs) (hl : fs.lstat work = .ok node)
    (hw : prepWalk rules work fuel fs work node = (fs1, r)) (hr : r = .cont ∨ r = .skipDir) :
    ∀ x t, x ≠ [] → fs1.get (pathSegs work ++ x) = some (.link t) →
      isAbs t = false ∧ isLocal (pathJoin (pathDir (joinWith '/' x)) t) = true := by
  intro x t hx hg
  have hpre : pathSegs work <+: pathSegs work ++ x := List.prefix_append _ _
  have hs : SnSub fs1 fs := by
    have := (snSub_walk rules work fuel).1 fs work node
    rw [hw] at this; exact this
  have hxn : ∀ c ∈ x, NameNS c := fun c hcm =>
    hN _ _ (hs.get_some hg) hpre c (List.mem_append_right _ hcm)
  obtain ⟨hrel, hdot⟩ := sn_pathRel_below hc hxn hx
  obtain ⟨rel, hrel', hgood⟩ := C10_walk_sanitised rules fuel fs work node fs1 r hc hreal hk hN hl hw hr _ _ hg hpre
  rw [hrel] at hrel'
  cases hrel'
  rcases hgood with e | ⟨_, _, _, hlok⟩
  · exact absurd e hdot
  · simpa [snLinkOK] using hlok

/-- **C10_sanitised_before_rename.** After a successful `ensurePrepared`, in the state `fs1` that was
hashed and then renamed (or dropped): `fs1` is the fetched tree with some bindings below the work
directory removed, and every binding left strictly below the work directory
* is not excluded by the package's ignore rules (nor, for a directory, as `rel/`),
* is a regular file, a directory, or a link with a relative target that stays inside the package as
  written (`filepath.IsLocal` of the target joined to the link's directory) and whose path resolves
  physically, in `fs1`, to a regular file at or below the work directory. -/
theorem C10_sanitised_before_rename (fs : FS) (work final : Str) (fs' : FS) (d : PPath)
    (hc : AbsClean work) (hreal : RealDir fs (pathSegs work)) (hk : KeysPhysical fs)
    (hN : SanNames (pathSegs work) fs)
    (h : ensurePrepared fs work final = (fs', .ok d)) :
    ∃ fs1 : FS, (∀ q, fs1.get q = fs.get q ∨ (pathSegs work <+: q ∧ fs1.get q = none)) ∧
      KeysPhysical fs1 ∧
      (fs' = fs1.removeAll work ∨ fs' = fs1.renameDir (pathSegs work) (pathSegs final)) ∧
      ∀ x n, x ≠ [] → fs1.get (pathSegs work ++ x) = some n →
        (excludes (snRules fs work) (joinWith '/' x)).1 = false ∧
        (snIsDir n && (excludes (snRules fs work) (joinWith '/' x ++ ['/'])).1) = false ∧
        ((∃ pm mt c, n = .file pm mt c) ∨ (∃ pm mt, n = .dir pm mt) ∨
         ∃ t, n = .link t ∧ isAbs t = false ∧ isLocal (pathJoin (pathDir (joinWith '/' x)) t) = true ∧
           ∃ real pm mt c, fs1.evalSymlinks (ofSegs (pathSegs work ++ x)) = some real ∧
             pathSegs work <+: real ∧ fs1.lookup real = some (.file pm mt c)) := by
  obtain ⟨nd, fs1, r, hl, hw, hr, hf⟩ := sn_ensure_ok h
  obtain ⟨wp, hwp, hh, _, hcase⟩ := sn_finish_ok hf
  have hstep : SnStep (pathSegs work) fs fs1 := by
    have := (snStep_walk (snRules fs work) work (pathSegs work) prepFuel).1 fs work nd hN (sanAt_root hc hreal) hl
    rw [hw] at this; exact this
  obtain ⟨rfl, _⟩ := sn_work_resolves hc hreal hstep.sub hwp
  refine ⟨fs1, hstep.shrink, hstep.keys hk, hcase, ?_⟩
  intro x n hx hg
  have hpre : pathSegs work <+: pathSegs work ++ x := List.prefix_append _ _
  have hxn : ∀ c ∈ x, NameNS c := fun c hcm =>
    hN _ n (hstep.sub.get_some hg) hpre c (List.mem_append_right _ hcm)
  obtain ⟨hrel, hdot⟩ := sn_pathRel_below hc hxn hx
  obtain ⟨rel, hrel', hgood⟩ := C10_walk_sanitised _ _ fs work nd fs1 r hc hreal hk hN hl hw hr _ n hg hpre
  rw [hrel] at hrel'
  cases hrel'
  rcases hgood with e | ⟨h1, h2, h3⟩
  · exact absurd e hdot
  · refine ⟨h1, h2, ?_⟩
    cases n with
    | file pm mt c => exact Or.inl ⟨pm, mt, c, rfl⟩
    | dir pm mt => exact Or.inr (Or.inl ⟨pm, mt, rfl⟩)
    | special => exact h3.1.elim
    | link t =>
      obtain ⟨⟨fsk, realk, hsk, hek, hprek, _⟩, hlok⟩ := h3
      simp only [snLinkOK, Bool.and_eq_true, Bool.not_eq_true'] at hlok
      have hne : pathSegs work ++ x ≠ pathSegs work := by
        intro e
        have := congrArg List.length e
        simp only [List.length_append] at this
        exact hx (List.eq_nil_of_length_eq_zero (by omega))
      obtain ⟨real, pm, mt, c, _, he1, hl1⟩ := C10_hash_rejects_bad_links fs1 _ hh _ t hg hpre hne
      have := sn_evalSymlinks_mono hsk he1
      rw [hek] at this
      have e : realk = real := Option.some.inj this
      rw [e] at hprek
      exact Or.inr (Or.inr ⟨t, rfl, hlok.1, hlok.2, real, pm, mt, c, he1, hprek, hl1⟩)

/-- **C10_sanitised_partial.** The same about the directory `ensurePrepared` returns, when nothing
was bound at or below the final name beforehand: every binding strictly below the returned directory
is the binding the fetched tree had at the same place below the work directory, is not excluded by
the package's ignore rules, and is a regular file, a directory, or a link which — before the
rename, at its place in the work directory — resolved physically to a regular file inside the
work directory, and whose target is relative and lexically local.  (`_partial`: it speaks of the
links before the rename and needs no sibling hypothesis; `C10_sanitised` is the full statement, about
the finished package.) -/
theorem C10_sanitised_partial (fs : FS) (work final : Str) (fs' : FS) (d : PPath)
    (hc : AbsClean work) (hreal : RealDir fs (pathSegs work)) (hk : KeysPhysical fs)
    (hN : SanNames (pathSegs work) fs)
    (hfresh : ∀ q, pathSegs final <+: q → fs.get q = none)
    (h : ensurePrepared fs work final = (fs', .ok d)) :
    d = pathSegs final ∧
    ∃ fs1 : FS, (∀ q, fs1.get q = fs.get q ∨ (pathSegs work <+: q ∧ fs1.get q = none)) ∧
      ∀ x n, x ≠ [] → fs'.get (d ++ x) = some n →
        fs.get (pathSegs work ++ x) = some n ∧ fs1.get (pathSegs work ++ x) = some n ∧
        (excludes (snRules fs work) (joinWith '/' x)).1 = false ∧
        (snIsDir n && (excludes (snRules fs work) (joinWith '/' x ++ ['/'])).1) = false ∧
        ((∃ pm mt c, n = .file pm mt c) ∨ (∃ pm mt, n = .dir pm mt) ∨
         ∃ t, n = .link t ∧ isAbs t = false ∧ isLocal (pathJoin (pathDir (joinWith '/' x)) t) = true ∧
           ∃ real pm mt c, fs1.evalSymlinks (ofSegs (pathSegs work ++ x)) = some real ∧
             pathSegs work <+: real ∧ fs1.lookup real = some (.file pm mt c)) := by
  have hd : d = pathSegs final := by
    obtain ⟨_, _, _, _, _, _, hf⟩ := sn_ensure_ok h
    obtain ⟨_, _, _, hd, _⟩ := sn_finish_ok hf
    exact hd
  obtain ⟨fs1, hshr, _, hcase, hall⟩ := C10_sanitised_before_rename fs work final fs' d hc hreal hk hN h
  have hs : SnSub fs1 fs := by
    intro q
    rcases hshr q with e | ⟨_, e⟩
    · exact Or.inl e
    · exact Or.inr e
  refine ⟨hd, fs1, hshr, ?_⟩
  subst hd
  intro x n hx hg
  have hg1 : fs1.get (pathSegs work ++ x) = some n := by
    rcases hcase with e | e
    · rw [e] at hg
      have := hs.get_some ((snSub_removeAll fs1 work).get_some hg)
      rw [hfresh _ (List.prefix_append _ _)] at this; cases this
    · have hfree : ∀ e ∈ fs1, ¬ pathSegs final <+: e.1 := by
        intro e he hpre
        obtain ⟨k', n'⟩ := e
        have h1 := sn_mem_get_isSome he
        cases hg1 : fs1.get k' with
        | none => rw [hg1] at h1; cases h1
        | some m =>
          have := hs.get_some hg1
          rw [hfresh k' hpre] at this; cases this
      rw [e, sn_renameDir_moved fs1 _ _ x hfree] at hg
      exact hg
  exact ⟨hs.get_some hg1, hg1, hall x n hx hg1⟩

/-! ## 9. links of the prepared package -/

/-- **C10_links_relative.** If nothing is bound at or below the final name beforehand, then after a
successful `ensurePrepared` every link at or below the returned directory is one of the links of the
fetched tree, at the same place relative to the package root, its target is relative and, joined to
the link's directory, local.  (Before the repair of F31 this needed a hypothesis excluding absolute
targets.) -/
theorem C10_links_relative (fs : FS) (work final : Str) (fs' : FS) (d : PPath)
    (hc : AbsClean work) (hreal : RealDir fs (pathSegs work)) (hk : KeysPhysical fs)
    (hN : SanNames (pathSegs work) fs)
    (hfresh : ∀ q, pathSegs final <+: q → fs.get q = none)
    (h : ensurePrepared fs work final = (fs', .ok d)) :
    ∀ k t, fs'.get k = some (.link t) → d <+: k →
      isAbs t = false ∧ ∃ x, x ≠ [] ∧ k = d ++ x ∧ fs.get (pathSegs work ++ x) = some (.link t) ∧
        isLocal (pathJoin (pathDir (joinWith '/' x)) t) = true := by
  obtain ⟨n, fs1, r, hl, hw, hr, hf⟩ := sn_ensure_ok h
  obtain ⟨wp, hwp, _, hd, hcase⟩ := sn_finish_ok hf
  have hs : SnSub fs1 fs := by
    have := (snSub_walk (snRules fs work) work prepFuel).1 fs work n
    rw [hw] at this; exact this
  obtain ⟨rfl, _⟩ := sn_work_resolves hc hreal hs hwp
  subst hd
  intro k t hg hu
  rcases hcase with e | e
  · -- the final directory existed: impossible, nothing was bound there
    rw [e] at hg
    have := hs.get_some ((snSub_removeAll fs1 work).get_some hg)
    rw [hfresh k hu] at this; cases this
  · obtain ⟨x, rfl⟩ := hu
    have hfree : ∀ e ∈ fs1, ¬ pathSegs final <+: e.1 := by
      intro e he hpre
      obtain ⟨k', n'⟩ := e
      have h1 := sn_mem_get_isSome he
      cases hg1 : fs1.get k' with
      | none => rw [hg1] at h1; cases h1
      | some m =>
        have := hs.get_some hg1
        rw [hfresh k' hpre] at this; cases this
    rw [e, sn_renameDir_moved fs1 _ _ x hfree] at hg
    have hg0 := hs.get_some hg
    have hx : x ≠ [] := by
      intro e0
      subst e0
      rw [List.append_nil] at hg0
      obtain ⟨pm, mt, hdir⟩ := hreal _ (List.prefix_refl _)
      rw [lookup_ne_nil _ _ (hk _ _ hg0).1, hg0] at hdir
      cases hdir
    obtain ⟨h1, h2⟩ := C10_kept_links_relative_local _ _ fs work n fs1 r hc hreal hk hN hl hw hr x t hx hg
    exact ⟨h1, x, hx, rfl, hg0, h2⟩

/-- **C10_links_survive_rename.** (F31, repaired.)  Assume nothing is bound at or below the final name
beforehand and the final directory is a sibling of the work directory.  After a successful
`ensurePrepared`, in the resulting state — *after* the rename — every link strictly below the returned
directory `d`
* has a relative target,
* which, joined to the directory of the link relative to the package root, is local
  (`filepath.IsLocal`): as written it stays inside the package,
* and the link resolves physically, in the resulting state, to a regular file below `d`.

No hypothesis on the links of the fetched tree is needed any more.  The proof uses all three checks:
the lexical one of the callback (the target never climbs above the package root as written), the
hash (every link reads as a regular file, so no link can serve as a directory on the way and the
walk the kernel does is the one written in the target — `C10_walk_alone_not_enough` shows that this
is needed), and with these the resolution never looks at anything outside the package
(`sn_resolve_rekey_go`), hence goes the same way after the subtree is re-keyed. -/
theorem C10_links_survive_rename (fs : FS) (work final : Str) (fs' : FS) (d : PPath)
    (hc : AbsClean work) (hcf : AbsClean final) (hreal : RealDir fs (pathSegs work)) (hk : KeysPhysical fs)
    (hN : SanNames (pathSegs work) fs)
    (hfresh : ∀ q, pathSegs final <+: q → fs.get q = none)
    (hWne : pathSegs work ≠ []) (hFne : pathSegs final ≠ [])
    (hsib : (pathSegs work).dropLast = (pathSegs final).dropLast)
    (h : ensurePrepared fs work final = (fs', .ok d)) :
    d = pathSegs final ∧
    ∀ x t, x ≠ [] → fs'.get (d ++ x) = some (.link t) →
      isAbs t = false ∧ isLocal (pathJoin (pathDir (joinWith '/' x)) t) = true ∧
      ∃ y pm mt c, fs'.evalSymlinks (ofSegs (d ++ x)) = some (d ++ y) ∧
        fs'.lookup (d ++ y) = some (.file pm mt c) := by
  have hd : d = pathSegs final := by
    obtain ⟨_, _, _, _, _, _, hf⟩ := sn_ensure_ok h
    obtain ⟨_, _, _, hd, _⟩ := sn_finish_ok hf
    exact hd
  refine ⟨hd, ?_⟩
  obtain ⟨fs1, hshr, hk1, hcase, hall⟩ := C10_sanitised_before_rename fs work final fs' d hc hreal hk hN h
  have hs : SnSub fs1 fs := by
    intro q
    rcases hshr q with e | ⟨_, e⟩
    · exact Or.inl e
    · exact Or.inr e
  subst hd
  intro x t hx hg
  have hfree : ∀ e ∈ fs1, ¬ pathSegs final <+: e.1 := by
    intro e he hpre
    obtain ⟨k', n'⟩ := e
    have h1 := sn_mem_get_isSome he
    cases hg1 : fs1.get k' with
    | none => rw [hg1] at h1; cases h1
    | some m =>
      have := hs.get_some hg1
      rw [hfresh k' hpre] at this; cases this
  rcases hcase with e | e
  · rw [e] at hg
    have := hs.get_some ((snSub_removeAll fs1 work).get_some hg)
    rw [hfresh _ (List.prefix_append _ _)] at this; cases this
  · subst e
    have hg1 : fs1.get (pathSegs work ++ x) = some (.link t) := by
      rw [sn_renameDir_moved fs1 _ _ x hfree] at hg; exact hg
    have hWn := absClean_segs work hc
    have hFn := absClean_segs final hcf
    -- what is known of every link of `fs1` below the work directory
    have hlinks : ∀ c s t, fs1.get (pathSegs work ++ c ++ [s]) = some (.link t) →
        (∀ z ∈ pathSegs work ++ c ++ [s], NameNS z) ∧ isAbs t = false ∧
        isLocal (pathJoin (pathDir (joinWith '/' (c ++ [s]))) t) = true ∧
        ∃ real, fs1.resolvePath (ofSegs (pathSegs work ++ c ++ [s])) true = .ok real ∧
          ∃ pm mt ct, fs1.lookup real = some (.file pm mt ct) := by
      intro c s t hget
      have hget' : fs1.get (pathSegs work ++ (c ++ [s])) = some (.link t) := by
        rw [← List.append_assoc]; exact hget
      have hn : ∀ z ∈ pathSegs work ++ c ++ [s], NameNS z :=
        hN _ _ (hs.get_some hget) (by rw [List.append_assoc]; exact List.prefix_append _ _)
      obtain ⟨_, _, hkind⟩ := hall (c ++ [s]) _ (by simp) hget'
      rcases hkind with ⟨_, _, _, e⟩ | ⟨_, _, e⟩ | ⟨t', e, habs, hloc, real, pm, mt, ct, hev, _, hfile⟩
      · cases e
      · cases e
      · cases e
        rw [← List.append_assoc] at hev
        exact ⟨hn, habs, hloc, real, (sn_evalSymlinks_some hev).1, pm, mt, ct, hfile⟩
    have hloc1 : ∀ c s t, fs1.get (pathSegs work ++ c ++ [s]) = some (.link t) →
        isAbs t = false ∧ isLocal.go c.length (pathSegs t) = true := by
      intro c s t hget
      obtain ⟨hn, habs, hloc, _⟩ := hlinks c s t hget
      refine ⟨habs, sn_linkOK_go c s t ?_ (hn s (by simp)) hloc⟩
      intro z hz
      exact hn z (List.mem_append_left _ (List.mem_append_right _ hz))
    have hblock : ∀ c s t, fs1.get (pathSegs work ++ c ++ [s]) = some (.link t) →
        ∀ (m : Nat) (rest : List Seg) (f : Bool) (r : PPath), rest ≠ [] →
          resolve fs1 m (pathSegs work ++ c) (pathSegs t ++ rest) f ≠ .ok r := by
      intro c s t hget
      obtain ⟨hn, habs, _, real, hres, hfile⟩ := hlinks c s t hget
      exact sn_link_blocks hk1 hn hget habs hres hfile
    -- the link at hand
    obtain ⟨_, _, hkind⟩ := hall x _ hx hg1
    rcases hkind with ⟨_, _, _, e⟩ | ⟨_, _, e⟩ | ⟨t', e, habs, hlocal, real, pm, mt, c, hev, hpre, hfile⟩
    · cases e
    · cases e
    · cases e
      refine ⟨habs, hlocal, ?_⟩
      -- components
      have hxn : ∀ s ∈ x, NameNS s := fun s hsm =>
        hN _ _ (hs.get_some hg1) (List.prefix_append _ _) s (List.mem_append_right _ hsm)
      have hWx : ∀ s ∈ pathSegs work ++ x, NameNS s := by
        intro s hsm
        rcases List.mem_append.mp hsm with h1 | h1
        · exact hWn s h1
        · exact hxn s h1
      have hFx : ∀ s ∈ pathSegs final ++ x, NameNS s := by
        intro s hsm
        rcases List.mem_append.mp hsm with h1 | h1
        · exact hFn s h1
        · exact hxn s h1
      -- the walk in `fs1`: down the spine of `W`, then inside
      obtain ⟨hres, _⟩ := sn_evalSymlinks_some hev
      unfold FS.resolvePath at hres
      rw [pathSegs_ofSegs _ hWx] at hres
      have hspineW : ∀ q, [] <+: q → q ≠ [] → q <+: [] ++ pathSegs work →
          ∃ pm mt, fs1.lookup q = some (.dir pm mt) := by
        intro q _ hq0 hq
        rw [List.nil_append] at hq
        apply keys_ancestors hk1 _ _ hg1 q (List.IsPrefix.trans hq (List.prefix_append _ _))
        intro e
        rw [e] at hq
        have := List.IsPrefix.length_le hq
        simp only [List.length_append] at this
        exact hx (List.eq_nil_of_length_eq_zero (by omega))
      obtain ⟨n, hn, hin⟩ := sn_resolve_spine_split fs1 (pathSegs work) resolveFuel [] x true real
        (fun s hsm => (hWn s hsm).1.2.2) hspineW hres
      rw [List.nil_append] at hin
      have hxp : ∀ s ∈ x, Plain s := fun s hsm => (hxn s hsm).1
      have hin' : resolve fs1 n (pathSegs work ++ []) x true = .ok real := by simpa using hin
      obtain ⟨y, hy, hR⟩ := sn_resolve_rekey_go (F := pathSegs final) hfree hloc1 hblock n [] x true real
        (fun s hsm => ⟨(hxp s hsm).1, (hxp s hsm).2.1⟩) (sn_go_names x hxp _) hin'
      rw [List.append_nil] at hR
      subst hy
      -- the spine of `F` in the renamed filesystem
      have hlenW : (pathSegs work).length = (pathSegs work).dropLast.length + 1 := by
        rw [List.length_dropLast]
        have : (pathSegs work).length ≠ 0 := fun e => hWne (List.eq_nil_of_length_eq_zero e)
        omega
      have hlenF : (pathSegs final).length = (pathSegs final).dropLast.length + 1 := by
        rw [List.length_dropLast]
        have : (pathSegs final).length ≠ 0 := fun e => hFne (List.eq_nil_of_length_eq_zero e)
        omega
      have hlen : (pathSegs final).length = (pathSegs work).length := by rw [hlenW, hlenF, hsib]
      have hWdir : ∃ pm mt, fs1.get (pathSegs work) = some (.dir pm mt) := by
        obtain ⟨pm, mt, h1⟩ := hspineW (pathSegs work) List.nil_prefix hWne (by simp)
        rw [lookup_ne_nil _ _ hWne] at h1
        exact ⟨pm, mt, h1⟩
      have hspineF : ∀ q, [] <+: q → q ≠ [] → q <+: [] ++ pathSegs final →
          ∃ pm mt, (fs1.renameDir (pathSegs work) (pathSegs final)).lookup q = some (.dir pm mt) := by
        intro q _ hq0 hq
        rw [List.nil_append] at hq
        rw [lookup_ne_nil _ _ hq0]
        by_cases hqF : q = pathSegs final
        · obtain ⟨pm, mt, h1⟩ := hWdir
          refine ⟨pm, mt, ?_⟩
          have := sn_renameDir_moved fs1 (pathSegs work) (pathSegs final) [] hfree
          simp only [List.append_nil] at this
          rw [hqF, this]; exact h1
        · -- a proper prefix of `F`, hence of `W`
          have hqd : q <+: (pathSegs final).dropLast := by
            obtain ⟨z, hz⟩ := hq
            have hzne : z ≠ [] := by
              intro e; apply hqF; rw [← hz, e]; simp
            rw [← hz, List.dropLast_append_of_ne_nil hzne]
            exact List.prefix_append _ _
          have hqW : q <+: pathSegs work := by
            rw [← hsib] at hqd
            exact List.IsPrefix.trans hqd (List.dropLast_prefix _)
          have hqlen : q.length < (pathSegs work).length := by
            have := List.IsPrefix.length_le hqd
            rw [← hsib] at this
            omega
          have hnW : ¬ pathSegs work <+: q := fun hp => by
            have := List.IsPrefix.length_le hp; omega
          have hnF : ¬ pathSegs final <+: q := fun hp => by
            have := List.IsPrefix.length_le hp; omega
          rw [sn_renameDir_frame _ _ _ _ hnW hnF]
          obtain ⟨pm, mt, h1⟩ := hspineW q List.nil_prefix hq0 (by simpa using hqW)
          rw [lookup_ne_nil _ _ hq0] at h1
          exact ⟨pm, mt, h1⟩
      have hjoin := sn_resolve_spine_eq (fs1.renameDir (pathSegs work) (pathSegs final)) (pathSegs final) n []
        x true (fun s hsm => (hFn s hsm).1.2.2) hspineF
      rw [List.nil_append, hlen, ← hn, hR] at hjoin
      -- the referent
      have hyne : y ≠ [] := by
        intro e
        subst e
        obtain ⟨pm', mt', h1⟩ := hWdir
        rw [List.append_nil, lookup_ne_nil _ _ hWne, h1] at hfile
        cases hfile
      have hfile' : (fs1.renameDir (pathSegs work) (pathSegs final)).lookup (pathSegs final ++ y) =
          some (.file pm mt c) := by
        rw [sn_renameDir_lookup_moved fs1 _ _ y hyne hfree]; exact hfile
      refine ⟨y, pm, mt, c, ?_, hfile'⟩
      apply sn_evalSymlinks_of_resolve _ hfile'
      unfold FS.resolvePath
      rw [pathSegs_ofSegs _ hFx]
      exact hjoin

/-- **C10_sanitised.** The full statement about the directory `ensurePrepared` returns, in the state
it leaves (after the rename), when nothing was bound at or below the final name beforehand and the
final directory is a sibling of the work directory: every binding strictly below the returned
directory `d` is the binding the fetched tree had at the same place below the work directory, is not
excluded by the package's ignore rules (nor, for a directory, as `rel/`), and is a regular file, a
directory, or a link with a relative, lexically local target that resolves — now, in the finished
package — to a regular file below `d`. -/
theorem C10_sanitised (fs : FS) (work final : Str) (fs' : FS) (d : PPath)
    (hc : AbsClean work) (hcf : AbsClean final) (hreal : RealDir fs (pathSegs work)) (hk : KeysPhysical fs)
    (hN : SanNames (pathSegs work) fs)
    (hfresh : ∀ q, pathSegs final <+: q → fs.get q = none)
    (hWne : pathSegs work ≠ []) (hFne : pathSegs final ≠ [])
    (hsib : (pathSegs work).dropLast = (pathSegs final).dropLast)
    (h : ensurePrepared fs work final = (fs', .ok d)) :
    d = pathSegs final ∧
    ∀ x n, x ≠ [] → fs'.get (d ++ x) = some n →
      fs.get (pathSegs work ++ x) = some n ∧
      (excludes (snRules fs work) (joinWith '/' x)).1 = false ∧
      (snIsDir n && (excludes (snRules fs work) (joinWith '/' x ++ ['/'])).1) = false ∧
      ((∃ pm mt c, n = .file pm mt c) ∨ (∃ pm mt, n = .dir pm mt) ∨
       ∃ t, n = .link t ∧ isAbs t = false ∧ isLocal (pathJoin (pathDir (joinWith '/' x)) t) = true ∧
         ∃ y pm mt c, fs'.evalSymlinks (ofSegs (d ++ x)) = some (d ++ y) ∧
           fs'.lookup (d ++ y) = some (.file pm mt c)) := by
  obtain ⟨hd, fs1, _, hall⟩ := C10_sanitised_partial fs work final fs' d hc hreal hk hN hfresh h
  obtain ⟨_, hlinks⟩ := C10_links_survive_rename fs work final fs' d hc hcf hreal hk hN hfresh hWne hFne hsib h
  refine ⟨hd, ?_⟩
  intro x n hx hg
  obtain ⟨h0, _, h1, h2, hkind⟩ := hall x n hx hg
  refine ⟨h0, h1, h2, ?_⟩
  rcases hkind with e | e | ⟨t, e, _⟩
  · exact Or.inl e
  · exact Or.inr (Or.inl e)
  · subst e
    obtain ⟨ha, hb, hres⟩ := hlinks x t hx hg
    exact Or.inr (Or.inr ⟨t, rfl, ha, hb, hres⟩)

/-- `/t/b/.tmp-1` holding a file `a` and a link `d -> ../.tmp-1/a` (relative, through the work
directory's own temporary name) -/
def c10FsRel : FS :=
  [(["t","b",".tmp-1","d"].map String.toList, .link "../.tmp-1/a".toList),
   (["t","b",".tmp-1","a"].map String.toList, .file 0o644 0 "x".toList),
   (["t","b",".tmp-1"].map String.toList, .dir 0o755 0),
   (["t","b"].map String.toList, .dir 0o755 0),
   (["t"].map String.toList, .dir 0o755 0)]

/-- **C10_rel_link_through_workdir_name_refused.** (F31, repaired.)  A *relative* link that leaves the
work directory and comes back through its temporary name resolves inside while the walk runs, would
pass the hash, and would dangle after the rename.  The callback now refuses it because its target,
joined to the link's directory, is not local (`../.tmp-1/a`): `ensurePrepared` fails and nothing is
changed. -/
theorem C10_rel_link_through_workdir_name_refused :
    ensurePrepared c10FsRel c10Work c10Final = (c10FsRel, .fail) := by decide

/-- again the lexical check alone refuses it -/
theorem C10_rel_link_refused_hyps :
    SanCheck c10FsRel c10W ∧ (∀ e ∈ c10FsRel, ¬ c10F <+: e.1) ∧
    isAbs "../.tmp-1/a".toList = false ∧
    c10FsRel.evalSymlinks "/t/b/.tmp-1/d".toList = some (c10W ++ ["a".toList]) ∧
    isLocal (pathJoin (pathDir "d".toList) "../.tmp-1/a".toList) = false := by
  decide

/-- `/t/b/.tmp-1` holding a file `a`, a link `z -> .` (to the package root) and a link
`l -> z/../.tmp-1/a`: as written `l` stays inside the package (`z/..` cancels), but the kernel follows
`z`, so `..` is the parent of the package root and the path re-enters through the temporary name -/
def c10FsVia : FS :=
  [(["t","b",".tmp-1","z"].map String.toList, .link ".".toList),
   (["t","b",".tmp-1","l"].map String.toList, .link "z/../.tmp-1/a".toList),
   (["t","b",".tmp-1","a"].map String.toList, .file 0o644 0 "x".toList),
   (["t","b",".tmp-1"].map String.toList, .dir 0o755 0),
   (["t","b"].map String.toList, .dir 0o755 0),
   (["t"].map String.toList, .dir 0o755 0)]

/-- **C10_walk_alone_not_enough.** The walk accepts both links of `c10FsVia`: each is relative,
lexically local, and resolves physically inside the work directory (`l` to the regular file `a`).
Renamed as it is, `l` would dangle.  The preparation fails nevertheless — in the hash, which cannot
read `z`, a link to a directory.  So that the links of a prepared package resolve after the rename
rests on the hash as well (a link that reads as a regular file cannot be a directory on the way of
another link, `sn_link_blocks`). -/
theorem C10_walk_alone_not_enough :
    (prepWalk defaultRules c10Work prepFuel c10FsVia c10Work (.dir 0o755 0)) = (c10FsVia, .cont) ∧
    snLinkOK "l".toList (.link "z/../.tmp-1/a".toList) = true ∧ snLinkOK "z".toList (.link ".".toList) = true ∧
    c10FsVia.evalSymlinks "/t/b/.tmp-1/l".toList = some (c10W ++ ["a".toList]) ∧
    (c10FsVia.renameDir c10W c10F).evalSymlinks "/t/b/HASH/l".toList = none ∧
    hashable c10FsVia c10W = false ∧
    ensurePrepared c10FsVia c10Work c10Final = (c10FsVia, .fail) ∧
    SanCheck c10FsVia c10W := by
  decide

/-! ## 10. on failure the temporary directory stays -/

/-- `/t/b/.tmp-1` holding a link `l -> ../../secret` that leaves the package -/
def c10FsEsc : FS :=
  [(["t","b",".tmp-1","l"].map String.toList, .link "../../secret".toList),
   (["t","b",".tmp-1"].map String.toList, .dir 0o755 0),
   (["t","b"].map String.toList, .dir 0o755 0),
   (["t","secret"].map String.toList, .file 0o600 0 "s".toList),
   (["t"].map String.toList, .dir 0o755 0)]

/-- **C10_cex_tmp_left_on_failure.** A package with an escaping link makes `ensurePrepared` fail —
and the filesystem is left exactly as it was: the temporary work directory, the offending link
included, is still there (`ensureRemotePackage` has no clean-up on its error paths). -/
theorem C10_cex_tmp_left_on_failure :
    ensurePrepared c10FsEsc c10Work c10Final = (c10FsEsc, .fail) ∧
    c10FsEsc.get c10W = some (.dir 0o755 0) ∧
    c10FsEsc.get (c10W ++ ["l".toList]) = some (.link "../../secret".toList) ∧
    SanCheck c10FsEsc c10W := by
  decide

/-! ## 11. why `SanNames` is assumed -/

/-- a work directory `/t/w` with an ignore file `*` and a (non-physical) entry named `..` -/
def c10FsOdd : FS :=
  [(["t","w",".terraformignore"].map String.toList, .file 0o644 0 "*\n".toList),
   (["t","w",".."].map String.toList, .dir 0o755 0),
   (["t","w"].map String.toList, .dir 0o755 0),
   (["t","keep"].map String.toList, .file 0o644 0 "x".toList),
   (["t"].map String.toList, .dir 0o755 0)]

/-- **C10_cex_frame_nonplain_key.** `FS` is an abstract map: nothing stops a key from having a
component `..`, which no directory entry can be.  `filepath.Walk` would join it to the directory
name, reach the parent of the work directory, and the rule `*` would have it removed: without
`SanNames` the frame property fails (`/t/keep` is gone). -/
theorem C10_cex_frame_nonplain_key :
    AbsClean "/t/w".toList ∧ RealDir c10FsOdd (pathSegs "/t/w".toList) ∧ KeysPhysical c10FsOdd ∧
    c10FsOdd.get (["t","keep"].map String.toList) = some (.file 0o644 0 "x".toList) ∧
    ¬ (pathSegs "/t/w".toList <+: ["t","keep"].map String.toList) ∧
    (ensurePrepared c10FsOdd "/t/w".toList "/t/H".toList).1.get (["t","keep"].map String.toList) = none := by
  refine ⟨by decide, realDir_of_check (by decide), keysPhysical_of_check (by decide), by decide, by decide,
    by decide⟩

/-! ## 12. non-vacuity -/

/-- a fetched package with a rule file (`junk/`), an ignored directory, a file `a` and an in-package
relative link `sub/l -> ../a` -/
def c10FsGood : FS :=
  [(["t","b",".tmp-1",".terraformignore"].map String.toList, .file 0o644 0 "junk/\n".toList),
   (["t","b",".tmp-1","junk","x"].map String.toList, .file 0o644 0 "x".toList),
   (["t","b",".tmp-1","junk"].map String.toList, .dir 0o755 0),
   (["t","b",".tmp-1","sub","l"].map String.toList, .link "../a".toList),
   (["t","b",".tmp-1","sub"].map String.toList, .dir 0o755 0),
   (["t","b",".tmp-1","a"].map String.toList, .file 0o644 0 "x".toList),
   (["t","b",".tmp-1"].map String.toList, .dir 0o755 0),
   (["t","b"].map String.toList, .dir 0o755 0),
   (["t"].map String.toList, .dir 0o755 0)]

/-- the hypotheses of the theorems above hold for it -/
example : AbsClean c10Work ∧ pathSegs c10Work = c10W ∧ pathSegs c10Final = c10F ∧
    RealDir c10FsGood c10W ∧ KeysPhysical c10FsGood ∧ SanNames c10W c10FsGood ∧
    ¬ c10W <+: c10F ∧ ¬ c10F <+: c10W ∧ (∀ e ∈ c10FsGood, ¬ c10F <+: e.1) := by
  have h : SanCheck c10FsGood c10W := by decide
  obtain ⟨h1, h2, h3⟩ := sanCheck_sound h
  exact ⟨by decide, by decide, by decide, h1, h2, h3, by decide, by decide, by decide⟩

/-- … and so do the additional ones of `C10_links_survive_rename` / `C10_sanitised` -/
example : AbsClean c10Final ∧ c10W ≠ [] ∧ c10F ≠ [] ∧ c10W.dropLast = c10F.dropLast ∧
    (∀ q, c10F <+: q → c10FsGood.get q = none) := by
  refine ⟨by decide, by decide, by decide, by decide, ?_⟩
  intro q hq
  rw [sn_get_eq_none]
  intro e he heq
  have : ∀ e ∈ c10FsGood, ¬ c10F <+: e.1 := by decide
  exact this e he (by rw [heq]; exact hq)

/-- … the run succeeds: the ignored directory is gone, the work directory is gone, the link
`sub/l -> ../a` (lexically local: it stays inside the package as written) is kept and still resolves
to the file inside the package after the rename -/
example :
    let r := ensurePrepared c10FsGood c10Work c10Final
    r.2 = .ok c10F ∧
    r.1.get (c10F ++ ["junk".toList]) = none ∧ r.1.get (c10F ++ ["junk".toList, "x".toList]) = none ∧
    r.1.get c10W = none ∧
    r.1.get (c10F ++ ["sub".toList, "l".toList]) = some (.link "../a".toList) ∧
    r.1.evalSymlinks "/t/b/HASH/sub/l".toList = some (c10F ++ ["a".toList]) := by
  decide

/-- a fetched package with a file `sub/file` and a link `l -> sub/file` -/
def c10FsDown : FS :=
  [(["t","b",".tmp-1","l"].map String.toList, .link "sub/file".toList),
   (["t","b",".tmp-1","sub","file"].map String.toList, .file 0o644 0 "x".toList),
   (["t","b",".tmp-1","sub"].map String.toList, .dir 0o755 0),
   (["t","b",".tmp-1"].map String.toList, .dir 0o755 0),
   (["t","b"].map String.toList, .dir 0o755 0),
   (["t"].map String.toList, .dir 0o755 0)]

/-- `l -> sub/file` is accepted and resolves after the rename -/
example :
    let r := ensurePrepared c10FsDown c10Work c10Final
    r.2 = .ok c10F ∧ SanCheck c10FsDown c10W ∧
    r.1.get (c10F ++ ["l".toList]) = some (.link "sub/file".toList) ∧
    isAbs "sub/file".toList = false ∧ isLocal (pathJoin (pathDir "l".toList) "sub/file".toList) = true ∧
    r.1.evalSymlinks "/t/b/HASH/l".toList = some (c10F ++ ["sub".toList, "file".toList]) ∧
    r.1.lookup (c10F ++ ["sub".toList, "file".toList]) = some (.file 0o644 0 "x".toList) ∧
    r.1.get c10W = none := by
  decide

/-- `d/l -> ../../.tmp-1/a` (relative, out of the package and back in through the temporary name of
the work directory) resolves inside the package while the walk runs — and is refused; so is
`l -> /t/b/.tmp-1/a` (`C10_abs_link_into_workdir_refused`) -/
example :
    let fs : FS :=
      [(["t","b",".tmp-1","d","l"].map String.toList, .link "../../.tmp-1/a".toList),
       (["t","b",".tmp-1","d"].map String.toList, .dir 0o755 0),
       (["t","b",".tmp-1","a"].map String.toList, .file 0o644 0 "x".toList),
       (["t","b",".tmp-1"].map String.toList, .dir 0o755 0),
       (["t","b"].map String.toList, .dir 0o755 0),
       (["t"].map String.toList, .dir 0o755 0)]
    SanCheck fs c10W ∧
    fs.evalSymlinks "/t/b/.tmp-1/d/l".toList = some (c10W ++ ["a".toList]) ∧
    isLocal (pathJoin (pathDir "d/l".toList) "../../.tmp-1/a".toList) = false ∧
    ensurePrepared fs c10Work c10Final = (fs, .fail) := by
  decide

/-- `d/l -> ../a` is accepted (lexically local: one `..` from a link one directory deep) and resolves
after the rename -/
example :
    let fs : FS :=
      [(["t","b",".tmp-1","d","l"].map String.toList, .link "../a".toList),
       (["t","b",".tmp-1","d"].map String.toList, .dir 0o755 0),
       (["t","b",".tmp-1","a"].map String.toList, .file 0o644 0 "x".toList),
       (["t","b",".tmp-1"].map String.toList, .dir 0o755 0),
       (["t","b"].map String.toList, .dir 0o755 0),
       (["t"].map String.toList, .dir 0o755 0)]
    let r := ensurePrepared fs c10Work c10Final
    r.2 = .ok c10F ∧ SanCheck fs c10W ∧
    isLocal (pathJoin (pathDir "d/l".toList) "../a".toList) = true ∧
    r.1.get (c10F ++ ["d".toList, "l".toList]) = some (.link "../a".toList) ∧
    r.1.evalSymlinks "/t/b/HASH/d/l".toList = some (c10F ++ ["a".toList]) := by
  decide

/-- a package containing a fifo, and one containing a dangling link, make `ensurePrepared` fail -/
example :
    (ensurePrepared
      [(["t","b",".tmp-1","p"].map String.toList, .special),
       (["t","b",".tmp-1"].map String.toList, .dir 0o755 0),
       (["t","b"].map String.toList, .dir 0o755 0),
       (["t"].map String.toList, .dir 0o755 0)] c10Work c10Final).2 = .fail ∧
    (ensurePrepared
      [(["t","b",".tmp-1","l"].map String.toList, .link "nowhere".toList),
       (["t","b",".tmp-1"].map String.toList, .dir 0o755 0),
       (["t","b"].map String.toList, .dir 0o755 0),
       (["t"].map String.toList, .dir 0o755 0)] c10Work c10Final).2 = .fail := by
  decide

/-- a link to a directory inside the package passes the walk but not the hash -/
example :
    let fs : FS :=
      [(["t","b",".tmp-1","l"].map String.toList, .link "sub".toList),
       (["t","b",".tmp-1","sub"].map String.toList, .dir 0o755 0),
       (["t","b",".tmp-1"].map String.toList, .dir 0o755 0),
       (["t","b"].map String.toList, .dir 0o755 0),
       (["t"].map String.toList, .dir 0o755 0)]
    (prepWalk defaultRules c10Work prepFuel fs c10Work (.dir 0o755 0)).2 = .cont ∧
    hashable fs c10W = false ∧ (ensurePrepared fs c10Work c10Final).2 = .fail := by
  decide

/-- the decision-logic theorems are not vacuous: their hypotheses hold at the offending nodes of the
escaping-link package -/
example :
    pathRel c10Work "/t/b/.tmp-1/l".toList = some "l".toList ∧ "l".toList ≠ dot ∧
    (excludes defaultRules "l".toList).1 = false ∧
    c10FsEsc.evalSymlinks c10Work = some c10W ∧
    c10FsEsc.evalSymlinks (pathJoin (ofSegs c10W) "l".toList) = some (["t","secret"].map String.toList) ∧
    ¬ c10W <+: ["t","secret"].map String.toList := by
  decide

/-- the lexical check accepts the link of the good package and refuses the links of the two former
counterexamples to F31; the final directory is a sibling of the work directory -/
example :
    snLinkOK "sub/l".toList (.link "../a".toList) = true ∧
    c10W.dropLast = c10F.dropLast ∧
    snLinkOK "d".toList (.link "../.tmp-1/a".toList) = false ∧
    snLinkOK "d".toList (.link "/t/b/.tmp-1/a".toList) = false := by
  decide

end Slug
