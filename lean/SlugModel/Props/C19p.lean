import SlugModel.Lemmas.PackInv
/-!
# C19 (Pack part) — packing terminates; a dereferenced directory that links to itself is not bounded

Property theorems only; general helper lemmas live in `Lemmas/PackInv`, the evaluation lemmas of
the closed examples are private to this file.
`walkNode`/`walkChildren`/`visit` (Pack.lean) take fuel where the code recurses without a bound of
its own (the nested `filepath.Walk` into a dereferenced directory) and report `diverged` when it
runs out; `packFuel` is what `pack` gives them.  A result `diverged` *for every fuel* is the
model's rendering of "the code does not return" (finding F26, open: in the real code the recursion
is bounded only by the path-length limit of the kernel / the stack).
`resolveExternalLink` is different since the fix of finding F25: its counter is the code's own
bound on the symlink chain (`maxLinkHops`), running out of it is the I/O error "too many levels of
symbolic links", and it never reports `diverged`.  A dereferenced link whose target is a special
file is skipped (finding F27, fixed).
-/
namespace Slug

/-- equality of `Except` values is decidable (used by `decide` below; core has no instance) -/
local instance pkDecEqExcept {ε α : Type} [DecidableEq ε] [DecidableEq α] : DecidableEq (Except ε α) :=
  fun a b =>
    match a, b with
    | .ok x, .ok y => if h : x = y then isTrue (by rw [h]) else isFalse (by intro h'; cases h'; exact h rfl)
    | .error x, .error y => if h : x = y then isTrue (by rw [h]) else isFalse (by intro h'; cases h'; exact h rfl)
    | .ok _, .error _ => isFalse (by intro h; cases h)
    | .error _, .ok _ => isFalse (by intro h; cases h)

/-- **C19_resolveExternalLink_never_diverges.**  `resolveExternalLink` never reports `diverged`,
whatever the filesystem, the hop bound and the path: the only failures are I/O errors.  (Before
the fix of F25 this needed the hypothesis that the chain ends, see below.) -/
theorem C19_resolveExternalLink_never_diverges (fs : FS) (n : Nat) (path : Str) :
    resolveExternalLink fs n path ≠ .error .diverged :=
  pk_resolveExternalLink_never_diverges fs n path

/-- every failure of `resolveExternalLink` is the I/O error -/
theorem C19_resolveExternalLink_error_is_ioerr (fs : FS) (n : Nat) (path : Str) (r : PResult)
    (h : resolveExternalLink fs n path = .error r) : r = .ioerr :=
  pk_resolveExternalLink_err_ioerr fs n path r h

/-- **C19_resolveExternalLink_terminates_acyclic_partial.** If the chain of symlinks starting at
`path` ends within `n` steps (`pkChainEnds`: at a non-link, at a dangling target, or at once
because `path` is no link) then `resolveExternalLink` with hop bound `n` does not report
`diverged` (now true without the hypothesis: `C19_resolveExternalLink_never_diverges`), and a
larger bound does not change its answer — in particular the bound `maxLinkHops` that `visit` uses
gives the answer of the unbounded chain walk whenever the chain has at most `maxLinkHops` links.
A chain that does not end within the bound is an error (`C19_link_chain_too_long_is_error`). -/
theorem C19_resolveExternalLink_terminates_acyclic_partial (fs : FS) (n : Nat) (path : Str)
    (h : pkChainEnds fs n path = true) :
    resolveExternalLink fs n path ≠ .error .diverged ∧
    ∀ m, n ≤ m → resolveExternalLink fs m path = resolveExternalLink fs n path :=
  pk_resolveExternalLink_ends fs n path h

/-- **C19_link_chain_too_long_is_error.**  A chain that does not end within `n` steps (longer than
the bound, or cyclic) makes `resolveExternalLink` with hop bound `n` fail with the I/O error. -/
theorem C19_link_chain_too_long_is_error (fs : FS) (n : Nat) (path : Str)
    (h : pkChainEnds fs n path = false) : resolveExternalLink fs n path = .error .ioerr :=
  pk_resolveExternalLink_too_long fs n path h

/-! ## the closed example: `/t/src/l -> /t/ext`, `/t/ext/self -> /t/ext`, dereferencing on -/

def c19fs : FS := [
  (["t".toList], .dir 0o755 0),
  (["t".toList, "src".toList], .dir 0o755 0),
  (["t".toList, "src".toList, "l".toList], .link "/t/ext".toList),
  (["t".toList, "ext".toList], .dir 0o755 0),
  (["t".toList, "ext".toList, "self".toList], .link "/t/ext".toList)]
def c19o : PackOpts := ⟨true, false, []⟩
def c19root : Str := "/t/src".toList
def c19ext : Str := "/t/ext".toList
def c19self : Str := "/t/ext/self".toList
def c19dir : Node := .dir 0o755 0
def c19cwd : Str := "/".toList

private theorem c19_f1 : pathRel c19ext c19ext = some dot := by decide
private theorem c19_f2 : c19fs.resolvePath c19ext true = .ok ["t".toList, "ext".toList] := by decide
private theorem c19_f3 : c19fs.readdir ["t".toList, "ext".toList] = ["self".toList] := by decide
private theorem c19_f4 : pathJoin c19ext "self".toList = c19self := by decide
private theorem c19_f5 : c19fs.lstat c19self = .ok (.link c19ext) := by decide
private theorem c19_f6 : pathRel c19ext c19self = some "self".toList := by decide
private theorem c19_f8 : validSymlink c19cwd [] c19root c19self c19ext = false := by decide
private theorem c19_f10 : c19fs.lstat c19ext = .ok c19dir := by decide
private theorem c19_f9 (j : Nat) : resolveExternalLink c19fs (j + 1) c19self = .ok (c19ext, c19dir) := by
  rw [resolveExternalLink]
  simp [FS.readlink, c19_f5, c19_f10, show isAbs c19ext = true by decide, c19dir]
private theorem c19_f9h : resolveExternalLink c19fs maxLinkHops c19self = .ok (c19ext, c19dir) := c19_f9 254

private theorem c19_f7 : pathRel c19root (replaceFirst c19self c19ext c19self) = some "../ext/self/self".toList := by decide

/-- the callback on `/t/ext/self` inside a nested walk over `/t/ext`, given that the nested walk
one level further down diverges -/
private theorem c19_visit_self (dst sub : Str) (hsub : pathRel c19root (replaceFirst c19self c19ext dst) = some sub)
    (hne : sub ≠ dot) (st : PState) (f : Nat)
    (ih : ∀ g, g < f →
      walkNode c19fs c19cwd c19o none c19root c19ext c19self g c19ext c19dir st = (st, .stop .diverged)) :
    visit c19fs c19cwd c19o none c19root c19ext dst f c19self (.link c19ext) st = (st, .stop .diverged) := by
  cases f with
  | zero => rw [visit]
  | succ f =>
    rw [visit]
    · simp only [c19_f6, hsub]
      simp only [show ("self".toList = dot) = False from by decide, if_false, ruleExcludes,
        Bool.false_eq_true, hne, c19_f8, show c19o.allow = [] from rfl, show c19o.dereference = true from rfl,
        Bool.not_true]
      simp only [c19_f9h, c19dir, c19_f10]
      have := ih f (by omega)
      unfold c19dir at this
      simp [this]
    · intro _ _ h; cases h

private theorem c19_cycle : ∀ (n fuel : Nat), fuel ≤ n → ∀ (dst sub : Str),
    pathRel c19root (replaceFirst c19self c19ext dst) = some sub → sub ≠ dot → ∀ st : PState,
    walkNode c19fs c19cwd c19o none c19root c19ext dst fuel c19ext c19dir st = (st, .stop .diverged) := by
  intro n
  induction n with
  | zero =>
    intro fuel h dst sub _ _ st
    have : fuel = 0 := by omega
    subst this
    rw [walkNode]
  | succ n ih =>
    intro fuel hle dst sub hsub hne st
    unfold c19dir
    cases fuel with
    | zero => rw [walkNode]
    | succ f1 =>
      rw [walkNode]
      cases f1 with
      | zero => simp [visit]
      | succ f2 =>
        have hv : visit c19fs c19cwd c19o none c19root c19ext dst (f2 + 1) c19ext (.dir 0o755 0) st = (st, .cont) := by
          rw [visit]; simp [c19_f1]
        simp only [hv, c19_f2, c19_f3]
        rw [walkChildren]
        simp only [c19_f4, c19_f5]
        cases f2 with
        | zero => simp [walkNode]
        | succ f3 =>
          have hs := c19_visit_self dst sub hsub hne st f3 (fun g hg =>
            ih g (by omega) c19self _ c19_f7 (by decide) st)
          rw [walkNode]
          · simp [hs]
          · intro _ _ h; cases h
def c19l : Str := "/t/src/l".toList

private theorem c19_g1 : pathRel c19root c19root = some dot := by decide
private theorem c19_g2 : c19fs.resolvePath c19root true = .ok ["t".toList, "src".toList] := by decide
private theorem c19_g3 : c19fs.readdir ["t".toList, "src".toList] = ["l".toList] := by decide
private theorem c19_g4 : pathJoin c19root "l".toList = c19l := by decide
private theorem c19_g5 : c19fs.lstat c19l = .ok (.link c19ext) := by decide
private theorem c19_g6 : pathRel c19root c19l = some "l".toList := by decide
private theorem c19_g7 : pathRel c19root (replaceFirst c19l c19root c19root) = some "l".toList := by decide
private theorem c19_g8 : validSymlink c19cwd [] c19root c19l c19ext = false := by decide
private theorem c19_g9 (j : Nat) : resolveExternalLink c19fs (j + 1) c19l = .ok (c19ext, c19dir) := by
  rw [resolveExternalLink]
  simp [FS.readlink, c19_g5, c19_f10, show isAbs c19ext = true by decide, c19dir]
private theorem c19_g9h : resolveExternalLink c19fs maxLinkHops c19l = .ok (c19ext, c19dir) := c19_g9 254
private theorem c19_g10 : pathRel c19root (replaceFirst c19self c19ext c19l) = some "l/self".toList := by decide

private theorem c19_visit_l (st : PState) (f : Nat) :
    visit c19fs c19cwd c19o none c19root c19root c19root f c19l (.link c19ext) st = (st, .stop .diverged) := by
  cases f with
  | zero => rw [visit]
  | succ f =>
    rw [visit]
    · simp only [c19_g6, c19_g7]
      simp only [show ("l".toList = dot) = False from by decide, if_false, ruleExcludes,
        Bool.false_eq_true, c19_g8, show c19o.allow = [] from rfl, show c19o.dereference = true from rfl,
        Bool.not_true]
      simp only [c19_g9h, c19dir, c19_f10]
      have := c19_cycle f f (Nat.le_refl _) c19l _ c19_g10 (by decide) st
      unfold c19dir at this
      simp [this]
    · intro _ _ h; cases h

private theorem c19_top (fuel : Nat) (st : PState) :
    walkNode c19fs c19cwd c19o none c19root c19root c19root fuel c19root c19dir st = (st, .stop .diverged) := by
  unfold c19dir
  cases fuel with
  | zero => rw [walkNode]
  | succ f1 =>
    rw [walkNode]
    cases f1 with
    | zero => simp [visit]
    | succ f2 =>
      have hv : visit c19fs c19cwd c19o none c19root c19root c19root (f2 + 1) c19root (.dir 0o755 0) st = (st, .cont) := by
        rw [visit]; simp [c19_g1]
      simp only [hv, c19_g2, c19_g3]
      rw [walkChildren]
      simp only [c19_g4, c19_g5]
      cases f2 with
      | zero => simp [walkNode]
      | succ f3 =>
        rw [walkNode]
        · simp [c19_visit_l]
        · intro _ _ h; cases h
private theorem c19_pack : pack c19fs c19cwd c19o c19root = (pkEmpty, .diverged) := by
  have h1 : pkRootInfo c19fs c19cwd c19root = .ok c19dir := by decide
  have h2 : pkRoot c19fs c19cwd c19root = c19root := by decide
  have h3 : pkRules c19fs c19cwd c19o c19root = none := by simp [pkRules, c19o]
  have h4 : c19fs.lstat c19root = .ok c19dir := by decide
  rw [pk_pack_eq, h1]
  simp only [h2, h3, h4, c19_top, pkFinish]


/-- **C19_cex_pack_deref_cycle** (finding F26).  `/t/src/l` points out of the tree to `/t/ext`,
which holds a link to itself.  With dereferencing on, `packWalkFn` starts a nested
`filepath.Walk` over `/t/ext` for `l`, in which `self` is again an out-of-tree link to a directory
and starts the next nested walk, and so on: for *every* amount of fuel, from every state, the
top-level walk ends by running out of fuel, with the state untouched (nothing is ever written). -/
theorem C19_cex_pack_deref_cycle (fuel : Nat) (st : PState) :
    walkNode c19fs c19cwd c19o none c19root c19root c19root fuel c19root c19dir st = (st, .stop .diverged) :=
  c19_top fuel st

/-- the cycle itself: the nested walk over `/t/ext` (source `/t/ext`, any destination that is not
the root) diverges for every fuel -/
theorem C19_cex_nested_walk_cycle (fuel : Nat) (dst sub : Str)
    (h : pathRel c19root (replaceFirst c19self c19ext dst) = some sub) (hne : sub ≠ dot) (st : PState) :
    walkNode c19fs c19cwd c19o none c19root c19ext dst fuel c19ext c19dir st = (st, .stop .diverged) :=
  c19_cycle fuel fuel (Nat.le_refl _) dst sub h hne st

/-- `Pack` on that tree, with the fuel the model gives it -/
theorem C19_cex_pack_deref_cycle_pack : pack c19fs c19cwd c19o c19root = (pkEmpty, .diverged) :=
  c19_pack

/-- the same tree without dereferencing is refused at once (illegal slug), and with the target
allow-listed it is packed as a link: the divergence needs the dereference option -/
example : pack c19fs c19cwd ⟨false, false, []⟩ c19root = (pkEmpty, .illegal) := by decide
example : (pack c19fs c19cwd ⟨false, false, [c19ext]⟩ c19root).2 = .ok := by decide

/-! ## a cyclic chain for `resolveExternalLink` -/

/-- `/t/a -> /t/b`, `/t/b -> /t/a` -/
def c19loop : FS := [
  (["t".toList], .dir 0o755 0),
  (["t".toList, "a".toList], .link "/t/b".toList),
  (["t".toList, "b".toList], .link "/t/a".toList)]

def c19a : Str := "/t/a".toList
def c19b : Str := "/t/b".toList

/-- **C19_link_cycle_is_error** (finding F25, fixed; replaces `C19_cex_link_cycle`, which stated
that the cycle diverges for every fuel).  On a two-link cycle `resolveExternalLink` fails with the
I/O error for every hop bound: the code gives up with "too many levels of symbolic links" instead
of recursing until the stack is exhausted. -/
theorem C19_link_cycle_is_error (n : Nat) :
    resolveExternalLink c19loop n c19a = .error .ioerr ∧
    resolveExternalLink c19loop n c19b = .error .ioerr := by
  induction n with
  | zero => exact ⟨rfl, rfl⟩
  | succ n ih =>
    have ha : c19loop.lstat c19a = .ok (.link c19b) := by decide
    have hb : c19loop.lstat c19b = .ok (.link c19a) := by decide
    constructor
    · rw [resolveExternalLink]
      simp only [FS.readlink, ha, hb, show isAbs c19b = true by decide, if_true, ih.2]
    · rw [resolveExternalLink]
      simp only [FS.readlink, ha, hb, show isAbs c19a = true by decide, if_true, ih.1]

/-- the bound `visit` uses -/
theorem C19_link_cycle_is_error_maxLinkHops :
    resolveExternalLink c19loop maxLinkHops c19a = .error .ioerr :=
  (C19_link_cycle_is_error maxLinkHops).1

/-- `Pack` with dereferencing on a tree holding an out-of-tree link into that cycle: an I/O error,
nothing written -/
def c19loopfs : FS := [
  (["t".toList], .dir 0o755 0),
  (["t".toList, "a".toList], .link "/t/b".toList),
  (["t".toList, "b".toList], .link "/t/a".toList),
  (["t".toList, "src".toList], .dir 0o755 0),
  (["t".toList, "src".toList, "l".toList], .link "/t/a".toList)]

theorem C19_link_cycle_pack_is_error : pack c19loopfs c19cwd c19o c19root = (pkEmpty, .ioerr) := by
  decide

/-- an ending chain for comparison (`l1 -> l2 -> d`): two steps are enough -/
def c19chain : FS := [
  (["t".toList], .dir 0o755 0),
  (["t".toList, "d".toList], .dir 0o755 0),
  (["t".toList, "l2".toList], .link "d".toList),
  (["t".toList, "l1".toList], .link "/t/l2".toList)]

example : pkChainEnds c19chain 2 "/t/l1".toList = true := by decide

/-! ## a dereferenced link to a special file -/

/-- `/t/src/l -> /t/fifo` (a special file outside the tree), next to a regular file `/t/src/a` -/
def c19spfs : FS := [
  (["t".toList], .dir 0o755 0),
  (["t".toList, "src".toList], .dir 0o755 0),
  (["t".toList, "src".toList, "a".toList], .file 0o644 0 "x".toList),
  (["t".toList, "src".toList, "l".toList], .link "/t/fifo".toList),
  (["t".toList, "fifo".toList], .special)]

/-- **C19_deref_special_skipped** (finding F27, fixed).  With dereferencing on, a link that leaves
the tree and ends at a special file is skipped, like a special file met in the tree: `Pack`
succeeds, the archive holds the regular file `a` and no entry for `l` (before the fix the result
was an I/O error). -/
theorem C19_deref_special_skipped :
    resolveExternalLink c19spfs maxLinkHops c19l = .ok ("/t/fifo".toList, .special) ∧
    pack c19spfs c19cwd c19o c19root =
      ({ entries := [{ name := "a".toList, typ := tReg, mode := 0o644, mtime := 0, link := [], body := "x".toList }],
         pmeta := { files := ["a".toList], size := 1 } }, .ok) := by
  decide

end Slug
