import SlugModel.Lemmas.PackInv
/-!
# C19 (Pack part) — packing terminates, also on trees with symlink cycles

Property theorems only; general helper lemmas live in `Lemmas/PackInv`, the evaluation lemmas of
the closed examples are private to this file.
`walkNode`/`walkChildren`/`visit` (Pack.lean) take fuel where the code recurses without a bound of
its own (the nested `filepath.Walk` into a dereferenced directory) and report `diverged` when it
runs out; `packFuel` is what `pack` gives them.

* `C19_pack_terminates`: for every filesystem whose directory entries are plain names there is a
  bound `pkTermBound fs` — a function of the number of bindings and of the length of the longest
  bound path — such that with at least that much fuel no walk from an absolute path reports
  `diverged`, whatever the options (dereferencing on or off, any `visiting` list), rules, state and
  node; from the bound on the answer does not depend on the fuel (`C19_pack_fuel_irrelevant`).
  This is the model's rendering of "`Pack` returns", for every finite tree, with or without
  symlink cycles.  The measure: every nested walk into a dereferenced directory pushes a physical
  location that was not on the `visiting` list (finding F26, repaired: a location that is on the
  list is the "symlink cycle" error), so the number of locations off the list decreases; inside one
  walk every child lies one level deeper, physically, than its directory, and no binding lies
  deeper than the longest bound path.
* The former counterexamples for F26 (a dereferenced directory holding a link to itself: `diverged`
  for every fuel) are replaced by the facts that hold now: the cycle is an I/O error
  (`C19_pack_deref_cycle_is_error`, `C19_nested_walk_cycle_is_error`), also when it runs through an
  ancestor (`C19_pack_deref_ancestor_cycle_is_error`); two links to one outside directory side by
  side are both archived (`C19_pack_deref_twice_is_ok`: the list is a stack, not a visited set).
* `resolveExternalLink` is different since the fix of finding F25: its counter is the code's own
  bound on the symlink chain (`maxLinkHops`), running out of it is the I/O error "too many levels
  of symbolic links", and it never reports `diverged`.  A dereferenced link whose target is a
  special file is skipped (finding F27, fixed).
-/
namespace Slug

/-- equality of `Except` values is decidable (used by `decide` below; core has no instance) -/
local instance pkDecEqExcept {ε α : Type} [DecidableEq ε] [DecidableEq α] : DecidableEq (Except ε α) :=
  fun a b =>
    match a, b with
    | .ok x, .ok y => if h : x = y then isTrue (by rw [h]) else isFalse (by intro h'; cases h'; exact h rfl)
    | .error x, .error y => if h : x = y then isTrue (by rw [h]) else isFalse (by intro h'; cases h'; exact h rfl)
    | .ok _, .error _ => isFalse (by intro h; cases h)
    | .error _, .ok _ => isFalse (by intro h; cases h)

/-- **C19_resolveExternalLink_never_diverges.**  `resolveExternalLink` never reports `diverged`,
whatever the filesystem, the hop bound and the path: the only failures are I/O errors.  (Before
the fix of F25 this needed the hypothesis that the chain ends, see below.) -/
theorem C19_resolveExternalLink_never_diverges (fs : FS) (n : Nat) (path : Str) :
    resolveExternalLink fs n path ≠ .error .diverged :=
  pk_resolveExternalLink_never_diverges fs n path

/-- every failure of `resolveExternalLink` is the I/O error -/
theorem C19_resolveExternalLink_error_is_ioerr (fs : FS) (n : Nat) (path : Str) (r : PResult)
    (h : resolveExternalLink fs n path = .error r) : r = .ioerr :=
  pk_resolveExternalLink_err_ioerr fs n path r h

/-- **C19_resolveExternalLink_terminates_acyclic_partial.** If the chain of symlinks starting at
`path` ends within `n` steps (`pkChainEnds`: at a non-link, at a dangling target, or at once
because `path` is no link) then `resolveExternalLink` with hop bound `n` does not report
`diverged` (now true without the hypothesis: `C19_resolveExternalLink_never_diverges`), and a
larger bound does not change its answer — in particular the bound `maxLinkHops` that `visit` uses
gives the answer of the unbounded chain walk whenever the chain has at most `maxLinkHops` links.
A chain that does not end within the bound is an error (`C19_link_chain_too_long_is_error`). -/
theorem C19_resolveExternalLink_terminates_acyclic_partial (fs : FS) (n : Nat) (path : Str)
    (h : pkChainEnds fs n path = true) :
    resolveExternalLink fs n path ≠ .error .diverged ∧
    ∀ m, n ≤ m → resolveExternalLink fs m path = resolveExternalLink fs n path :=
  pk_resolveExternalLink_ends fs n path h

/-- **C19_link_chain_too_long_is_error.**  A chain that does not end within `n` steps (longer than
the bound, or cyclic) makes `resolveExternalLink` with hop bound `n` fail with the I/O error. -/
theorem C19_link_chain_too_long_is_error (fs : FS) (n : Nat) (path : Str)
    (h : pkChainEnds fs n path = false) : resolveExternalLink fs n path = .error .ioerr :=
  pk_resolveExternalLink_too_long fs n path h

/-! ## termination of the walk -/

/-- **C19_pack_terminates.**  Let the directory entries of `fs` be plain names (`PackNamesOK`: no
`/`, not empty, not `.` or `..` — true of every real filesystem, not of every value of the model
type `FS`; `C19_cex_terminates_needs_names` shows that the hypothesis cannot be dropped).  With
fuel `≥ pkTermBound fs = (n + 4) * ((n + 1) * (m + 2) + m + 2)` — `n` the number of bindings of
`fs`, `m` the length of its longest bound path — the walk from an absolute path does not run out
of fuel: for every working directory, all options (dereferencing or not, any `visiting` list), all
rules, `root`/`src`/`dst`, every node and every state, `walkNode` returns `cont`, `skipDir`, or
stops with a result other than `diverged`.  In particular a tree with symlink cycles, packed with
dereferencing, is packed or refused in bounded time. -/
theorem C19_pack_terminates (fs : FS) (hfs : PackNamesOK fs) (fuel : Nat) (hfuel : pkTermBound fs ≤ fuel)
    (cwd : Str) (o : PackOpts) (rules : Option (List Rule)) (root src dst path : Str) (node : Node)
    (st : PState) (habs : isAbs path = true) :
    (walkNode fs cwd o rules root src dst fuel path node st).2 ≠ .stop .diverged :=
  pk_walkNode_terminates fs hfs cwd o rules root src dst fuel hfuel path node st habs

/-- the bound is a function of the filesystem only -/
theorem C19_pack_terminates_exists (fs : FS) (hfs : PackNamesOK fs) :
    ∃ N : Nat, ∀ fuel, N ≤ fuel → ∀ (cwd : Str) (o : PackOpts) (rules : Option (List Rule))
      (root src dst path : Str) (node : Node) (st : PState), isAbs path = true →
      (walkNode fs cwd o rules root src dst fuel path node st).2 ≠ .stop .diverged :=
  ⟨pkTermBound fs, fun fuel h cwd o rules root src dst path node st habs =>
    C19_pack_terminates fs hfs fuel h cwd o rules root src dst path node st habs⟩

/-- the same for the other two functions of the walk: the loop over the names of a directory
(one more unit of fuel per name) and the callback -/
theorem C19_pack_terminates_loop_callback (fs : FS) (hfs : PackNamesOK fs) (fuel : Nat)
    (cwd : Str) (o : PackOpts) (rules : Option (List Rule)) (root src dst path : Str) (node : Node)
    (names : List Str) (st : PState) (habs : isAbs path = true) :
    (pkTermBound fs + names.length + 1 ≤ fuel →
      (walkChildren fs cwd o rules root src dst fuel path names st).2 ≠ .stop .diverged) ∧
    (pkTermBound fs + 1 ≤ fuel →
      (visit fs cwd o rules root src dst fuel path node st).2 ≠ .stop .diverged) :=
  ⟨fun h => pk_walkChildren_terminates fs hfs cwd o rules root src dst fuel path names h st habs,
   fun h => pk_visit_terminates fs hfs cwd o rules root src dst fuel h path node st habs⟩

/-- **C19_pack_fuel_irrelevant.**  An answer that is not `diverged` is final: more fuel gives the
same state and the same result (no hypothesis on the filesystem).  Hence from `pkTermBound fs` on
the answer of the walk does not depend on the fuel at all: the fuel is an artefact of the model. -/
theorem C19_pack_fuel_irrelevant (fs : FS) (cwd : Str) (o : PackOpts) (rules : Option (List Rule))
    (root src dst path : Str) (node : Node) (st : PState) :
    (∀ f g, f ≤ g → (walkNode fs cwd o rules root src dst f path node st).2 ≠ .stop .diverged →
      walkNode fs cwd o rules root src dst g path node st = walkNode fs cwd o rules root src dst f path node st) ∧
    (PackNamesOK fs → isAbs path = true → ∀ g, pkTermBound fs ≤ g →
      walkNode fs cwd o rules root src dst g path node st =
        walkNode fs cwd o rules root src dst (pkTermBound fs) path node st) :=
  ⟨fun f g hfg h => pk_walkNode_fuel_mono fs cwd o rules root src dst f g hfg path node st h,
   fun hfs habs g hg => pk_walkNode_fuel_irrelevant fs hfs cwd o rules root src dst g hg path node st habs⟩

/-- **C19_pack_never_diverges.**  `Pack` itself, run from an absolute working directory (as
`os.Getwd` guarantees): it does not report `diverged` when the fuel the model gives the walk
(`packFuel`) covers the bound of the filesystem. -/
theorem C19_pack_never_diverges (fs : FS) (hfs : PackNamesOK fs) (cwd : Str) (o : PackOpts) (src : Str)
    (hcwd : isAbs cwd = true) (hsmall : pkTermBound fs ≤ packFuel) :
    (pack fs cwd o src).2 ≠ .diverged :=
  pk_pack_terminates fs hfs cwd o src hcwd hsmall

/-- **C19_visiting_grows.**  What the bound rests on.  `pkFree fs v` counts the locations (the
root and the bound paths of `fs`) that are not on the list `v`; it is at most `n + 1`.  The
physical location of whatever `Lstat`/`Stat` finds is such a location, and pushing one that is not
on the list leaves strictly fewer free ones — `packWalkFn` enters a nested walk only after that
test, so dereferenced directories nest at most `n + 1` deep. -/
theorem C19_visiting_grows (fs : FS) (v : List PPath) :
    pkFree fs v ≤ fs.length + 1 ∧
    (∀ q n, fs.lookup q = some n → q ∈ pkLocs fs) ∧
    (∀ q, q ∈ pkLocs fs → v.contains q = false → pkFree fs (q :: v) < pkFree fs v) :=
  ⟨pkFree_le fs v, fun _ _ h => pk_lookup_loc h, fun q hq hv => pkFree_push fs v q hq hv⟩

/-! ## closed examples: symlink cycles through dereferenced directories -/

/-- `/t/src/l -> /t/ext`, `/t/ext/self -> /t/ext` -/
def c19fs : FS := [
  (["t".toList], .dir 0o755 0),
  (["t".toList, "src".toList], .dir 0o755 0),
  (["t".toList, "src".toList, "l".toList], .link "/t/ext".toList),
  (["t".toList, "ext".toList], .dir 0o755 0),
  (["t".toList, "ext".toList, "self".toList], .link "/t/ext".toList)]
def c19o : PackOpts := ⟨true, false, [], []⟩
def c19root : Str := "/t/src".toList
def c19ext : Str := "/t/ext".toList
def c19dir : Node := .dir 0o755 0
def c19cwd : Str := "/".toList
def c19l : Str := "/t/src/l".toList

/-- **C19_pack_deref_cycle_is_error** (finding F26, repaired; replaces
`C19_cex_pack_deref_cycle_pack`, which stated that this call diverges).  `/t/src/l` points out of
the tree to `/t/ext`, which holds a link to itself.  With dereferencing on, `packWalkFn` starts a
nested `filepath.Walk` over `/t/ext` for `l`; there `self` is again an out-of-tree link to a
directory, but that directory is the one being archived: the "symlink cycle" error.  Nothing had
been written (the root of a nested walk gets no entry of its own). -/
theorem C19_pack_deref_cycle_is_error : pack c19fs c19cwd c19o c19root = (pkEmpty, .ioerr) := by
  decide +kernel

/-- the top-level walk of that call, for every amount of fuel from 8 on (with 7 it runs out:
the chain of calls down to the test is that long); replaces `C19_cex_pack_deref_cycle` -/
theorem C19_walk_deref_cycle_is_error (fuel : Nat) (h : 8 ≤ fuel) :
    walkNode c19fs c19cwd c19o none c19root c19root c19root fuel c19root c19dir pkEmpty =
      (pkEmpty, .stop .ioerr) := by
  have h8 : walkNode c19fs c19cwd c19o none c19root c19root c19root 8 c19root c19dir pkEmpty =
      (pkEmpty, .stop .ioerr) := by decide +kernel
  rw [pk_walkNode_fuel_mono c19fs c19cwd c19o none c19root c19root c19root 8 fuel h c19root c19dir pkEmpty
    (by rw [h8]; intro c; cases c), h8]

example : walkNode c19fs c19cwd c19o none c19root c19root c19root 7 c19root c19dir pkEmpty =
    (pkEmpty, .stop .diverged) := by decide +kernel

/-- the cycle itself (replaces `C19_cex_nested_walk_cycle`): the nested walk over `/t/ext` that
`packWalkFn` starts for `/t/src/l` — source `/t/ext`, destination `/t/src/l`, the physical
location of `/t/ext` on the `visiting` list — stops at `self` with the error -/
theorem C19_nested_walk_cycle_is_error (fuel : Nat) (h : 4 ≤ fuel) :
    walkNode c19fs c19cwd { c19o with visiting := [["t".toList, "ext".toList]] } none c19root c19ext c19l
      fuel c19ext c19dir pkEmpty = (pkEmpty, .stop .ioerr) := by
  have h4 : walkNode c19fs c19cwd { c19o with visiting := [["t".toList, "ext".toList]] } none c19root c19ext c19l
      4 c19ext c19dir pkEmpty = (pkEmpty, .stop .ioerr) := by decide
  rw [pk_walkNode_fuel_mono c19fs c19cwd _ none c19root c19ext c19l 4 fuel h c19ext c19dir pkEmpty
    (by rw [h4]; intro c; cases c), h4]

/-- the general theorems apply to this tree, and `packFuel` covers its bound -/
example : PackNamesOK c19fs ∧ pkTermBound c19fs = 315 ∧ pkTermBound c19fs ≤ packFuel := by
  refine ⟨?_, by decide, by decide⟩
  unfold PackNamesOK NameNS Plain; decide

/-- the same tree without dereferencing is refused at once (illegal slug), and with the target
allow-listed it is packed as a link: the nested walks need the dereference option -/
example : pack c19fs c19cwd ⟨false, false, [], []⟩ c19root = (pkEmpty, .illegal) := by decide
example : (pack c19fs c19cwd ⟨false, false, [c19ext], []⟩ c19root).2 = .ok := by decide

/-- `/t/src/l -> /t/ext`, and `/t/ext/d/up -> ..` leads back to `/t/ext` from a subdirectory;
`/t/ext/a` is a regular file -/
def c19upfs : FS := [
  (["t".toList], .dir 0o755 0),
  (["t".toList, "src".toList], .dir 0o755 0),
  (["t".toList, "src".toList, "l".toList], .link "/t/ext".toList),
  (["t".toList, "ext".toList], .dir 0o755 0),
  (["t".toList, "ext".toList, "a".toList], .file 0o644 0 "x".toList),
  (["t".toList, "ext".toList, "d".toList], .dir 0o755 0),
  (["t".toList, "ext".toList, "d".toList, "up".toList], .link "..".toList)]

/-- **C19_pack_deref_ancestor_cycle_is_error.**  The cycle runs through an ancestor: inside the
nested walk over `/t/ext` (archived as `l`), `d/up -> ..` leaves the source root lexically
(`l/d/..` is `l`, but `validSymlink` compares with `/t/src`) and resolves to `/t/ext` again, the
directory being archived two levels up: the "symlink cycle" error, after `l/a` and `l/d/` were
written. -/
theorem C19_pack_deref_ancestor_cycle_is_error :
    pack c19upfs c19cwd c19o c19root =
      ({ entries := [{ name := "l/a".toList, typ := tReg, mode := 0o644, mtime := 0, link := [], body := "x".toList },
                     { name := "l/d/".toList, typ := tDir, mode := 0o755, mtime := 0, link := [], body := [] }],
         pmeta := { files := ["l/a".toList, "l/d/".toList], size := 1 } }, .ioerr) := by
  decide +kernel

/-- `/t/src/l1` and `/t/src/l2` both point to the outside directory `/t/ext` (no cycle) -/
def c19twofs : FS := [
  (["t".toList], .dir 0o755 0),
  (["t".toList, "src".toList], .dir 0o755 0),
  (["t".toList, "src".toList, "l1".toList], .link "/t/ext".toList),
  (["t".toList, "src".toList, "l2".toList], .link "/t/ext".toList),
  (["t".toList, "ext".toList], .dir 0o755 0),
  (["t".toList, "ext".toList, "a".toList], .file 0o644 0 "x".toList)]

/-- **C19_pack_deref_twice_is_ok.**  Two links to the same outside directory side by side are
both archived, without error: the `visiting` list holds the directories being archived *now*
(a stack), it is not a set of directories seen so far — the walk of `l2` starts from the list the
walk of `l1` started from. -/
theorem C19_pack_deref_twice_is_ok :
    pack c19twofs c19cwd c19o c19root =
      ({ entries := [{ name := "l1/a".toList, typ := tReg, mode := 0o644, mtime := 0, link := [], body := "x".toList },
                     { name := "l2/a".toList, typ := tReg, mode := 0o644, mtime := 0, link := [], body := "x".toList }],
         pmeta := { files := ["l1/a".toList, "l2/a".toList], size := 2 } }, .ok) := by
  decide +kernel

/-! ## the hypothesis on names is needed -/

/-- a value of the model type `FS` that no real filesystem has: a directory entry named `..` -/
def c19badfs : FS := [
  (["t".toList], .dir 0o755 0),
  (["t".toList, "..".toList], .dir 0o755 0)]

/-- **C19_cex_terminates_needs_names.**  Without `PackNamesOK` the conclusion of
`C19_pack_terminates` fails: `filepath.Join("/t", "..")` is `/`, whose entry `t` leads back to
`/t`, and the plain walk (no dereferencing) from `/t` with fuel `pkTermBound` runs out of fuel —
as does `Pack` with the fuel the model gives it. -/
theorem C19_cex_terminates_needs_names :
    ¬ PackNamesOK c19badfs ∧
    (walkNode c19badfs c19cwd ⟨false, false, [], []⟩ none "/t".toList "/t".toList "/t".toList
      (pkTermBound c19badfs) "/t".toList c19dir pkEmpty).2 = .stop .diverged ∧
    (pack c19badfs c19cwd ⟨false, false, [], []⟩ "/t".toList).2 = .diverged := by
  refine ⟨?_, by decide +kernel, by decide +kernel⟩
  intro h
  have := (h (["t".toList, "..".toList], .dir 0o755 0) (by simp [c19badfs]) "..".toList (by simp)).1.2.2
  exact this rfl

/-! ## a cyclic chain for `resolveExternalLink` -/

/-- `/t/a -> /t/b`, `/t/b -> /t/a` -/
def c19loop : FS := [
  (["t".toList], .dir 0o755 0),
  (["t".toList, "a".toList], .link "/t/b".toList),
  (["t".toList, "b".toList], .link "/t/a".toList)]

def c19a : Str := "/t/a".toList
def c19b : Str := "/t/b".toList

/-- **C19_link_cycle_is_error** (finding F25, fixed; replaces `C19_cex_link_cycle`, which stated
that the cycle diverges for every fuel).  On a two-link cycle `resolveExternalLink` fails with the
I/O error for every hop bound: the code gives up with "too many levels of symbolic links" instead
of recursing until the stack is exhausted. -/
theorem C19_link_cycle_is_error (n : Nat) :
    resolveExternalLink c19loop n c19a = .error .ioerr ∧
    resolveExternalLink c19loop n c19b = .error .ioerr := by
  induction n with
  | zero => exact ⟨rfl, rfl⟩
  | succ n ih =>
    have ha : c19loop.lstat c19a = .ok (.link c19b) := by decide
    have hb : c19loop.lstat c19b = .ok (.link c19a) := by decide
    constructor
    · rw [resolveExternalLink]
      simp only [FS.readlink, ha, hb, show isAbs c19b = true by decide, if_true, ih.2]
    · rw [resolveExternalLink]
      simp only [FS.readlink, ha, hb, show isAbs c19a = true by decide, if_true, ih.1]

/-- the bound `visit` uses -/
theorem C19_link_cycle_is_error_maxLinkHops :
    resolveExternalLink c19loop maxLinkHops c19a = .error .ioerr :=
  (C19_link_cycle_is_error maxLinkHops).1

/-- `Pack` with dereferencing on a tree holding an out-of-tree link into that cycle: an I/O error,
nothing written -/
def c19loopfs : FS := [
  (["t".toList], .dir 0o755 0),
  (["t".toList, "a".toList], .link "/t/b".toList),
  (["t".toList, "b".toList], .link "/t/a".toList),
  (["t".toList, "src".toList], .dir 0o755 0),
  (["t".toList, "src".toList, "l".toList], .link "/t/a".toList)]

theorem C19_link_cycle_pack_is_error : pack c19loopfs c19cwd c19o c19root = (pkEmpty, .ioerr) := by
  decide

/-- an ending chain for comparison (`l1 -> l2 -> d`): two steps are enough -/
def c19chain : FS := [
  (["t".toList], .dir 0o755 0),
  (["t".toList, "d".toList], .dir 0o755 0),
  (["t".toList, "l2".toList], .link "d".toList),
  (["t".toList, "l1".toList], .link "/t/l2".toList)]

example : pkChainEnds c19chain 2 "/t/l1".toList = true := by decide

/-! ## a dereferenced link to a special file -/

/-- `/t/src/l -> /t/fifo` (a special file outside the tree), next to a regular file `/t/src/a` -/
def c19spfs : FS := [
  (["t".toList], .dir 0o755 0),
  (["t".toList, "src".toList], .dir 0o755 0),
  (["t".toList, "src".toList, "a".toList], .file 0o644 0 "x".toList),
  (["t".toList, "src".toList, "l".toList], .link "/t/fifo".toList),
  (["t".toList, "fifo".toList], .special)]

/-- **C19_deref_special_skipped** (finding F27, fixed).  With dereferencing on, a link that leaves
the tree and ends at a special file is skipped, like a special file met in the tree: `Pack`
succeeds, the archive holds the regular file `a` and no entry for `l` (before the fix the result
was an I/O error). -/
theorem C19_deref_special_skipped :
    resolveExternalLink c19spfs maxLinkHops c19l = .ok ("/t/fifo".toList, .special) ∧
    pack c19spfs c19cwd c19o c19root =
      ({ entries := [{ name := "a".toList, typ := tReg, mode := 0o644, mtime := 0, link := [], body := "x".toList }],
         pmeta := { files := ["a".toList], size := 1 } }, .ok) := by
  decide

end Slug
