import SlugModel.Lemmas.BuilderLog
/-!
# C14 — The builder does each piece of work once; trace events are bracketed

Property theorems only; helper lemmas live in `Lemmas/BuilderLog`.
`runOps` / `applyOp` / `drain` are the model of `Builder.Add*Source` / `resolvePending`, `BState.log`
the sequence of fetcher / registry-client / finder calls and trace callbacks (newest first), tied
to the code by the `builder` lane.  (Termination of `drain` is a separate property.)

The specification is the *bracket automaton* `logWf` (Lemmas/BuilderLog: `EvRole`, `Ev.cls`,
`logStep`, `logRun`, `logWf`): it reads a log oldest-first, remembers the keys completed
successfully and the artefacts analysed, and accepts only if
* a `…Start k` comes outside a bracket, for a key `k` not completed before, and is followed
  immediately by `…Call k` and then immediately by `…Ok k` or `…Fail k`;
* a `…Already k` comes outside a bracket and only for a key completed before;
* an `analyse s f` comes outside a bracket and at most once per artefact `(s, f)`.
`LogOK st` says in addition that the completed keys are exactly the keys of the memo tables and
the analysed artefacts are exactly `st.analyzed`.
-/
namespace Slug

/-! ## 1. the invariant -/

/-- **C14_logOK_init.** -/
theorem C14_logOK_init : LogOK BState.init := logOK_init

/-- **C14_logOK_ensurePackage.** -/
theorem C14_logOK_ensurePackage (w : World) (st : BState) (pkg : PkgAddr) (h : LogOK st) :
    LogOK (ensurePackage w st pkg).1 :=
  (logOK_stepInv w).ensure st pkg h

/-- **C14_logOK_findRegistrySource.** -/
theorem C14_logOK_findRegistrySource (w : World) (st : BState) (src : RegSrc) (allowed : List VerS)
    (h : LogOK st) : LogOK (findRegistrySource w st src allowed).1 :=
  findRegistrySource_inv (logOK_stepInv w) st src allowed h

/-- **C14_logOK_applyDecls.** (`applyDecls` changes neither the log nor the memo tables.) -/
theorem C14_logOK_applyDecls (base : RemoteSrc) (decls : List Decl) (st : BState) (ds : List Diag)
    (h : LogOK st) : LogOK (applyDecls base decls st ds).1 :=
  logOK_sameMemo _ _ (applyDecls_sameMemo base decls st ds) h

/-- **C14_logOK_drain.** Every completed run of the loop, from either phase, any fuel. -/
theorem C14_logOK_drain (w : World) (fuel : Nat) (ph : Bool) (st : BState) (ds : List Diag)
    (st' : BState) (ds' : List Diag) (h : LogOK st) (hd : drain w fuel ph st ds = .done st' ds') :
    LogOK st' :=
  drain_invL (logOK_stepInv w) fuel ph st ds st' ds' h hd

/-- **C14_logOK_applyOp.** -/
theorem C14_logOK_applyOp (w : World) (fuel : Nat) (st : BState) (op : Op) (h : LogOK st) :
    LogOK (applyOp w fuel st op).1 :=
  applyOp_inv (logOK_stepInv w) fuel st op h

/-- **C14_logOK_runOps.** The invariant holds after any sequence of public operations. -/
theorem C14_logOK_runOps (w : World) (fuel : Nat) (ops : List Op) :
    LogOK (runOps w fuel BState.init ops).1 :=
  runOps_inv (logOK_stepInv w) fuel BState.init ops logOK_init

/-! ## 2. what the invariant says, event by event

`LogOK.key_counts`, `LogOK.analyse_count` (Lemmas/BuilderLog) give the counts per key. -/

/-- the log and the memo tables list the same successes -/
theorem C14_logOK_fetchOk_iff {st : BState} (h : LogOK st) (p : PkgAddr) :
    Ev.fetchOk p ∈ st.log ↔ p ∈ st.pkgDirs.map Prod.fst := by
  rw [← List.count_pos_iff, count_eq_cnt _ _ (by simp [Ev.cls])]
  exact (h.key_counts (.pkg p)).2.2.2.1

theorem C14_logOK_versOk_iff {st : BState} (h : LogOK st) (r : RegPkg) :
    Ev.versOk r ∈ st.log ↔ r ∈ st.regVersions.map Prod.fst := by
  rw [← List.count_pos_iff, count_eq_cnt _ _ (by simp [Ev.cls])]
  exact (h.key_counts (.reg r)).2.2.2.1

theorem C14_logOK_srcOk_iff {st : BState} (h : LogOK st) (r : RegPkg) (v : VerS) :
    Ev.srcOk r v ∈ st.log ↔ (r, v) ∈ st.resolved.map Prod.fst := by
  rw [← List.count_pos_iff, count_eq_cnt _ _ (by simp [Ev.cls])]
  exact (h.key_counts (.ver r v)).2.2.2.1

theorem C14_logOK_analyse_iff {st : BState} (h : LogOK st) (s : RemoteSrc) (f : FinderId) :
    Ev.analyse s f ∈ st.log ↔ (s, f) ∈ st.analyzed := by
  rw [← List.count_pos_iff, h.analyse_count]
  split <;> simp [*]

/-! ## 3. each piece of work once -/

/-- **C14_analyse_once.** Whatever the world, the operations and the fuel: no artefact
`(source, finder)` is analysed twice. -/
theorem C14_analyse_once (w : World) (fuel : Nat) (ops : List Op) (s : RemoteSrc) (f : FinderId) :
    (runOps w fuel BState.init ops).1.log.count (.analyse s f) ≤ 1 := by
  rw [(C14_logOK_runOps w fuel ops).analyse_count]
  split <;> omega

/-- **C14_fetch_calls.** The fetcher is called for `p` once per failure, plus once if `p` was
fetched successfully; it succeeds at most once. -/
theorem C14_fetch_calls (w : World) (fuel : Nat) (ops : List Op) (p : PkgAddr) :
    let log := (runOps w fuel BState.init ops).1.log
    log.count (.fetchCall p) = log.count (.fetchOk p) + log.count (.fetchFail p) ∧
      log.count (.fetchOk p) ≤ 1 := by
  intro log
  have h := (C14_logOK_runOps w fuel ops).key_counts (.pkg p)
  rw [count_eq_cnt (.fetchCall p) _ (by simp [Ev.cls]), count_eq_cnt (.fetchOk p) _ (by simp [Ev.cls]),
    count_eq_cnt (.fetchFail p) _ (by simp [Ev.cls])]
  exact ⟨h.2.1, h.2.2.1⟩

/-- **C14_fetch_once.** If no fetch of `p` failed, the fetcher was called for `p` at most once. -/
theorem C14_fetch_once (w : World) (fuel : Nat) (ops : List Op) (p : PkgAddr)
    (hf : Ev.fetchFail p ∉ (runOps w fuel BState.init ops).1.log) :
    (runOps w fuel BState.init ops).1.log.count (.fetchCall p) ≤ 1 := by
  have h := C14_fetch_calls w fuel ops p
  simp only at h
  rw [h.1, List.count_eq_zero.mpr hf]
  exact h.2

/-- **C14_versions_calls.** -/
theorem C14_versions_calls (w : World) (fuel : Nat) (ops : List Op) (r : RegPkg) :
    let log := (runOps w fuel BState.init ops).1.log
    log.count (.versCall r) = log.count (.versOk r) + log.count (.versFail r) ∧
      log.count (.versOk r) ≤ 1 := by
  intro log
  have h := (C14_logOK_runOps w fuel ops).key_counts (.reg r)
  rw [count_eq_cnt (.versCall r) _ (by simp [Ev.cls]), count_eq_cnt (.versOk r) _ (by simp [Ev.cls]),
    count_eq_cnt (.versFail r) _ (by simp [Ev.cls])]
  exact ⟨h.2.1, h.2.2.1⟩

/-- **C14_versions_once.** If no version listing of `r` failed, the registry was asked for the
versions of `r` at most once. -/
theorem C14_versions_once (w : World) (fuel : Nat) (ops : List Op) (r : RegPkg)
    (hf : Ev.versFail r ∉ (runOps w fuel BState.init ops).1.log) :
    (runOps w fuel BState.init ops).1.log.count (.versCall r) ≤ 1 := by
  have h := C14_versions_calls w fuel ops r
  simp only at h
  rw [h.1, List.count_eq_zero.mpr hf]
  exact h.2

/-- **C14_source_calls.** -/
theorem C14_source_calls (w : World) (fuel : Nat) (ops : List Op) (r : RegPkg) (v : VerS) :
    let log := (runOps w fuel BState.init ops).1.log
    log.count (.srcCall r v) = log.count (.srcOk r v) + log.count (.srcFail r v) ∧
      log.count (.srcOk r v) ≤ 1 := by
  intro log
  have h := (C14_logOK_runOps w fuel ops).key_counts (.ver r v)
  rw [count_eq_cnt (.srcCall r v) _ (by simp [Ev.cls]), count_eq_cnt (.srcOk r v) _ (by simp [Ev.cls]),
    count_eq_cnt (.srcFail r v) _ (by simp [Ev.cls])]
  exact ⟨h.2.1, h.2.2.1⟩

/-- **C14_source_once.** If no source lookup of `r` at `v` failed, the registry was asked for
the source of `r` at `v` at most once. -/
theorem C14_source_once (w : World) (fuel : Nat) (ops : List Op) (r : RegPkg) (v : VerS)
    (hf : Ev.srcFail r v ∉ (runOps w fuel BState.init ops).1.log) :
    (runOps w fuel BState.init ops).1.log.count (.srcCall r v) ≤ 1 := by
  have h := C14_source_calls w fuel ops r v
  simp only at h
  rw [h.1, List.count_eq_zero.mpr hf]
  exact h.2

/-! ## 4. trace events are bracketed -/

/-- **C14_trace_bracketed.** The final log, read oldest-first, is accepted by the bracket
automaton and ends outside any bracket. -/
theorem C14_trace_bracketed (w : World) (fuel : Nat) (ops : List Op) :
    logWf (runOps w fuel BState.init ops).1.log.reverse = true := by
  obtain ⟨a, h1, h2, _⟩ := C14_logOK_runOps w fuel ops
  exact (logWf_reverse_iff _).mpr ⟨a, h1, h2⟩

/-- the same for every state satisfying the invariant (e.g. after each single `applyOp`) -/
theorem C14_logOK_bracketed {st : BState} (h : LogOK st) : logWf st.log.reverse = true := by
  obtain ⟨a, h1, h2, _⟩ := h
  exact (logWf_reverse_iff _).mpr ⟨a, h1, h2⟩

/-! ### what acceptance means, position by position

`logWf l = true` is unfolded by the lemmas `logWf_start_followed`, `logWf_call_preceded`,
`logWf_end_preceded`, `logWf_already_after_ok`, `logWf_start_not_after_ok`, `logWf_analyse_once`
(Lemmas/BuilderLog).  Instances for the three families, on the final log of a run: -/

/-- **C14_fetch_bracket.** Wherever `fetchStart p` stands in the oldest-first log, the next two
events are `fetchCall p` and then `fetchOk p` or `fetchFail p`; and no `fetchOk p` precedes it. -/
theorem C14_fetch_bracket (w : World) (fuel : Nat) (ops : List Op) (p : PkgAddr)
    (pre rest : List Ev)
    (h : (runOps w fuel BState.init ops).1.log.reverse = pre ++ .fetchStart p :: rest) :
    (∃ rest', rest = .fetchCall p :: .fetchOk p :: rest' ∨ rest = .fetchCall p :: .fetchFail p :: rest') ∧
      Ev.fetchOk p ∉ pre := by
  have hw := C14_trace_bracketed w fuel ops
  rw [h] at hw
  obtain ⟨e2, e3, rest', hr, h2, h3⟩ := logWf_start_followed pre rest _ (.pkg p) hw rfl
  have e2' : e2 = .fetchCall p := (Ev.cls_eq_iff e2 (.fetchCall p) (by simp [Ev.cls])).mp h2
  refine ⟨⟨rest', ?_⟩, fun hm => logWf_start_not_after_ok pre rest _ (.pkg p) hw rfl _ hm rfl⟩
  rcases h3 with h3 | h3
  · left; rw [hr, e2', (Ev.cls_eq_iff e3 (.fetchOk p) (by simp [Ev.cls])).mp h3]
  · right; rw [hr, e2', (Ev.cls_eq_iff e3 (.fetchFail p) (by simp [Ev.cls])).mp h3]

/-- **C14_fetch_already.** `fetchAlready p` appears only after an earlier `fetchOk p`. -/
theorem C14_fetch_already (w : World) (fuel : Nat) (ops : List Op) (p : PkgAddr)
    (pre rest : List Ev)
    (h : (runOps w fuel BState.init ops).1.log.reverse = pre ++ .fetchAlready p :: rest) :
    Ev.fetchOk p ∈ pre := by
  have hw := C14_trace_bracketed w fuel ops
  rw [h] at hw
  obtain ⟨e', hm, hc⟩ := logWf_already_after_ok pre rest _ (.pkg p) hw rfl
  rw [← (Ev.cls_eq_iff e' (.fetchOk p) (by simp [Ev.cls])).mp hc]; exact hm

/-- **C14_fetch_call_inside.** `fetchCall p` is immediately preceded by `fetchStart p`, and
`fetchOk p` / `fetchFail p` by `fetchStart p`, `fetchCall p`: the fetcher is never called outside a
bracket. -/
theorem C14_fetch_call_inside (w : World) (fuel : Nat) (ops : List Op) (p : PkgAddr)
    (pre rest : List Ev)
    (h : (runOps w fuel BState.init ops).1.log.reverse = pre ++ .fetchCall p :: rest) :
    ∃ pre', pre = pre' ++ [.fetchStart p] := by
  have hw := C14_trace_bracketed w fuel ops
  rw [h] at hw
  obtain ⟨pre', e0, hp, hc⟩ := logWf_call_preceded pre rest _ (.pkg p) hw rfl
  exact ⟨pre', by rw [hp, (Ev.cls_eq_iff e0 (.fetchStart p) (by simp [Ev.cls])).mp hc]⟩

/-- **C14_versions_bracket.** -/
theorem C14_versions_bracket (w : World) (fuel : Nat) (ops : List Op) (r : RegPkg)
    (pre rest : List Ev)
    (h : (runOps w fuel BState.init ops).1.log.reverse = pre ++ .versStart r :: rest) :
    (∃ rest', rest = .versCall r :: .versOk r :: rest' ∨ rest = .versCall r :: .versFail r :: rest') ∧
      Ev.versOk r ∉ pre := by
  have hw := C14_trace_bracketed w fuel ops
  rw [h] at hw
  obtain ⟨e2, e3, rest', hr, h2, h3⟩ := logWf_start_followed pre rest _ (.reg r) hw rfl
  have e2' : e2 = .versCall r := (Ev.cls_eq_iff e2 (.versCall r) (by simp [Ev.cls])).mp h2
  refine ⟨⟨rest', ?_⟩, fun hm => logWf_start_not_after_ok pre rest _ (.reg r) hw rfl _ hm rfl⟩
  rcases h3 with h3 | h3
  · left; rw [hr, e2', (Ev.cls_eq_iff e3 (.versOk r) (by simp [Ev.cls])).mp h3]
  · right; rw [hr, e2', (Ev.cls_eq_iff e3 (.versFail r) (by simp [Ev.cls])).mp h3]

/-- **C14_versions_already.** -/
theorem C14_versions_already (w : World) (fuel : Nat) (ops : List Op) (r : RegPkg)
    (pre rest : List Ev)
    (h : (runOps w fuel BState.init ops).1.log.reverse = pre ++ .versAlready r :: rest) :
    Ev.versOk r ∈ pre := by
  have hw := C14_trace_bracketed w fuel ops
  rw [h] at hw
  obtain ⟨e', hm, hc⟩ := logWf_already_after_ok pre rest _ (.reg r) hw rfl
  rw [← (Ev.cls_eq_iff e' (.versOk r) (by simp [Ev.cls])).mp hc]; exact hm

/-- **C14_source_bracket.** -/
theorem C14_source_bracket (w : World) (fuel : Nat) (ops : List Op) (r : RegPkg) (v : VerS)
    (pre rest : List Ev)
    (h : (runOps w fuel BState.init ops).1.log.reverse = pre ++ .srcStart r v :: rest) :
    (∃ rest', rest = .srcCall r v :: .srcOk r v :: rest' ∨
        rest = .srcCall r v :: .srcFail r v :: rest') ∧
      Ev.srcOk r v ∉ pre := by
  have hw := C14_trace_bracketed w fuel ops
  rw [h] at hw
  obtain ⟨e2, e3, rest', hr, h2, h3⟩ := logWf_start_followed pre rest _ (.ver r v) hw rfl
  have e2' : e2 = .srcCall r v := (Ev.cls_eq_iff e2 (.srcCall r v) (by simp [Ev.cls])).mp h2
  refine ⟨⟨rest', ?_⟩, fun hm => logWf_start_not_after_ok pre rest _ (.ver r v) hw rfl _ hm rfl⟩
  rcases h3 with h3 | h3
  · left; rw [hr, e2', (Ev.cls_eq_iff e3 (.srcOk r v) (by simp [Ev.cls])).mp h3]
  · right; rw [hr, e2', (Ev.cls_eq_iff e3 (.srcFail r v) (by simp [Ev.cls])).mp h3]

/-- **C14_source_already.** -/
theorem C14_source_already (w : World) (fuel : Nat) (ops : List Op) (r : RegPkg) (v : VerS)
    (pre rest : List Ev)
    (h : (runOps w fuel BState.init ops).1.log.reverse = pre ++ .srcAlready r v :: rest) :
    Ev.srcOk r v ∈ pre := by
  have hw := C14_trace_bracketed w fuel ops
  rw [h] at hw
  obtain ⟨e', hm, hc⟩ := logWf_already_after_ok pre rest _ (.ver r v) hw rfl
  rw [← (Ev.cls_eq_iff e' (.srcOk r v) (by simp [Ev.cls])).mp hc]; exact hm

/-! ## non-vacuity

On the example world (`exWorldL`, `exOpsL` in Lemmas/BuilderLog: two packages with a cycle between
`A` and `B//sub`, a registry package listed in shuffled order): the run completes within 40 units
of fuel, and the trace is the expected one. -/

/-- the first operation alone: oldest-first trace.  `A` is fetched once although it is needed
twice (the cycle), `B` once although three artefacts live in it; the registry listing and the
source of 1.1.0 (the newest allowed; 2.0.0 is newer but not allowed) are requested once. -/
example : (runOps exWorldL 40 BState.init (exOpsL.take 1)).1.log.reverse =
    [.fetchStart exPkgA, .fetchCall exPkgA, .fetchOk exPkgA,
     .analyse ⟨exPkgA, []⟩ 0, .traceDiags 1,
     .fetchAlready exPkgA, .analyse ⟨exPkgA, "child".toList⟩ 0,
     .fetchStart exPkgB, .fetchCall exPkgB, .fetchOk exPkgB,
     .analyse ⟨exPkgB, "sub".toList⟩ 0,
     .fetchAlready exPkgA,
     .versStart exReg, .versCall exReg, .versOk exReg,
     .srcStart exReg "1.1.0".toList, .srcCall exReg "1.1.0".toList, .srcOk exReg "1.1.0".toList,
     .fetchAlready exPkgB, .analyse ⟨exPkgB, "modules/x".toList⟩ 0,
     .fetchAlready exPkgB, .analyse ⟨exPkgB, "other".toList⟩ 0] := by decide

/-- all three operations: the second one only adds a `versAlready` (cached listing, no allowed
version), the third is refused and adds nothing -/
example : (runOps exWorldL 40 BState.init exOpsL).1.log.length = 23 ∧
    (runOps exWorldL 40 BState.init exOpsL).1.log.head? = some (.versAlready exReg) := by decide

/-- the automaton does reject: a call outside a bracket, a second fetch after success, a second
analysis, an `already` before any success -/
example : logWf [.fetchCall exPkgA] = false := by decide
example : logWf [.fetchStart exPkgA, .fetchCall exPkgA, .fetchOk exPkgA,
                 .fetchStart exPkgA, .fetchCall exPkgA, .fetchOk exPkgA] = false := by decide
example : logWf [.analyse ⟨exPkgA, []⟩ 0, .analyse ⟨exPkgA, []⟩ 0] = false := by decide
example : logWf [.fetchAlready exPkgA] = false := by decide
example : logWf [.fetchStart exPkgA, .analyse ⟨exPkgA, []⟩ 0, .fetchCall exPkgA, .fetchOk exPkgA]
    = false := by decide
/-- and accepts a retry after a failure -/
example : logWf [.fetchStart exPkgA, .fetchCall exPkgA, .fetchFail exPkgA,
                 .fetchStart exPkgA, .fetchCall exPkgA, .fetchOk exPkgA,
                 .fetchAlready exPkgA] = true := by decide

/-- **C14_cex_refetch_after_failure.** The "no failure" hypothesis of `C14_fetch_once` is needed:
a failed fetch is not remembered, so a package whose fetch fails is fetched again each time it is
needed (here: two artefacts of the unfetchable package `B` are dependencies of `A`). -/
theorem C14_cex_refetch_after_failure :
    let w : World :=
      { fetch := [(exPkgA, some ("cA".toList, none)), (exPkgB, none)], versions := [], sources := [],
        deps := [(("cA".toList, [], 0), [.remote ⟨exPkgB, []⟩ 0, .remote ⟨exPkgB, "s".toList⟩ 0])] }
    let log := (runOps w 20 BState.init [.addRemote ⟨exPkgA, []⟩ 0]).1.log
    log.count (.fetchCall exPkgB) = 2 ∧ log.count (.fetchFail exPkgB) = 2 := by
  decide

end Slug
