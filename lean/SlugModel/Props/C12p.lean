import SlugModel.PackIO
/-!
# C12 (Pack, write side) — a failing output writer is always reported; C20: a Meta only for a complete slug

Model: `PackIO.lean`.  Tie: `Generated.ioErrChecks` is rewritten from slug.go by the extractor on every
run (is the error result of `tarW.WriteHeader`, `io.Copy(tarW, …)`, `tarW.Close()`, `gzipW.Close()`
tested at its single call site and turned into a non-nil error return?); `C12_pack_checks_extracted`
evaluates it, so a dropped or deferred check stops this file from building.  The `pack-faults` lane
fails the writer at every byte offset of generated slugs against the real code (oracle: an error is
returned and no Meta for every offset below the total length).
-/
namespace Slug

/-- **C12_pack_checks_extracted.** On /repo's current source every write-side error result of `Pack`
is tested (regenerated fact, evaluated by the kernel). -/
theorem C12_pack_checks_extracted : ioChecks = ⟨true, true, true, true⟩ := by decide

theorem writerOps_length_pos (es : List Entry) : 2 ≤ (writerOps es).length := by
  simp [writerOps]

/-- with the final close checked, a failure surfacing at any operation of the run is reported -/
theorem reported_of_gzClose (c : IOChecks) (h : c.gzClose = true) (es : List Entry) (k : Nat)
    (hk : k < (writerOps es).length) : reported c k (writerOps es) = true := by
  unfold reported
  rw [List.any_eq_true]
  refine ⟨WOp.gzClose, ?_, by simp [IOChecks.checked, h]⟩
  have hlast : (writerOps es).getLast? = some WOp.gzClose := by simp [writerOps]
  have hne : (writerOps es).drop k ≠ [] := by
    intro h0
    have := List.drop_eq_nil_iff.mp h0
    omega
  have : ((writerOps es).drop k).getLast? = some WOp.gzClose := by
    rw [List.getLast?_drop]
    simp [hlast]; omega
  exact List.mem_of_getLast? this

/-- **C12_pack_write_fault_reported.** For every tree, option set and source argument: if the output
writer's failure surfaces at any write-side operation of the run (header or body of any entry, the tar
close, the gzip close — `k` ranges over all of them), `Pack` returns an error and no `Meta`. -/
theorem C12_pack_write_fault_reported (fs : FS) (cwd : Str) (o : PackOpts) (src : Str) (k : Nat)
    (hk : k < (writerOps (pack fs cwd o src).1.entries).length) :
    (packIO ioChecks fs cwd o src (some k)).2 ≠ .ok ∧ (packIO ioChecks fs cwd o src (some k)).1 = none := by
  unfold packIO
  cases hr : (pack fs cwd o src).2 with
  | ok =>
    have := reported_of_gzClose ioChecks (by rw [C12_pack_checks_extracted]) _ k hk
    simp [this]
  | illegal => simp; split <;> simp
  | ioerr => simp
  | diverged => simp; split <;> simp

/-- **C12_pack_fault_free_same.** A writer that never fails changes nothing: result and Meta are the
walk's. -/
theorem C12_pack_fault_free_same (c : IOChecks) (fs : FS) (cwd : Str) (o : PackOpts) (src : Str) :
    (packIO c fs cwd o src none).2 = (pack fs cwd o src).2 ∧
    ((packIO c fs cwd o src none).1 = if (pack fs cwd o src).2 = .ok then some (pack fs cwd o src).1.pmeta else none) := by
  unfold packIO
  cases hr : (pack fs cwd o src).2 <;> simp

/-- **C12_pack_meta_only_if_reported_nothing.** Whenever `Pack` returns a `Meta`, the result is success, the
`Meta` is the walk's, and — on /repo's current checks — no failure surfaced at any operation of the
run: the slug was written in full. -/
theorem C12_pack_meta_only_if_reported_nothing (fs : FS) (cwd : Str) (o : PackOpts) (src : Str)
    (surface : Option Nat) (m : PMeta) (h : (packIO ioChecks fs cwd o src surface).1 = some m) :
    (packIO ioChecks fs cwd o src surface).2 = .ok ∧ m = (pack fs cwd o src).1.pmeta ∧
    (∀ k, surface = some k → (writerOps (pack fs cwd o src).1.entries).length ≤ k) := by
  unfold packIO at h ⊢
  cases hr : (pack fs cwd o src).2 with
  | ok =>
    rw [hr] at h
    cases surface with
    | none => simp at h ⊢; exact h.symm
    | some k =>
      by_cases hk : k < (writerOps (pack fs cwd o src).1.entries).length
      · have := reported_of_gzClose ioChecks (by rw [C12_pack_checks_extracted]) _ k hk
        simp [this] at h
      · have hrep : reported ioChecks k (writerOps (pack fs cwd o src).1.entries) = false := by
          unfold reported
          rw [List.drop_eq_nil_iff.mpr (by omega)]; rfl
        simp [hrep] at h ⊢
        exact ⟨h.symm, by omega⟩
  | illegal => rw [hr] at h; cases surface <;> simp at h; split at h <;> simp at h
  | ioerr => rw [hr] at h; cases surface <;> simp at h
  | diverged => rw [hr] at h; cases surface <;> simp at h; split at h <;> simp at h

/-- **C12_cex_unchecked_gzclose.** Why the last check matters: were `gzipW.Close()`'s error not tested
(as when the call is deferred), a failure surfacing only there — the last bytes of the stream — would
go unreported: `Pack` would return success and a `Meta` for a truncated slug. -/
theorem C12_cex_unchecked_gzclose (es : List Entry) :
    reported ⟨true, true, true, false⟩ ((writerOps es).length - 1) (writerOps es) = false := by
  unfold reported
  have : (writerOps es).drop ((writerOps es).length - 1) = [WOp.gzClose] := by
    simp [writerOps]
  rw [this]; rfl

/-- **C12_sticky_errors_make_earlier_checks_redundant.** Because the writers keep their first error,
the final check alone already reports every failure; the earlier checks only make `Pack` stop sooner. -/
theorem C12_sticky_errors_make_earlier_checks_redundant (es : List Entry) (k : Nat)
    (hk : k < (writerOps es).length) : reported ⟨false, false, false, true⟩ k (writerOps es) = true :=
  reported_of_gzClose _ rfl es k hk

end Slug
