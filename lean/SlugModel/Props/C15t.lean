import SlugModel.Lemmas.TrEq_newUnpackInfo
import SlugModel.Lemmas.TrEq_isRegular
import SlugModel.Lemmas.TrEq_isDirectory
import SlugModel.Lemmas.TrEq_isSymlink
import SlugModel.Lemmas.TrEq_isTypeX
import SlugModel.Props.C15
/-!
# C15 (tie by translation)

Tie by translation: the model function the theorems of this property are stated over equals the Lean
translation of the Go function, regenerated from /repo on every run (harness/cmd/go2lean); a change of
the Go function changes the translated definition and this proof obligation no longer checks.

An error result of the Go function is read as `(zero value, true)`, a normal one as `(value, false)`.
-/
namespace Slug

/-- **C15_tie_newUnpackInfo.** The model's `newUnpackInfo` is the translated `NewUnpackInfo`
(internal/unpackinfo/unpackinfo.go), for every filesystem, destination and entry: a normal return carries the
model's extraction path and the header's type flag, an error return is the model's `none`. -/
theorem C15_tie_newUnpackInfo (fs : FS) (dst : Str) (e : Entry) :
    Gen.newUnpackInfo fs dst e.name e.typ =
      (match newUnpackInfo fs dst e with
       | some p => (({ path := p, typeflag := e.typ } : Go.UnpackInfo), false)
       | none => (({ path := [], typeflag := Char.ofNat 0 } : Go.UnpackInfo), true)) :=
  gen_newUnpackInfo fs dst e

/-- **C15_tie_isRegular.** The model's `Entry.isRegular` is the translated `IsRegular` (internal/unpackinfo/unpackinfo.go). -/
theorem C15_tie_isRegular (i : Go.UnpackInfo) (e : Entry) (h : e.typ = i.typeflag) :
    Gen.isRegular i = e.isRegular :=
  gen_isRegular i e h

/-- **C15_tie_isDirectory.** The model's `Entry.isDir` is the translated `IsDirectory` (internal/unpackinfo/unpackinfo.go). -/
theorem C15_tie_isDirectory (i : Go.UnpackInfo) (e : Entry) (h : e.typ = i.typeflag) :
    Gen.isDirectory i = e.isDir :=
  gen_isDirectory i e h

/-- **C15_tie_isSymlink.** The model's `Entry.isSymlink` is the translated `IsSymlink` (internal/unpackinfo/unpackinfo.go). -/
theorem C15_tie_isSymlink (i : Go.UnpackInfo) (e : Entry) (h : e.typ = i.typeflag) :
    Gen.isSymlink i = e.isSymlink :=
  gen_isSymlink i e h

/-- **C15_tie_isTypeX.** The model's `Entry.isTypeX` is the translated `IsTypeX` (internal/unpackinfo/unpackinfo.go). -/
theorem C15_tie_isTypeX (i : Go.UnpackInfo) (e : Entry) (h : e.typ = i.typeflag) :
    Gen.isTypeX i = e.isTypeX :=
  gen_isTypeX i e h

/-! ### The property, stated over the translated function -/

/-- **C15_gen_type_gate.** The Go function `NewUnpackInfo` (internal/unpackinfo/unpackinfo.go), as translated,
fails — whatever the filesystem, the destination and the entry's name — for every tar type flag other than the
six supported ones: `'0'` and NUL (regular file), `'5'` (directory), `'2'` (symbolic link), `'x'` and `'g'`
(pax extended headers).  Hard links, devices, fifos and every other type are refused rather than dropped. -/
theorem C15_gen_type_gate (fs : FS) (dst name : Str) (typ : Char)
    (h : typ ≠ '0' ∧ typ ≠ Char.ofNat 0 ∧ typ ≠ '5' ∧ typ ≠ '2' ∧ typ ≠ 'x' ∧ typ ≠ 'g') :
    Gen.newUnpackInfo fs dst name typ =
      (({ path := [], typeflag := Char.ofNat 0 } : Go.UnpackInfo), true) := by
  obtain ⟨h0, hA, h5, h2, hx, hg⟩ := h
  have hg' := gen_newUnpackInfo fs dst
    { name := name, typ := typ, mode := 0, mtime := 0, link := [], body := [] }
  simp only at hg'
  rw [hg', newUnpackInfo_unsupported]
  simp [Entry.supported, Entry.isDir, Entry.isSymlink, Entry.isRegular, Entry.isTypeX,
    tDir, tSymlink, tReg, tRegA, tXGlobal, tXHeader, h0, hA, h5, h2, hx, hg]

/-- **C15_gen_type_gate_conv.** Read the other way: a header for which the translated `NewUnpackInfo` returns
without error carries one of the six supported type flags, and the returned `UnpackInfo` carries the same flag. -/
theorem C15_gen_type_gate_conv (fs : FS) (dst name : Str) (typ : Char) (info : Go.UnpackInfo)
    (h : Gen.newUnpackInfo fs dst name typ = (info, false)) :
    (typ = '0' ∨ typ = Char.ofNat 0 ∨ typ = '5' ∨ typ = '2' ∨ typ = 'x' ∨ typ = 'g') ∧
    info.typeflag = typ := by
  refine ⟨?_, ?_⟩
  · apply Classical.byContradiction
    intro hn
    simp only [not_or] at hn
    rw [C15_gen_type_gate fs dst name typ hn] at h
    simp at h
  · have hg' := gen_newUnpackInfo fs dst
      { name := name, typ := typ, mode := 0, mtime := 0, link := [], body := [] }
    simp only at hg'
    rw [hg'] at h
    split at h
    · have := (Prod.mk.inj h).1; rw [← this]
    · simp at h

end Slug
