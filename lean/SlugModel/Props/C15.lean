import SlugModel.Lemmas.UnpackBasic
/-!
# C15 — an entry of a type that cannot be represented makes Unpack fail rather than be dropped

Property theorems only; helper lemmas live in `Lemmas/UnpackBasic`.
`unpackEntry`, `unpackLoop`, `restoreDirs`, `unpack` (Unpack.lean) are the model of
`Packer.Unpack` (tied to the code by the `unpack` lane).  `Entry.supported` is "directory,
symlink, regular file, or pax extended header" — hard links, devices and fifos are not.
`dirRecords dst es` is the list of `(path, mode, mtime)` of the named directory entries of `es`
in archive order, `entryPath dst e` the path `NewUnpackInfo` computes for `e`.
-/
namespace Slug

section
variable (cwd : Str) (allow : List Str) (priv : Bool) (dst : Str)

/-- **C15_unsupported_fails.** If `Unpack` returns success — with or without a reader fault —
every entry of the archive either has an empty name (those are skipped by the code before any
check) or has a supported type.  Contrapositive: one named hard-link/device/fifo entry anywhere in
the archive and `Unpack` does not succeed. -/
theorem C15_unsupported_fails (fault : Fault) (fs : FS) (es : List Entry)
    (h : (unpack cwd allow priv dst fault fs es).2 = .ok) :
    ∀ e ∈ es, e.name = [] ∨ e.supported = true := by
  have h' : unpack cwd allow priv dst fault fs es = ((unpack cwd allow priv dst fault fs es).1, .ok) := by
    rw [← h]
  obtain ⟨st, hl, _⟩ := (unpack_ok_iff cwd allow priv dst fault _ _ es).1 h'
  exact unpackLoop_none_supported cwd allow priv dst fault 0 _ st es hl

/-- **C15_unsupported_is_illegal.** A named entry of an unsupported type makes the step return
the illegal-slug error, and nothing has been written to the filesystem by that step (in fact the
whole state is unchanged: `C15_unsupported_state`). -/
theorem C15_unsupported_is_illegal (st : UState) (e : Entry) (body : Str) (be : Bool)
    (hn : e.name ≠ []) (hs : e.supported = false) :
    (unpackEntry cwd allow priv dst st e body be).2 = some .illegal ∧
    (unpackEntry cwd allow priv dst st e body be).1.fs = st.fs := by
  rw [unpackEntry_info_none cwd allow priv dst st e body be hn (newUnpackInfo_unsupported st.fs dst e hs)]
  exact ⟨rfl, rfl⟩

/-- the step form of `C15_unsupported_is_illegal`: result and unchanged state in one equation -/
theorem C15_unsupported_state (st : UState) (e : Entry) (body : Str) (be : Bool)
    (hn : e.name ≠ []) (hs : e.supported = false) :
    unpackEntry cwd allow priv dst st e body be = (st, some .illegal) :=
  unpackEntry_info_none cwd allow priv dst st e body be hn (newUnpackInfo_unsupported st.fs dst e hs)

/-- **C15_empty_name_skipped.** An entry with an empty name is skipped before any check, whatever
its type: the state is unchanged and the loop continues. -/
theorem C15_empty_name_skipped (st : UState) (e : Entry) (body : Str) (be : Bool)
    (hn : e.name = []) : unpackEntry cwd allow priv dst st e body be = (st, none) :=
  unpackEntry_nil_name cwd allow priv dst st e body be hn

/-- **C15_loop_defers_dirs.** A loop that runs to the end has appended to the deferred list
exactly the `(path, mode, mtime)` records of the named directory entries it processed, in archive
order (the code tests `IsSymlink` before `IsDirectory`; the type flags are distinct characters,
so a directory entry is never a symlink entry: `Entry.not_symlink_of_dir`). -/
theorem C15_loop_defers_dirs (fault : Fault) (idx : Nat) (st st' : UState) (es : List Entry)
    (h : unpackLoop cwd allow priv dst fault idx st es = (st', none)) :
    st'.dirs = st.dirs ++ dirRecords dst es :=
  unpackLoop_dirs cwd allow priv dst fault idx st st' es h

/-- the modes-and-times reading of `C15_loop_defers_dirs` -/
theorem C15_loop_defers_dirs_meta (fault : Fault) (idx : Nat) (st st' : UState) (es : List Entry)
    (h : unpackLoop cwd allow priv dst fault idx st es = (st', none)) :
    st'.dirs.map (fun d => (d.2.1, d.2.2)) =
      st.dirs.map (fun d => (d.2.1, d.2.2)) ++
        (es.filter (fun e => e.name ≠ [] ∧ e.isDir = true ∧ ¬ e.isSymlink = true)).map
          (fun e => (e.mode, e.mtime)) := by
  rw [unpackLoop_dirs cwd allow priv dst fault idx st st' es h, List.map_append, dirRecords,
    List.map_map]
  congr 2
  apply List.filter_congr
  intro e _
  by_cases hd : e.isDir = true
  · simp [hd, Entry.not_symlink_of_dir hd]
  · simp [hd]

/-- **C15_dirs_restored_last.** `Unpack` is the entry loop followed by the deferred directory
pass: (1) a result surfaced by the loop is returned as it is, with the filesystem the loop left,
and the deferred list is not applied; (2) when the loop runs to the end, the deferred list is
exactly `dirRecords dst es` and `Unpack` is `restoreDirs` on it — applied to the filesystem the
loop left, after every entry has been written. -/
theorem C15_dirs_restored_last (fault : Fault) (fs : FS) (es : List Entry) :
    (∀ st r, unpackLoop cwd allow priv dst fault 0 { fs := fs, dirs := [] } es = (st, some r) →
      unpack cwd allow priv dst fault fs es = (st.fs, r)) ∧
    (∀ st, unpackLoop cwd allow priv dst fault 0 { fs := fs, dirs := [] } es = (st, none) →
      st.dirs = dirRecords dst es ∧
      unpack cwd allow priv dst fault fs es =
        ((restoreDirs st.fs (dirRecords dst es)).1,
         ((restoreDirs st.fs (dirRecords dst es)).2).getD .ok)) := by
  refine ⟨fun st r h => unpack_of_loop_some cwd allow priv dst h, fun st h => ?_⟩
  have hd : st.dirs = dirRecords dst es := by
    have := unpackLoop_dirs cwd allow priv dst fault 0 _ st es h
    simpa using this
  refine ⟨hd, ?_⟩
  rw [unpack_of_loop_none cwd allow priv dst h, hd]

/-- the deferred pass itself never reports an illegal slug and never "succeeds early" -/
theorem C15_restoreDirs_result (fs : FS) (ds : List (Str × Nat × Int)) :
    (restoreDirs fs ds).2 = none ∨ (restoreDirs fs ds).2 = some .ioerr :=
  restoreDirs_result fs ds

end

/-! ## non-vacuity -/

/-- `/t/dst` exists and is empty -/
def c15fs : FS := [(["t".toList], .dir 0o755 0), (["t".toList, "dst".toList], .dir 0o755 0)]
def c15dst : Str := "/t/dst".toList

def c15dir : Entry := ⟨"d".toList, tDir, 0o555, 7, [], []⟩
def c15file : Entry := ⟨"d/f".toList, tReg, 0o644, 5, [], "hi".toList⟩
def c15pax : Entry := ⟨"pax".toList, tXHeader, 0o644, 0, [], []⟩
def c15hard : Entry := ⟨"h".toList, '1', 0o644, 5, "d/f".toList, []⟩
def c15fifo : Entry := ⟨"p".toList, '6', 0o644, 5, [], []⟩
def c15anon : Entry := ⟨[], '1', 0o644, 5, [], []⟩

example : c15hard.supported = false ∧ c15fifo.supported = false ∧ c15dir.supported = true := by decide

/-- the success hypothesis of `C15_unsupported_fails` is met by an ordinary archive, including a
read-only directory that receives a file (its mode is applied last) and an unnamed entry of an
unsupported type -/
example : (unpack [] [] false c15dst .none c15fs [c15dir, c15file, c15pax, c15anon]).2 = .ok := by decide

/-- a hard link or a fifo anywhere makes the same archive fail, with the illegal-slug error -/
example : (unpack [] [] false c15dst .none c15fs [c15dir, c15file, c15hard]).2 = .illegal := by decide
example : (unpack [] [] false c15dst .none c15fs [c15fifo, c15dir, c15file]).2 = .illegal := by decide

/-- the deferred list of that run, and its effect: the directory ends up with the archive's mode
and mtime although a file was created in it afterwards -/
example : dirRecords c15dst [c15dir, c15file, c15pax, c15anon] = [("/t/dst/d".toList, 0o555, 7)] := by
  decide
example :
    FS.lookup (unpack [] [] false c15dst .none c15fs [c15dir, c15file]).1
      ["t".toList, "dst".toList, "d".toList] = some (.dir 0o555 7) := by decide

end Slug
