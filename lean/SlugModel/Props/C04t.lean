import SlugModel.Lemmas.TrEq_validSymlink
import SlugModel.Lemmas.TrEq_allowedSymlinkTarget
import SlugModel.Lemmas.TrEq_isWithin
import SlugModel.Lemmas.TrEq_newUnpackInfo
import SlugModel.Props.C04
/-!
# C04 (tie by translation)

Tie by translation: the model function the theorems of this property are stated over equals the Lean
translation of the Go function, regenerated from /repo on every run (harness/cmd/go2lean); a change of
the Go function changes the translated definition and this proof obligation no longer checks.

An error result of the Go function is read as `(zero value, true)`, a normal one as `(value, false)`.
-/
namespace Slug

/-- **C04_tie_validSymlink.** The model's `validSymlink` is the translated `validSymlink` (slug.go). -/
theorem C04_tie_validSymlink (cwd : Str) (allow : List Str) (root path target : Str) :
    Gen.validSymlink cwd allow root path target =
      (validSymlink cwd allow root path target, !validSymlink cwd allow root path target) :=
  gen_validSymlink cwd allow root path target

/-- **C04_tie_allowedSymlinkTarget.** The model's `allowedTarget` is the translated `allowedSymlinkTarget` (slug.go). -/
theorem C04_tie_allowedSymlinkTarget (allow : List Str) (r t : Str) :
    Gen.allowedSymlinkTarget allow r t = allowedTarget allow r t :=
  gen_allowedSymlinkTarget allow r t

/-- **C04_tie_isWithin.** The model's `isWithin` is the translated `isWithin` (internal/unpackinfo/unpackinfo.go). -/
theorem C04_tie_isWithin (r p : Str) : Gen.isWithin r p = isWithin r p :=
  gen_isWithin r p

/-- **C04_tie_newUnpackInfo.** The model's `newUnpackInfo` is the translated `NewUnpackInfo`
(internal/unpackinfo/unpackinfo.go), for every filesystem, destination and entry: a normal return carries the
model's extraction path and the header's type flag, an error return is the model's `none`. -/
theorem C04_tie_newUnpackInfo (fs : FS) (dst : Str) (e : Entry) :
    Gen.newUnpackInfo fs dst e.name e.typ =
      (match newUnpackInfo fs dst e with
       | some p => (({ path := p, typeflag := e.typ } : Go.UnpackInfo), false)
       | none => (({ path := [], typeflag := Char.ofNat 0 } : Go.UnpackInfo), true)) :=
  gen_newUnpackInfo fs dst e

/-! ### The property, stated over the translated function

`validSymlink` returns `(true, nil)` or `(false, error)`; read as `(true, false)` and `(false, true)`. -/

/-- the absolute target `validSymlink` tests: an absolute target cleaned, a relative one joined onto the
directory of the (absolute) link path -/
def symlinkAbsTarget (cwd root path target : Str) : Str :=
  if isAbs target then pathClean target
  else pathJoin (pathDir (if isAbs path then path else pathJoin (pathAbs cwd root) path)) target

/-- **C04_gen_validSymlink_spec.** The Go function `validSymlink` (slug.go), as translated, for every working
directory, allow-list, root, link path and target: it accepts exactly when the absolute target is lexically
inside the absolute root (`isWithin`) or is allow-listed (`allowedSymlinkTarget`), and it returns an error
exactly when it does not accept. -/
theorem C04_gen_validSymlink_spec (cwd : Str) (allow : List Str) (root path target : Str) :
    Gen.validSymlink cwd allow root path target =
      ((isWithin (pathAbs cwd root) (symlinkAbsTarget cwd root path target) ||
         allowedTarget allow (pathAbs cwd root) (symlinkAbsTarget cwd root path target)),
       !(isWithin (pathAbs cwd root) (symlinkAbsTarget cwd root path target) ||
         allowedTarget allow (pathAbs cwd root) (symlinkAbsTarget cwd root path target))) := by
  have e : validSymlink cwd allow root path target =
      (isWithin (pathAbs cwd root) (symlinkAbsTarget cwd root path target) ||
         allowedTarget allow (pathAbs cwd root) (symlinkAbsTarget cwd root path target)) := by
    unfold validSymlink symlinkAbsTarget
    simp only
    split <;> simp_all
  rw [gen_validSymlink, e]

/-- **C04_gen_validSymlink_iff.** With an empty allow-list the verdict of the translated `validSymlink` is exactly
the lexical containment test `isWithin absRoot absTarget`, and the error result its negation. -/
theorem C04_gen_validSymlink_iff (cwd root path target : Str) :
    Gen.validSymlink cwd [] root path target =
      (isWithin (pathAbs cwd root) (symlinkAbsTarget cwd root path target),
       !isWithin (pathAbs cwd root) (symlinkAbsTarget cwd root path target)) := by
  rw [C04_gen_validSymlink_spec, allowedTarget_nil, Bool.or_false]

/-- **C04_gen_validSymlink_iff_dst.** The same as `Unpack` calls it: for a destination that is an absolute clean
path other than `/` and a relative link name `ln` (the entry's path relative to `dst`), with an empty
allow-list the translated `validSymlink` accepts exactly when the target — cleaned if absolute, otherwise joined
onto the directory of `dst/ln` — is lexically inside `dst`. -/
theorem C04_gen_validSymlink_iff_dst (cwd dst ln t : Str) (hdst : DstOK dst) (hln : isAbs ln = false) :
    Gen.validSymlink cwd [] dst ln t =
      (isWithin dst (if isAbs t then pathClean t else pathJoin (pathDir (pathJoin dst ln)) t),
       !isWithin dst (if isAbs t then pathClean t else pathJoin (pathDir (pathJoin dst ln)) t)) := by
  rw [gen_validSymlink, validSymlink_eq cwd dst ln t hdst hln]

/-- **C04_gen_validSymlink_abs_needs_allow.** Any allow-list: if the translated `validSymlink` accepts an
absolute target, the cleaned target is lexically inside the absolute root or is an allow-listed one (or lies
below one). -/
theorem C04_gen_validSymlink_abs_needs_allow (cwd : Str) (allow : List Str) (root path target : Str)
    (ha : isAbs target = true) (h : Gen.validSymlink cwd allow root path target = (true, false)) :
    isWithin (pathAbs cwd root) (pathClean target) = true ∨
      allowedTarget allow (pathAbs cwd root) (pathClean target) = true := by
  rw [C04_gen_validSymlink_spec] at h
  have h1 := (Prod.mk.inj h).1
  simp only [symlinkAbsTarget, ha, if_true] at h1
  simpa using h1

/-- **C04_gen_validSymlink_abs_refused.** With an empty allow-list the translated `validSymlink` refuses, with an
error, every absolute target whose cleaned form is not lexically inside the absolute root — whatever the link
path. -/
theorem C04_gen_validSymlink_abs_refused (cwd root path target : Str) (ha : isAbs target = true)
    (hout : isWithin (pathAbs cwd root) (pathClean target) = false) :
    Gen.validSymlink cwd [] root path target = (false, true) := by
  rw [C04_gen_validSymlink_iff]
  simp only [symlinkAbsTarget, ha, if_true, hout]
  rfl

/-- **C04_gen_validSymlink_accepted_lexInside.** What the translated `validSymlink` accepts with an empty
allow-list, in components: for the extraction path `path` of an entry (absolute, clean, below `dst`) whose name
relative to `dst` is `ln`, the lexical resolution of the accepted target from the directory of `path` stays
below `dst`. -/
theorem C04_gen_validSymlink_accepted_lexInside (cwd dst path ln t : Str) (hdst : DstOK dst)
    (hp : isAbs path = true ∧ pathClean path = path) (hpre : pathSegs dst <+: pathSegs path)
    (hrel : pathRel dst path = some ln) (h : Gen.validSymlink cwd [] dst ln t = (true, false)) :
    pathSegs dst <+: cleanSegs true ((if isAbs t then [] else (pathSegs path).dropLast) ++ pathSegs t) := by
  rw [gen_validSymlink] at h
  exact C04_accepted_lexInside cwd dst path ln t hdst hp hpre hrel (Prod.mk.inj h).1

end Slug
