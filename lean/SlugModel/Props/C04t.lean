import SlugModel.Lemmas.TrEq_validSymlink
import SlugModel.Lemmas.TrEq_allowedSymlinkTarget
import SlugModel.Lemmas.TrEq_isWithin
import SlugModel.Lemmas.TrEq_newUnpackInfo
/-!
# C04 (tie by translation)

Tie by translation: the model function the theorems of this property are stated over equals the Lean
translation of the Go function, regenerated from /repo on every run (harness/cmd/go2lean); a change of
the Go function changes the translated definition and this proof obligation no longer checks.

An error result of the Go function is read as `(zero value, true)`, a normal one as `(value, false)`.
-/
namespace Slug

/-- **C04_tie_validSymlink.** The model's `validSymlink` is the translated `validSymlink` (slug.go). -/
theorem C04_tie_validSymlink (cwd : Str) (allow : List Str) (root path target : Str) :
    Gen.validSymlink cwd allow root path target =
      (validSymlink cwd allow root path target, !validSymlink cwd allow root path target) :=
  gen_validSymlink cwd allow root path target

/-- **C04_tie_allowedSymlinkTarget.** The model's `allowedTarget` is the translated `allowedSymlinkTarget` (slug.go). -/
theorem C04_tie_allowedSymlinkTarget (allow : List Str) (r t : Str) :
    Gen.allowedSymlinkTarget allow r t = allowedTarget allow r t :=
  gen_allowedSymlinkTarget allow r t

/-- **C04_tie_isWithin.** The model's `isWithin` is the translated `isWithin` (internal/unpackinfo/unpackinfo.go). -/
theorem C04_tie_isWithin (r p : Str) : Gen.isWithin r p = isWithin r p :=
  gen_isWithin r p

/-- **C04_tie_newUnpackInfo.** The model's `newUnpackInfo` is the translated `NewUnpackInfo`
(internal/unpackinfo/unpackinfo.go), for every filesystem, destination and entry: a normal return carries the
model's extraction path and the header's type flag, an error return is the model's `none`. -/
theorem C04_tie_newUnpackInfo (fs : FS) (dst : Str) (e : Entry) :
    Gen.newUnpackInfo fs dst e.name e.typ =
      (match newUnpackInfo fs dst e with
       | some p => (({ path := p, typeflag := e.typ } : Go.UnpackInfo), false)
       | none => (({ path := [], typeflag := Char.ofNat 0 } : Go.UnpackInfo), true)) :=
  gen_newUnpackInfo fs dst e

end Slug
