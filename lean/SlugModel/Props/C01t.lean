import SlugModel.Lemmas.TrEq_isWithin
import SlugModel.Lemmas.TrEq_validSymlink
/-!
# C01 (tie by translation)

Tie by translation: the model function the theorems of this property are stated over equals the Lean
translation of the Go function, regenerated from /repo on every run (harness/cmd/go2lean); a change of
the Go function changes the translated definition and this proof obligation no longer checks.

An error result of the Go function is read as `(zero value, true)`, a normal one as `(value, false)`.
-/
namespace Slug

/-- **C01_tie_isWithin.** The model's `isWithin` is the translated `isWithin` (internal/unpackinfo/unpackinfo.go). -/
theorem C01_tie_isWithin (r p : Str) : Gen.isWithin r p = isWithin r p :=
  gen_isWithin r p

/-- **C01_tie_validSymlink.** The model's `validSymlink` is the translated `validSymlink` (slug.go). -/
theorem C01_tie_validSymlink (cwd : Str) (allow : List Str) (root path target : Str) :
    Gen.validSymlink cwd allow root path target =
      (validSymlink cwd allow root path target, !validSymlink cwd allow root path target) :=
  gen_validSymlink cwd allow root path target

end Slug
