import SlugModel.Lemmas.TrEq_isWithin
import SlugModel.Lemmas.TrEq_validSymlink
import SlugModel.Lemmas.TrEq_newUnpackInfo
import SlugModel.Lemmas.UnpackInv
/-!
# C01 (tie by translation)

Tie by translation: the model function the theorems of this property are stated over equals the Lean
translation of the Go function, regenerated from /repo on every run (harness/cmd/go2lean); a change of
the Go function changes the translated definition and this proof obligation no longer checks.

An error result of the Go function is read as `(zero value, true)`, a normal one as `(value, false)`.
-/
namespace Slug

/-- **C01_tie_isWithin.** The model's `isWithin` is the translated `isWithin` (internal/unpackinfo/unpackinfo.go). -/
theorem C01_tie_isWithin (r p : Str) : Gen.isWithin r p = isWithin r p :=
  gen_isWithin r p

/-- **C01_tie_validSymlink.** The model's `validSymlink` is the translated `validSymlink` (slug.go). -/
theorem C01_tie_validSymlink (cwd : Str) (allow : List Str) (root path target : Str) :
    Gen.validSymlink cwd allow root path target =
      (validSymlink cwd allow root path target, !validSymlink cwd allow root path target) :=
  gen_validSymlink cwd allow root path target

/-- **C01_tie_newUnpackInfo.** The model's `newUnpackInfo` is the translated `NewUnpackInfo`
(internal/unpackinfo/unpackinfo.go), for every filesystem, destination and entry: a normal return carries the
model's extraction path and the header's type flag, an error return is the model's `none`. -/
theorem C01_tie_newUnpackInfo (fs : FS) (dst : Str) (e : Entry) :
    Gen.newUnpackInfo fs dst e.name e.typ =
      (match newUnpackInfo fs dst e with
       | some p => (({ path := p, typeflag := e.typ } : Go.UnpackInfo), false)
       | none => (({ path := [], typeflag := Char.ofNat 0 } : Go.UnpackInfo), true)) :=
  gen_newUnpackInfo fs dst e

/-! ### The property, stated over the translated function -/

/-- the entry name with one leading `/` removed (the first statement of `NewUnpackInfo`) -/
def dropLeadSlash (name : Str) : Str :=
  match name with
  | '/' :: r => r
  | n => n

/-- the header fields `NewUnpackInfo` looks at, as an entry of the model (the other fields are not read) -/
def hdrEntry (name : Str) (typ : Char) : Entry :=
  { name := name, typ := typ, mode := 0, mtime := 0, link := [], body := [] }

/-- what a successful run of the model's `newUnpackInfo` went through: every test on the way to `some` -/
theorem newUnpackInfo_some_checks {fs : FS} {dst : Str} {e : Entry} {path : Str}
    (h : newUnpackInfo fs dst e = some path) :
    path = pathJoin dst (dropLeadSlash e.name) ∧
    isWithin (pathClean dst) (pathClean path) = true ∧
    (∃ rel, pathRel (pathClean dst) (pathClean path) = some rel ∧
      lstatWalk fs dst (splitOn '/' rel) = true) := by
  have key : ∀ nm : Str,
      (if !isWithin (pathClean dst) (pathClean (pathJoin dst nm)) then none
       else match pathRel (pathClean dst) (pathClean (pathJoin dst nm)) with
        | none => none
        | some rel =>
          if !lstatWalk fs dst (splitOn '/' rel) then none
          else if !(e.isDir || e.isSymlink || e.isRegular || e.isTypeX) then none
          else some (pathJoin dst nm)) = some path →
      path = pathJoin dst nm ∧
      isWithin (pathClean dst) (pathClean path) = true ∧
      (∃ rel, pathRel (pathClean dst) (pathClean path) = some rel ∧
        lstatWalk fs dst (splitOn '/' rel) = true) := by
    intro nm h
    split at h
    · cases h
    · rename_i hw
      split at h
      · cases h
      · rename_i rel hrel
        split at h
        · cases h
        · rename_i hwalk
          split at h
          · cases h
          · cases h
            refine ⟨rfl, by simpa using hw, rel, hrel, by simpa using hwalk⟩
  exact key _ h

/-- **C01_gen_newUnpackInfo_within.** The Go function `NewUnpackInfo` (internal/unpackinfo/unpackinfo.go), as
translated: whenever it returns an `UnpackInfo` without error for the filesystem `fs`, the destination `dst` and
a header with the given name and type flag, then

* the extraction path it stores is `filepath.Join(dst, name)` with one leading `/` of the name removed, and the
  stored type flag is the header's;
* that path, cleaned, is lexically inside the cleaned destination (`isWithin`);
* the path of the entry relative to the destination exists (`filepath.Rel` succeeded) and the component-wise
  `Lstat` walk from `dst` along it passed at the time of the call: no component between `dst` and the entry,
  the final one excepted, is a symbolic link in `fs` (nor fails `Lstat` with an error other than "not exist";
  below a component that does not exist nothing is examined). -/
theorem C01_gen_newUnpackInfo_within (fs : FS) (dst name : Str) (typ : Char) (info : Go.UnpackInfo)
    (h : Gen.newUnpackInfo fs dst name typ = (info, false)) :
    info.path = pathJoin dst (dropLeadSlash name) ∧ info.typeflag = typ ∧
    isWithin (pathClean dst) (pathClean info.path) = true ∧
    (∃ rel, pathRel (pathClean dst) (pathClean info.path) = some rel ∧
      lstatWalk fs dst (splitOn '/' rel) = true) := by
  have hg := gen_newUnpackInfo fs dst (hdrEntry name typ)
  simp only [hdrEntry] at hg
  rw [hg] at h
  cases hn : newUnpackInfo fs dst (hdrEntry name typ) with
  | none => simp only [hdrEntry] at hn; rw [hn] at h; simp at h
  | some p =>
    have hc := newUnpackInfo_some_checks hn
    simp only [hdrEntry] at hn hc
    rw [hn] at h
    have hi : info = { path := p, typeflag := typ } := by
      have := (Prod.mk.inj h).1; exact this.symm
    subst hi
    exact ⟨hc.1, rfl, hc.2.1, hc.2.2⟩

/-- **C01_gen_newUnpackInfo_no_link_above.** The same in terms of the filesystem's bindings: for a destination
that is an absolute clean path other than `/` and, in `fs`, a real directory all of whose ancestors are real
directories, a path the translated `NewUnpackInfo` returns without error is absolute and clean, its components
extend those of `dst`, and no proper prefix of it is bound to a symbolic link in `fs` at the time of the call. -/
theorem C01_gen_newUnpackInfo_no_link_above (fs : FS) (dst name : Str) (typ : Char) (info : Go.UnpackInfo)
    (hdst : DstOK dst) (h : Gen.newUnpackInfo fs dst name typ = (info, false)) :
    AbsClean info.path ∧ pathSegs dst <+: pathSegs info.path ∧
    (KeysPhysical fs → RealDir fs (pathSegs dst) → NoLinkAbove fs (pathSegs info.path)) := by
  have hg := gen_newUnpackInfo fs dst (hdrEntry name typ)
  simp only [hdrEntry] at hg
  rw [hg] at h
  cases hn : newUnpackInfo fs dst (hdrEntry name typ) with
  | none => simp only [hdrEntry] at hn; rw [hn] at h; simp at h
  | some p =>
    have hc := newUnpackInfo_facts hdst hn
    simp only [hdrEntry] at hn
    rw [hn] at h
    have hi : info = { path := p, typeflag := typ } := by
      have := (Prod.mk.inj h).1; exact this.symm
    subst hi
    exact hc

end Slug
