import SlugModel.Lemmas.TrEq_splitSubPath
import SlugModel.Lemmas.TrEq_parseLocalSource
import SlugModel.Lemmas.TrEq_looksLikeLocalSource
import SlugModel.Lemmas.TrEq_normalizeSubpath
import SlugModel.Props.C06
/-!
# C06 (tie by translation)

Tie by translation: the model function the theorems of this property are stated over equals the Lean
translation of the Go function, regenerated from /repo on every run (harness/cmd/go2lean); a change of
the Go function changes the translated definition and this proof obligation no longer checks.

An error result of the Go function is read as `(zero value, true)`, a normal one as `(value, false)`.
-/
namespace Slug

/-- **C06_tie_splitSubPath.** The model's `splitSubPath` is the translated `splitSubPath` (sourceaddrs/subpath.go). -/
theorem C06_tie_splitSubPath (s : Str) : Gen.splitSubPath s = splitSubPath s :=
  gen_splitSubPath s

/-- **C06_tie_parseLocalSource.** The model's `parseLocal` is the translated `ParseLocalSource` (sourceaddrs/source_local.go). -/
theorem C06_tie_parseLocalSource (s : Str) :
    Gen.parseLocalSource s = (match parseLocal s with | some r => (r, false) | none => ([], true)) :=
  gen_parseLocalSource s

/-- **C06_tie_looksLikeLocalSource.** The model's `looksLikeLocal` is the translated `looksLikeLocalSource` (sourceaddrs/source_local.go). -/
theorem C06_tie_looksLikeLocalSource (s : Str) : Gen.looksLikeLocalSource s = looksLikeLocal s :=
  gen_looksLikeLocalSource s

/-- **C06_tie_normalizeSubpath.** The model's `normalizeSubpath` is the translated `normalizeSubpath` (sourceaddrs/subpath.go). -/
theorem C06_tie_normalizeSubpath (g : Str) :
    Gen.normalizeSubpath g = (match normalizeSubpath g with | some r => (r, false) | none => ([], true)) :=
  gen_normalizeSubpath g

/-! ### The property, stated over the translated functions -/

/-- **C06_gen_parseLocalSource_roundtrip.** The Go function `ParseLocalSource` (sourceaddrs/source_local.go), as
translated, only accepts strings that are already in canonical form: whenever it returns the stored path `r`
without error for the given string `s`, then `r = s` (the stored path, which is also the printed form, is the
given string) and parsing that printed form again succeeds with the same value. -/
theorem C06_gen_parseLocalSource_roundtrip (s r : Str) (h : Gen.parseLocalSource s = (r, false)) :
    r = s ∧ Gen.parseLocalSource r = (r, false) := by
  rw [gen_parseLocalSource] at h
  cases hp : parseLocal s with
  | none => rw [hp] at h; simp at h
  | some x =>
    rw [hp] at h
    have hx : x = r := by simpa using h
    subst hx
    obtain ⟨e, h2⟩ := C06_local_roundtrip s x hp
    exact ⟨e, by rw [gen_parseLocalSource, h2]⟩

/-- **C06_gen_normalizeSubpath_idem.** A sub-path the translated Go function `normalizeSubpath` returned without
error is the given string, and is returned unchanged when normalised again (so the sub-path printed from an
address is accepted verbatim when parsed back). -/
theorem C06_gen_normalizeSubpath_idem (s n : Str) (h : Gen.normalizeSubpath s = (n, false)) :
    n = s ∧ Gen.normalizeSubpath n = (n, false) := by
  rw [gen_normalizeSubpath] at h
  cases hp : normalizeSubpath s with
  | none => rw [hp] at h; simp at h
  | some x =>
    rw [hp] at h
    have hx : x = n := by simpa using h
    subst hx
    exact ⟨C06_normalize_id s x hp, by rw [gen_normalizeSubpath, C06_normalize_idem s x hp]⟩

/-- **C06_gen_splitSubPath_parts.** The Go function `splitSubPath` (sourceaddrs/subpath.go), as translated, takes
the registry-style printed form `pkg//sub[?query]` apart into the package (with the query re-attached) and the
sub-path, so that the two returned parts recombine to the input — under the side conditions of
`C06_subpath_split_roundtrip_partial` (each of them necessary, see the counterexamples `C06_cex_split_*`):
neither part contains `?`, `pkg` contains no `//` and does not end in `/`, the printed string contains no `://`.
Take `qs = []` for an address without query string. -/
theorem C06_gen_splitSubPath_parts (pkg sub qs : Str)
    (hq : '?' ∉ pkg) (hs : '?' ∉ sub) (hqs : qs = [] ∨ ∃ t, qs = '?' :: t)
    (hss : contains (pkg ++ ['/']) ['/', '/'] = false)
    (hsch : contains (pkg ++ '/' :: '/' :: sub) [':', '/', '/'] = false) :
    Gen.splitSubPath (pkg ++ '/' :: '/' :: sub ++ qs) = (pkg ++ qs, sub) := by
  rw [gen_splitSubPath]
  exact C06_subpath_split_roundtrip_partial pkg sub qs hq hs hqs hss hsch

/-- **C06_gen_splitSubPath_parts_url.** The same for URL-shaped packages `scheme://rest` (remote sources): the
translated `splitSubPath` skips only the first `://`; `rest` contains no `//` and does not end in `/`; the
sub-path may contain anything but `?`. -/
theorem C06_gen_splitSubPath_parts_url (sch rest sub qs : Str)
    (hq1 : '?' ∉ sch) (hq2 : '?' ∉ rest) (hs : '?' ∉ sub) (hqs : qs = [] ∨ ∃ t, qs = '?' :: t)
    (hsch : contains (sch ++ [':', '/']) [':', '/', '/'] = false)
    (hss : contains (rest ++ ['/']) ['/', '/'] = false) :
    Gen.splitSubPath (sch ++ ':' :: '/' :: '/' :: (rest ++ '/' :: '/' :: sub) ++ qs) =
      (sch ++ ':' :: '/' :: '/' :: rest ++ qs, sub) := by
  rw [gen_splitSubPath]
  exact C06_subpath_split_roundtrip_url sch rest sub qs hq1 hq2 hs hqs hsch hss

/-- **C06_gen_splitSubPath_none.** A package without `//` (an address printed without sub-path, with or without
query string) is split by the translated `splitSubPath` into itself and no sub-path. -/
theorem C06_gen_splitSubPath_none (pkg qs : Str) (hq : '?' ∉ pkg) (hqs : qs = [] ∨ ∃ t, qs = '?' :: t)
    (hss : contains pkg ['/', '/'] = false) :
    Gen.splitSubPath (pkg ++ qs) = (pkg ++ qs, []) := by
  rw [gen_splitSubPath]
  exact C06_subpath_split_none pkg qs hq hqs hss

/-- **C06_gen_splitSubPath_none_url.** The same for a URL-shaped package `scheme://rest` without sub-path. -/
theorem C06_gen_splitSubPath_none_url (sch rest qs : Str)
    (hq1 : '?' ∉ sch) (hq2 : '?' ∉ rest) (hqs : qs = [] ∨ ∃ t, qs = '?' :: t)
    (hsch : contains (sch ++ [':', '/']) [':', '/', '/'] = false)
    (hss : contains rest ['/', '/'] = false) :
    Gen.splitSubPath (sch ++ ':' :: '/' :: '/' :: rest ++ qs) = (sch ++ ':' :: '/' :: '/' :: rest ++ qs, []) := by
  rw [gen_splitSubPath]
  exact C06_subpath_split_none_url sch rest qs hq1 hq2 hqs hsch hss

end Slug
