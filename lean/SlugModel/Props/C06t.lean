import SlugModel.Lemmas.TrEq_splitSubPath
import SlugModel.Lemmas.TrEq_parseLocalSource
import SlugModel.Lemmas.TrEq_looksLikeLocalSource
import SlugModel.Lemmas.TrEq_normalizeSubpath
/-!
# C06 (tie by translation)

Tie by translation: the model function the theorems of this property are stated over equals the Lean
translation of the Go function, regenerated from /repo on every run (harness/cmd/go2lean); a change of
the Go function changes the translated definition and this proof obligation no longer checks.

An error result of the Go function is read as `(zero value, true)`, a normal one as `(value, false)`.
-/
namespace Slug

/-- **C06_tie_splitSubPath.** The model's `splitSubPath` is the translated `splitSubPath` (sourceaddrs/subpath.go). -/
theorem C06_tie_splitSubPath (s : Str) : Gen.splitSubPath s = splitSubPath s :=
  gen_splitSubPath s

/-- **C06_tie_parseLocalSource.** The model's `parseLocal` is the translated `ParseLocalSource` (sourceaddrs/source_local.go). -/
theorem C06_tie_parseLocalSource (s : Str) :
    Gen.parseLocalSource s = (match parseLocal s with | some r => (r, false) | none => ([], true)) :=
  gen_parseLocalSource s

/-- **C06_tie_looksLikeLocalSource.** The model's `looksLikeLocal` is the translated `looksLikeLocalSource` (sourceaddrs/source_local.go). -/
theorem C06_tie_looksLikeLocalSource (s : Str) : Gen.looksLikeLocalSource s = looksLikeLocal s :=
  gen_looksLikeLocalSource s

/-- **C06_tie_normalizeSubpath.** The model's `normalizeSubpath` is the translated `normalizeSubpath` (sourceaddrs/subpath.go). -/
theorem C06_tie_normalizeSubpath (g : Str) :
    Gen.normalizeSubpath g = (match normalizeSubpath g with | some r => (r, false) | none => ([], true)) :=
  gen_normalizeSubpath g

end Slug
