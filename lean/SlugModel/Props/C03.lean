import SlugModel.Lemmas.Prune
/-!
# C03 — `.terraformignore` rules: the compiled regular expression is the documented glob

Property theorems only; helper lemmas live in `Lemmas/Glob`, `Lemmas/Glob2`, `Lemmas/Prune`.
`compileRx`, `matchT`, `ruleMatches`, `excludes`, `readRules` are the model of
`internal/ignorefiles` (tied to the code by the `ignore` lane); `gm`, `parsePat`, `specMatches`,
`specExcluded` (Spec/Glob) are the segment-wise specification.

`WFVal val` (Lemmas/Glob): every `/`-separated piece of `val` is `**` or has no two adjacent `*`,
no character is outside the modelled fragment, and `val` does not end with `/`.
`MarkedOK`, `TailClosed` (Lemmas/Prune) are the hypotheses of the pruning theorem.
-/
namespace Slug

/-! ## 1. one rule -/

/-- **C03_compile_defined.** On a well-formed stored pattern the character scanner of
`rule.compile` succeeds and yields the structured compilation of the parsed pattern. -/
theorem C03_compile_defined (val : Str) (h : WFVal val) :
    compileRx val = some (compileSegs (parsePat val)) :=
  compileRx_eq_compileSegs val h

/-- **C03_compile_sound.** For a well-formed stored pattern, the rule's regular expression matches
a path string exactly when the segment-wise glob specification selects it — for every string
(empty segments, newlines, any characters). -/
theorem C03_compile_sound (val : Str) (n a : Bool) (h : WFVal val) :
    ∀ path, ruleMatches ⟨val, n, a⟩ path = specMatches val path :=
  fun path => ruleMatches_eq_specMatches val h n a path

/-- non-vacuity: a typical pattern is well-formed, and so is a pattern with `**` in the middle -/
example : WFVal "**/foo/*.tf".toList := by decide
example : WFVal "a?/**/b*c/**".toList := by decide
/-- and the hypothesis does exclude something: `**` glued to other characters, a trailing `/`,
a bracket class -/
example : ¬ WFVal "a**/b".toList := by decide
example : ¬ WFVal "**/".toList := by decide
example : ¬ WFVal "[ab]".toList := by decide

/-- **C03_cex_trailing_slash.** The trailing-`/` exclusion in `WFVal` is needed: for the pattern
`**/` the code's regular expression matches `a`, the segment reading does not. (`readRules`
never stores such a pattern: `C03_stored_vals`.) -/
theorem C03_cex_trailing_slash :
    ruleMatches ⟨"**/".toList, false, false⟩ "a".toList = true ∧
    specMatches "**/".toList "a".toList = false := by
  refine ⟨by decide, ?_⟩
  have hp : parsePat "**/".toList = [.dstar, .seg []] := by decide
  have hs : splitOn '/' "a".toList = [['a']] := by decide
  rw [specMatches, hp, hs]
  simp [gm, segMatch]

/-- **C03_cex_glued_dstar.** The "`**` only as a whole piece" condition in `WFVal` is needed: for
`a**` the code's regular expression matches `a/b`, the segment reading (two `*` atoms inside one
segment) does not. -/
theorem C03_cex_glued_dstar :
    ruleMatches ⟨"a**".toList, false, false⟩ "a/b".toList = true ∧
    specMatches "a**".toList "a/b".toList = false := by
  refine ⟨by decide, ?_⟩
  have hp : parsePat "a**".toList = [.seg [.lit 'a', .star, .star]] := by decide
  have hs : splitOn '/' "a/b".toList = [['a'], ['b']] := by decide
  rw [specMatches, hp, hs]
  simp [gm]

/-- **C03_unsupported_chars.** With the extracted set of escaped characters, the characters outside
the modelled fragment are exactly `[`, `]` and `\`. -/
theorem C03_unsupported_chars (c : Char) :
    unsupportedChar c = true ↔ c = '[' ∨ c = ']' ∨ c = '\\' :=
  unsupportedChar_iff c

/-- **C03_stored_vals.** Every stored pattern produced by `readRules` (default rules included) is
non-empty and does not end with `/`. -/
theorem C03_stored_vals (content : Str) :
    ∀ r ∈ readRules content, r.val ≠ [] ∧ r.val.getLast? ≠ some '/' :=
  valOK_readRules content

/-! ## 2. a rule set -/

/-- **C03_last_match_wins.** For well-formed rules, the `Excluded` result of `Ruleset.Excludes` is
the specification: the last rule whose glob selects the path decides, no match = not excluded. -/
theorem C03_last_match_wins (rules : List Rule) (path : Str) (h : ∀ r ∈ rules, WFVal r.val) :
    (excludes rules path).1 = specExcluded (rules.map fun r => ⟨r.val, r.negated⟩) path :=
  excludes_fst_eq_spec rules path
    (fun r hr => ruleMatches_eq_specMatches r.val (h r hr) r.negated r.negAfter path)

/-- non-vacuity: the rules read from a small file are all well-formed -/
example : ∀ r ∈ readRules "*.tfstate\n!keep/**/x?.txt\nsub/dir/\n/rooted".toList, WFVal r.val := by
  decide

/-! ## 3. the default rules -/

/-- **C03_defaults_wf.** The three default rules are well-formed. -/
theorem C03_defaults_wf : ∀ r ∈ defaultRules, WFVal r.val := by decide

/-- **C03_defaults.** What the default rules exclude, stated through the specification and for
the code's `excludes`: a path is excluded exactly when `.git` is a proper (non-last) segment of
it, or `.terraform` is a proper segment and the path is not below some `.terraform/modules/`. -/
theorem C03_defaults (path : Str) :
    ((excludes defaultRules path).1 = true ↔
      (∃ pre post, splitOn '/' path = pre ++ ".git".toList :: post ∧ post ≠ []) ∨
      ((∃ pre post, splitOn '/' path = pre ++ ".terraform".toList :: post ∧ post ≠ []) ∧
        ¬ ∃ pre post, splitOn '/' path =
            pre ++ ".terraform".toList :: "modules".toList :: post ∧ post ≠ [])) ∧
    (excludes defaultRules path).1 =
      specExcluded (defaultRules.map fun r => ⟨r.val, r.negated⟩) path := by
  have hspec := C03_last_match_wins defaultRules path C03_defaults_wf
  refine ⟨?_, hspec⟩
  rw [hspec]
  have hl : defaultRules.map (fun r => (⟨r.val, r.negated⟩ : SRule)) =
      [⟨"**/.terraform/**".toList, false⟩, ⟨"**/.terraform/modules/**".toList, true⟩,
       ⟨"**/.git/**".toList, false⟩] := rfl
  have p1 : parsePat "**/.terraform/**".toList =
      [.dstar, .seg (".terraform".toList.map Atom.lit), .dstar] := by decide
  have p2 : parsePat "**/.terraform/modules/**".toList =
      [.dstar, .seg (".terraform".toList.map Atom.lit), .seg ("modules".toList.map Atom.lit),
       .dstar] := by decide
  have p3 : parsePat "**/.git/**".toList =
      [.dstar, .seg (".git".toList.map Atom.lit), .dstar] := by decide
  have h1 : specMatches "**/.terraform/**".toList path = true ↔
      ∃ pre post, splitOn '/' path = pre ++ ".terraform".toList :: post ∧ post ≠ [] := by
    unfold specMatches; rw [p1]; exact gm_dir_iff _ _
  have h2 : specMatches "**/.terraform/modules/**".toList path = true ↔
      ∃ pre post, splitOn '/' path =
        pre ++ ".terraform".toList :: "modules".toList :: post ∧ post ≠ [] := by
    unfold specMatches; rw [p2]; exact gm_dir2_iff _ _ _
  have h3 : specMatches "**/.git/**".toList path = true ↔
      ∃ pre post, splitOn '/' path = pre ++ ".git".toList :: post ∧ post ≠ [] := by
    unfold specMatches; rw [p3]; exact gm_dir_iff _ _
  have h3way : ∀ a b c : Str, specExcluded [⟨a, false⟩, ⟨b, true⟩, ⟨c, false⟩] path =
      (specMatches c path || (specMatches a path && !specMatches b path)) := by
    intro a b c
    simp only [specExcluded, List.foldl_cons, List.foldl_nil]
    cases specMatches c path <;> cases specMatches b path <;> cases specMatches a path <;> rfl
  rw [hl, h3way, ← h1, ← h2, ← h3]
  simp

/-- examples (instances of `C03_defaults`, evaluated on the code model) -/
example : (excludes defaultRules ".git/config".toList).1 = true := by decide
example : (excludes defaultRules "a/.terraform/x".toList).1 = true := by decide
example : (excludes defaultRules ".terraform/modules/m/main.tf".toList).1 = false := by decide
example : (excludes defaultRules "main.tf".toList).1 = false := by decide
/-- the directory entries themselves are not excluded by the default rules -/
example : (excludes defaultRules ".git".toList).1 = false := by decide

/-! ## 4. the `negationsAfter` marking -/

/-- **C03_marking.** Whatever the rule file, after parsing no negated rule follows a rule that
can produce a dominating match: every rule followed by a negated rule has `negationsAfter` set
(despite the early `break` of the marking loop). -/
theorem C03_marking (content : Str) : MarkedOK (readRules content) :=
  markedOK_readRules content

/-- non-vacuity / examples: the flag is set by a later `!` line and not otherwise -/
example : (readRules "a\n!b\nc".toList).map (fun r => (r.negated, r.negAfter)) =
    [(false, true), (true, true), (false, true), (false, true), (true, false), (false, false)] := by
  decide
/-- `MarkedOK` is a real constraint: an unmarked rule followed by a negated one violates it -/
example : ¬ MarkedOK [⟨"a".toList, false, false⟩, ⟨"b".toList, true, false⟩] := by
  simp [MarkedOK]

/-! ## 5. pruning -/

/-- **C03_prune_sound.** If the rules are marked as by `readRules` and every non-negated rule
either ends in `.*` or never matches a string ending in `/`, then a dominating exclusion of the
directory path `d/` implies that every path below it is excluded when evaluated on its own. -/
theorem C03_prune_sound (rules : List Rule) (hm : MarkedOK rules) (ht : TailClosed rules)
    (d w : Str) (h : excludes rules (d ++ ['/']) = (true, true)) :
    (excludes rules (d ++ '/' :: w)).1 = true :=
  prune_sound rules hm ht d w h

/-- non-vacuity: the rules read from a file of directory patterns satisfy both hypotheses, and
the premise holds for a concrete directory -/
example : TailClosed (readRules "build/\n!build/keep/\nout/".toList) :=
  tailClosed_of_check _ (by decide)
example : MarkedOK (readRules "build/\n!build/keep/\nout/".toList) := C03_marking _
example : excludes (readRules "build/\n!build/keep/\nout/".toList) "x/out/".toList = (true, true) := by
  decide

/-- **C03_cex_prune_star_tail.** The hypothesis `TailClosed` is needed: with the single user rule
`foo/*` (marking invariant satisfied), `foo/` is excluded with a dominating match, but `foo/a/b`
evaluated on its own is not excluded. -/
theorem C03_cex_prune_star_tail :
    MarkedOK (readRules "foo/*".toList) ∧
    excludes (readRules "foo/*".toList) ("foo".toList ++ ['/']) = (true, true) ∧
    (excludes (readRules "foo/*".toList) ("foo".toList ++ '/' :: "a/b".toList)).1 = false :=
  ⟨C03_marking _, by decide, by decide⟩

end Slug
