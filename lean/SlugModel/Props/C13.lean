import SlugModel.Lemmas.BuilderClosure
/-!
# C13 — The bundle is a function of its inputs, not of the order of the calls

Property theorems only; they are corollaries of the characterisation of the final state of an
error-free run in `Lemmas/BuilderClosure` (`Good.analyzed_iff`, `Good.dirs_iff`, `Good.meta_iff`,
`Good.resolved_iff`, `Good.deprec_iff`): every table is described by the reachable graph and the
world alone, and the reachable graph does not change when the calls are permuted.
Tables are compared as finite maps (`assoc`), the analysed artefacts as a set: the *lists*
do depend on the order (see the last examples).
-/
namespace Slug

/-- **C13_order.** If `ops'` is a permutation of `ops` and both runs from the empty builder are
error-free, the two builders have analysed the same artefacts and hold the same package
directories, package metadata, resolved registry sources and deprecation notices. -/
theorem C13_order (w : World) (fuel fuel' : Nat) (ops ops' : List Op) (hp : ops.Perm ops')
    (h : ErrorFree (runOps w fuel BState.init ops).2)
    (h' : ErrorFree (runOps w fuel' BState.init ops').2) :
    (∀ a, a ∈ (runOps w fuel BState.init ops).1.analyzed ↔
          a ∈ (runOps w fuel' BState.init ops').1.analyzed) ∧
    (∀ p, assoc (runOps w fuel BState.init ops).1.pkgDirs p =
          assoc (runOps w fuel' BState.init ops').1.pkgDirs p) ∧
    (∀ p, assoc (runOps w fuel BState.init ops).1.pkgMeta p =
          assoc (runOps w fuel' BState.init ops').1.pkgMeta p) ∧
    (∀ k, assoc (runOps w fuel BState.init ops).1.resolved k =
          assoc (runOps w fuel' BState.init ops').1.resolved k) ∧
    (∀ k, assoc (runOps w fuel BState.init ops).1.deprec k =
          assoc (runOps w fuel' BState.init ops').1.deprec k) := by
  have g := runOps_final h
  have g' := runOps_final h'
  have hreach : ∀ a, Reach w ops a ↔ Reach w ops' a :=
    fun a => ⟨fun x => x.of_perm hp, fun x => x.of_perm hp.symm⟩
  have hreq : ∀ r, ReqMet w ops r ↔ ReqMet w ops' r :=
    fun r => ⟨fun x => x.of_perm hp, fun x => x.of_perm hp.symm⟩
  refine ⟨fun a => ?_, fun p => opt_ext fun c => ?_, fun p => opt_ext fun m => ?_,
    fun k => opt_ext fun real => ?_, fun k => opt_ext fun d => ?_⟩
  · rw [g.analyzed_iff, g'.analyzed_iff, hreach]
  · rw [g.dirs_iff, g'.dirs_iff]; simp only [hreach]
  · rw [g.meta_iff, g'.meta_iff]; simp only [hreach]
  · rw [g.resolved_iff, g'.resolved_iff]; simp only [hreq]
  · rw [g.deprec_iff, g'.deprec_iff]; simp only [hreq]

/-- **C13_clean_same.** Whether a run is error-free does not depend on the order either: if
nothing on the reachable graph fails (`Clean`), then every call of every run over any permutation
of the calls comes back without errors (given the fuel of C14). -/
theorem C13_clean_same (w : World) (fuel : Nat) (ops ops' : List Op) (hp : ops.Perm ops')
    (hc : Clean w ops) (hf : fuelBound w ≤ fuel) :
    ErrorFree (runOps w fuel BState.init ops').2 :=
  runOps_clean (hc.of_perm hp) hf ops' BState.init (ready_init w ops') (fun _ h => h)

/-- **C13_clean_order.** So on a clean world the bundle is a function of the *set* of calls. -/
theorem C13_clean_order (w : World) (fuel : Nat) (ops ops' : List Op) (hp : ops.Perm ops')
    (hc : Clean w ops) (hf : fuelBound w ≤ fuel) :
    (∀ a, a ∈ (runOps w fuel BState.init ops).1.analyzed ↔
          a ∈ (runOps w fuel BState.init ops').1.analyzed) ∧
    (∀ p, assoc (runOps w fuel BState.init ops).1.pkgDirs p =
          assoc (runOps w fuel BState.init ops').1.pkgDirs p) ∧
    (∀ p, assoc (runOps w fuel BState.init ops).1.pkgMeta p =
          assoc (runOps w fuel BState.init ops').1.pkgMeta p) ∧
    (∀ k, assoc (runOps w fuel BState.init ops).1.resolved k =
          assoc (runOps w fuel BState.init ops').1.resolved k) ∧
    (∀ k, assoc (runOps w fuel BState.init ops).1.deprec k =
          assoc (runOps w fuel BState.init ops').1.deprec k) :=
  C13_order w fuel fuel ops ops' hp
    (C13_clean_same w fuel ops ops (List.Perm.refl _) hc hf) (C13_clean_same w fuel ops ops' hp hc hf)

/-- **C13_dirs_spec.** The directory table of an error-free run, order-free: a package has a
directory exactly if it is the package of a reachable artefact, and the directory is the content
the fetcher returned. -/
theorem C13_dirs_spec (w : World) (fuel : Nat) (ops : List Op)
    (h : ErrorFree (runOps w fuel BState.init ops).2) (p : PkgAddr) (c : ContentId) :
    assoc (runOps w fuel BState.init ops).1.pkgDirs p = some c ↔
      (∃ a, Reach w ops a ∧ a.1.pkg = p) ∧ fetchContent w p = some c :=
  (runOps_final h).dirs_iff p c

/-- **C13_resolved_spec.** Likewise the table of resolved registry sources: a (package, version)
pair is present exactly if some registry request met selects it, with the registry's answer. -/
theorem C13_resolved_spec (w : World) (fuel : Nat) (ops : List Op)
    (h : ErrorFree (runOps w fuel BState.init ops).2) (k : RegPkg × VerS) (real : RemoteSrc) :
    assoc (runOps w fuel BState.init ops).1.resolved k = some real ↔
      (∃ rs al f, ReqMet w ops (rs, al, f) ∧ regKey w rs al = some k) ∧
      regSource w k = some real :=
  (runOps_final h).resolved_iff k real

/-- **C13_deprec_spec.** …and the deprecation notices: the notice of the first listing entry with
the selected rank, the same whichever request came first. -/
theorem C13_deprec_spec (w : World) (fuel : Nat) (ops : List Op)
    (h : ErrorFree (runOps w fuel BState.init ops).2) (k : RegPkg × VerS)
    (d : Option (Str × Str)) :
    assoc (runOps w fuel BState.init ops).1.deprec k = some d ↔
      ∃ rs al f, ReqMet w ops (rs, al, f) ∧ regKey w rs al = some k ∧ regDeprec w rs al = d :=
  (runOps_final h).deprec_iff k d

/-- **C13_coalesce.** The directory of a package is its content: in the state after any run two
fetched packages share a directory exactly if the fetcher returned the same content for both. -/
theorem C13_coalesce (w : World) (fuel : Nat) (ops : List Op) (p q : PkgAddr) (c c' : ContentId)
    (hp : assoc (runOps w fuel BState.init ops).1.pkgDirs p = some c)
    (hq : assoc (runOps w fuel BState.init ops).1.pkgDirs q = some c') :
    fetchContent w p = some c ∧ fetchContent w q = some c' ∧
    (c = c' ↔ fetchContent w p = fetchContent w q) := by
  have s := runOps_sinv (w := w) (ops := ops) (fuel := fuel) ops BState.init (SInv.init w ops)
    (fun _ h => h)
  have h1 := s.dirsCoh p c hp
  have h2 := s.dirsCoh q c' hq
  refine ⟨h1, h2, ?_⟩
  rw [h1, h2]
  exact ⟨fun e => by rw [e], fun e => by cases e; rfl⟩

/-! ### non-vacuity -/

/-- the calls of the example in another order -/
def exOps' : List Op :=
  [.addRegistry ⟨"reg".toList, []⟩ ["2.0.0".toList] 0, .addRemote ⟨"a".toList, []⟩ 0,
   .addRemote ⟨"a".toList, []⟩ 0]

example : exOps.Perm exOps' := List.Perm.swap _ _ _
example : ErrorFree (runOps exWorld 56 BState.init exOps).2 := by decide
example : ErrorFree (runOps exWorld 56 BState.init exOps').2 := by decide
/-- the lists differ with the order of the calls — the theorem is about sets and finite maps -/
example : (runOps exWorld 56 BState.init exOps).1.analyzed ≠
    (runOps exWorld 56 BState.init exOps').1.analyzed := by decide
example : (runOps exWorld 56 BState.init exOps').1.pkgDirs =
    [("b".toList, "cb".toList), ("a".toList, "ca".toList), ("r".toList, "cr".toList)] := by decide
example : (runOps exWorld 56 BState.init exOps).1.pkgDirs =
    [("r".toList, "cr".toList), ("b".toList, "cb".toList), ("a".toList, "ca".toList)] := by decide
example : (runOps exWorld 56 BState.init exOps).1.deprec =
    [(("reg".toList, "2.0.0".toList), some ("old".toList, "link".toList))] := by decide

/-- `Clean` excludes something: a call whose package cannot be fetched -/
example : ¬ Clean exWorld [.addRemote ⟨"bad".toList, []⟩ 0] :=
  fun hc => hc.fetch_ok (⟨"bad".toList, []⟩, 0) (.start _ _ List.mem_cons_self (.remote _ _))
    (by decide)

/-- executable check that nothing a finder reports for `a` fails -/
def declOk (w : World) (a : Art) : Decl → Bool
  | .registry rs al _ => (resolveReg w rs al).isSome
  | .loc rel _ => (joinSubPath a.1.sub rel).isSome
  | .diag e _ _ => !e
  | .remote _ _ => true

/-- the example world is `Clean` for the example calls (so `C13_clean_same` is not vacuous): by
C08 the reachable artefacts are the six analysed ones, and nothing fails on those. -/
example : Clean exWorld exOps := by
  have hef : ErrorFree (runOps exWorld 56 BState.init exOps).2 := by decide
  have g := runOps_final hef
  have hall : ∀ a, Reach exWorld exOps a → a ∈ (runOps exWorld 56 BState.init exOps).1.analyzed :=
    fun a ha => g.complete ha
  have hdecls : ∀ a ∈ (runOps exWorld 56 BState.init exOps).1.analyzed,
      (fetchContent exWorld a.1.pkg).isSome = true ∧
      ∀ d ∈ declsOf exWorld a, declOk exWorld a d = true := by decide
  refine ⟨fun a ha e => ?_, ?_, ?_, ?_⟩
  · have := (hdecls a (hall a ha)).1
    rw [e] at this; cases this
  · intro rs al f hr e
    cases hr with
    | op _ _ _ hm =>
      simp only [exOps, List.mem_cons, List.not_mem_nil, or_false] at hm
      rcases hm with hm | hm | hm
      · cases hm
      · cases hm; revert e; decide
      · cases hm
    | decl a _ _ _ ha hd =>
      have := (hdecls a (hall a ha)).2 _ hd
      simp only [declOk] at this
      rw [e] at this; cases this
  · intro a rel g ha hd e
    have := (hdecls a (hall a ha)).2 _ hd
    simp only [declOk] at this
    rw [e] at this; cases this
  · intro a s file ha hd
    have := (hdecls a (hall a ha)).2 _ hd
    simp [declOk] at this

end Slug
