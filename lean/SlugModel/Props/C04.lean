import SlugModel.Lemmas.UnpackInv
/-!
# C04 — Every symlink left by Unpack resolves inside the destination

Property theorems only; helper lemmas live in `Lemmas/PathSegs` (string ↔ component bridge),
`Lemmas/Resolve` (where kernel path resolution lands), `Lemmas/FSFrame` (what each system call
changes) and `Lemmas/UnpackInv` (the invariant over `Unpack`).  `unpack`, `unpackEntry`,
`newUnpackInfo`, `validSymlink` are the model of `Packer.Unpack`, `unpackinfo.NewUnpackInfo` and
`validSymlink` (tied to the code by the `unpack` lane); `FS`, `resolve` the model of the kernel.

Vocabulary (`dstP = pathSegs dst`, the physical components of `dst`):
* `DstOK dst` — `dst` is absolute, clean and not `/`.
* `Under dstP p` — `dstP <+: p`.
* `RealDir fs dstP` — every prefix of `dstP` is a directory (no link among the components of `dst`).
* `KeysPhysical fs` — every bound path's parent is bound to a directory.
* `Tidy t` — in `pathSegs t` all `..` come first; `TidyLinks es` — every link entry's target is tidy.
* `LexInside dstP cur segs` — `dstP <+: cleanSegs true (cur ++ segs)`.
* `GoodLink dstP p t` — the components of `p` are plain names (not `""`, `.`, `..`: true of every
  real directory entry, needed because `FS` is an abstract map — `C04_cex_nonplain_key`), `Tidy t`,
  and `LexInside dstP (if isAbs t then [] else p.dropLast) (pathSegs t)`;
  `AllGood fs dstP` — every link bound under `dstP` is good (trivially true of an empty
  destination).

`_partial`: the theorems assume `TidyLinks es`.  Without it the unchanged code is not safe
(`C04_cex_dotdot_after_link`): `validSymlink` compares the *lexical* join with `dst`, and a `..`
that follows a name which is a link climbs from the link's referent, not from the name.
-/
namespace Slug

/-- following any link bound under `dst` the way the kernel does ends under `dst` -/
def Safe (fs : FS) (dstP : PPath) : Prop :=
  ∀ p t, fs.get p = some (.link t) → Under dstP p →
    ∀ fuel follow r, resolve fs fuel (if isAbs t then [] else p.dropLast) (pathSegs t) follow = .ok r →
      Under dstP r

/-! ## 1. the syntactic invariant implies physical safety -/

/-- **C04_allGood_safe.** If the components of `dst` are real directories and every link bound
under `dst` is good (tidy target, lexically inside from its own directory), then resolving any such
link as the kernel does — through any chain of other links, with any fuel, following a final link
or not — can only end under `dst`. -/
theorem C04_allGood_safe (fs : FS) (dstP : PPath) (hreal : RealDir fs dstP) (hgood : AllGood fs dstP) :
    ∀ p t, fs.get p = some (.link t) → Under dstP p →
      ∀ fuel follow r, resolve fs fuel (if isAbs t then [] else p.dropLast) (pathSegs t) follow = .ok r →
        Under dstP r := by
  intro p t hp hu fuel follow r hr
  exact resolve_under fs dstP hreal hgood fuel _ _ follow r (heading_link dstP p t hu (hgood p t hp hu)) hr

/-- the same for any path a system call is given: a clean absolute path below `dst` resolves
under `dst`, whatever links it meets on the way -/
theorem C04_syscall_lands_inside (fs : FS) (dst path : Str) (hreal : RealDir fs (pathSegs dst))
    (hgood : AllGood fs (pathSegs dst)) (hp : isAbs path = true ∧ pathClean path = path)
    (hpre : pathSegs dst <+: pathSegs path) :
    ∀ follow r, fs.resolvePath path follow = .ok r → Under (pathSegs dst) r := by
  intro follow r hr
  exact resolve_under fs _ hreal hgood _ _ _ follow r
    (heading_start _ _ (fun x hx => (absClean_segs path hp x hx).1) hpre) hr

/-! ## 2. `Unpack` keeps the invariant -/

/-- **C04_entry_preserves_partial.** One archive entry keeps the three invariants. -/
theorem C04_entry_preserves_partial (cwd dst : Str) (priv : Bool) (st : UState) (e : Entry)
    (body : Str) (be : Bool) (hdst : DstOK dst)
    (hreal : RealDir st.fs (pathSegs dst)) (hkeys : KeysPhysical st.fs)
    (hgood : AllGood st.fs (pathSegs dst)) (hdirs : DirsAim (pathSegs dst) st.dirs)
    (htidy : e.isSymlink = true → Tidy e.link) :
    let st' := (unpackEntry cwd [] priv dst st e body be).1
    AllGood st'.fs (pathSegs dst) ∧ RealDir st'.fs (pathSegs dst) ∧ KeysPhysical st'.fs ∧
      DirsAim (pathSegs dst) st'.dirs := by
  have h := unpackEntry_ok (cwd := cwd) (priv := priv) (body := body) (be := be) hdst rfl
    ⟨hreal, hkeys, hgood⟩ hdirs htidy
  exact ⟨h.inv.good, h.inv.real, h.inv.keys, h.dirs⟩

/-- **C04_links_inside_partial.** Whatever the archive (with tidy link targets), the reader fault
and the result, the filesystem `Unpack` leaves behind satisfies the invariants again: the
destination is still a real directory, keys are physical, and every link under `dst` — old or
new — is good. -/
theorem C04_links_inside_partial (dst : Str) (fs : FS) (es : List Entry)
    (hdst : DstOK dst) (hreal : RealDir fs (pathSegs dst)) (hkeys : KeysPhysical fs)
    (hgood : AllGood fs (pathSegs dst)) (htidy : TidyLinks es) :
    ∀ (fault : Fault) (priv : Bool) (cwd : Str),
      let fs' := (unpack cwd [] priv dst fault fs es).1
      AllGood fs' (pathSegs dst) ∧ RealDir fs' (pathSegs dst) ∧ KeysPhysical fs' := by
  intro fault priv cwd
  have h := (unpack_ok (cwd := cwd) (priv := priv) (fault := fault) hdst rfl
    ⟨hreal, hkeys, hgood⟩ htidy).1
  exact ⟨h.good, h.real, h.keys⟩

/-- **C04_safe_after_unpack_partial.** After `Unpack` — success or error, any fault — every link
under `dst` resolves physically under `dst`. -/
theorem C04_safe_after_unpack_partial (dst : Str) (fs : FS) (es : List Entry)
    (hdst : DstOK dst) (hreal : RealDir fs (pathSegs dst)) (hkeys : KeysPhysical fs)
    (hgood : AllGood fs (pathSegs dst)) (htidy : TidyLinks es) :
    ∀ (fault : Fault) (priv : Bool) (cwd : Str),
      Safe (unpack cwd [] priv dst fault fs es).1 (pathSegs dst) := by
  intro fault priv cwd
  obtain ⟨h1, h2, _⟩ := C04_links_inside_partial dst fs es hdst hreal hkeys hgood htidy fault priv cwd
  exact C04_allGood_safe _ _ h2 h1

/-! ## 3. decision logic of the link check -/

/-- **C04_reject.** A symlink entry whose target `validSymlink` refuses makes the step return an
illegal-slug error, and no link is created: the filesystem is the one `MkdirAll` of the parent
directory left.  (Any allow-list.) -/
theorem C04_reject (cwd : Str) (allow : List Str) (priv : Bool) (dst : Str) (st : UState) (e : Entry)
    (body : Str) (be : Bool) (path ln : Str) (fs1 : FS)
    (hn : e.name ≠ []) (hi : newUnpackInfo st.fs dst e = some path)
    (hm : st.fs.mkdirAll nowT (mkdirAllFuel (pathDir path)) (pathDir path) 0o755 = (fs1, none))
    (hs : e.isSymlink = true) (hrel : pathRel dst path = some ln)
    (hv : validSymlink cwd allow dst ln e.link = false) :
    unpackEntry cwd allow priv dst st e body be = ({ fs := fs1, dirs := st.dirs }, some .illegal) := by
  unfold unpackEntry
  simp [hn, hi, hm, hs, hrel, hv]

/-- the run stops there: `Unpack` of an archive whose first entry is refused returns illegal -/
theorem C04_reject_unpack (cwd : Str) (allow : List Str) (priv : Bool) (dst : Str) (fs : FS) (e : Entry)
    (rest : List Entry) (path ln : Str) (fs1 : FS)
    (hn : e.name ≠ []) (hi : newUnpackInfo fs dst e = some path)
    (hm : fs.mkdirAll nowT (mkdirAllFuel (pathDir path)) (pathDir path) 0o755 = (fs1, none))
    (hs : e.isSymlink = true) (hrel : pathRel dst path = some ln)
    (hv : validSymlink cwd allow dst ln e.link = false) :
    unpack cwd allow priv dst .none fs (e :: rest) = (fs1, .illegal) := by
  have h := C04_reject cwd allow priv dst { fs := fs, dirs := [] } e e.body false path ln fs1 hn hi hm hs hrel hv
  unfold unpack
  rw [unpackLoop]
  · simp [h]
  · intro k n h; cases h

/-- **C04_accepted_is_lexically_inside.** What acceptance means: with an absolute clean root, a
relative link name and no allow-list, the lexical join of the link's directory and the target (the
cleaned target itself if absolute) passes the separator-aware containment test. -/
theorem C04_accepted_is_lexically_inside (cwd dst ln t : Str) (hdst : DstOK dst) (hln : isAbs ln = false)
    (h : validSymlink cwd [] dst ln t = true) :
    isWithin dst (if isAbs t then pathClean t else pathJoin (pathDir (pathJoin dst ln)) t) = true := by
  rw [validSymlink_eq cwd dst ln t hdst hln] at h
  exact h

/-- … and in components: the lexical resolution of the target from the directory of the extraction
path has the components of `dst` as a prefix. -/
theorem C04_accepted_lexInside (cwd dst path ln t : Str) (hdst : DstOK dst)
    (hp : isAbs path = true ∧ pathClean path = path) (hpre : pathSegs dst <+: pathSegs path)
    (hrel : pathRel dst path = some ln) (h : validSymlink cwd [] dst ln t = true) :
    pathSegs dst <+: cleanSegs true ((if isAbs t then [] else (pathSegs path).dropLast) ++ pathSegs t) :=
  validSymlink_lexInside hdst hp hpre hrel h

/-! ## 4. non-vacuity -/

/-- the hypotheses hold for an empty destination `/t/dst` and an archive with a directory, a file
and a link `l -> d/a`; the run succeeds and leaves the link -/
example : DstOK cexDst ∧ RealDir cexFs0 (pathSegs cexDst) ∧ KeysPhysical cexFs0 ∧
    AllGood cexFs0 (pathSegs cexDst) ∧ TidyLinks cexEsGood := by
  rw [cex_dstP]
  obtain ⟨h1, h2, h3⟩ := cex_hyps
  obtain ⟨a, b, c⟩ := fsCheck_sound h2
  exact ⟨h1, a, b, c, h3⟩

example : (unpack cexCwd [] true cexDst .none cexFs0 cexEsGood).2 = .ok ∧
    (unpack cexCwd [] true cexDst .none cexFs0 cexEsGood).1.get (["t","dst","l"].map String.toList)
      = some (.link "d/a".toList) := by
  rw [cex_good_run]; decide

/-- they also hold for a destination that already contains a (good) link -/
example : RealDir cexGoodFS (pathSegs cexDst) ∧ KeysPhysical cexGoodFS ∧
    AllGood cexGoodFS (pathSegs cexDst) := by
  rw [cex_dstP]; exact fsCheck_sound cex_hyps_good

/-- `TidyLinks` does exclude something: the two targets of the counterexamples -/
example : ¬ Tidy "d/l1/..".toList ∧ ¬ Tidy "s/../out.txt".toList ∧ Tidy "..".toList ∧
    Tidy "../../a/b".toList := by decide

/-- `C04_reject` is not vacuous: a link `l -> ../x` in the empty destination is refused -/
example : unpack cexCwd [] true cexDst .none cexFs0 [cexLink "l" "../x"] = (cexFs0, .illegal) := by
  decide

/-! ## 5. the hypothesis `TidyLinks` is needed (known finding F3) -/

def cexEs3 : List Entry := [cexLink "d/l1" "..", cexLink "l2" "d/l1/.."]

/-- **C04_cex_dotdot_after_link.** On the two-entry archive `d/l1 -> ..`, `l2 -> d/l1/..` in the
empty destination `/t/dst`, `Unpack` succeeds; `validSymlink` accepts the second target (lexically
`d/l1/..` is `d`, inside), the link `l2` is created, and the kernel resolves it to `/t`, the parent
of the destination. -/
theorem C04_cex_dotdot_after_link :
    let r := unpack cexCwd [] true cexDst .none cexFs0 cexEs3
    r.2 = .ok ∧
    validSymlink cexCwd [] cexDst "l2".toList "d/l1/..".toList = true ∧
    r.1.get (["t","dst","l2"].map String.toList) = some (.link "d/l1/..".toList) ∧
    resolve r.1 64 cexDstP (pathSegs "d/l1/..".toList) true = .ok cexTP ∧
    ¬ (cexDstP <+: cexTP) := by
  dsimp only
  refine ⟨by decide, by decide, by decide, rfl, by decide⟩

/-- the hypotheses other than `TidyLinks` hold in that run, and `TidyLinks` fails -/
theorem C04_cex_hyps : DstOK cexDst ∧ FsCheck cexFs0 cexDstP ∧ ¬ TidyLinks cexEs3 := by decide

/-! ## 6. why `GoodLink` asks for plain components in the link's own path

`FS` is an abstract map: nothing stops a key from containing a component `""`, `"."` or `".."`,
which no real directory entry can be.  Lexical cleaning skips/pops such components, the physical
walk does not, so "tidy and lexically inside" alone does not bound the walk from such a key. -/

def cexFsOdd : FS :=
  [(["a","b","","l"].map String.toList, .link "../../a/b/x".toList),
   (["a","b",""].map String.toList, .dir 0o755 0),
   (["a","a","b"].map String.toList, .dir 0o755 0),
   (["a","a"].map String.toList, .dir 0o755 0),
   (["a","b"].map String.toList, .dir 0o755 0),
   (["a"].map String.toList, .dir 0o755 0)]

def cexOddDst : PPath := ["a","b"].map String.toList

/-- **C04_cex_nonplain_key.** A filesystem with a (non-physical) key `a/b//l`: destination `a/b`
is a real directory, keys have directory parents, the only link under the destination is tidy and
lexically inside from its directory — and the kernel-style walk ends at `a/a/b/x`, outside. -/
theorem C04_cex_nonplain_key :
    RealDir cexFsOdd cexOddDst ∧ KeysPhysical cexFsOdd ∧
    (∀ p t, cexFsOdd.get p = some (.link t) → Under cexOddDst p →
      Tidy t ∧ LexInside cexOddDst (if isAbs t then [] else p.dropLast) (pathSegs t)) ∧
    resolve cexFsOdd 64 (["a","b",""].map String.toList) (pathSegs "../../a/b/x".toList) true
      = .ok (["a","a","b","x"].map String.toList) ∧
    ¬ Under cexOddDst (["a","a","b","x"].map String.toList) := by
  refine ⟨realDir_of_check (by decide), keysPhysical_of_check (by decide), ?_, rfl, by decide⟩
  intro p t hp _
  have hm := get_mem hp
  have : ∀ e ∈ cexFsOdd, ∀ t, e.2 = .link t →
      Tidy t ∧ LexInside cexOddDst (if isAbs t then [] else e.1.dropLast) (pathSegs t) := by
    intro e he t ht
    simp only [cexFsOdd, List.mem_cons, List.not_mem_nil, or_false] at he
    rcases he with rfl | rfl | rfl | rfl | rfl | rfl <;> first | (cases ht; decide) | cases ht
  exact this _ hm t rfl

end Slug
