import SlugModel.Lemmas.UnpackInv
/-!
# C04 — Every symlink left by Unpack resolves inside the destination

Property theorems only; helper lemmas live in `Lemmas/PathSegs` (string ↔ component bridge),
`Lemmas/Resolve` (where kernel path resolution lands), `Lemmas/FSFrame` (what each system call
changes) and `Lemmas/UnpackInv` (the invariant over `Unpack`).  `unpack`, `unpackEntry`,
`newUnpackInfo`, `validSymlink`, `unpackLinkOK` are the model of `Packer.Unpack`,
`unpackinfo.NewUnpackInfo`, `validSymlink` and the link test `Unpack` applies (`validSymlink`, and an
absolute target only when allow-listed) (tied to the code by the `unpack` lane); `FS`, `resolve` the
model of the kernel.

Vocabulary (`dstP = pathSegs dst`, the physical components of `dst`):
* `DstOK dst` — `dst` is absolute, clean and not `/`.
* `Under dstP p` — `dstP <+: p`.
* `RealDir fs dstP` — every prefix of `dstP` is a directory (no link among the components of `dst`).
* `KeysPhysical fs` — every bound path's parent is bound to a directory.
* `Tidy t` — in `pathSegs t` all `..` come first; `TidyLinks es` — every link entry's target is tidy.
* `LexInside dstP cur segs` — `dstP <+: cleanSegs true (cur ++ segs)`.
* `GoodLink dstP p t` — the components of `p` are plain names (not `""`, `.`, `..`: true of every
  real directory entry, needed because `FS` is an abstract map — `C04_cex_nonplain_key`), `Tidy t`,
  and `LexInside dstP (if isAbs t then [] else p.dropLast) (pathSegs t)`;
  `AllGood fs dstP` — every link bound under `dstP` is good (trivially true of an empty
  destination).

`_partial`: the theorems assume `TidyLinks es`.  Without it the unchanged code is not safe
(`C04_cex_dotdot_after_link`): `validSymlink` compares the *lexical* join with `dst`, and a `..`
that follows a name which is a link climbs from the link's referent, not from the name.

Absolute targets (former finding F12 "unpack.link-abs-inside", repaired): `Unpack` used to accept an
absolute target that pointed inside `dst`; it now refuses every absolute target that is not
allow-listed (§3b: `C04_abs_target_refused`, `C04_accepted_target_relative`,
`C04_abs_target_needs_allow`, `C04_unpack_ok_links_relative`).  No theorem of this file ever
excluded absolute targets by hypothesis (`GoodLink`/`Safe` treat them: the walk starts at `/`), so
there is no hypothesis to drop; what is new is that with `allow = []` every link `Unpack` creates
has a relative target (`C04_created_link_relative`).
-/
namespace Slug

/-- following any link bound under `dst` the way the kernel does ends under `dst` -/
def Safe (fs : FS) (dstP : PPath) : Prop :=
  ∀ p t, fs.get p = some (.link t) → Under dstP p →
    ∀ fuel follow r, resolve fs fuel (if isAbs t then [] else p.dropLast) (pathSegs t) follow = .ok r →
      Under dstP r

/-! ## 1. the syntactic invariant implies physical safety -/

/-- **C04_allGood_safe.** If the components of `dst` are real directories and every link bound
under `dst` is good (tidy target, lexically inside from its own directory), then resolving any such
link as the kernel does — through any chain of other links, with any fuel, following a final link
or not — can only end under `dst`. -/
theorem C04_allGood_safe (fs : FS) (dstP : PPath) (hreal : RealDir fs dstP) (hgood : AllGood fs dstP) :
    ∀ p t, fs.get p = some (.link t) → Under dstP p →
      ∀ fuel follow r, resolve fs fuel (if isAbs t then [] else p.dropLast) (pathSegs t) follow = .ok r →
        Under dstP r := by
  intro p t hp hu fuel follow r hr
  exact resolve_under fs dstP hreal hgood fuel _ _ follow r (heading_link dstP p t hu (hgood p t hp hu)) hr

/-- the same for any path a system call is given: a clean absolute path below `dst` resolves
under `dst`, whatever links it meets on the way -/
theorem C04_syscall_lands_inside (fs : FS) (dst path : Str) (hreal : RealDir fs (pathSegs dst))
    (hgood : AllGood fs (pathSegs dst)) (hp : isAbs path = true ∧ pathClean path = path)
    (hpre : pathSegs dst <+: pathSegs path) :
    ∀ follow r, fs.resolvePath path follow = .ok r → Under (pathSegs dst) r := by
  intro follow r hr
  exact resolve_under fs _ hreal hgood _ _ _ follow r
    (heading_start _ _ (fun x hx => (absClean_segs path hp x hx).1) hpre) hr

/-! ## 2. `Unpack` keeps the invariant -/

/-- **C04_entry_preserves_partial.** One archive entry keeps the three invariants. -/
theorem C04_entry_preserves_partial (cwd dst : Str) (priv : Bool) (st : UState) (e : Entry)
    (body : Str) (be : Bool) (hdst : DstOK dst)
    (hreal : RealDir st.fs (pathSegs dst)) (hkeys : KeysPhysical st.fs)
    (hgood : AllGood st.fs (pathSegs dst)) (hdirs : DirsAim (pathSegs dst) st.dirs)
    (htidy : e.isSymlink = true → Tidy e.link) :
    let st' := (unpackEntry cwd [] priv dst st e body be).1
    AllGood st'.fs (pathSegs dst) ∧ RealDir st'.fs (pathSegs dst) ∧ KeysPhysical st'.fs ∧
      DirsAim (pathSegs dst) st'.dirs := by
  have h := unpackEntry_ok (cwd := cwd) (priv := priv) (body := body) (be := be) hdst rfl
    ⟨hreal, hkeys, hgood⟩ hdirs htidy
  exact ⟨h.inv.good, h.inv.real, h.inv.keys, h.dirs⟩

/-- **C04_links_inside_partial.** Whatever the archive (with tidy link targets), the reader fault
and the result, the filesystem `Unpack` leaves behind satisfies the invariants again: the
destination is still a real directory, keys are physical, and every link under `dst` — old or
new — is good. -/
theorem C04_links_inside_partial (dst : Str) (fs : FS) (es : List Entry)
    (hdst : DstOK dst) (hreal : RealDir fs (pathSegs dst)) (hkeys : KeysPhysical fs)
    (hgood : AllGood fs (pathSegs dst)) (htidy : TidyLinks es) :
    ∀ (fault : Fault) (priv : Bool) (cwd : Str),
      let fs' := (unpack cwd [] priv dst fault fs es).1
      AllGood fs' (pathSegs dst) ∧ RealDir fs' (pathSegs dst) ∧ KeysPhysical fs' := by
  intro fault priv cwd
  have h := (unpack_ok (cwd := cwd) (priv := priv) (fault := fault) hdst rfl
    ⟨hreal, hkeys, hgood⟩ htidy).1
  exact ⟨h.good, h.real, h.keys⟩

/-- **C04_safe_after_unpack_partial.** After `Unpack` — success or error, any fault — every link
under `dst` resolves physically under `dst`. -/
theorem C04_safe_after_unpack_partial (dst : Str) (fs : FS) (es : List Entry)
    (hdst : DstOK dst) (hreal : RealDir fs (pathSegs dst)) (hkeys : KeysPhysical fs)
    (hgood : AllGood fs (pathSegs dst)) (htidy : TidyLinks es) :
    ∀ (fault : Fault) (priv : Bool) (cwd : Str),
      Safe (unpack cwd [] priv dst fault fs es).1 (pathSegs dst) := by
  intro fault priv cwd
  obtain ⟨h1, h2, _⟩ := C04_links_inside_partial dst fs es hdst hreal hkeys hgood htidy fault priv cwd
  exact C04_allGood_safe _ _ h2 h1

/-! ## 3. decision logic of the link check -/

/-- **C04_reject_linkOK.** A symlink entry whose target fails the link test of `Unpack`
(`unpackLinkOK`) makes the step return an illegal-slug error, and no link is created: the
filesystem is the one `MkdirAll` of the parent directory left.  (Any allow-list.) -/
theorem C04_reject_linkOK (cwd : Str) (allow : List Str) (priv : Bool) (dst : Str) (st : UState) (e : Entry)
    (body : Str) (be : Bool) (path ln : Str) (fs1 : FS)
    (hn : e.name ≠ []) (hi : newUnpackInfo st.fs dst e = some path)
    (hm : st.fs.mkdirAll nowT (mkdirAllFuel (pathDir path)) (pathDir path) 0o755 = (fs1, none))
    (hs : e.isSymlink = true) (hrel : pathRel dst path = some ln)
    (hv : unpackLinkOK cwd allow dst ln e.link = false) :
    unpackEntry cwd allow priv dst st e body be = ({ fs := fs1, dirs := st.dirs }, some .illegal) := by
  unfold unpackEntry
  simp [hn, hi, Entry.not_typeX_of_symlink hs, hm, hs, hrel, hv]

/-- what `validSymlink` refuses, the link test refuses -/
theorem C04_linkOK_false_of_validSymlink_false {cwd : Str} {allow : List Str} {dst ln t : Str}
    (hv : validSymlink cwd allow dst ln t = false) : unpackLinkOK cwd allow dst ln t = false := by
  cases h : unpackLinkOK cwd allow dst ln t with
  | false => rfl
  | true => rw [unpackLinkOK_valid h] at hv; cases hv

/-- **C04_reject.** A symlink entry whose target `validSymlink` refuses makes the step return an
illegal-slug error, and no link is created: the filesystem is the one `MkdirAll` of the parent
directory left.  (Any allow-list.) -/
theorem C04_reject (cwd : Str) (allow : List Str) (priv : Bool) (dst : Str) (st : UState) (e : Entry)
    (body : Str) (be : Bool) (path ln : Str) (fs1 : FS)
    (hn : e.name ≠ []) (hi : newUnpackInfo st.fs dst e = some path)
    (hm : st.fs.mkdirAll nowT (mkdirAllFuel (pathDir path)) (pathDir path) 0o755 = (fs1, none))
    (hs : e.isSymlink = true) (hrel : pathRel dst path = some ln)
    (hv : validSymlink cwd allow dst ln e.link = false) :
    unpackEntry cwd allow priv dst st e body be = ({ fs := fs1, dirs := st.dirs }, some .illegal) :=
  C04_reject_linkOK cwd allow priv dst st e body be path ln fs1 hn hi hm hs hrel
    (C04_linkOK_false_of_validSymlink_false hv)

/-- the run stops there: `Unpack` of an archive whose first entry fails the link test returns
illegal -/
theorem C04_reject_unpack_linkOK (cwd : Str) (allow : List Str) (priv : Bool) (dst : Str) (fs : FS) (e : Entry)
    (rest : List Entry) (path ln : Str) (fs1 : FS)
    (hn : e.name ≠ []) (hi : newUnpackInfo fs dst e = some path)
    (hm : fs.mkdirAll nowT (mkdirAllFuel (pathDir path)) (pathDir path) 0o755 = (fs1, none))
    (hs : e.isSymlink = true) (hrel : pathRel dst path = some ln)
    (hv : unpackLinkOK cwd allow dst ln e.link = false) :
    unpack cwd allow priv dst .none fs (e :: rest) = (fs1, .illegal) := by
  have h := C04_reject_linkOK cwd allow priv dst { fs := fs, dirs := [] } e e.body false path ln fs1 hn hi hm hs hrel hv
  unfold unpack
  rw [unpackLoop]
  · simp [h]
  · intro k n h; cases h

/-- the run stops there: `Unpack` of an archive whose first entry is refused returns illegal -/
theorem C04_reject_unpack (cwd : Str) (allow : List Str) (priv : Bool) (dst : Str) (fs : FS) (e : Entry)
    (rest : List Entry) (path ln : Str) (fs1 : FS)
    (hn : e.name ≠ []) (hi : newUnpackInfo fs dst e = some path)
    (hm : fs.mkdirAll nowT (mkdirAllFuel (pathDir path)) (pathDir path) 0o755 = (fs1, none))
    (hs : e.isSymlink = true) (hrel : pathRel dst path = some ln)
    (hv : validSymlink cwd allow dst ln e.link = false) :
    unpack cwd allow priv dst .none fs (e :: rest) = (fs1, .illegal) :=
  C04_reject_unpack_linkOK cwd allow priv dst fs e rest path ln fs1 hn hi hm hs hrel
    (C04_linkOK_false_of_validSymlink_false hv)

/-- **C04_accepted_is_lexically_inside.** What acceptance means: with an absolute clean root, a
relative link name and no allow-list, the lexical join of the link's directory and the target (the
cleaned target itself if absolute) passes the separator-aware containment test. -/
theorem C04_accepted_is_lexically_inside (cwd dst ln t : Str) (hdst : DstOK dst) (hln : isAbs ln = false)
    (h : validSymlink cwd [] dst ln t = true) :
    isWithin dst (if isAbs t then pathClean t else pathJoin (pathDir (pathJoin dst ln)) t) = true := by
  rw [validSymlink_eq cwd dst ln t hdst hln] at h
  exact h

/-- … and in components: the lexical resolution of the target from the directory of the extraction
path has the components of `dst` as a prefix. -/
theorem C04_accepted_lexInside (cwd dst path ln t : Str) (hdst : DstOK dst)
    (hp : isAbs path = true ∧ pathClean path = path) (hpre : pathSegs dst <+: pathSegs path)
    (hrel : pathRel dst path = some ln) (h : validSymlink cwd [] dst ln t = true) :
    pathSegs dst <+: cleanSegs true ((if isAbs t then [] else (pathSegs path).dropLast) ++ pathSegs t) :=
  validSymlink_lexInside hdst hp hpre hrel h

/-- **C04_unpack_accepted_lexInside.** The same for what `Unpack` itself accepts (no allow-list): the
target is relative, and its lexical resolution from the directory of the extraction path has the
components of `dst` as a prefix. -/
theorem C04_unpack_accepted_lexInside (cwd dst path ln t : Str) (hdst : DstOK dst)
    (hp : isAbs path = true ∧ pathClean path = path) (hpre : pathSegs dst <+: pathSegs path)
    (hrel : pathRel dst path = some ln) (h : unpackLinkOK cwd [] dst ln t = true) :
    isAbs t = false ∧ pathSegs dst <+: cleanSegs true ((pathSegs path).dropLast ++ pathSegs t) := by
  have ha := unpackLinkOK_nil_rel h
  have := C04_accepted_lexInside cwd dst path ln t hdst hp hpre hrel (unpackLinkOK_valid h)
  rw [ha] at this
  exact ⟨ha, by simpa using this⟩

/-! ## 3b. absolute targets (former finding F12, repaired)

`Unpack` refuses a link entry whose target is absolute unless the caller allow-listed the target;
pointing inside `dst` is no longer enough.  All statements are about *named* entries: an entry with
an empty name is skipped by `Unpack` before anything is looked at (`C04_unnamed_skipped`). -/

/-- an entry with an empty name is skipped: nothing changes, the loop continues -/
theorem C04_unnamed_skipped (cwd : Str) (allow : List Str) (priv : Bool) (dst : Str) (st : UState)
    (e : Entry) (body : Str) (be : Bool) (hn : e.name = []) :
    unpackEntry cwd allow priv dst st e body be = (st, none) :=
  unpackEntry_nil_name cwd allow priv dst st e body be hn

/-- **C04_abs_target_needs_allow.** Any allow-list: if `Unpack` accepts a named symlink entry whose
target is absolute, the (cleaned) target is an allow-listed one or lies below one. -/
theorem C04_abs_target_needs_allow (cwd : Str) (allow : List Str) (priv : Bool) (dst : Str)
    (st st' : UState) (e : Entry) (body : Str) (be : Bool)
    (hn : e.name ≠ []) (hs : e.isSymlink = true) (ha : isAbs e.link = true)
    (h : unpackEntry cwd allow priv dst st e body be = (st', none)) :
    allowedTarget allow (pathAbs cwd dst) (pathClean e.link) = true := by
  obtain ⟨ln, _, _, hv⟩ := unpackEntry_link_accepted cwd allow priv dst st st' e body be hn hs h
  exact unpackLinkOK_abs_allowed hv ha

/-- … and in any case what is accepted passed `validSymlink` and is relative or allow-listed -/
theorem C04_accepted_link (cwd : Str) (allow : List Str) (priv : Bool) (dst : Str)
    (st st' : UState) (e : Entry) (body : Str) (be : Bool)
    (hn : e.name ≠ []) (hs : e.isSymlink = true)
    (h : unpackEntry cwd allow priv dst st e body be = (st', none)) :
    ∃ path ln, newUnpackInfo st.fs dst e = some path ∧ pathRel dst path = some ln ∧
      validSymlink cwd allow dst ln e.link = true ∧
      (isAbs e.link = false ∨ allowedTarget allow (pathAbs cwd dst) (pathClean e.link) = true) := by
  obtain ⟨ln, hi, hr, hv⟩ := unpackEntry_link_accepted cwd allow priv dst st st' e body be hn hs h
  exact ⟨_, ln, hi, hr, unpackLinkOK_valid hv, unpackLinkOK_rel_or_allowed hv⟩

/-- **C04_accepted_target_relative.** No allow-list: the target of every named symlink entry that
`Unpack` accepts is relative. -/
theorem C04_accepted_target_relative (cwd : Str) (priv : Bool) (dst : Str)
    (st st' : UState) (e : Entry) (body : Str) (be : Bool)
    (hn : e.name ≠ []) (hs : e.isSymlink = true)
    (h : unpackEntry cwd [] priv dst st e body be = (st', none)) :
    isAbs e.link = false := by
  obtain ⟨ln, _, _, hv⟩ := unpackEntry_link_accepted cwd [] priv dst st st' e body be hn hs h
  exact unpackLinkOK_nil_rel hv

/-- **C04_created_link_relative.** No allow-list: the only link a step of `Unpack` creates is the
one `os.Symlink(e.link, path)` call of an accepted named symlink entry, and its target is relative. -/
theorem C04_created_link_relative (cwd : Str) (priv : Bool) (dst : Str)
    (st st' : UState) (e : Entry) (body : Str) (be : Bool)
    (hn : e.name ≠ []) (hs : e.isSymlink = true)
    (h : unpackEntry cwd [] priv dst st e body be = (st', none)) :
    ∃ path fs1, newUnpackInfo st.fs dst e = some path ∧
      st.fs.mkdirAll nowT (mkdirAllFuel (pathDir path)) (pathDir path) 0o755 = (fs1, none) ∧
      fs1.symlink e.link path nowT = .ok st'.fs ∧ st'.dirs = st.dirs ∧ isAbs e.link = false := by
  have hrelT := C04_accepted_target_relative cwd priv dst st st' e body be hn hs h
  unfold unpackEntry at h
  rw [if_neg hn] at h
  split at h
  · cases h
  · rename_i path hi
    simp only at h
    rw [if_neg (by rw [Entry.not_typeX_of_symlink hs]; simp)] at h
    split at h
    · cases h
    · rename_i fs1 hm
      rw [if_pos hs] at h
      split at h
      · cases h
      · split at h
        · cases h
        · split at h
          · cases h
          · rename_i fs2 hsl
            cases h
            exact ⟨path, fs1, hi, hm, hsl, rfl, hrelT⟩

/-- **C04_abs_target_refused.** No allow-list: a named symlink entry whose target is absolute —
wherever it points, inside `dst` or not — is an error of the step (never `none` = "continue"): an
illegal-slug error, or the I/O error of the `MkdirAll` of the parent directory that comes first.
When `NewUnpackInfo` and that `MkdirAll` succeed, the step is exactly: illegal slug, no link created
(the filesystem is the one `MkdirAll` left). -/
theorem C04_abs_target_refused (cwd : Str) (priv : Bool) (dst : Str) (st : UState) (e : Entry)
    (body : Str) (be : Bool)
    (hn : e.name ≠ []) (hs : e.isSymlink = true) (ha : isAbs e.link = true) :
    ((unpackEntry cwd [] priv dst st e body be).2 = some .illegal ∨
      (unpackEntry cwd [] priv dst st e body be).2 = some .ioerr) ∧
    (newUnpackInfo st.fs dst e = none →
      unpackEntry cwd [] priv dst st e body be = (st, some .illegal)) ∧
    (∀ path fs1, newUnpackInfo st.fs dst e = some path →
      st.fs.mkdirAll nowT (mkdirAllFuel (pathDir path)) (pathDir path) 0o755 = (fs1, none) →
      unpackEntry cwd [] priv dst st e body be = ({ fs := fs1, dirs := st.dirs }, some .illegal)) := by
  refine ⟨?_, ?_, ?_⟩
  · exact unpackEntry_link_refused cwd [] priv dst st e body be hn hs
      (fun ln _ => unpackLinkOK_nil_abs cwd dst ln ha)
  · exact fun hi => unpackEntry_info_none cwd [] priv dst st e body be hn hi
  · intro path fs1 hi hm
    cases hrel : pathRel dst path with
    | none => unfold unpackEntry; simp [hn, hi, Entry.not_typeX_of_symlink hs, hm, hs, hrel]
    | some ln =>
      exact C04_reject_linkOK cwd [] priv dst st e body be path ln fs1 hn hi hm hs hrel
        (unpackLinkOK_nil_abs cwd dst ln ha)

/-- the general form: with an allow-list that does not cover the (cleaned) absolute target, the
step is an error too -/
theorem C04_abs_target_refused_allow (cwd : Str) (allow : List Str) (priv : Bool) (dst : Str) (st : UState)
    (e : Entry) (body : Str) (be : Bool)
    (hn : e.name ≠ []) (hs : e.isSymlink = true) (ha : isAbs e.link = true)
    (hal : allowedTarget allow (pathAbs cwd dst) (pathClean e.link) = false) :
    (unpackEntry cwd allow priv dst st e body be).2 = some .illegal ∨
      (unpackEntry cwd allow priv dst st e body be).2 = some .ioerr := by
  apply unpackEntry_link_refused cwd allow priv dst st e body be hn hs
  intro ln _
  cases h : unpackLinkOK cwd allow dst ln e.link with
  | false => rfl
  | true => rw [unpackLinkOK_abs_allowed h ha] at hal; cases hal

/-- **C04_unpack_ok_links_relative.** No allow-list, any reader fault: if `Unpack` returns success,
every named symlink entry of the archive has a relative target. -/
theorem C04_unpack_ok_links_relative (cwd : Str) (priv : Bool) (dst : Str) (fault : Fault) (fs : FS)
    (es : List Entry) (h : (unpack cwd [] priv dst fault fs es).2 = .ok) :
    ∀ e ∈ es, e.name ≠ [] → e.isSymlink = true → isAbs e.link = false := by
  have h' : unpack cwd [] priv dst fault fs es = ((unpack cwd [] priv dst fault fs es).1, .ok) := by
    rw [← h]
  obtain ⟨st, hl, _⟩ := (unpack_ok_iff cwd [] priv dst fault fs _ es).1 h'
  intro e he hn hs
  obtain ⟨ln, _, hv⟩ := unpackLoop_none_links cwd [] priv dst fault 0 _ st es hl e he hn hs
  exact unpackLinkOK_nil_rel hv

/-- contrapositive: an archive with a named symlink entry whose target is absolute is never unpacked
successfully without an allow-list -/
theorem C04_unpack_abs_target_fails (cwd : Str) (priv : Bool) (dst : Str) (fault : Fault) (fs : FS)
    (es : List Entry) (e : Entry) (he : e ∈ es) (hn : e.name ≠ []) (hs : e.isSymlink = true)
    (ha : isAbs e.link = true) : (unpack cwd [] priv dst fault fs es).2 ≠ .ok := by
  intro h
  rw [C04_unpack_ok_links_relative cwd priv dst fault fs es h e he hn hs] at ha
  cases ha

/-- the general form with an allow-list: after a successful `Unpack` every named symlink entry's
target passed the link test — relative, or allow-listed -/
theorem C04_unpack_ok_links_allowed (cwd : Str) (allow : List Str) (priv : Bool) (dst : Str) (fault : Fault)
    (fs : FS) (es : List Entry) (h : (unpack cwd allow priv dst fault fs es).2 = .ok) :
    ∀ e ∈ es, e.name ≠ [] → e.isSymlink = true →
      isAbs e.link = false ∨ allowedTarget allow (pathAbs cwd dst) (pathClean e.link) = true := by
  have h' : unpack cwd allow priv dst fault fs es = ((unpack cwd allow priv dst fault fs es).1, .ok) := by
    rw [← h]
  obtain ⟨st, hl, _⟩ := (unpack_ok_iff cwd allow priv dst fault fs _ es).1 h'
  intro e he hn hs
  obtain ⟨ln, _, hv⟩ := unpackLoop_none_links cwd allow priv dst fault 0 _ st es hl e he hn hs
  exact unpackLinkOK_rel_or_allowed hv

/-! ## 4. non-vacuity -/

/-- the hypotheses hold for an empty destination `/t/dst` and an archive with a directory, a file
and a link `l -> d/a`; the run succeeds and leaves the link -/
example : DstOK cexDst ∧ RealDir cexFs0 (pathSegs cexDst) ∧ KeysPhysical cexFs0 ∧
    AllGood cexFs0 (pathSegs cexDst) ∧ TidyLinks cexEsGood := by
  rw [cex_dstP]
  obtain ⟨h1, h2, h3⟩ := cex_hyps
  obtain ⟨a, b, c⟩ := fsCheck_sound h2
  exact ⟨h1, a, b, c, h3⟩

example : (unpack cexCwd [] true cexDst .none cexFs0 cexEsGood).2 = .ok ∧
    (unpack cexCwd [] true cexDst .none cexFs0 cexEsGood).1.get (["t","dst","l"].map String.toList)
      = some (.link "d/a".toList) := by
  rw [cex_good_run]; decide

/-- they also hold for a destination that already contains a (good) link -/
example : RealDir cexGoodFS (pathSegs cexDst) ∧ KeysPhysical cexGoodFS ∧
    AllGood cexGoodFS (pathSegs cexDst) := by
  rw [cex_dstP]; exact fsCheck_sound cex_hyps_good

/-- `TidyLinks` does exclude something: the two targets of the counterexamples -/
example : ¬ Tidy "d/l1/..".toList ∧ ¬ Tidy "s/../out.txt".toList ∧ Tidy "..".toList ∧
    Tidy "../../a/b".toList := by decide

/-- `C04_reject` is not vacuous: a link `l -> ../x` in the empty destination is refused -/
example : unpack cexCwd [] true cexDst .none cexFs0 [cexLink "l" "../x"] = (cexFs0, .illegal) := by
  decide

/-- §3b is not vacuous.  (a) the archive `d/`, `d/a`, `l -> /t/dst/d/a` (absolute, inside `dst`: what
finding F12 was about — `validSymlink` alone accepts it) is refused with an illegal-slug error and
no link is left; -/
example : validSymlink cexCwd [] cexDst "l".toList "/t/dst/d/a".toList = true ∧
    unpackLinkOK cexCwd [] cexDst "l".toList "/t/dst/d/a".toList = false ∧
    (unpack cexCwd [] true cexDst .none cexFs0
      [cexDir "d" 0o755 5, cexReg "d/a" "hi" 0o644 7, cexLink "l" "/t/dst/d/a"]).2 = .illegal ∧
    (unpack cexCwd [] true cexDst .none cexFs0
      [cexDir "d" 0o755 5, cexReg "d/a" "hi" 0o644 7, cexLink "l" "/t/dst/d/a"]).1.get
        (["t","dst","l"].map String.toList) = none := by decide

/-- the single-entry archive `l -> /t/dst/a` is refused the same way, nothing is created -/
example : unpack cexCwd [] true cexDst .none cexFs0 [cexLink "l" "/t/dst/a"] = (cexFs0, .illegal) := by
  decide

/-- (b) the same archives with the target allow-listed (as an absolute prefix, or relative to the
destination) are accepted, and the link is created with the absolute target; -/
example : (unpack cexCwd ["/t/dst/a".toList] true cexDst .none cexFs0 [cexLink "l" "/t/dst/a"]).2 = .ok ∧
    (unpack cexCwd ["/t/dst/a".toList] true cexDst .none cexFs0 [cexLink "l" "/t/dst/a"]).1.get
      (["t","dst","l"].map String.toList) = some (.link "/t/dst/a".toList) ∧
    (unpack cexCwd ["d".toList] true cexDst .none cexFs0
      [cexDir "d" 0o755 5, cexReg "d/a" "hi" 0o644 7, cexLink "l" "/t/dst/d/a"]).2 = .ok ∧
    allowedTarget ["d".toList] (pathAbs cexCwd cexDst) (pathClean "/t/dst/d/a".toList) = true := by decide

/-- an allow-list that does not cover the target does not help -/
example : (unpack cexCwd ["/t/dst/b".toList] true cexDst .none cexFs0 [cexLink "l" "/t/dst/a"]).2
    = .illegal := by decide

/-- (c) a relative link to the same place is accepted without allow-list -/
example : (unpack cexCwd [] true cexDst .none cexFs0 [cexLink "l" "a"]).2 = .ok ∧
    (unpack cexCwd [] true cexDst .none cexFs0 [cexLink "l" "a"]).1.get
      (["t","dst","l"].map String.toList) = some (.link "a".toList) ∧
    unpackLinkOK cexCwd [] cexDst "l".toList "a".toList = true := by decide

/-- the hypotheses of `C04_abs_target_refused` on the entry of (a) -/
example : (cexLink "l" "/t/dst/a").name ≠ [] ∧ (cexLink "l" "/t/dst/a").isSymlink = true ∧
    isAbs (cexLink "l" "/t/dst/a").link = true := by decide

/-! ## 5. the hypothesis `TidyLinks` is needed (known finding F3) -/

def cexEs3 : List Entry := [cexLink "d/l1" "..", cexLink "l2" "d/l1/.."]

/-- **C04_cex_dotdot_after_link.** On the two-entry archive `d/l1 -> ..`, `l2 -> d/l1/..` in the
empty destination `/t/dst`, `Unpack` succeeds; `validSymlink` accepts the second target (lexically
`d/l1/..` is `d`, inside), the link `l2` is created, and the kernel resolves it to `/t`, the parent
of the destination. -/
theorem C04_cex_dotdot_after_link :
    let r := unpack cexCwd [] true cexDst .none cexFs0 cexEs3
    r.2 = .ok ∧
    validSymlink cexCwd [] cexDst "l2".toList "d/l1/..".toList = true ∧
    r.1.get (["t","dst","l2"].map String.toList) = some (.link "d/l1/..".toList) ∧
    resolve r.1 64 cexDstP (pathSegs "d/l1/..".toList) true = .ok cexTP ∧
    ¬ (cexDstP <+: cexTP) := by
  dsimp only
  refine ⟨by decide, by decide, by decide, rfl, by decide⟩

/-- the hypotheses other than `TidyLinks` hold in that run, and `TidyLinks` fails -/
theorem C04_cex_hyps : DstOK cexDst ∧ FsCheck cexFs0 cexDstP ∧ ¬ TidyLinks cexEs3 := by decide

/-! ## 6. why `GoodLink` asks for plain components in the link's own path

`FS` is an abstract map: nothing stops a key from containing a component `""`, `"."` or `".."`,
which no real directory entry can be.  Lexical cleaning skips/pops such components, the physical
walk does not, so "tidy and lexically inside" alone does not bound the walk from such a key. -/

def cexFsOdd : FS :=
  [(["a","b","","l"].map String.toList, .link "../../a/b/x".toList),
   (["a","b",""].map String.toList, .dir 0o755 0),
   (["a","a","b"].map String.toList, .dir 0o755 0),
   (["a","a"].map String.toList, .dir 0o755 0),
   (["a","b"].map String.toList, .dir 0o755 0),
   (["a"].map String.toList, .dir 0o755 0)]

def cexOddDst : PPath := ["a","b"].map String.toList

/-- **C04_cex_nonplain_key.** A filesystem with a (non-physical) key `a/b//l`: destination `a/b`
is a real directory, keys have directory parents, the only link under the destination is tidy and
lexically inside from its directory — and the kernel-style walk ends at `a/a/b/x`, outside. -/
theorem C04_cex_nonplain_key :
    RealDir cexFsOdd cexOddDst ∧ KeysPhysical cexFsOdd ∧
    (∀ p t, cexFsOdd.get p = some (.link t) → Under cexOddDst p →
      Tidy t ∧ LexInside cexOddDst (if isAbs t then [] else p.dropLast) (pathSegs t)) ∧
    resolve cexFsOdd 64 (["a","b",""].map String.toList) (pathSegs "../../a/b/x".toList) true
      = .ok (["a","a","b","x"].map String.toList) ∧
    ¬ Under cexOddDst (["a","a","b","x"].map String.toList) := by
  refine ⟨realDir_of_check (by decide), keysPhysical_of_check (by decide), ?_, rfl, by decide⟩
  intro p t hp _
  have hm := get_mem hp
  have : ∀ e ∈ cexFsOdd, ∀ t, e.2 = .link t →
      Tidy t ∧ LexInside cexOddDst (if isAbs t then [] else e.1.dropLast) (pathSegs t) := by
    intro e he t ht
    simp only [cexFsOdd, List.mem_cons, List.not_mem_nil, or_false] at he
    rcases he with rfl | rfl | rfl | rfl | rfl | rfl <;> first | (cases ht; decide) | cases ht
  exact this _ hm t rfl

end Slug
