import SlugModel.Props.C12p
/-!
# C20 (write side) — a Meta is returned only for a slug that was written in full

Restates the write-side theorem of Props/C12p for C20: the `Meta` that `Pack` returns describes a slug
whose every write-side operation succeeded (model `PackIO.lean`; tie: extracted error-check facts and the
`pack-faults` lane).
-/
namespace Slug

/-- **C20_meta_only_for_complete_slug.** Whenever `Pack` returns a `Meta`, the result is success, the
`Meta` is the one the walk accumulated (whose equality with the slug's entries is `C20_meta`), and no
writer failure surfaced at any write-side operation of the run. -/
theorem C20_meta_only_for_complete_slug (fs : FS) (cwd : Str) (o : PackOpts) (src : Str)
    (surface : Option Nat) (m : PMeta) (h : (packIO ioChecks fs cwd o src surface).1 = some m) :
    (packIO ioChecks fs cwd o src surface).2 = .ok ∧ m = (pack fs cwd o src).1.pmeta ∧
    (∀ k, surface = some k → (writerOps (pack fs cwd o src).1.entries).length ≤ k) :=
  C12_pack_meta_only_if_reported_nothing fs cwd o src surface m h

/-- **C20_no_meta_on_write_fault.** A failure surfacing at any write-side operation: no `Meta`. -/
theorem C20_no_meta_on_write_fault (fs : FS) (cwd : Str) (o : PackOpts) (src : Str) (k : Nat)
    (hk : k < (writerOps (pack fs cwd o src).1.entries).length) :
    (packIO ioChecks fs cwd o src (some k)).1 = none :=
  (C12_pack_write_fault_reported fs cwd o src k hk).2

end Slug
