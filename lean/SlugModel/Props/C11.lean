import SlugModel.Lemmas.AddrJoin
/-!
# C11 — Relative resolution stays inside the package and follows path algebra

Property theorems only; helper lemmas live in `Lemmas/`.
`joinSubPath`, `resolveRelative`, `finalSourceSub` are the model of
`sourceaddrs.joinSubPath`, `ResolveRelative(Final)Source`, `RegistrySource.FinalSourceAddr`
(tied to the code by the `addr` lane).  `specJoin` is the segment-stack specification.
-/
namespace Slug

/-- A relative path as stored in a `LocalSource`: non-empty and not rooted. -/
def RelLike (b : Str) : Prop := b ≠ [] ∧ isAbs b = false

/-- **C11_join_spec.** For every valid base sub-path and every relative path — any depth, any
mix of names, `.` and `..` — the code's `joinSubPath` equals the segment stack: error exactly on
underflow, otherwise the printed stack. -/
theorem C11_join_spec (a b : Str) (ha : ValidSub a) (hb : RelLike b) :
    joinSubPath a b = specJoin a b := by
  rw [joinSubPath_eq_joinSub a b ha hb.1 hb.2, joinSub_spec _ _ (validSub_allPlain a ha)]
  unfold specJoin printStack
  cases applyRel (some (segsOf a).reverse) (splitOn '/' b) <;> simp

/-- **C11_never_escapes.** Whatever the inputs, a successful join is a valid sub-path: no
`.`/`..`/empty segment survives, so the result cannot denote anything above the package root. -/
theorem C11_never_escapes (a b r : Str) (h : joinSubPath a b = some r) : ValidSub r := by
  unfold joinSubPath at h
  simp only at h
  split at h
  · cases h; exact Or.inl rfl
  · split at h
    · cases h
      rename_i hnd hv
      exact Or.inr ⟨hv, hnd⟩
    · cases h

/-- **C11_abs_unchanged.** An absolute (non-local) second argument is returned verbatim. -/
theorem C11_abs_unchanged (a b : Addr) (hb : b.isLocal = false) : resolveRelative a b = some b := by
  cases b <;> simp_all [resolveRelative, Addr.isLocal]

/-- kind + package + version of an address -/
def Addr.frame : Addr → Nat × Str × Str
  | .loc _ => (0, [], [])
  | .registry p _ => (1, p, [])
  | .registryFinal p v _ => (2, p, v)
  | .remote p _ => (3, p, [])

/-- **C11_same_kind.** Resolving a relative address yields an address of the same kind, package
and version as the base. -/
theorem C11_same_kind (a r : Addr) (b : Str) (h : resolveRelative a (.loc b) = some r) :
    r.frame = a.frame := by
  cases a <;> simp [resolveRelative] at h
  · subst h; rfl
  all_goals
    obtain ⟨x, _, rfl⟩ := h
    rfl

def Addr.sub : Addr → Str
  | .loc r => r
  | .registry _ s => s
  | .registryFinal _ _ s => s
  | .remote _ s => s

/-- **C11_resolve_spec.** For remote, registry and final-registry bases the resulting sub-path is
the segment-stack result, and the operation fails exactly when the stack underflows. -/
theorem C11_resolve_spec (a : Addr) (b : Str) (hloc : a.isLocal = false) (ha : ValidSub a.sub)
    (hb : RelLike b) :
    (resolveRelative a (.loc b)).map Addr.sub = specJoin a.sub b := by
  cases a with
  | loc _ => simp [Addr.isLocal] at hloc
  | registry p s =>
    simp only [resolveRelative, Addr.sub] at *
    rw [C11_join_spec s b ha hb]; cases specJoin s b <;> rfl
  | registryFinal p v s =>
    simp only [resolveRelative, Addr.sub] at *
    rw [C11_join_spec s b ha hb]; cases specJoin s b <;> rfl
  | remote p s =>
    simp only [resolveRelative, Addr.sub] at *
    rw [C11_join_spec s b ha hb]; cases specJoin s b <;> rfl

/-- non-vacuity: the hypotheses are met by ordinary inputs, and both outcomes occur -/
example : ValidSub "beep/boop".toList ∧ RelLike "../bloop".toList := by
  refine ⟨Or.inr ⟨by decide, by decide⟩, by decide, by decide⟩
example : joinSubPath "beep/boop".toList "../bloop".toList = some "beep/bloop".toList := by decide
example : joinSubPath "beep/boop".toList "../../../baz".toList = none := by decide
example : joinSubPath "beep/boop".toList "../..".toList = some [] := by decide

end Slug
