import SlugModel.Lemmas.BuilderLog
/-!
# C17 — Registry sources resolve to the newest allowed version

Property theorems only; helper lemmas live in `Lemmas/BuilderLog`.
`selectVersion`, `findRegistrySource`, `drain` are the model of `Builder.findRegistryPackageSource`
/ `resolvePending` (tied to the code by the `builder` lane).  `rank` is the position of a version in
the order of the real `go-versions` library, `allowed` the offered versions admitted by the caller's
constraint (both supplied by the harness from the real library).
-/
namespace Slug

/-! ## 1. the selection function -/

/-- **C17_newest.** The selected version is offered, allowed, and no allowed offered version has a
greater rank. -/
theorem C17_newest (offered : List VerInfo) (allowed : List VerS) (v : VerInfo)
    (h : selectVersion offered allowed = some v) :
    v ∈ offered ∧ allowed.contains v.ver = true ∧
      ∀ u ∈ offered, allowed.contains u.ver = true → u.rank ≤ v.rank := by
  rw [selectVersion_eq_foldl] at h
  obtain ⟨h1, _, h3⟩ := selFold_some allowed offered none v h
  rcases h1 with h1 | h1
  · cases h1
  · exact ⟨h1.1, h1.2, h3⟩

/-- **C17_none_iff.** No version is selected exactly when no offered version is allowed. -/
theorem C17_none_iff (offered : List VerInfo) (allowed : List VerS) :
    selectVersion offered allowed = none ↔ ∀ u ∈ offered, allowed.contains u.ver = false := by
  rw [selectVersion_eq_foldl, selFold_none]
  exact ⟨fun h => h.2, fun h => ⟨rfl, h⟩⟩

/-- **C17_order_irrelevant.** If distinct allowed offered versions have distinct ranks, the order
in which the registry lists the versions does not matter. -/
theorem C17_order_irrelevant (offered offered' : List VerInfo) (allowed : List VerS)
    (hinj : ∀ u ∈ offered, ∀ v ∈ offered, allowed.contains u.ver = true →
      allowed.contains v.ver = true → u.rank = v.rank → u = v)
    (hp : List.Perm offered' offered) :
    selectVersion offered' allowed = selectVersion offered allowed := by
  cases h : selectVersion offered allowed with
  | none =>
    rw [C17_none_iff] at h ⊢
    intro u hu
    exact h u (hp.mem_iff.mp hu)
  | some v =>
    cases h' : selectVersion offered' allowed with
    | none =>
      rw [C17_none_iff] at h'
      obtain ⟨hm, ha, _⟩ := C17_newest _ _ _ h
      rw [h' v (hp.mem_iff.mpr hm)] at ha
      cases ha
    | some v' =>
      obtain ⟨hm, ha, hmax⟩ := C17_newest _ _ _ h
      obtain ⟨hm', ha', hmax'⟩ := C17_newest _ _ _ h'
      have hm'' := hp.mem_iff.mp hm'
      have e : v' = v :=
        hinj v' hm'' v hm ha' ha
          (Nat.le_antisymm (hmax v' hm'' ha') (hmax' v (hp.mem_iff.mpr hm) ha))
      rw [e]

/-- **C17_final_exact.** With an exact constraint (one allowed version) the selected version is
that version. -/
theorem C17_final_exact (offered : List VerInfo) (v : VerS) (s : VerInfo)
    (h : selectVersion offered [v] = some s) : s.ver = v := by
  have := (C17_newest _ _ _ h).2.1
  simpa using this

/-- **C17_last_of_equal_rank.** Among equally ranked allowed entries (same precedence, differing only
in build metadata, e.g. `2.0.0` and `2.0.0+build.5`) the LAST listed one is selected.  This is
go-versions' `List.NewestInSet` over the stably sorted listing: it scans the sorted list from the end
and replaces its candidate only by a strictly greater one, so of several allowed versions of maximal
precedence the one the stable sort leaves last — the last listed — is kept.  Stated here: the last
listed allowed entry of maximal rank (every allowed entry after it ranks strictly below it) is the
one selected. -/
theorem C17_last_of_equal_rank (pre post : List VerInfo) (allowed : List VerS) (x v : VerInfo)
    (h : selectVersion (pre ++ x :: post) allowed = some v) (hx : allowed.contains x.ver = true)
    (hr : x.rank = v.rank) (hpost : ∀ u ∈ post, allowed.contains u.ver = true → u.rank < x.rank) :
    v = x := by
  have hmax := (C17_newest _ _ _ h).2.2
  rw [selectVersion_eq_foldl, List.foldl_append, List.foldl_cons] at h
  -- whatever the best of `pre` is, it does not outrank `x`, so `x` replaces it
  have hb : selStepL allowed (pre.foldl (selStepL allowed) none) x = some x := by
    cases hb : pre.foldl (selStepL allowed) none with
    | none => exact selStepL_none allowed x hx
    | some b =>
      obtain ⟨h1, _, _⟩ := selFold_some allowed pre none b hb
      rcases h1 with h1 | h1
      · cases h1
      · have : b.rank ≤ v.rank := hmax b (List.mem_append_left _ h1.1) h1.2
        exact selStepL_le allowed b x hx (by omega)
  rw [hb] at h
  -- from `some x` on, the fold replaces the best only by entries of at least its rank: none in `post`
  have key : ∀ (l : List VerInfo), (∀ u ∈ l, allowed.contains u.ver = true → u.rank < x.rank) →
      l.foldl (selStepL allowed) (some x) = some x := by
    intro l
    induction l with
    | nil => intro _; rfl
    | cons y r ih =>
      intro hl
      simp only [List.foldl_cons]
      have hr' : ∀ u ∈ r, allowed.contains u.ver = true → u.rank < x.rank :=
        fun u hu => hl u (List.mem_cons_of_mem _ hu)
      by_cases hy : allowed.contains y.ver = true
      · have hlt : ¬ x.rank ≤ y.rank := Nat.not_le_of_gt (hl y List.mem_cons_self hy)
        rw [selStepL_nle allowed x y hy hlt]
        exact ih hr'
      · rw [selStepL_skip allowed (some x) y hy]
        exact ih hr'
  rw [key post hpost] at h
  cases h
  rfl

/-- the tie rule pinned on the listing the differential lane found (`2.0.0`, `1.10.0`,
`2.0.0+build.5`, all allowed): the real code and the model select `2.0.0+build.5` -/
example : selectVersion [⟨"2.0.0".toList, 3, none⟩, ⟨"1.10.0".toList, 2, none⟩,
      ⟨"2.0.0+build.5".toList, 3, none⟩]
    ["2.0.0".toList, "1.10.0".toList, "2.0.0+build.5".toList]
    = some ⟨"2.0.0+build.5".toList, 3, none⟩ := by decide

/-! ## 2. the answer depends on the world and the request only

`CacheOK w st` (Lemmas/BuilderLog): every cached version listing and every cached source is what the
world answers for that key. -/

/-- **C17_cache_irrelevant (a).** Cache coherence is preserved by every operation of the model and
therefore holds in every reachable state. -/
theorem C17_cacheOK_findRegistrySource (w : World) (st : BState) (src : RegSrc) (allowed : List VerS)
    (h : CacheOK w st) : CacheOK w (findRegistrySource w st src allowed).1 :=
  findRegistrySource_inv (cacheOK_stepInv w) st src allowed h

theorem C17_cacheOK_ensurePackage (w : World) (st : BState) (pkg : PkgAddr)
    (h : CacheOK w st) : CacheOK w (ensurePackage w st pkg).1 :=
  (cacheOK_stepInv w).ensure st pkg h

theorem C17_cacheOK_applyDecls (w : World) (base : RemoteSrc) (decls : List Decl) (st : BState)
    (ds : List Diag) (h : CacheOK w st) : CacheOK w (applyDecls base decls st ds).1 :=
  applyDecls_inv (cacheOK_stepInv w) base decls st ds h

theorem C17_cacheOK_drain (w : World) (fuel : Nat) (ph : Bool) (st : BState) (ds : List Diag)
    (st' : BState) (ds' : List Diag) (h : CacheOK w st)
    (hd : drain w fuel ph st ds = .done st' ds') : CacheOK w st' :=
  drain_invL (cacheOK_stepInv w) fuel ph st ds st' ds' h hd

theorem C17_cacheOK_applyOp (w : World) (fuel : Nat) (st : BState) (op : Op)
    (h : CacheOK w st) : CacheOK w (applyOp w fuel st op).1 :=
  applyOp_inv (cacheOK_stepInv w) fuel st op h

theorem C17_cacheOK_runOps (w : World) (fuel : Nat) (ops : List Op) :
    CacheOK w (runOps w fuel BState.init ops).1 :=
  runOps_inv (cacheOK_stepInv w) fuel BState.init ops (cacheOK_init w)

/-- **C17_cache_irrelevant (b).** In a cache-coherent state (every reachable state is one), the
address `findRegistrySource` returns is determined by the world and the request: the world's listing
of the package, the selection among it, and the world's source for the selected version.  Nothing
resolved before has any influence. -/
theorem C17_cache_irrelevant (w : World) (st st' : BState) (src : RegSrc) (allowed : List VerS)
    (out : RemoteSrc) (hc : CacheOK w st)
    (h : findRegistrySource w st src allowed = (st', some out)) :
    ∃ vs sel real, assoc w.versions src.pkg = some (some vs) ∧
      selectVersion vs allowed = some sel ∧
      assoc w.sources (src.pkg, sel.ver) = some (some real) ∧
      out = { pkg := real.pkg, sub := finalSourceSub src.sub real.sub } := by
  rw [findRegistrySource_eqL] at h
  split at h
  · cases h
  · next st1 vs e1 =>
    have hc1 : CacheOK w st1 := by
      have := (cacheOK_stepInv w).versions st src.pkg hc
      rw [e1] at this; exact this
    obtain ⟨hv, _⟩ := frsVersions_some w st st1 src.pkg vs hc e1
    split at h
    · cases h
    · next sel hsel =>
      split at h
      · cases h
      · next st2 real e2 =>
        cases h
        exact ⟨vs, sel, real, hv, hsel, frsSource_some w st1 _ src.pkg vs sel real hc1 e2, rfl⟩

/-- the function of world and request that `findRegistrySource` computes -/
def worldAnswer (w : World) (src : RegSrc) (allowed : List VerS) : Option RemoteSrc :=
  match assoc w.versions src.pkg with
  | some (some vs) =>
    match selectVersion vs allowed with
    | some sel =>
      match assoc w.sources (src.pkg, sel.ver) with
      | some (some real) => some { pkg := real.pkg, sub := finalSourceSub src.sub real.sub }
      | _ => none
    | none => none
  | _ => none

/-- **C17_cache_irrelevant, functional form.** In any cache-coherent state the result — success
or failure — is `worldAnswer`, which does not mention the state. -/
theorem C17_cache_irrelevant_fn (w : World) (st : BState) (src : RegSrc) (allowed : List VerS)
    (hc : CacheOK w st) :
    (findRegistrySource w st src allowed).2 = worldAnswer w src allowed := by
  rw [findRegistrySource_eqL]
  unfold worldAnswer
  have hc1 := (cacheOK_stepInv w).versions st src.pkg hc
  have hv : (frsVersions w st src.pkg).2 =
      (match assoc w.versions src.pkg with | some (some vs) => some vs | _ => none) ∧
      (frsVersions w st src.pkg).1.resolved = st.resolved := by
    unfold frsVersions
    split
    · next vs hvs => rw [hc.1 _ _ hvs]; exact ⟨rfl, rfl⟩
    · split
      · next vs hw => rw [hw]; exact ⟨rfl, rfl⟩
      · next hne =>
        refine ⟨?_, rfl⟩
        split
        · next vs hw => exact absurd hw (hne vs)
        · rfl
  generalize frsVersions w st src.pkg = r1 at hc1 hv
  obtain ⟨st1, o1⟩ := r1
  simp only at hv hc1
  obtain ⟨hv, _⟩ := hv
  cases o1 with
  | none =>
    simp only
    split
    · next vs hw => rw [hw] at hv; cases hv
    · rfl
  | some vs =>
    have hw : assoc w.versions src.pkg = some (some vs) := by
      split at hv
      · next vs' hw => cases hv; exact hw
      · cases hv
    simp only [hw]
    cases hsel : selectVersion vs allowed with
    | none => rfl
    | some sel =>
      simp only
      have hs : (frsSource w st1 src.pkg vs sel).2 =
          (match assoc w.sources (src.pkg, sel.ver) with | some (some real) => some real | _ => none) := by
        unfold frsSource
        split
        · next real hr => rw [hc1.2 _ _ hr]
        · split
          · next real hw' => rw [hw']
          · next hne =>
            split
            · next real hw' => exact absurd hw' (hne real)
            · rfl
      generalize frsSource w st1 src.pkg vs sel = r2 at hs
      obtain ⟨st2, o2⟩ := r2
      simp only at hs
      cases o2 with
      | none =>
        simp only
        split
        · next real hw' => rw [hw'] at hs; cases hs
        · rfl
      | some real =>
        simp only
        split at hs
        · next real' hw' => cases hs; rfl
        · cases hs

/-! ## 3. failure and deprecation -/

/-- **C17_none_error.** If the registry lists versions for the package but none is allowed,
`findRegistrySource` fails … -/
theorem C17_none_error (w : World) (st : BState) (src : RegSrc) (allowed : List VerS)
    (vs : List VerInfo) (hc : CacheOK w st)
    (hv : assoc w.versions src.pkg = some (some vs)) (hsel : selectVersion vs allowed = none) :
    (findRegistrySource w st src allowed).2 = none := by
  rw [C17_cache_irrelevant_fn w st src allowed hc]
  unfold worldAnswer
  simp only [hv, hsel]

/-- … and the loop reports it: the step that pops a registry request whose resolution fails
continues with an error diagnostic of kind 0 (registry) appended. -/
theorem C17_none_error_step (w : World) (fuel : Nat) (st st1 : BState) (ds : List Diag)
    (src : RegSrc) (allowed : List VerS) (f : FinderId)
    (hq : st.pendingRegistry.getLast? = some (src, allowed, f))
    (hf : findRegistrySource w { st with pendingRegistry := st.pendingRegistry.dropLast } src allowed
      = (st1, none)) :
    drain w (fuel + 1) false st ds =
      drain w fuel false st1
        (ds ++ [{ isError := true, kind := 0, summary := [], file := [], rewritten := false,
                  pkg := src.pkg }]) := by
  simp only [drain, hq, hf]

/-- both together: a popped registry request with a listed package and no allowed version makes
the loop continue with the kind-0 error appended -/
theorem C17_none_error_drain (w : World) (fuel : Nat) (st : BState) (ds : List Diag)
    (src : RegSrc) (allowed : List VerS) (f : FinderId) (vs : List VerInfo) (hc : CacheOK w st)
    (hq : st.pendingRegistry.getLast? = some (src, allowed, f))
    (hv : assoc w.versions src.pkg = some (some vs)) (hsel : selectVersion vs allowed = none) :
    ∃ st1, drain w (fuel + 1) false st ds =
      drain w fuel false st1
        (ds ++ [{ isError := true, kind := 0, summary := [], file := [], rewritten := false,
                  pkg := src.pkg }]) := by
  have hc0 : CacheOK w { st with pendingRegistry := st.pendingRegistry.dropLast } := hc
  have h := C17_none_error w _ src allowed vs hc0 hv hsel
  refine ⟨(findRegistrySource w { st with pendingRegistry := st.pendingRegistry.dropLast } src allowed).1, ?_⟩
  apply C17_none_error_step w fuel st _ ds src allowed f hq
  rw [← h]

/-- **C17_deprecation.** When a version is resolved for the first time (cache miss on `resolved`),
the deprecation recorded for `(package, selected version)` is that of the first listed entry with
exactly the selected version (after the repair F47: before it, the first entry of the same precedence,
so that of two versions differing only in build metadata one got the other's note). -/
theorem C17_deprecation (w : World) (st st' : BState) (src : RegSrc) (allowed : List VerS)
    (out : RemoteSrc) (vs : List VerInfo) (sel : VerInfo) (hc : CacheOK w st)
    (h : findRegistrySource w st src allowed = (st', some out))
    (hv : assoc w.versions src.pkg = some (some vs)) (hsel : selectVersion vs allowed = some sel)
    (hmiss : assoc st.resolved (src.pkg, sel.ver) = none) :
    assoc st'.deprec (src.pkg, sel.ver) =
      some ((vs.find? (fun v => v.ver = sel.ver)).bind (·.deprecation)) := by
  rw [findRegistrySource_eqL] at h
  split at h
  · cases h
  · next st1 vs' e1 =>
    obtain ⟨hv', hres⟩ := frsVersions_some w st st1 src.pkg vs' hc e1
    rw [hv] at hv'; cases hv'
    rw [hsel] at h
    simp only at h
    split at h
    · cases h
    · next st2 real e2 =>
      cases h
      unfold frsSource at e2
      rw [hres, hmiss] at e2
      simp only at e2
      split at e2
      · cases e2
        rw [assoc_cons_self]
        unfold frsDeprecation
        cases vs.find? (fun v => v.ver = sel.ver) <;> rfl
      · cases e2

/-- the first listed entry with the selected version is the selected entry itself whenever the listing
does not name one version twice with different notes, so the deprecation recorded is the selected
version's own — also when several listed versions share a rank (differ only in build metadata) -/
theorem C17_deprecation_own (vs : List VerInfo) (allowed : List VerS) (sel : VerInfo)
    (hsel : selectVersion vs allowed = some sel)
    (hinj : ∀ u ∈ vs, u.ver = sel.ver → u = sel) :
    (vs.find? (fun v => v.ver = sel.ver)).bind (·.deprecation) = sel.deprecation := by
  have hm := (C17_newest _ _ _ hsel).1
  cases hf : vs.find? (fun v => v.ver = sel.ver) with
  | none =>
    have := List.find?_eq_none.mp hf sel hm
    simp at this
  | some u =>
    have h1 := List.find?_some hf
    have h2 := List.mem_of_find?_eq_some hf
    have : u = sel := hinj u h2 (by simpa using h1)
    rw [this]; rfl

/-! ## non-vacuity -/

/-- a registry listing in shuffled order, one version deprecated -/
def exVersions : List VerInfo :=
  [⟨"1.1.0".toList, 1, none⟩, ⟨"2.0.0".toList, 3, some ("old".toList, "http://x".toList)⟩,
   ⟨"1.0.0".toList, 0, none⟩, ⟨"1.2.0".toList, 2, none⟩]

example : selectVersion exVersions ["1.0.0".toList, "1.1.0".toList, "1.2.0".toList]
    = some ⟨"1.2.0".toList, 2, none⟩ := by decide
example : selectVersion exVersions.reverse ["1.0.0".toList, "1.1.0".toList, "1.2.0".toList]
    = some ⟨"1.2.0".toList, 2, none⟩ := by decide
example : selectVersion exVersions ["3.0.0".toList] = none := by decide
example : selectVersion exVersions [] = none := by decide
example : selectVersion exVersions ["1.1.0".toList] = some ⟨"1.1.0".toList, 1, none⟩ := by decide
/-- the injectivity hypothesis of `C17_order_irrelevant` holds for the example and a shuffled
listing is a permutation of it -/
example : ∀ u ∈ exVersions, ∀ v ∈ exVersions, u.rank = v.rank → u = v := by decide
example : List.Perm exVersions.reverse exVersions := List.reverse_perm _

/-- on the example world (`exWorldL` in Lemmas/BuilderLog: `R` lists 1.1.0, 2.0.0, 1.0.0 in that order):
with 1.0.0 and 1.1.0 allowed the answer is the source of 1.1.0 with the requested sub-path joined on,
the deprecation recorded is that of 1.1.0, and the state-free `worldAnswer` says the same -/
example : (findRegistrySource exWorldL BState.init ⟨exReg, "m".toList⟩
      ["1.0.0".toList, "1.1.0".toList]).2 = some ⟨exPkgB, "modules/x/m".toList⟩ := by decide
example : assoc (findRegistrySource exWorldL BState.init ⟨exReg, "m".toList⟩
      ["1.0.0".toList, "1.1.0".toList]).1.deprec (exReg, "1.1.0".toList)
    = some (some ("old".toList, "http://x".toList)) := by decide
example : worldAnswer exWorldL ⟨exReg, "m".toList⟩ ["1.0.0".toList, "1.1.0".toList]
    = some ⟨exPkgB, "modules/x/m".toList⟩ := by decide
/-- the same request after an unrelated earlier resolution (2.0.0 cached): same answer -/
example : (findRegistrySource exWorldL
      (findRegistrySource exWorldL BState.init ⟨exReg, []⟩ ["2.0.0".toList]).1 ⟨exReg, "m".toList⟩
      ["1.0.0".toList, "1.1.0".toList]).2 = some ⟨exPkgB, "modules/x/m".toList⟩ := by decide
/-- listed but nothing allowed: failure (`C17_none_error`); 1.0.0 allowed but the registry has no
source for it: failure as well -/
example : (findRegistrySource exWorldL BState.init ⟨exReg, []⟩ ["3.0.0".toList]).2 = none := by decide
example : (findRegistrySource exWorldL BState.init ⟨exReg, []⟩ ["1.0.0".toList]).2 = none := by decide

/-- **C17_cex_equal_ranks.** The rank hypothesis of `C17_order_irrelevant` is needed: two listed
entries of equal rank (the same version printed two ways, say) make the result depend on the order —
the last listed wins (`C17_last_of_equal_rank`). -/
theorem C17_cex_equal_ranks :
    let a : VerInfo := ⟨"1.0".toList, 0, none⟩
    let b : VerInfo := ⟨"1.0.0".toList, 0, none⟩
    let allowed := ["1.0".toList, "1.0.0".toList]
    List.Perm [b, a] [a, b] ∧
      selectVersion [a, b] allowed = some b ∧ selectVersion [b, a] allowed = some a := by
  refine ⟨List.Perm.swap _ _ _, by decide, by decide⟩

end Slug
