import SlugModel.Lemmas.TrEq_normalizeSubpath
import SlugModel.Lemmas.TrEq_joinSubPath
/-!
# C18 (tie by translation)

Tie by translation: the model function the theorems of this property are stated over equals the Lean
translation of the Go function, regenerated from /repo on every run (harness/cmd/go2lean); a change of
the Go function changes the translated definition and this proof obligation no longer checks.

That bundle lookups stay inside the bundle rests on sub-paths being normalised (no '.', '..' or empty
segment): every sub-path an address carries went through `normalizeSubpath`, every joined one through
`joinSubPath`.  An error result of the Go function is read as `(zero value, true)`, a normal one as
`(value, false)`.
-/
namespace Slug

/-- **C18_tie_normalizeSubpath.** The model's `normalizeSubpath` is the translated `normalizeSubpath` (sourceaddrs/subpath.go). -/
theorem C18_tie_normalizeSubpath (g : Str) :
    Gen.normalizeSubpath g = (match normalizeSubpath g with | some r => (r, false) | none => ([], true)) :=
  gen_normalizeSubpath g

/-- **C18_tie_joinSubPath.** The model's `joinSubPath` is the translated `joinSubPath` (sourceaddrs/subpath.go). -/
theorem C18_tie_joinSubPath (a b : Str) :
    Gen.joinSubPath a b = (match joinSubPath a b with | some r => (r, false) | none => ([], true)) :=
  gen_joinSubPath a b

end Slug
