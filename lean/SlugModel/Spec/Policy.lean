import SlugModel.Remote
import SlugModel.Lemmas.AddrJoin
/-!
# Spec/Policy — the documented transport policy of remote source addresses (C07)

This file is the *documentation* written as a predicate: it does not mention the tables that are
extracted from the Go source (`Generated.*`).  The theorems of `Props/C07.lean` relate it to the
model of `ParseRemoteSource` / `MakeRemoteSource`, which *is* parameterised by those tables.

A remote source address is `sourceType::url//subPath` where

* the source type is `git`, `http` or `https`;
* a `git` address uses the `https` or `ssh` scheme and the only query argument is `ref`,
  at most once;
* an `http`/`https` address uses the `https` scheme, has no `checksum` argument, and is a gzipped
  tar archive: either its path ends in `.tar.gz` / `.tgz`, or it says so with exactly one
  `archive=tar.gz` / `archive=tgz` argument, which is normalised to `archive=tgz`;
* the URL carries no user information (stated next to the policy in the theorems, because it is
  a fact about what the URL parser returned);
* the sub-path is empty or a valid slash-separated path without `.`, `..` and empty segments.
-/
namespace Slug

/-- the values of query argument `k` (`url.Values[k]`) -/
def valuesOf (q : List (Str × List Str)) (k : Str) : List Str :=
  match q.find? (·.1 = k) with
  | some kv => kv.2
  | none => []

theorem valuesOf_eq_lookupQ (q : List (Str × List Str)) (k : Str) : valuesOf q k = lookupQ q k := by
  unfold valuesOf lookupQ
  cases q.find? (·.1 = k) with
  | none => rfl
  | some kv => cases kv; rfl

def IsGit (a : RemoteAddr) : Prop := a.sourceType = "git".toList
def IsArchive (a : RemoteAddr) : Prop := a.sourceType = "http".toList ∨ a.sourceType = "https".toList

/-- The documented grammar of a remote address: everything the documentation says about what
may be *written*.  `a.url.query` is the query of the URL as it was given. -/
structure Grammar (a : RemoteAddr) : Prop where
  /-- only the three documented source types -/
  type_ok : IsGit a ∨ IsArchive a
  /-- git: `https` or `ssh` -/
  git_scheme : IsGit a → a.url.scheme = "https".toList ∨ a.url.scheme = "ssh".toList
  /-- archives: `https` only (also when the source type is spelled `http`) -/
  archive_scheme : IsArchive a → a.url.scheme = "https".toList
  /-- git: the only query argument is `ref`, with at most one value -/
  git_query : IsGit a → ∀ kv ∈ a.url.query, kv.1 = "ref".toList ∧ kv.2.length ≤ 1
  /-- archives: no `checksum` argument -/
  no_checksum : IsArchive a → valuesOf a.url.query "checksum".toList = []
  /-- archives: a gzipped tar archive, by file-name suffix or by a single `archive` argument -/
  archive_kind : IsArchive a →
    (valuesOf a.url.query "archive".toList = [] ∧
      (hasSuffix a.url.escapedPath ".tar.gz".toList = true ∨
       hasSuffix a.url.escapedPath ".tgz".toList = true)) ∨
    (∃ v, valuesOf a.url.query "archive".toList = [v] ∧
      (v = "tar.gz".toList ∨ v = "tgz".toList))
  /-- the sub-path is empty or valid (no `.`, `..`, empty segments) -/
  sub_ok : ValidSub a.subPath

/-- The documented transport policy of a *stored* address: the grammar, and an `archive`
argument is stored in its normalised spelling `archive=tgz` (`a.url.rawQuery` is what is stored,
`a.url.tgzQuery` the given query re-encoded with `archive=tgz`). -/
structure Policy (a : RemoteAddr) : Prop extends Grammar a where
  archive_stored : IsArchive a → valuesOf a.url.query "archive".toList ≠ [] →
    a.url.rawQuery = a.url.tgzQuery

end Slug
