import SlugModel.FS
import SlugModel.Unpack
/-!
# Spec/Untar — what a well-formed archive says (C15)

A sequential reading of the entry list into an abstract tree, with no filesystem, no path
strings and no symlink following: relative paths are lists of names, missing parents appear as
plain `0755` directories, for files the last entry for a path wins, a link records its target,
a directory gets its recorded mode and time only after all entries have been read (in archive
order, so the last directory entry for a path wins), and an entry of an unrepresentable type is
an error.  `nowT` (= -1) stands for "the time of the run".
-/
namespace Slug

abbrev RelPath := List Str

abbrev Tree := List (RelPath × Node)     -- newest binding first, like `FS`

def treeGet (t : Tree) (p : RelPath) : Option Node := FS.get t p

def treeSet (t : Tree) (p : RelPath) (n : Node) : Tree := (p, n) :: t

/-- the relative path an entry name denotes: leading `/`, empty and `.` segments dropped
(well-formed names contain no `..`) -/
def entryRel (name : Str) : RelPath := pathSegs name

/-- all proper, non-empty prefixes of a path, shortest first -/
def properPrefixes : RelPath → List RelPath
  | [] => []
  | p => (List.range p.length).filterMap fun i => if i = 0 then none else some (p.take i)

/-- create missing parents as plain directories; an existing directory that receives a new
child gets the current time -/
def mkParents (t : Tree) (p : RelPath) : Tree :=
  (properPrefixes p).foldl (fun acc q =>
    match treeGet acc q with
    | some _ => acc
    | none => treeSet acc q (.dir 0o755 nowT)) t

/-- creating a new name inside `parent` refreshes its time (the root of the tree is `[]`) -/
def touchParent (t : Tree) (p : RelPath) : Tree :=
  match treeGet t p.dropLast with
  | some (.dir perm _) => if p.dropLast = [] then t else treeSet t p.dropLast (.dir perm nowT)
  | _ => t

structure UntarState where
  tree : Tree
  deferred : List (RelPath × Nat × Int)    -- directory metadata, in archive order

/-- one entry; `none` = the archive cannot be represented (unsupported entry type) -/
def untarEntry (st : UntarState) (e : Entry) : Option UntarState :=
  if e.name = [] then some st
  else if !(e.isDir || e.isSymlink || e.isRegular || e.isTypeX) then none
  else
    let p := entryRel e.name
    if e.isTypeX then some st
    else if p = [] then
      -- an entry for the destination itself: only a directory entry means something
      if e.isDir then some { st with deferred := st.deferred ++ [([], e.mode, e.mtime)] } else some st
    else
      let t1 := mkParents st.tree p
      if e.isSymlink then
        some { st with tree := treeSet (touchParent t1 p) p (.link e.link) }
      else if e.isDir then
        let t2 := match treeGet t1 p with
          | some _ => t1
          | none => treeSet (touchParent t1 p) p (.dir 0o755 nowT)
        some { tree := t2, deferred := st.deferred ++ [(p, e.mode, e.mtime)] }
      else
        -- regular file: the last entry for a path wins, whatever the earlier one's mode was
        let t2 := match treeGet t1 p with
          | some _ => t1
          | none => touchParent t1 p
        some { st with tree := treeSet t2 p (.file e.mode e.mtime e.body) }

def applyDeferred (t : Tree) : List (RelPath × Nat × Int) → Tree
  | [] => t
  | (p, mode, mtime) :: rest =>
    match treeGet t p with
    | some (.dir _ _) => applyDeferred (treeSet t p (.dir mode mtime)) rest
    | _ => applyDeferred t rest

/-- the tree a well-formed archive describes; the root's own metadata (entries named `.` or `/`)
is kept under the empty path -/
def untar (es : List Entry) : Option Tree :=
  match es.foldlM untarEntry { tree := [([], .dir 0o755 nowT)], deferred := [] } with
  | none => none
  | some st => some (applyDeferred st.tree st.deferred)

/-- Well-formed archive (the domain of C15): names stay inside the destination without `..`,
no entry passes through or lands on a link, no kind conflict on one path (a path is used by
directory entries only, by file entries only, or by exactly one link entry, and never as both a
directory and a non-directory), link targets are non-empty, relative, tidy and stay inside. -/
structure WellFormedArchive (es : List Entry) : Prop where
  names_plain : ∀ e ∈ es, e.name ≠ [] → dotdot ∉ splitOn '/' e.name
  -- the remaining clauses are stated on the abstract run:
  no_conflict : ∀ (pre : List Entry) (e : Entry) (post : List Entry) (st : UntarState),
    es = pre ++ e :: post →
    pre.foldlM untarEntry { tree := [([], .dir 0o755 nowT)], deferred := [] } = some st →
    e.name ≠ [] → (e.isDir || e.isSymlink || e.isRegular) = true →
      -- no proper prefix is a non-directory
      (∀ q ∈ properPrefixes (entryRel e.name), ∀ n, treeGet st.tree q = some n → ∃ perm mt, n = .dir perm mt) ∧
      -- the path itself is free, or already of the same kind (never a link twice)
      (match treeGet st.tree (entryRel e.name) with
       | none => True
       | some (.dir _ _) => e.isDir = true
       | some (.file _ _ _) => e.isRegular = true
       | some _ => False)
  links_good : ∀ e ∈ es, e.isSymlink = true → e.name ≠ [] →
    e.link ≠ [] ∧ isAbs e.link = false ∧
      (∃ ups names, pathSegs e.link = List.replicate ups dotdot ++ names ∧ (∀ s ∈ names, s ≠ dotdot) ∧
        ups < (entryRel e.name).length)

end Slug
