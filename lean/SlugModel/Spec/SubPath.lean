import SlugModel.Base.Path
/-!
# Spec/SubPath — the segment-stack specification of relative resolution (C11)

A sub-path is a stack of names (top = last segment).  Applying a relative path walks its
segments: `""`/`.` do nothing, a name is pushed, `..` pops — and *fails* when the stack is
empty, i.e. when the path would climb above the package root.
-/
namespace Slug

def applyStep (acc : Option (List Seg)) (s : Seg) : Option (List Seg) :=
  match acc with
  | none => none
  | some st =>
    if s = [] ∨ s = dot then some st
    else if s = dotdot then
      match st with
      | [] => none
      | _ :: r => some r
    else some (s :: st)

def applyRel (acc : Option (List Seg)) (b : List Seg) : Option (List Seg) := b.foldl applyStep acc

/-- segments of a (normalised) sub-path; the empty sub-path is the package root -/
def segsOf (a : Str) : List Seg := if a = [] then [] else splitOn '/' a

/-- printed form of a stack -/
def printStack (st : List Seg) : Str := joinWith '/' st.reverse

/-- The specification of `joinSubPath a b`. -/
def specJoin (a b : Str) : Option Str :=
  (applyRel (some (segsOf a).reverse) (splitOn '/' b)).map printStack

end Slug
