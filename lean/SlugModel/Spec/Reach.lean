import SlugModel.Builder
/-!
# Spec/Reach — what a finished bundle must contain, stated without queues or order

Declarative specification against which the builder model (`Builder.lean`) is proved:
the *artefacts* (a remote source analysed with one dependency finder) reachable from a list of
`Add*` calls in a world, and the worlds/op lists on whose reachable graph nothing fails.
Nothing here mentions pending queues, memo tables, fuel or the order of the calls.
-/
namespace Slug

/-- an artefact: a remote source address together with the dependency finder it is analysed with -/
abbrev Art := RemoteSrc × FinderId

/-- a registry request: registry source address, the offered versions the caller's constraint
allows, and the finder for the package it resolves to -/
abbrev RegReq := RegSrc × List VerS × FinderId

/-- the content the fetcher returns for a package (`none`: unknown package or failing fetch) -/
def fetchContent (w : World) (p : PkgAddr) : Option ContentId :=
  match assoc w.fetch p with
  | some (some (c, _)) => some c
  | _ => none

/-- the metadata the fetcher returns along with the content -/
def fetchMeta (w : World) (p : PkgAddr) : Option (Str × Str) :=
  match assoc w.fetch p with
  | some (some (_, m)) => m
  | _ => none

/-- the version the registry's listing selects for a request (`none`: the listing fails or no
offered version is allowed) -/
def regSel (w : World) (rs : RegSrc) (allowed : List VerS) : Option VerInfo :=
  match assoc w.versions rs.pkg with
  | some (some vs) => selectVersion vs allowed
  | _ => none

/-- the (package, version) pair a request asks the registry's source endpoint about -/
def regKey (w : World) (rs : RegSrc) (allowed : List VerS) : Option (RegPkg × VerS) :=
  (regSel w rs allowed).map fun sel => (rs.pkg, sel.ver)

/-- what the registry answers for a (package, version) pair -/
def regSource (w : World) (k : RegPkg × VerS) : Option RemoteSrc :=
  match assoc w.sources k with
  | some (some real) => some real
  | _ => none

/-- the deprecation notice attached to the selected version: that of the first entry of the
listing with the selected rank -/
def regDeprec (w : World) (rs : RegSrc) (allowed : List VerS) : Option (Str × Str) :=
  match assoc w.versions rs.pkg with
  | some (some vs) =>
    match selectVersion vs allowed with
    | some sel =>
      match vs.find? (fun v => v.ver = sel.ver) with
      | some v => v.deprecation
      | none => none
    | none => none
  | _ => none

/-- **Registry resolution as a pure function of the world.**  The listing of `rs.pkg`, the newest
allowed version of it, the real source the registry names for that version; the result is that
source's package with the caller's sub-path joined on by `finalSourceSub`. -/
def resolveReg (w : World) (rs : RegSrc) (allowed : List VerS) : Option RemoteSrc :=
  match regSel w rs allowed with
  | some sel =>
    match regSource w (rs.pkg, sel.ver) with
    | some real => some { pkg := real.pkg, sub := finalSourceSub rs.sub real.sub }
    | none => none
  | none => none

/-- what the finder reports for an artefact: the row of the dependency table for the content of
its package, its sub-path and its finder (nothing if there is no row or the fetch fails) -/
def declsOf (w : World) (a : Art) : List Decl :=
  match fetchContent w a.1.pkg with
  | some c => (assoc w.deps (c, a.1.sub, a.2)).getD []
  | none => []

/-- one artefact *yields* another: an edge of the dependency graph -/
inductive Yields (w : World) (a : Art) : Art → Prop
  | remote (s : RemoteSrc) (g : FinderId) :
      Decl.remote s g ∈ declsOf w a → Yields w a (s, g)
  | loc (rel : Str) (g : FinderId) (sub' : Str) :
      Decl.loc rel g ∈ declsOf w a → joinSubPath a.1.sub rel = some sub' →
      Yields w a ({ pkg := a.1.pkg, sub := sub' }, g)
  | registry (rs : RegSrc) (allowed : List VerS) (g : FinderId) (r : RemoteSrc) :
      Decl.registry rs allowed g ∈ declsOf w a → resolveReg w rs allowed = some r →
      Yields w a (r, g)

/-- the artefact an `Add*` call starts from -/
inductive Starts (w : World) : Op → Art → Prop
  | remote (s : RemoteSrc) (f : FinderId) : Starts w (.addRemote s f) (s, f)
  | registry (rs : RegSrc) (allowed : List VerS) (f : FinderId) (r : RemoteSrc) :
      resolveReg w rs allowed = some r → Starts w (.addRegistry rs allowed f) (r, f)

/-- **Reach.** The least set of artefacts containing the start artefact of every call and closed
under `Yields`. -/
inductive Reach (w : World) (ops : List Op) : Art → Prop
  | start (op : Op) (a : Art) : op ∈ ops → Starts w op a → Reach w ops a
  | step (a b : Art) : Reach w ops a → Yields w a b → Reach w ops b

/-- the registry requests met on the reachable graph: those of the calls and those reported for
reachable artefacts -/
inductive ReqMet (w : World) (ops : List Op) : RegReq → Prop
  | op (rs : RegSrc) (allowed : List VerS) (f : FinderId) :
      Op.addRegistry rs allowed f ∈ ops → ReqMet w ops (rs, allowed, f)
  | decl (a : Art) (rs : RegSrc) (allowed : List VerS) (f : FinderId) :
      Reach w ops a → Decl.registry rs allowed f ∈ declsOf w a → ReqMet w ops (rs, allowed, f)

/-- **Clean.** Nothing on the reachable graph fails: every reachable package can be fetched, every
registry request met resolves, no relative reference escapes its package, and no finder reports
an error diagnostic. -/
structure Clean (w : World) (ops : List Op) : Prop where
  fetch_ok : ∀ a, Reach w ops a → fetchContent w a.1.pkg ≠ none
  reg_ok : ∀ rs allowed f, ReqMet w ops (rs, allowed, f) → resolveReg w rs allowed ≠ none
  rel_ok : ∀ a rel g, Reach w ops a → Decl.loc rel g ∈ declsOf w a → joinSubPath a.1.sub rel ≠ none
  no_err_diag : ∀ a s file, Reach w ops a → Decl.diag true s file ∉ declsOf w a

/-- what the caller sees is a diagnostics list without errors (not refused, not diverged) -/
def OpResult.clean : OpResult → Bool
  | .diags ds => !hasErrors ds
  | _ => false

/-- the call came back (possibly with errors, possibly refused) rather than running out of fuel -/
def OpResult.finished : OpResult → Bool
  | .diverged => false
  | _ => true

/-- every call of the run returned diagnostics without errors -/
def ErrorFree (rs : List OpResult) : Prop := ∀ r ∈ rs, r.clean = true

instance (rs : List OpResult) : Decidable (ErrorFree rs) := by unfold ErrorFree; infer_instance

theorem OpResult.clean_iff (r : OpResult) :
    r.clean = true ↔ ∃ ds, r = .diags ds ∧ hasErrors ds = false := by
  cases r with
  | diags ds => simp [OpResult.clean]
  | refused => simp [OpResult.clean]
  | diverged => simp [OpResult.clean]

theorem OpResult.finished_iff (r : OpResult) : r.finished = true ↔ r ≠ .diverged := by
  cases r <;> simp [OpResult.finished]

theorem errorFree_iff (rs : List OpResult) :
    ErrorFree rs ↔ ∀ r ∈ rs, ∃ ds, r = .diags ds ∧ hasErrors ds = false := by
  simp only [ErrorFree, OpResult.clean_iff]

theorem Reach.of_perm {w : World} {ops ops' : List Op} (h : ops.Perm ops') {a : Art}
    (hr : Reach w ops a) : Reach w ops' a := by
  induction hr with
  | start op a hm hs => exact .start op a (h.mem_iff.mp hm) hs
  | step a b _ hy ih => exact .step a b ih hy

theorem ReqMet.of_perm {w : World} {ops ops' : List Op} (h : ops.Perm ops') {r : RegReq}
    (hr : ReqMet w ops r) : ReqMet w ops' r := by
  cases hr with
  | op rs al f hm => exact .op rs al f (h.mem_iff.mp hm)
  | decl a rs al f ha hd => exact .decl a rs al f (ha.of_perm h) hd

theorem Clean.of_perm {w : World} {ops ops' : List Op} (h : ops.Perm ops') (hc : Clean w ops) :
    Clean w ops' where
  fetch_ok a ha := hc.fetch_ok a (ha.of_perm h.symm)
  reg_ok rs al f hr := hc.reg_ok rs al f (hr.of_perm h.symm)
  rel_ok a rel g ha := hc.rel_ok a rel g (ha.of_perm h.symm)
  no_err_diag a s file ha := hc.no_err_diag a s file (ha.of_perm h.symm)

/-! ## a small closed world for the non-vacuity examples

Package `a` (root, finder 0) depends on `b//x/y` and on the registry module `reg//sub` (any of two
versions); `b//x/y` refers to `./..` and `../..` relative to itself and back to `a` (a cycle); the
registry names `r//mod` as the source of `reg` 2.0.0, whose listing marks it deprecated. -/

def exWorld : World :=
  { fetch := [("a".toList, some ("ca".toList, none)),
              ("b".toList, some ("cb".toList, some ("meta".toList, "x".toList))),
              ("r".toList, some ("cr".toList, none)),
              ("bad".toList, none)],
    versions := [("reg".toList, some [⟨"1.0.0".toList, 1, none⟩,
                                      ⟨"2.0.0".toList, 2, some ("old".toList, "link".toList)⟩])],
    sources := [(("reg".toList, "2.0.0".toList), some ⟨"r".toList, "mod".toList⟩)],
    deps := [(("ca".toList, [], 0),
               [.remote ⟨"b".toList, "x/y".toList⟩ 0,
                .registry ⟨"reg".toList, "sub".toList⟩ ["1.0.0".toList, "2.0.0".toList] 0]),
             (("cb".toList, "x/y".toList, 0),
               [.loc "./..".toList 0, .loc "../..".toList 1, .remote ⟨"a".toList, []⟩ 0,
                .diag false "note".toList "main.tf".toList])] }

/-- `a` twice (a repeated Add) around a direct registry request -/
def exOps : List Op :=
  [.addRemote ⟨"a".toList, []⟩ 0, .addRegistry ⟨"reg".toList, []⟩ ["2.0.0".toList] 0,
   .addRemote ⟨"a".toList, []⟩ 0]

end Slug
