import SlugModel.Base.Str
/-!
# Spec/Glob — the documented `.terraformignore` rule language, segment-wise (C03)

A pattern is a list of segment patterns, each either `**` (any number of whole path segments,
at least one when it is the last segment pattern) or a list of atoms (`lit c`, `*`, `?`), which
never cross a segment boundary.  A path is the list of its `/`-separated segments.
`specExcluded` is "the last matching rule wins", with the default rules first.
This file contains no implementation detail (no regular expressions).
-/
namespace Slug

inductive Atom
  | lit (c : Char)
  | star
  | q
  deriving Repr, DecidableEq

inductive PSeg
  | dstar
  | seg (as : List Atom)
  deriving Repr, DecidableEq

/-- match one path segment (a string without `/`) against the atoms of one segment pattern -/
def segMatch : List Atom → Str → Bool
  | [], s => s.isEmpty
  | .lit c :: r, s => match s with
      | x :: s' => x == c && segMatch r s'
      | [] => false
  | .star :: r, s => starLoop (segMatch r) s
  | .q :: r, s => match s with
      | x :: s' => x != '/' && segMatch r s'
      | [] => false

/-- segment-wise glob: pattern segments against path segments -/
def gm : List PSeg → List Str → Bool
  | [], segs => segs.isEmpty
  | [.dstar], segs => !segs.isEmpty
  | .dstar :: p :: ps, segs =>
      gm (p :: ps) segs ||
      (match segs with
       | _ :: t :: tl => gm (.dstar :: p :: ps) (t :: tl)
       | _ => false)
  | [.seg as], segs => match segs with
      | [s] => segMatch as s
      | _ => false
  | .seg as :: p :: ps, segs => match segs with
      | s :: t :: tl => segMatch as s && gm (p :: ps) (t :: tl)
      | _ => false
termination_by ps segs => (ps.length, segs.length)

def parseAtom (c : Char) : Atom := if c = '*' then .star else if c = '?' then .q else .lit c

/-- one `/`-separated piece of a pattern: exactly `**` is the multi-segment wildcard -/
def parseSeg (s : Str) : PSeg := if s = ['*', '*'] then .dstar else .seg (s.map parseAtom)

/-- a rule's stored pattern (already anchored / prefixed by `readRules`) as segment patterns -/
def parsePat (val : Str) : List PSeg := (splitOn '/' val).map parseSeg

/-- the specification of a single rule: does it select the path? -/
def specMatches (val path : Str) : Bool := gm (parsePat val) (splitOn '/' path)

structure SRule where
  val : Str
  negated : Bool

/-- last matching rule wins; no rule matching = not excluded -/
def specExcluded (rules : List SRule) (path : Str) : Bool :=
  rules.foldl (fun acc r => if specMatches r.val path then !r.negated else acc) false

end Slug
