import SlugModel.Base.Path
import SlugModel.Addr
/-!
# Bundle — model of `sourcebundle.OpenDir` and the bundle's path lookups

Address, version and registry-package parsing are parameters (`BundleOracle`): on the lane the
harness answers them with the real parsers for exactly the strings in the manifest.  What is
modelled is the repo's own logic: the format gate, the validation of package directory names,
map construction (later entries override), and the two directions of path lookup.
-/
namespace Slug

structure MPkg where
  source : Str
  localDir : Str
  commit : Str
  msg : Str
  deriving Repr, DecidableEq

structure MVer where
  ver : Str
  source : Str
  deprecated : Bool
  reason : Str
  link : Str
  deriving Repr, DecidableEq

structure MReg where
  source : Str
  versions : List MVer
  deriving Repr, DecidableEq

structure Manifest where
  format : Nat
  packages : List MPkg
  registry : List MReg
  deriving Repr, DecidableEq

/-- answers of the external parsers: canonical printed forms (map keys), `none` = parse error -/
structure BundleOracle where
  parsePkg : Str → Option Str
  parseRegPkg : Str → Option Str
  parseVer : Str → Option Str
  parseRemoteSrc : Str → Option (Str × Str)     -- (package key, sub-path)

def aset {α β : Type} [DecidableEq α] (l : List (α × β)) (k : α) (v : β) : List (α × β) :=
  (k, v) :: l.filter (fun e => e.1 ≠ k)

def aget {α β : Type} [DecidableEq α] (l : List (α × β)) (k : α) : Option β :=
  (l.find? (fun e => e.1 = k)).map (·.2)

structure Bundle where
  root : Str
  pkgDirs : List (Str × Str)                       -- package key ↦ directory name
  pkgMeta : List (Str × (Str × Str))               -- package key ↦ (commit, message)
  regSources : List ((Str × Str) × (Str × Str))    -- (registry package, version) ↦ (package key, sub-path)
  regDeprec : List ((Str × Str) × Option (Str × Str))
  deriving Repr

/-- the test `OpenDir` applies to a package directory name -/
def validLocalDir (d : Str) : Bool := validPath d && d ≠ dot && !d.contains '/'

def openPackages (o : BundleOracle) : List MPkg → Bundle → Option Bundle
  | [], b => some b
  | p :: rest, b =>
    if !validLocalDir p.localDir then none
    else
      match o.parsePkg p.source with
      | none => none
      | some key =>
        let b1 := { b with pkgDirs := aset b.pkgDirs key p.localDir }
        let b2 := if p.commit ≠ [] then { b1 with pkgMeta := aset b1.pkgMeta key (p.commit, p.msg) } else b1
        openPackages o rest b2

def openVersions (o : BundleOracle) (reg : Str) : List MVer → Bundle → Option Bundle
  | [], b => some b
  | v :: rest, b =>
    match o.parseVer v.ver with
    | none => none
    | some vk =>
      let b1 := { b with regDeprec := aset b.regDeprec (reg, vk) (if v.deprecated then some (v.reason, v.link) else none) }
      match o.parseRemoteSrc v.source with
      | none => none
      | some src => openVersions o reg rest { b1 with regSources := aset b1.regSources (reg, vk) src }

def openRegistry (o : BundleOracle) : List MReg → Bundle → Option Bundle
  | [], b => some b
  | r :: rest, b =>
    match o.parseRegPkg r.source with
    | none => none
    | some rk =>
      match openVersions o rk r.versions b with
      | none => none
      | some b1 => openRegistry o rest b1

/-- `OpenDir(root)` on a decoded manifest (`root` absolute and clean) -/
def openDir (o : BundleOracle) (root : Str) (m : Manifest) : Option Bundle :=
  if m.format ≠ 1 then none
  else
    match openPackages o m.packages { root := root, pkgDirs := [], pkgMeta := [], regSources := [], regDeprec := [] } with
    | none => none
    | some b => openRegistry o m.registry b

/-- `LocalPathForRemoteSource` -/
def localPathForRemote (b : Bundle) (pkg sub : Str) : Option Str :=
  match aget b.pkgDirs pkg with
  | none => none
  | some dir => some (pathJoin3 b.root dir sub)

/-- `LocalPathForRegistrySource` -/
def localPathForRegistry (b : Bundle) (reg ver regSub : Str) : Option Str :=
  match aget b.regSources (reg, ver) with
  | none => none
  | some (pkg, sub) => localPathForRemote b pkg (finalSourceSub regSub sub)

/-- `SourceForLocalPath` up to the choice of alias: (directory name, sub-path), `none` = the path
does not belong to the bundle.  `p` is the absolute form of the given path. -/
def splitLocalPath (b : Bundle) (p : Str) : Option (Str × Str) :=
  match pathRel b.root p with
  | none => none
  | some rel =>
    let sp := pathClean rel
    if !validPath sp || sp = dot then none
    else
      let dir := sp.takeWhile (· ≠ '/')
      let sub := (sp.dropWhile (· ≠ '/')).drop 1
      if b.pkgDirs.any (fun e => e.2 = dir) then some (dir, sub) else none

/-- Go's `<` on strings is byte-wise; on valid UTF-8 that is the lexicographic order of the code
points -/
def strLt : Str → Str → Bool
  | [], [] => false
  | [], _ :: _ => true
  | _ :: _, [] => false
  | a :: as, b :: bs =>
    if a.toNat < b.toNat then true else if b.toNat < a.toNat then false else strLt as bs

/-- the preference of `SourceForLocalPath` among the addresses sharing a directory: shorter
(`len`, bytes) first, equally long ones in string order -/
def addrBefore (a b : Str) : Bool :=
  utf8Len a < utf8Len b || (utf8Len a == utf8Len b && strLt a b)

/-- the most preferred element of a non-empty candidate list, whatever its order -/
def pickAddr : Str → List Str → Str
  | best, [] => best
  | best, x :: xs => pickAddr (if addrBefore x best then x else best) xs

/-- `SourceForLocalPath` in full: (package address, sub-path).  The Go code ranges over a map; the
model folds over the table in its stored order and the choice is proved independent of that
order (`C18_reverse_order_free`). -/
def sourceForLocalPath (b : Bundle) (p : Str) : Option (Str × Str) :=
  match splitLocalPath b p with
  | none => none
  | some (dir, sub) =>
    match (b.pkgDirs.filter (fun e => e.2 = dir)).map (·.1) with
    | [] => none
    | c :: cs => some (pickAddr c cs, sub)

end Slug
