/-!
# Base/Str — strings as `List Char`

Model of the few `strings` functions go-slug relies on.  Everything in the model
uses `Str = List Char`; Lean `String` appears only at the driver boundary.
These are models of the Go standard library (trusted base), validated on the
`paths` lane.
-/
namespace Slug

abbrev Str := List Char

/-- `strings.Split(s, string(c))` for a single-character separator. -/
def splitOn (c : Char) : Str → List Str
  | [] => [[]]
  | x :: xs =>
    if x = c then [] :: splitOn c xs
    else
      match splitOn c xs with
      | [] => [[x]]
      | s :: r => (x :: s) :: r

/-- `strings.Join(xs, string(c))`. -/
def joinWith (c : Char) : List Str → Str
  | [] => []
  | [s] => s
  | s :: t :: r => s ++ c :: joinWith c (t :: r)

def hasPrefix (s p : Str) : Bool := p.isPrefixOf s

def hasSuffix (s p : Str) : Bool := p.reverse.isPrefixOf s.reverse

/-- Go's `unicode.IsSpace`. -/
def isSpace (c : Char) : Bool :=
  c = '\t' || c = '\n' || c = Char.ofNat 0x0b || c = Char.ofNat 0x0c || c = '\r' || c = ' ' ||
  c = Char.ofNat 0x85 || c = Char.ofNat 0xA0 || c = Char.ofNat 0x1680 ||
  (0x2000 ≤ c.toNat && c.toNat ≤ 0x200a) ||
  c = Char.ofNat 0x2028 || c = Char.ofNat 0x2029 || c = Char.ofNat 0x202f ||
  c = Char.ofNat 0x205f || c = Char.ofNat 0x3000

def trimLeft : Str → Str
  | [] => []
  | x :: xs => if isSpace x then trimLeft xs else x :: xs

/-- `strings.TrimSpace`. -/
def trimSpace (s : Str) : Str := (trimLeft (trimLeft s).reverse).reverse

/-- index of the first occurrence of `p` in `s` (`strings.Index`). -/
def indexOf (p : Str) : Str → Option Nat
  | [] => if p = [] then some 0 else none
  | x :: xs =>
    if p.isPrefixOf (x :: xs) then some 0
    else (indexOf p xs).map (· + 1)

def contains (s p : Str) : Bool := (indexOf p s).isSome

/-- ASCII lower-casing (`strings.ToLower` restricted to ASCII; other characters are
left alone — non-ASCII input to the places that lower-case is served by the oracle
table in the harness). -/
def toLowerAscii (s : Str) : Str :=
  s.map fun c => if 'A' ≤ c ∧ c ≤ 'Z' then Char.ofNat (c.toNat + 32) else c

/-- "`k` holds after skipping some prefix that contains no `/`" — the meaning of `*` in a glob
and of `[^/]*` in a regular expression, with `k` the rest of the match. -/
def starLoop (k : Str → Bool) : Str → Bool
  | [] => k []
  | c :: s => k (c :: s) || (c != '/' && starLoop k s)

/-- length in bytes of the UTF-8 encoding (`len(s)` in Go) -/
def utf8Len (s : Str) : Nat := (s.map (fun c => c.utf8Size)).sum

theorem splitOn_ne_nil (c : Char) (s : Str) : splitOn c s ≠ [] := by
  induction s with
  | nil => simp [splitOn]
  | cons x xs ih =>
    unfold splitOn
    split
    · simp
    · split <;> simp

end Slug
