import SlugModel.Base.Str
/-!
# Base/Path — Go's `path` / `path/filepath` (Unix) at the semantic level

A path is cleaned by a stack machine over its `/`-separated segments: `""` and `"."`
are skipped, `".."` pops a name, is dropped at a rooted bottom and pushed on a
relative bottom.  `pathClean` etc. are *defined* through that machine, so the
segment-level lemmas apply to the string-level functions directly.  The
correspondence with the real `path.Clean`, `path.Join`, `filepath.Rel`,
`fs.ValidPath` is validated on the `paths` lane.
-/
namespace Slug

abbrev Seg := Str

def dot : Seg := ['.']
def dotdot : Seg := ['.', '.']

/-- one step of the cleaning stack machine; stack top is the list head -/
def step (rooted : Bool) (st : List Seg) (s : Seg) : List Seg :=
  if s = [] ∨ s = dot then st
  else if s = dotdot then
    match st with
    | [] => if rooted then [] else [dotdot]
    | t :: r => if t = dotdot then dotdot :: t :: r else r
  else s :: st

def run (rooted : Bool) (st : List Seg) (xs : List Seg) : List Seg := xs.foldl (step rooted) st

def cleanSegs (rooted : Bool) (xs : List Seg) : List Seg := (run rooted [] xs).reverse

def isAbs (s : Str) : Bool := s.head? = some '/'

/-- `path.Clean` / `filepath.Clean` on Unix. -/
def pathClean (s : Str) : Str :=
  let segs := cleanSegs (isAbs s) (splitOn '/' s)
  if isAbs s then '/' :: joinWith '/' segs
  else if segs = [] then dot else joinWith '/' segs

/-- `path.Join(a, b)` / `filepath.Join(a, b)` (two arguments). -/
def pathJoin (a b : Str) : Str :=
  if a = [] then (if b = [] then [] else pathClean b)
  else if b = [] then pathClean a
  else pathClean (a ++ '/' :: b)

def pathJoin3 (a b c : Str) : Str :=
  match [a, b, c].filter (· ≠ []) with
  | [] => []
  | xs => pathClean (joinWith '/' xs)

/-- `path.Dir` / `filepath.Dir` on Unix. -/
def pathDir (s : Str) : Str :=
  -- everything up to and including the last slash, then Clean
  let r := s.reverse.dropWhile (· ≠ '/')
  pathClean r.reverse

/-- `path.Base`. -/
def pathBase (s : Str) : Str :=
  if s = [] then dot
  else
    let t := (s.reverse.dropWhile (· = '/'))
    if t = [] then ['/']
    else (t.takeWhile (· ≠ '/')).reverse

/-- `io/fs.ValidPath` (for valid UTF-8 input, which `Str` always is). -/
def validPath (s : Str) : Bool :=
  s = dot || (splitOn '/' s).all (fun e => e ≠ [] ∧ e ≠ dot ∧ e ≠ dotdot)

/-- `filepath.IsLocal` on Unix. -/
def isLocal (s : Str) : Bool :=
  if isAbs s || s = [] then false
  else
    -- no ".." may remain after lexical processing at any point
    let rec go (depth : Nat) : List Seg → Bool
      | [] => true
      | e :: r =>
        if e = [] ∨ e = dot then go depth r
        else if e = dotdot then (if depth = 0 then false else go (depth - 1) r)
        else go (depth + 1) r
    go 0 (splitOn '/' s)

/-- `filepath.Abs` with the working directory as a parameter. -/
def pathAbs (cwd s : Str) : Str := if isAbs s then pathClean s else pathJoin cwd s

/-- `filepath.Rel(base, targ)` on Unix: `none` = error.
Both arguments are cleaned; the result is expressed segment-wise. -/
def pathRel (base targ : Str) : Option Str :=
  let b := pathClean base
  let t := pathClean targ
  if b = t then some dot
  else
    let b' := if b = dot then [] else b
    if (isAbs b') != (isAbs t) ∧ b' ≠ [] then none
    else if b' = [] ∧ isAbs t then none
    else
      let bs := if b' = [] then [] else (splitOn '/' (if isAbs b' then b'.drop 1 else b')).filter (· ≠ [])
      let ts := (splitOn '/' (if isAbs t then t.drop 1 else t)).filter (· ≠ [])
      let rec strip : List Seg → List Seg → List Seg × List Seg
        | x :: xs, y :: ys => if x = y then strip xs ys else (x :: xs, y :: ys)
        | xs, ys => (xs, ys)
      let (br, tr) := strip bs ts
      if br.any (· = dotdot) then none
      else
        let ups := br.map (fun _ => dotdot)
        some (joinWith '/' (ups ++ tr))

end Slug
