import SlugModel.Addr
/-!
# Registry — model of `ParseRegistrySource`, `ParseFinalRegistrySource`, their `String` methods and
the dispatch of `ParseSource` / `ParseFinalSource`

The external parsers are parameters (`RegOracle`): `regaddr.ParseModuleSource` (returns the
package in its printed canonical form and the `Subdir` it split off itself) and
`versions.ParseVersion` (returns the printed form of the version).  On the correspondence lane
the harness answers them with the real libraries for exactly the strings the model asks about
(`regQuestions`).  The regular expression `^(.+)@([^/]+)(//(.+))?$` is modelled by hand
(`matchFinal`): Go's leftmost-first semantics with a greedy first group picks the LAST `@` after
which the rest has the shape `[^/]+(//.+)?`; `.` does not match a newline.
-/
namespace Slug

structure RegOracle where
  /-- `regaddr.ParseModuleSource`: (printed package, Subdir) -/
  regParse : Str → Option (Str × Str)
  /-- `versions.ParseVersion` followed by `String()` -/
  verParse : Str → Option Str

inductive RegRes (α : Type)
  | ok (a : α)
  | err
  | panic          -- "post-split registry address still has subdir"
  deriving Repr, DecidableEq

/-- `ParseRegistrySource`: (package, sub-path) -/
def parseRegistrySource (o : RegOracle) (given : Str) : RegRes (Str × Str) :=
  let (pkgRaw, subRaw) := splitSubPath given
  match normalizeSubpath subRaw with
  | none => .err
  | some sub =>
    match o.regParse pkgRaw with
    | none => .err
    | some (pkg, subdir) => if subdir ≠ [] then .panic else .ok (pkg, sub)

/-- `RegistrySource.String` -/
def printRegistry (pkg sub : Str) : Str := if sub = [] then pkg else pkg ++ '/' :: '/' :: sub

/-- `looksLikeRegistrySource` -/
def looksLikeRegistry (o : RegOracle) (given : Str) : Bool := (o.regParse given).isSome

def noNewline (s : Str) : Bool := !s.contains '\n'

/-- the part after an `@`: `[^/]+(//(.+))?$` — (version text, group 4 or empty) -/
def matchFinalRest (r : Str) : Option (Str × Str) :=
  let ver := r.takeWhile (· ≠ '/')
  let rem := r.drop ver.length
  if ver = [] then none
  else if rem = [] then some (ver, [])
  else
    match rem with
    | '/' :: '/' :: g4 => if g4 ≠ [] ∧ noNewline g4 then some (ver, g4) else none
    | _ => none

/-- candidates for the first group, longest first: every non-empty newline-free prefix that is
followed by `@` -/
def matchFinalAt (s : Str) : Nat → Option (Str × Str × Str)
  | 0 => none
  | i + 1 =>
    -- group 1 = s.take (i+1), then '@' at index i+1
    let g1 := s.take (i + 1)
    if (s.drop (i + 1)).head? = some '@' ∧ noNewline g1 then
      match matchFinalRest (s.drop (i + 2)) with
      | some (ver, g4) => some (g1, ver, g4)
      | none => matchFinalAt s i
    else matchFinalAt s i

/-- `finalRegistrySourcePattern.FindStringSubmatch(given)`: (group 1, group 2, group 4) -/
def matchFinal (s : Str) : Option (Str × Str × Str) := matchFinalAt s s.length

/-- the address string handed on: group 1, always followed by `//` and group 4 (the submatch slice
always has five elements when the pattern matches) -/
def finalAddrOf (given : Str) : Str × Str :=
  match matchFinal given with
  | none => ([], [])
  | some (g1, ver, g4) => (g1 ++ '/' :: '/' :: g4, ver)

/-- `looksLikeFinalRegistrySource` -/
def looksLikeFinalRegistry (o : RegOracle) (given : Str) : Bool :=
  looksLikeRegistry o (finalAddrOf given).1

/-- `ParseFinalRegistrySource`: (package, version, sub-path) -/
def parseFinalRegistrySource (o : RegOracle) (given : Str) : RegRes (Str × Str × Str) :=
  let (addr, ver) := finalAddrOf given
  match o.verParse ver with
  | none => .err
  | some v =>
    match parseRegistrySource o addr with
    | .ok (pkg, sub) => .ok (pkg, v, sub)
    | .err => .err
    | .panic => .panic

/-- `RegistrySourceFinal.String` -/
def printRegistryFinal (pkg ver sub : Str) : Str :=
  if sub = [] then pkg ++ '@' :: ver else pkg ++ '@' :: ver ++ '/' :: '/' :: sub

/-- which parser `ParseSource` hands the string to -/
inductive Dispatch
  | reject          -- leading/trailing white space, or empty
  | local
  | registry
  | remote
  deriving Repr, DecidableEq

/-- `ParseSource` up to the choice of the kind-specific parser -/
def dispatchSource (o : RegOracle) (given : Str) : Dispatch :=
  if trimSpace given ≠ given then .reject
  else if given = [] then .reject
  else if looksLikeLocal given || given = dot || given = dotdot then .local
  else if looksLikeRegistry o given then .registry
  else .remote

/-- `ParseFinalSource` up to the choice of the kind-specific parser -/
def dispatchFinalSource (o : RegOracle) (given : Str) : Dispatch :=
  if trimSpace given ≠ given then .reject
  else if given = [] then .reject
  else if looksLikeLocal given || given = dot || given = dotdot then .local
  else if looksLikeFinalRegistry o given then .registry
  else .remote

/-- the strings the model will ask `regParse` about for input `given` (for the lane's oracle
table): the whole string, its package part, the final-form address and its package part; and
the version text for `verParse` -/
def regQuestions (given : Str) : List Str × Str :=
  let fa := finalAddrOf given
  ([given, (splitSubPath given).1, fa.1, (splitSubPath fa.1).1], fa.2)

end Slug
