import SlugModel.Base.Path
/-!
# FS — a POSIX-like filesystem model (just the system calls go-slug uses)

State: a finite map from *physical* absolute paths (component lists) to nodes.
`resolve` is the kernel's path resolution (symlinks in non-final components are always
followed; in the final component on request), fuelled, with `ELOOP` when the fuel runs out.
Everything outside this file manipulates the filesystem only through the operations below.
Trusted base: this is a model of the Linux VFS + Go's `os` package, validated on the `unpack`
and `fsops` lanes against a real filesystem.
-/
namespace Slug

abbrev PPath := List Str   -- physical path: components below `/`

inductive Node
  | dir (perm : Nat) (mtime : Int)
  | file (perm : Nat) (mtime : Int) (content : Str)
  | link (target : Str)
  | special                 -- fifo, socket, device
  deriving Repr, DecidableEq

abbrev FS := List (PPath × Node)

def FS.get (fs : FS) (p : PPath) : Option Node :=
  match fs with
  | [] => none
  | (q, n) :: r => if q = p then some n else FS.get r p

def FS.set (fs : FS) (p : PPath) (n : Node) : FS := (p, n) :: fs

def FS.del (fs : FS) (p : PPath) : FS := fs.filter (fun e => e.1 ≠ p)

/-- remove `p` and everything below it -/
def FS.delTree (fs : FS) (p : PPath) : FS := fs.filter (fun e => !(p.isPrefixOf e.1))

inductive Errno
  | enoent | enotdir | eloop | eexist | eisdir | eacces | einval | enotempty
  deriving Repr, DecidableEq

/-- the root directory always exists -/
def FS.lookup (fs : FS) (p : PPath) : Option Node :=
  if p = [] then some (.dir 0o755 0) else fs.get p

/-- non-empty, non-dot segments of a path string -/
def pathSegs (s : Str) : List Seg := (splitOn '/' s).filter (fun e => e ≠ [] ∧ e ≠ dot)

/-- Kernel path resolution.  Walks `segs` from the directory `cur`.
Returns the physical path of the object named; the final component may be missing
(`ok p` with `lookup p = none`) — callers that need existence check it.
`followLast`: follow a symlink in the final component. -/
def resolve (fs : FS) : Nat → PPath → List Seg → Bool → Except Errno PPath
  | 0, _, _, _ => .error .eloop
  | _ + 1, cur, [], _ => .ok cur
  | fuel + 1, cur, s :: rest, followLast =>
    if s = dotdot then
      -- `cur` is a directory here (invariant of the walk), `..` is its parent
      resolve fs fuel cur.dropLast rest followLast
    else
      let p := cur ++ [s]
      match fs.lookup p with
      | none => if rest = [] then .ok p else .error .enoent
      | some (.dir _ _) => resolve fs fuel p rest followLast
      | some (.link t) =>
        if rest = [] ∧ !followLast then .ok p
        else
          let start := if isAbs t then [] else cur
          if t = [] then .error .enoent
          else resolve fs fuel start (pathSegs t ++ rest) followLast
      | some _ => if rest = [] then .ok p else .error .enotdir

def resolveFuel : Nat := 64

/-- resolve a path string (absolute) -/
def FS.resolvePath (fs : FS) (path : Str) (followLast : Bool) : Except Errno PPath :=
  resolve fs resolveFuel [] (pathSegs path) followLast

/-- `os.Lstat`: the node at `path`, not following a final symlink -/
def FS.lstat (fs : FS) (path : Str) : Except Errno Node :=
  match fs.resolvePath path false with
  | .error e => .error e
  | .ok p => match fs.lookup p with
    | none => .error .enoent
    | some n => .ok n

/-- `os.Stat`: follows a final symlink -/
def FS.stat (fs : FS) (path : Str) : Except Errno (PPath × Node) :=
  match fs.resolvePath path true with
  | .error e => .error e
  | .ok p => match fs.lookup p with
    | none => .error .enoent
    | some n => .ok (p, n)

/-- creating or removing an entry updates the modification time of the containing directory -/
def FS.touchDir (fs : FS) (p : PPath) (now : Int) : FS :=
  match fs.get p with
  | some (.dir perm _) => fs.set p (.dir perm now)
  | _ => fs

def umask : Nat := 0o022

def applyUmask (perm : Nat) : Nat := perm &&& (0o7777 ^^^ umask)

/-- `mkdir(2)`: the parent must exist and be a directory; nothing may exist at the final name.
A symlink in the final position is not followed (EEXIST). -/
def FS.mkdir (fs : FS) (path : Str) (perm : Nat) (now : Int) : Except Errno FS :=
  match fs.resolvePath path false with
  | .error e => .error e
  | .ok p =>
    match fs.lookup p with
    | some _ => .error .eexist
    | none =>
      match fs.lookup p.dropLast with
      | some (.dir _ _) => .ok ((fs.touchDir p.dropLast now).set p (.dir (applyUmask perm) now))
      | some _ => .error .enotdir
      | none => .error .enoent

/-- Go's `os.MkdirAll` (fuelled on the path length).  Returns the resulting filesystem in every
case (parents created before a failure stay) and the error, if any. -/
def FS.mkdirAll (fs : FS) (now : Int) : Nat → Str → Nat → FS × Option Errno
  | 0, _, _ => (fs, some .eloop)
  | fuel + 1, path, perm =>
    match fs.stat path with
    | .ok (_, .dir _ _) => (fs, none)
    | .ok _ => (fs, some .enotdir)
    | .error _ =>
      -- create the parent first
      let parent := pathDir path
      let r := if parent = path ∨ path = [] then (fs, none) else FS.mkdirAll fs now fuel parent perm
      match r with
      | (fs1, some e) => (fs1, some e)
      | (fs1, none) =>
        match fs1.mkdir path perm now with
        | .ok fs2 => (fs2, none)
        | .error e =>
          match fs1.lstat path with
          | .ok (.dir _ _) => (fs1, none)
          | _ => (fs1, some e)

/-- `os.Symlink(target, path)` -/
def FS.symlink (fs : FS) (target path : Str) (now : Int) : Except Errno FS :=
  if target = [] then .error .enoent   -- symlink(2) refuses an empty target
  else
  match fs.resolvePath path false with
  | .error e => .error e
  | .ok p =>
    match fs.lookup p with
    | some _ => .error .eexist
    | none =>
      match fs.lookup p.dropLast with
      | some (.dir _ _) => .ok ((fs.touchDir p.dropLast now).set p (.link target))
      | some _ => .error .enotdir
      | none => .error .enoent

/-- `os.Create(path)` + write `content` + close: `O_RDWR|O_CREATE|O_TRUNC`, mode 0666 &^ umask.
Follows a final symlink, including a dangling one (creates its referent). An existing file
keeps its permission bits. `writable` models the permission check for an unprivileged caller. -/
def FS.create (fs : FS) (path : Str) (content : Str) (now : Int) (privileged : Bool) : Except Errno FS :=
  match fs.resolvePath path true with
  | .error e => .error e
  | .ok p =>
    match fs.lookup p with
    | some (.dir _ _) => .error .eisdir
    | some (.file perm _ _) =>
      if !privileged ∧ perm &&& 0o200 = 0 then .error .eacces
      else .ok (fs.set p (.file perm now content))
    | some (.link _) => .error .eloop
    | some .special => .ok fs
    | none =>
      match fs.lookup p.dropLast with
      | some (.dir _ _) => .ok ((fs.touchDir p.dropLast now).set p (.file (applyUmask 0o666) now content))
      | some _ => .error .enotdir
      | none => .error .enoent

/-- `os.Chmod(path, perm)`: follows symlinks -/
def FS.chmod (fs : FS) (path : Str) (perm : Nat) : Except Errno FS :=
  match fs.stat path with
  | .error e => .error e
  | .ok (p, .dir _ m) => .ok (fs.set p (.dir perm m))
  | .ok (p, .file _ m c) => .ok (fs.set p (.file perm m c))
  | .ok _ => .ok fs

/-- `os.Chtimes(path, _, mtime)`: follows symlinks -/
def FS.chtimes (fs : FS) (path : Str) (mtime : Int) : Except Errno FS :=
  match fs.stat path with
  | .error e => .error e
  | .ok (p, .dir perm _) => .ok (fs.set p (.dir perm mtime))
  | .ok (p, .file perm _ c) => .ok (fs.set p (.file perm mtime c))
  | .ok _ => .ok fs

end Slug
