import SlugModel.Pack
/-!
# BundleArchive — model of `Bundle.WriteArchive` and `ExtractArchive` (sourcebundle/bundle.go)

```go
func (b *Bundle) WriteArchive(w io.Writer) error {
    packer, _ := slug.NewPacker(slug.DereferenceSymlinks())
    _, err = packer.Pack(b.rootDir, w); return err }
func ExtractArchive(r io.Reader, targetDir string) (*Bundle, error) {
    err := slug.Unpack(r, targetDir); if err != nil { return nil, err }
    return OpenDir(targetDir) }
```

Both are thin wrappers: `WriteArchive` is `Pack` with dereferencing on, ignore processing off and
an empty allow-list; `ExtractArchive` is the package-level `Unpack` (no allow-list) followed by
`OpenDir`, which reads the file `terraform-sources.json` of the target directory.  The archive is
the entry list (Pack.lean, Unpack.lean); `OpenDir` on the decoded manifest is `openDir`
(Bundle.lean).
-/
namespace Slug

/-- `manifestFilename` of sourcebundle/bundle.go -/
def manifestFileName : Str := "terraform-sources.json".toList

/-- `filepath.Join(root, manifestFilename)`: the file `OpenDir(root)` reads -/
def manifestPath (root : Str) : Str := pathJoin root manifestFileName

/-- the packer of `WriteArchive`: `NewPacker(DereferenceSymlinks())` -/
def archiveOpts : PackOpts := { dereference := true, applyIgnore := false, allow := [] }

/-- `b.WriteArchive(w)` for a bundle rooted at `root`: the entries written (and `Meta`), and the
result -/
def writeArchive (fs : FS) (cwd root : Str) : PState × PResult := pack fs cwd archiveOpts root

/-- the `slug.Unpack(r, dst)` half of `ExtractArchive(r, dst)` on the entry list `es`: no
allow-list, no reader fault -/
def extractArchive (cwd' : Str) (priv : Bool) (dst : Str) (fs' : FS) (es : List Entry) : FS × UResult :=
  unpack cwd' [] priv dst .none fs' es

end Slug
