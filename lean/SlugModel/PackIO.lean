import SlugModel.Pack
/-!
# PackIO — the write side of `Packer.Pack`

`Pack` writes through `tar.Writer` over `gzip.Writer` over the caller's `io.Writer`.  The walk model
(`pack`) produces the entry list; this file models what happens to it on the way out:

* per emitted entry one `tarW.WriteHeader`, and for an entry with a body one `io.Copy(tarW, f)`;
* after the walk `tarW.Close()`, then `gzipW.Close()`;
* each of the four kinds of call returns an error, which the code does or does not test — which, is
  an **extracted fact** (`Generated.ioErrChecks`, regenerated from slug.go on every run).

Fault model: the caller's writer fails from some byte on.  `gzip.Writer` and `tar.Writer` both keep
the first error they see and return it from every later call, so there is a first write-side
operation at which the failure *surfaces* (index `k` into `writerOps`) and every later operation
fails as well.  Which operation that is for a given byte offset depends on the compressor's
buffering and is not modelled; the theorems quantify over all `k`.  That a failure at any offset
below the total length surfaces at some operation — at the latest at `gzipW.Close`, which flushes
everything — is the assumption about the two standard-library writers (validated by the
`pack-faults` lane at every byte offset of the generated slugs).
-/
namespace Slug

inductive WOp
  | header (i : Nat)   -- `tarW.WriteHeader` for the i-th emitted entry
  | body (i : Nat)     -- `io.Copy(tarW, f)` for the i-th emitted entry
  | tarClose
  | gzClose
  deriving DecidableEq, Repr

/-- which error results `Pack` tests (and turns into an error return) -/
structure IOChecks where
  header : Bool
  body : Bool
  tarClose : Bool
  gzClose : Bool
  deriving DecidableEq, Repr

def lookupCheck (name : String) : Bool :=
  match Generated.ioErrChecks.find? (fun e => e.1 == name) with
  | some (_, n, all) => n == 1 && all      -- exactly one call site, and it is checked
  | none => false

/-- the checks of /repo's current `Pack`, from the extracted facts -/
def ioChecks : IOChecks :=
  { header := lookupCheck "tarW.WriteHeader", body := lookupCheck "io.Copy(tarW)",
    tarClose := lookupCheck "tarW.Close", gzClose := lookupCheck "gzipW.Close" }

def IOChecks.checked (c : IOChecks) : WOp → Bool
  | .header _ => c.header
  | .body _ => c.body
  | .tarClose => c.tarClose
  | .gzClose => c.gzClose

/-- the write-side operations of the entries the walk emits, numbered from `i` -/
def entryOps : Nat → List Entry → List WOp
  | _, [] => []
  | i, e :: r => (if e.isRegular then [WOp.header i, WOp.body i] else [WOp.header i]) ++ entryOps (i + 1) r

/-- all write-side operations of a `Pack` whose walk succeeds -/
def writerOps (es : List Entry) : List WOp := entryOps 0 es ++ [.tarClose, .gzClose]

/-- the failure surfaces at operation `k` and persists: is it reported, i.e. is there an operation
at or after `k` whose error `Pack` tests? -/
def reported (c : IOChecks) (k : Nat) (ops : List WOp) : Bool := (ops.drop k).any c.checked

/-- `Packer.Pack(src, w)` with a writer whose failure surfaces at write-side operation `surface`
(`none`: the writer never fails).  Returns the `*Meta` (if one is returned) and the result class. -/
def packIO (c : IOChecks) (fs : FS) (cwd : Str) (o : PackOpts) (src : Str) (surface : Option Nat) :
    Option PMeta × PResult :=
  let st := (pack fs cwd o src).1
  match (pack fs cwd o src).2 with
  | .ok =>
    match surface with
    | none => (some st.pmeta, .ok)
    | some k => if reported c k (writerOps st.entries) then (none, .ioerr) else (some st.pmeta, .ok)
  | r =>
    -- the walk stopped with an error: the operations performed are those of the entries emitted so far
    match surface with
    | none => (none, r)
    | some k => if reported c k (entryOps 0 st.entries) then (none, .ioerr) else (none, r)

end Slug
