import SlugModel.Addr
/-!
# Builder — model of `sourcebundle.Builder` (work queues, memo tables, registry resolution)

The world (what the fetcher, the registry client and the dependency finders answer) is a finite
table.  Remote package addresses, registry package addresses and versions are opaque printed
strings; `rank` is the position of a version in the order of the real `go-versions` library
(supplied by the harness), `allowed` lists the offered versions that the caller's constraint
admits (the harness evaluates `Set.Has` with the real library).
Package content is an opaque `ContentId`; the directory a package is stored in is a function of
the content only (the real code names it after `dirhash`; injectivity of the hash is assumed where
needed), so the model uses the content id as directory name.
The loop structure follows `resolvePending` exactly: LIFO queues, registry queue first.
-/
namespace Slug

abbrev PkgAddr := Str
abbrev RegPkg := Str
abbrev VerS := Str
abbrev FinderId := Nat
abbrev ContentId := Str

structure RemoteSrc where
  pkg : PkgAddr
  sub : Str
  deriving DecidableEq, Repr

structure RegSrc where
  pkg : RegPkg
  sub : Str
  deriving DecidableEq, Repr

/-- what a dependency finder reports, in call order -/
inductive Decl
  | remote (src : RemoteSrc) (f : FinderId)
  | registry (src : RegSrc) (allowed : List VerS) (f : FinderId)
  | loc (rel : Str) (f : FinderId)
  | diag (isError : Bool) (summary : Str) (file : Str)
  deriving DecidableEq, Repr

structure VerInfo where
  ver : VerS
  rank : Nat
  deprecation : Option (Str × Str)    -- reason, link
  deriving DecidableEq, Repr

structure World where
  fetch : List (PkgAddr × Option (ContentId × Option (Str × Str)))  -- `none` = the fetcher fails
  versions : List (RegPkg × Option (List VerInfo))                  -- `none` = the registry fails
  sources : List ((RegPkg × VerS) × Option RemoteSrc)
  deps : List ((ContentId × Str × FinderId) × List Decl)
  deriving Repr

def assoc {α β : Type} [DecidableEq α] (l : List (α × β)) (k : α) : Option β :=
  match l with
  | [] => none
  | (a, b) :: r => if a = k then some b else assoc r k

inductive Ev
  | fetchStart (p : PkgAddr) | fetchCall (p : PkgAddr) | fetchOk (p : PkgAddr) | fetchFail (p : PkgAddr)
  | fetchAlready (p : PkgAddr)
  | versStart (r : RegPkg) | versCall (r : RegPkg) | versOk (r : RegPkg) | versFail (r : RegPkg)
  | versAlready (r : RegPkg)
  | srcStart (r : RegPkg) (v : VerS) | srcCall (r : RegPkg) (v : VerS) | srcOk (r : RegPkg) (v : VerS)
  | srcFail (r : RegPkg) (v : VerS) | srcAlready (r : RegPkg) (v : VerS)
  | analyse (s : RemoteSrc) (f : FinderId)
  | traceDiags (n : Nat)
  deriving DecidableEq, Repr

/-- diagnostics: severity is error?, kind: 0 registry, 1 install, 2 relative, 3 finder -/
structure Diag where
  isError : Bool
  kind : Nat
  summary : Str
  file : Str            -- finder diagnostics: the file name after rewriting (normalised sub-path) or as given
  rewritten : Bool      -- whether the file name was a valid sub-path and therefore rewritten
  pkg : PkgAddr         -- package the diagnostic is attributed to (finder diagnostics)
  deriving DecidableEq, Repr

structure BState where
  pendingRemote : List (RemoteSrc × FinderId)
  pendingRegistry : List (RegSrc × List VerS × FinderId)
  analyzed : List (RemoteSrc × FinderId)
  pkgDirs : List (PkgAddr × ContentId)
  pkgMeta : List (PkgAddr × (Str × Str))
  resolved : List ((RegPkg × VerS) × RemoteSrc)
  deprec : List ((RegPkg × VerS) × Option (Str × Str))
  regVersions : List (RegPkg × List VerInfo)
  poisoned : Bool
  log : List Ev          -- newest first
  deriving Repr

def BState.init : BState :=
  { pendingRemote := [], pendingRegistry := [], analyzed := [], pkgDirs := [], pkgMeta := [],
    resolved := [], deprec := [], regVersions := [], poisoned := false, log := [] }

/-- newest (greatest rank) offered version that is allowed; `none` = `versions.Unspecified`.
Among allowed versions of equal rank (same precedence, different build metadata) the LAST listed
one is selected: go-versions' `List.NewestInSet` scans the stably sorted listing from the end and
replaces its candidate only by a strictly greater one (`C17_last_of_equal_rank`). -/
def selectVersion (offered : List VerInfo) (allowed : List VerS) : Option VerInfo :=
  offered.foldl (fun best v =>
    if allowed.contains v.ver then
      match best with
      | none => some v
      | some b => if b.rank ≤ v.rank then some v else some b
    else best) none

/-- `findRegistryPackageSource` -/
def findRegistrySource (w : World) (st : BState) (src : RegSrc) (allowed : List VerS) :
    BState × Option RemoteSrc :=
  -- version list, cached per registry package
  let r1 : BState × Option (List VerInfo) :=
    match assoc st.regVersions src.pkg with
    | some vs => ({ st with log := .versAlready src.pkg :: st.log }, some vs)
    | none =>
      match assoc w.versions src.pkg with
      | some (some vs) =>
        ({ st with regVersions := (src.pkg, vs) :: st.regVersions,
                   log := .versOk src.pkg :: .versCall src.pkg :: .versStart src.pkg :: st.log }, some vs)
      | _ =>
        ({ st with log := .versFail src.pkg :: .versCall src.pkg :: .versStart src.pkg :: st.log }, none)
  match r1 with
  | (st1, none) => (st1, none)
  | (st1, some vs) =>
    match selectVersion vs allowed with
    | none => (st1, none)
    | some sel =>
      let key := (src.pkg, sel.ver)
      let r2 : BState × Option RemoteSrc :=
        match assoc st1.resolved key with
        | some real => ({ st1 with log := .srcAlready src.pkg sel.ver :: st1.log }, some real)
        | none =>
          match assoc w.sources key with
          | some (some real) =>
            -- the deprecation recorded is that of the first offered entry with exactly the selected version
            let dep := match vs.find? (fun v => v.ver = sel.ver) with
              | some v => v.deprecation
              | none => none
            ({ st1 with resolved := (key, real) :: st1.resolved, deprec := (key, dep) :: st1.deprec,
                        log := .srcOk src.pkg sel.ver :: .srcCall src.pkg sel.ver :: .srcStart src.pkg sel.ver :: st1.log },
             some real)
          | _ =>
            ({ st1 with log := .srcFail src.pkg sel.ver :: .srcCall src.pkg sel.ver :: .srcStart src.pkg sel.ver :: st1.log }, none)
      match r2 with
      | (st2, none) => (st2, none)
      | (st2, some real) => (st2, some { pkg := real.pkg, sub := finalSourceSub src.sub real.sub })

/-- `ensureRemotePackage`: the directory (content id) of the package, fetching it if needed -/
def ensurePackage (w : World) (st : BState) (pkg : PkgAddr) : BState × Option ContentId :=
  match assoc st.pkgDirs pkg with
  | some d => ({ st with log := .fetchAlready pkg :: st.log }, some d)
  | none =>
    match assoc w.fetch pkg with
    | some (some (content, pm)) =>
      let st1 := { st with pkgDirs := (pkg, content) :: st.pkgDirs,
                           pkgMeta := (match pm with
                             | some m => (pkg, m) :: st.pkgMeta
                             | none => st.pkgMeta),
                           log := .fetchOk pkg :: .fetchCall pkg :: .fetchStart pkg :: st.log }
      (st1, some content)
    | _ => ({ st with log := .fetchFail pkg :: .fetchCall pkg :: .fetchStart pkg :: st.log }, none)

/-- apply what the finder reported for the artefact `(base, f)`: queue pushes and diagnostics -/
def applyDecls (base : RemoteSrc) : List Decl → BState → List Diag → BState × List Diag
  | [], st, ds => (st, ds)
  | .remote src f :: r, st, ds =>
    applyDecls base r { st with pendingRemote := st.pendingRemote ++ [(src, f)] } ds
  | .registry src allowed f :: r, st, ds =>
    applyDecls base r { st with pendingRegistry := st.pendingRegistry ++ [(src, allowed, f)] } ds
  | .loc rel f :: r, st, ds =>
    match joinSubPath base.sub rel with
    | some sub => applyDecls base r { st with pendingRemote := st.pendingRemote ++ [({ pkg := base.pkg, sub := sub }, f)] } ds
    | none => applyDecls base r st (ds ++ [{ isError := true, kind := 2, summary := [], file := [], rewritten := false, pkg := base.pkg }])
  | .diag _ _ _ :: r, st, ds => applyDecls base r st ds

/-- the diagnostics a finder returned, wrapped `inRemoteSourcePackage` -/
def finderDiags (pkg : PkgAddr) (decls : List Decl) : List Diag :=
  decls.filterMap fun d =>
    match d with
    | .diag isErr summary file =>
      match normalizeSubpath file with
      | some n => some { isError := isErr, kind := 3, summary := summary, file := n, rewritten := true, pkg := pkg }
      | none => some { isError := isErr, kind := 3, summary := summary, file := file, rewritten := false, pkg := pkg }
    | _ => none

def hasErrors (ds : List Diag) : Bool := ds.any (·.isError)

inductive Outcome
  | done (st : BState) (diags : List Diag)
  | diverged
  deriving Repr

/-- `resolvePending`: one small step per fuel unit.  `phaseB = false`: the inner loop over the
registry queue; `phaseB = true`: the inner loop over the remote queue (which keeps popping remote
items until that queue is empty and only then lets the outer loop look at the registry queue
again). -/
def drain (w : World) : Nat → Bool → BState → List Diag → Outcome
  | 0, _, _, _ => .diverged
  | fuel + 1, false, st, ds =>
    match st.pendingRegistry.getLast? with
    | none => drain w fuel true st ds
    | some (src, allowed, f) =>
      let st0 := { st with pendingRegistry := st.pendingRegistry.dropLast }
      match findRegistrySource w st0 src allowed with
      | (st1, none) =>
        drain w fuel false st1
          (ds ++ [{ isError := true, kind := 0, summary := [], file := [], rewritten := false, pkg := src.pkg }])
      | (st1, some real) =>
        drain w fuel false { st1 with pendingRemote := st1.pendingRemote ++ [(real, f)] } ds
  | fuel + 1, true, st, ds =>
    match st.pendingRemote.getLast? with
    | none => if st.pendingRegistry.isEmpty then .done st ds else drain w fuel false st ds
    | some (src, f) =>
      let st0 := { st with pendingRemote := st.pendingRemote.dropLast }
      match ensurePackage w st0 src.pkg with
      | (st1, none) =>
        drain w fuel true st1
          (ds ++ [{ isError := true, kind := 1, summary := [], file := [], rewritten := false, pkg := src.pkg }])
      | (st1, some content) =>
        if st1.analyzed.contains (src, f) then drain w fuel true st1 ds
        else
          let decls := (assoc w.deps (content, src.sub, f)).getD []
          let r := applyDecls src decls { st1 with log := .analyse src f :: st1.log } ds
          let st3 := { r.1 with analyzed := (src, f) :: r.1.analyzed }
          let fds := finderDiags src.pkg decls
          let st4 := if fds.isEmpty then st3 else { st3 with log := .traceDiags fds.length :: st3.log }
          drain w fuel true st4 (r.2 ++ fds)

/-- the public operations -/
inductive Op
  | addRemote (src : RemoteSrc) (f : FinderId)
  | addRegistry (src : RegSrc) (allowed : List VerS) (f : FinderId)
  deriving Repr

inductive OpResult
  | diags (ds : List Diag)
  | refused          -- the builder was poisoned by an earlier error (the real code panics)
  | diverged
  deriving Repr

def drainFuel : Nat := 100000

/-- one `Add*` call: returns the new state and what the caller sees -/
def applyOp (w : World) (fuel : Nat) (st : BState) (op : Op) : BState × OpResult :=
  if st.poisoned then (st, .refused)
  else
    let queued : Option BState :=
      match op with
      | .addRemote src f =>
        if st.analyzed.contains (src, f) then none
        else some { st with pendingRemote := st.pendingRemote ++ [(src, f)] }
      | .addRegistry src allowed f =>
        some { st with pendingRegistry := st.pendingRegistry ++ [(src, allowed, f)] }
    match queued with
    | none => (st, .diags [])
    | some st1 =>
      match drain w fuel false st1 [] with
      | .diverged => (st1, .diverged)
      | .done st2 ds => ({ st2 with poisoned := hasErrors ds }, .diags ds)

def runOps (w : World) (fuel : Nat) : BState → List Op → BState × List OpResult
  | st, [] => (st, [])
  | st, op :: r =>
    let (st1, res) := applyOp w fuel st op
    let (st2, rs) := runOps w fuel st1 r
    (st2, res :: rs)

end Slug
