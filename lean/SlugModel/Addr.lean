import SlugModel.Base.Path
/-!
# Addr — model of `sourceaddrs` (sub-path algebra, local sources, resolution)

Mirrors `sourceaddrs/subpath.go`, `source_local.go`, and the resolution functions of
`source.go` / `source_final.go` / `source_registry.go`.
Package parts of remote / registry addresses are opaque here (`pkg : Str` is the printed
package address); the URL-level model lives in `Remote.lean`.
-/
namespace Slug

/-- `normalizeSubpath`: `none` = error. -/
def normalizeSubpath (given : Str) : Option Str :=
  if given = [] then some []
  else if !validPath given then none
  else
    let clean := pathClean given
    if clean = dot then none else some clean

def validSubPath (s : Str) : Bool := (normalizeSubpath s).isSome

/-- `joinSubPath`: `none` = "traverses up too many levels". -/
def joinSubPath (sub rel : Str) : Option Str :=
  let n := pathJoin sub rel
  if n = dot then some []
  else if validPath n then some n
  else none

def looksLikeLocal (s : Str) : Bool := hasPrefix s ['.', '/'] || hasPrefix s ['.', '.', '/']

/-- `ParseLocalSource`: returns the stored `relPath`, `none` = error. -/
def parseLocal (given : Str) : Option Str :=
  if given.any (fun c => c = ':' || c = '\\') then none
  else if !looksLikeLocal given && given ≠ dot && given ≠ dotdot then none
  else
    let clean0 := pathClean given
    let clean1 := if clean0 = dotdot then ['.', '.', '/'] else if clean0 = dot then ['.', '/'] else clean0
    let clean := if !looksLikeLocal clean1 then '.' :: '/' :: clean1 else clean1
    if clean ≠ given then none else some clean

/-- the path part of `ResolveRelativeSource(LocalSource a, LocalSource b)` -/
def resolveLocalLocal (a b : Str) : Str :=
  let n := pathJoin a b
  if n = dot ∨ n = dotdot then n ++ ['/']   -- the canonical forms are "./" and "../"
  else if !looksLikeLocal n then '.' :: '/' :: n else n

/-- Address values; package parts are opaque printed forms. -/
inductive Addr
  | loc (rel : Str)
  | registry (pkg : Str) (sub : Str)
  | registryFinal (pkg : Str) (ver : Str) (sub : Str)
  | remote (pkg : Str) (sub : Str)
  deriving DecidableEq, Repr

def Addr.isLocal : Addr → Bool
  | .loc _ => true
  | _ => false

/-- `ResolveRelativeSource` / `ResolveRelativeFinalSource` (same rules): `none` = error. -/
def resolveRelative (a b : Addr) : Option Addr :=
  match b with
  | .loc bRaw =>
    match a with
    | .loc aRaw => some (.loc (resolveLocalLocal aRaw bRaw))
    | .registry pkg sub => (joinSubPath sub bRaw).map (.registry pkg)
    | .registryFinal pkg ver sub => (joinSubPath sub bRaw).map (.registryFinal pkg ver)
    | .remote pkg sub => (joinSubPath sub bRaw).map (.remote pkg)
  | _ => some b

/-- `RegistrySource.FinalSourceAddr`: sub-path of the result (package is the real source's). -/
def finalSourceSub (regSub realSub : Str) : Str :=
  if regSub = [] then realSub
  else if realSub = [] then regSub
  else pathJoin realSub regSub

/-- `splitSubPath`: returns (package part, sub-path part). -/
def splitSubPath (src : Str) : Str × Str :=
  let stop := match indexOf ['?'] src with
    | some i => i
    | none => src.length
  let offset := match indexOf [':', '/', '/'] (src.take stop) with
    | some i => i + 3
    | none => 0
  match indexOf ['/', '/'] ((src.take stop).drop offset) with
  | none => (src, [])
  | some i =>
    let idx := i + offset
    let subdir := src.drop (idx + 2)
    let pkg := src.take idx
    match indexOf ['?'] subdir with
    | some q => (pkg ++ subdir.drop q, subdir.take q)
    | none => (pkg, subdir)

end Slug
