import SlugModel.Registry
import SlugModel.Props.C06
import SlugModel.Props.C19a
/-!
# Lemmas/RegistryRT — helper lemmas for the registry-address round trips (C06r)

Oracle laws (`RegLaws`, `VerLaws`, …) are hypotheses about the external parsers
`regaddr.ParseModuleSource` and `versions.ParseVersion`; everything else is proved about the
model in `Registry.lean`.
-/
namespace Slug

/-! ## Oracle laws -/

/-- what the round trip of `ParseRegistrySource` needs from `regaddr.ParseModuleSource`, for the
set `IsPkg` of printed package addresses -/
structure RegLaws (o : RegOracle) (IsPkg : Str → Prop) : Prop where
  /-- L1: a printed package parses to itself, with no sub-directory -/
  parse_self : ∀ p, IsPkg p → o.regParse p = some (p, [])
  /-- no query string -/
  no_query : ∀ p, IsPkg p → '?' ∉ p
  /-- no `//` inside and no `/` at the end -/
  no_dslash : ∀ p, IsPkg p → contains (p ++ ['/']) ['/', '/'] = false
  /-- no `:` at the end (it would complete a `://` with the separator) -/
  no_colon_end : ∀ p, IsPkg p → p.getLast? ≠ some ':'

/-- additional shape facts the regular expression of the final form needs -/
structure RegLawsFinal (IsPkg : Str → Prop) : Prop where
  nonempty : ∀ p, IsPkg p → p ≠ []
  no_newline : ∀ p, IsPkg p → noNewline p = true

/-- additional shape facts the dispatch in `ParseSource` / `ParseFinalSource` needs -/
structure RegLawsDispatch (IsPkg : Str → Prop) : Prop where
  nonempty : ∀ p, IsPkg p → p ≠ []
  no_edge_space : ∀ p, IsPkg p → trimSpace p = p
  not_local : ∀ p, IsPkg p → looksLikeLocal p = false
  not_dot : ∀ p, IsPkg p → p ≠ dot
  not_dotdot : ∀ p, IsPkg p → p ≠ dotdot

/-- what the round trip needs from `versions.ParseVersion`, for the set `IsVer` of printed
versions -/
structure VerLaws (o : RegOracle) (IsVer : Str → Prop) : Prop where
  parse_self : ∀ v, IsVer v → o.verParse v = some v
  nonempty : ∀ v, IsVer v → v ≠ []
  no_slash : ∀ v, IsVer v → '/' ∉ v
  no_at : ∀ v, IsVer v → '@' ∉ v

/-- no white space at the end -/
def rgNoTrailSp (s : Str) : Prop := ∀ c, s.getLast? = some c → isSpace c = false
/-- no white space at the start -/
def rgNoLeadSp (s : Str) : Prop := ∀ c, s.head? = some c → isSpace c = false

/-! ## occurrences -/

theorem rgIndexOf_none_iff (p s : Str) : indexOf p s = none ↔ ¬ ∃ a r, s = a ++ p ++ r := by
  constructor
  · intro h ⟨a, r, e⟩
    obtain ⟨i, hi, _⟩ := indexOf_occ p r a
    rw [← e, h] at hi
    cases hi
  · intro h
    cases hi : indexOf p s with
    | none => rfl
    | some i =>
      obtain ⟨a, r, e, _⟩ := indexOf_split p s i hi
      exact absurd ⟨a, r, e⟩ h

/-- a stored sub-path contains no `//` -/
theorem rgValidSub_no_dslash (sub : Str) (h : ValidSub sub) : indexOf ['/', '/'] sub = none := by
  rcases h with rfl | ⟨hv, hd⟩
  · rfl
  · apply (rgIndexOf_none_iff _ _).mpr
    rintro ⟨a, r, e⟩
    unfold validPath at hv
    simp only [hd, decide_false, Bool.false_or, List.all_eq_true] at hv
    have e' : sub = a ++ '/' :: ('/' :: r) := by rw [e]; simp
    rw [e', splitOn_append, splitOn_cons_sep] at hv
    have := hv [] (by simp)
    simp at this

theorem rgValidSub_head (sub : Str) (h : ValidSub sub) : sub.head? ≠ some '/' := by
  rcases h with rfl | ⟨hv, _⟩
  · simp
  · have := validPath_not_abs sub hv
    unfold isAbs at this
    intro e
    rw [e] at this
    simp at this

/-! ## `ParseRegistrySource` on printed addresses -/

theorem rgNoScheme (pkg sub : Str) (hss : contains (pkg ++ ['/']) ['/', '/'] = false)
    (hc : pkg.getLast? ≠ some ':') (hsub : indexOf ['/', '/'] sub = none) :
    contains (pkg ++ '/' :: '/' :: sub) [':', '/', '/'] = false := by
  unfold contains at *
  simp only [Option.isSome_eq_false_iff, Option.isNone_iff_eq_none] at *
  rw [rgIndexOf_none_iff] at *
  rintro ⟨a, r, e⟩
  have e' : pkg ++ '/' :: '/' :: sub = a ++ ':' :: '/' :: '/' :: r := by rw [e]; simp
  rcases List.append_eq_append_iff.mp e' with ⟨a', h1, h2⟩ | ⟨c', h1, h2⟩
  · match a', h2 with
    | [], h2 => simp at h2
    | [x], h2 => simp at h2
    | x :: y :: a'', h2 =>
      simp only [List.cons_append, List.cons.injEq] at h2
      exact hsub ⟨a'' ++ [':'], r, by rw [h2.2.2]; simp⟩
  · match c', h1, h2 with
    | [], _, h2 => simp at h2
    | [x], h1, h2 =>
      simp only [List.cons_append, List.cons.injEq, List.nil_append] at h2
      apply hc
      rw [h1, ← h2.1]; simp
    | [x, y], h1, h2 =>
      simp only [List.cons_append, List.cons.injEq, List.nil_append] at h2
      exact hss ⟨a ++ [':'], [], by rw [h1, ← h2.1, ← h2.2.1]; simp⟩
    | x :: y :: z :: c'', h1, h2 =>
      simp only [List.cons_append, List.cons.injEq] at h2
      exact hss ⟨a ++ [':'], c'' ++ ['/'], by rw [h1, ← h2.1, ← h2.2.1, ← h2.2.2.1]; simp⟩

/-- the address `pkg//sub` (also with an empty `sub`) splits into its parts -/
theorem rgSplitJoin {o : RegOracle} {IsPkg : Str → Prop} (L : RegLaws o IsPkg) (pkg sub : Str)
    (hp : IsPkg pkg) (hv : ValidSub sub) (hq : '?' ∉ sub) :
    splitSubPath (pkg ++ '/' :: '/' :: sub) = (pkg, sub) := by
  have := C06_subpath_split_roundtrip_partial pkg sub [] (L.no_query pkg hp) hq (Or.inl rfl)
    (L.no_dslash pkg hp)
    (rgNoScheme pkg sub (L.no_dslash pkg hp) (L.no_colon_end pkg hp) (rgValidSub_no_dslash sub hv))
  simpa using this

theorem rgParseJoin {o : RegOracle} {IsPkg : Str → Prop} (L : RegLaws o IsPkg) (pkg sub : Str)
    (hp : IsPkg pkg) (hn : normalizeSubpath sub = some sub) (hq : '?' ∉ sub) :
    parseRegistrySource o (pkg ++ '/' :: '/' :: sub) = .ok (pkg, sub) := by
  have hv := (normalizeSubpath_some sub sub hn).2
  unfold parseRegistrySource
  rw [rgSplitJoin L pkg sub hp hv hq]
  simp only [hn, L.parse_self pkg hp]
  simp

theorem rgParsePlain {o : RegOracle} {IsPkg : Str → Prop} (L : RegLaws o IsPkg) (pkg : Str)
    (hp : IsPkg pkg) : parseRegistrySource o pkg = .ok (pkg, []) := by
  have hss : contains pkg ['/', '/'] = false := by
    have := L.no_dslash pkg hp
    unfold contains at *
    simp only [Option.isSome_eq_false_iff, Option.isNone_iff_eq_none] at *
    exact indexOf_none_append _ _ _ this
  have := C06_subpath_split_none pkg [] (L.no_query pkg hp) (Or.inl rfl) hss
  simp only [List.append_nil] at this
  unfold parseRegistrySource
  rw [this]
  have hn : normalizeSubpath [] = some [] := rfl
  simp only [hn, L.parse_self pkg hp]
  simp

end Slug
