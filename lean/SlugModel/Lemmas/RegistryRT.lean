import SlugModel.Registry
import SlugModel.Props.C06
import SlugModel.Props.C19a
/-!
# Lemmas/RegistryRT — helper lemmas for the registry-address round trips (C06r)

Oracle laws (`RegLaws`, `VerLaws`, …) are hypotheses about the external parsers
`regaddr.ParseModuleSource` and `versions.ParseVersion`; everything else is proved about the
model in `Registry.lean`.
-/
namespace Slug

/-! ## Oracle laws -/

/-- what the round trip of `ParseRegistrySource` needs from `regaddr.ParseModuleSource`, for the
set `IsPkg` of printed package addresses -/
structure RegLaws (o : RegOracle) (IsPkg : Str → Prop) : Prop where
  /-- L1: a printed package parses to itself, with no sub-directory -/
  parse_self : ∀ p, IsPkg p → o.regParse p = some (p, [])
  /-- no query string -/
  no_query : ∀ p, IsPkg p → '?' ∉ p
  /-- no `//` inside and no `/` at the end -/
  no_dslash : ∀ p, IsPkg p → contains (p ++ ['/']) ['/', '/'] = false
  /-- no `:` at the end (it would complete a `://` with the separator) -/
  no_colon_end : ∀ p, IsPkg p → p.getLast? ≠ some ':'

/-- L3: `ParseModuleSource` accepts a printed package followed by `//` and a stored sub-path
(it splits the sub-directory off itself); only used for `looksLikeRegistrySource` /
`looksLikeFinalRegistrySource`.  Includes `sub = ""` (the string `pkg//`), which is what
`looksLikeFinalRegistrySource` asks about for a final address without sub-path. -/
structure RegLawsSubdir (o : RegOracle) (IsPkg : Str → Prop) : Prop where
  accepts_subdir : ∀ p sub, IsPkg p → normalizeSubpath sub = some sub → '?' ∉ sub →
    (o.regParse (p ++ '/' :: '/' :: sub)).isSome = true

/-- additional shape facts the regular expression of the final form needs -/
structure RegLawsFinal (IsPkg : Str → Prop) : Prop where
  nonempty : ∀ p, IsPkg p → p ≠ []
  no_newline : ∀ p, IsPkg p → noNewline p = true

/-- additional shape facts the dispatch in `ParseSource` / `ParseFinalSource` needs -/
structure RegLawsDispatch (IsPkg : Str → Prop) : Prop where
  nonempty : ∀ p, IsPkg p → p ≠ []
  no_edge_space : ∀ p, IsPkg p → trimSpace p = p
  not_local : ∀ p, IsPkg p → looksLikeLocal p = false
  not_dot : ∀ p, IsPkg p → p ≠ dot
  not_dotdot : ∀ p, IsPkg p → p ≠ dotdot

/-- what the round trip needs from `versions.ParseVersion`, for the set `IsVer` of printed
versions -/
structure VerLaws (o : RegOracle) (IsVer : Str → Prop) : Prop where
  parse_self : ∀ v, IsVer v → o.verParse v = some v
  nonempty : ∀ v, IsVer v → v ≠ []
  no_slash : ∀ v, IsVer v → '/' ∉ v
  no_at : ∀ v, IsVer v → '@' ∉ v

/-- no white space at the end -/
def rgNoTrailSp (s : Str) : Prop := ∀ c, s.getLast? = some c → isSpace c = false
/-- no white space at the start -/
def rgNoLeadSp (s : Str) : Prop := ∀ c, s.head? = some c → isSpace c = false

/-- what the dispatch in `ParseFinalSource` needs from printed versions (a printed final address
without sub-path ends with the version) -/
structure VerLawsDispatch (IsVer : Str → Prop) : Prop where
  no_trail_space : ∀ v, IsVer v → rgNoTrailSp v

/-! ## occurrences -/

theorem rgIndexOf_none_iff (p s : Str) : indexOf p s = none ↔ ¬ ∃ a r, s = a ++ p ++ r := by
  constructor
  · intro h ⟨a, r, e⟩
    obtain ⟨i, hi, _⟩ := indexOf_occ p r a
    rw [← e, h] at hi
    cases hi
  · intro h
    cases hi : indexOf p s with
    | none => rfl
    | some i =>
      obtain ⟨a, r, e, _⟩ := indexOf_split p s i hi
      exact absurd ⟨a, r, e⟩ h

/-- a stored sub-path contains no `//` -/
theorem rgValidSub_no_dslash (sub : Str) (h : ValidSub sub) : indexOf ['/', '/'] sub = none := by
  rcases h with rfl | ⟨hv, hd⟩
  · rfl
  · apply (rgIndexOf_none_iff _ _).mpr
    rintro ⟨a, r, e⟩
    unfold validPath at hv
    simp only [hd, decide_false, Bool.false_or, List.all_eq_true] at hv
    have e' : sub = a ++ '/' :: ('/' :: r) := by rw [e]; simp
    rw [e', splitOn_append, splitOn_cons_sep] at hv
    have := hv [] (by simp)
    simp at this

theorem rgValidSub_head (sub : Str) (h : ValidSub sub) : sub.head? ≠ some '/' := by
  rcases h with rfl | ⟨hv, _⟩
  · simp
  · have := validPath_not_abs sub hv
    unfold isAbs at this
    intro e
    rw [e] at this
    simp at this

/-! ## `ParseRegistrySource` on printed addresses -/

theorem rgNoScheme (pkg sub : Str) (hss : contains (pkg ++ ['/']) ['/', '/'] = false)
    (hc : pkg.getLast? ≠ some ':') (hsub : indexOf ['/', '/'] sub = none) :
    contains (pkg ++ '/' :: '/' :: sub) [':', '/', '/'] = false := by
  unfold contains at *
  simp only [Option.isSome_eq_false_iff, Option.isNone_iff_eq_none] at *
  rw [rgIndexOf_none_iff] at *
  rintro ⟨a, r, e⟩
  have e' : pkg ++ '/' :: '/' :: sub = a ++ ':' :: '/' :: '/' :: r := by rw [e]; simp
  rcases List.append_eq_append_iff.mp e' with ⟨a', h1, h2⟩ | ⟨c', h1, h2⟩
  · match a', h2 with
    | [], h2 => simp at h2
    | [x], h2 => simp at h2
    | x :: y :: a'', h2 =>
      simp only [List.cons_append, List.cons.injEq] at h2
      exact hsub ⟨a'' ++ [':'], r, by rw [h2.2.2]; simp⟩
  · match c', h1, h2 with
    | [], _, h2 => simp at h2
    | [x], h1, h2 =>
      simp only [List.cons_append, List.cons.injEq, List.nil_append] at h2
      apply hc
      rw [h1, ← h2.1]; simp
    | [x, y], h1, h2 =>
      simp only [List.cons_append, List.cons.injEq, List.nil_append] at h2
      exact hss ⟨a ++ [':'], [], by rw [h1, ← h2.1, ← h2.2.1]; simp⟩
    | x :: y :: z :: c'', h1, h2 =>
      simp only [List.cons_append, List.cons.injEq] at h2
      exact hss ⟨a ++ [':'], c'' ++ ['/'], by rw [h1, ← h2.1, ← h2.2.1, ← h2.2.2.1]; simp⟩

/-- the address `pkg//sub` (also with an empty `sub`) splits into its parts -/
theorem rgSplitJoin {o : RegOracle} {IsPkg : Str → Prop} (L : RegLaws o IsPkg) (pkg sub : Str)
    (hp : IsPkg pkg) (hv : ValidSub sub) (hq : '?' ∉ sub) :
    splitSubPath (pkg ++ '/' :: '/' :: sub) = (pkg, sub) := by
  have := C06_subpath_split_roundtrip_partial pkg sub [] (L.no_query pkg hp) hq (Or.inl rfl)
    (L.no_dslash pkg hp)
    (rgNoScheme pkg sub (L.no_dslash pkg hp) (L.no_colon_end pkg hp) (rgValidSub_no_dslash sub hv))
  simpa using this

theorem rgParseJoin {o : RegOracle} {IsPkg : Str → Prop} (L : RegLaws o IsPkg) (pkg sub : Str)
    (hp : IsPkg pkg) (hn : normalizeSubpath sub = some sub) (hq : '?' ∉ sub) :
    parseRegistrySource o (pkg ++ '/' :: '/' :: sub) = .ok (pkg, sub) := by
  have hv := (normalizeSubpath_some sub sub hn).2
  unfold parseRegistrySource
  rw [rgSplitJoin L pkg sub hp hv hq]
  simp only [hn, L.parse_self pkg hp]
  simp

theorem rgParsePlain {o : RegOracle} {IsPkg : Str → Prop} (L : RegLaws o IsPkg) (pkg : Str)
    (hp : IsPkg pkg) : parseRegistrySource o pkg = .ok (pkg, []) := by
  have hss : contains pkg ['/', '/'] = false := by
    have := L.no_dslash pkg hp
    unfold contains at *
    simp only [Option.isSome_eq_false_iff, Option.isNone_iff_eq_none] at *
    exact indexOf_none_append _ _ _ this
  have := C06_subpath_split_none pkg [] (L.no_query pkg hp) (Or.inl rfl) hss
  simp only [List.append_nil] at this
  unfold parseRegistrySource
  rw [this]
  have hn : normalizeSubpath [] = some [] := rfl
  simp only [hn, L.parse_self pkg hp]
  simp

/-! ## what a successful parse tells; no panic -/

theorem rgSplitPre_snd_mem (pre : Str) (c : Char) (h : c ∈ (splitPre pre).2) : c ∈ pre := by
  unfold splitPre at h
  split at h
  · cases h
  · exact List.mem_of_mem_drop h

/-- the sub-path part consists of characters of the `?`-free prefix of the string -/
theorem rgSplit_snd (s : Str) : '?' ∉ (splitSubPath s).2 ∧ ∀ c, c ∈ (splitSubPath s).2 → c ∈ s := by
  obtain ⟨pre, qs, e, hpre, hqs⟩ := query_decomp s
  subst e
  rw [splitSubPath_eq pre qs hpre hqs]
  exact ⟨fun hm => hpre (rgSplitPre_snd_mem pre _ hm),
    fun c hc => List.mem_append_left _ (rgSplitPre_snd_mem pre c hc)⟩

/-- what a successful `ParseRegistrySource` tells -/
theorem rgParse_ok {o : RegOracle} {s pkg sub : Str} (h : parseRegistrySource o s = .ok (pkg, sub)) :
    normalizeSubpath (splitSubPath s).2 = some sub ∧ o.regParse (splitSubPath s).1 = some (pkg, []) := by
  unfold parseRegistrySource at h
  simp only at h
  split at h
  · cases h
  · rename_i sub' hn
    split at h
    · cases h
    · rename_i pkg' subdir hr
      split at h
      · cases h
      · rename_i hs
        simp only [ne_eq, Decidable.not_not] at hs
        cases h
        subst hs
        exact ⟨hn, hr⟩

theorem rgNoPanic (o : RegOracle)
    (hsub : ∀ s p d, o.regParse s = some (p, d) → d ≠ [] → (splitSubPath s).2 ≠ []) (given : Str) :
    parseRegistrySource o given ≠ .panic := by
  unfold parseRegistrySource
  simp only
  split
  · simp
  · split
    · simp
    · rename_i pkg subdir hr
      split
      · rename_i hs
        exact absurd (C19_split_idem given) (hsub _ _ _ hr hs)
      · simp

/-! ## the part after the at-sign: matchFinalRest -/


/-- the optional `//group4` suffix -/
def rgTail (g4 : Str) : Str := if g4 = [] then [] else '/' :: '/' :: g4

theorem rgDrop_takeWhile (p : Char → Bool) (l : Str) :
    l.drop (l.takeWhile p).length = l.dropWhile p := by
  induction l with
  | nil => rfl
  | cons x xs ih =>
    by_cases hx : p x = true
    · simp [hx, ih]
    · simp [hx]

theorem rgTakeWhile_append (p : Char → Bool) (a b : Str) (ha : ∀ c ∈ a, p c = true)
    (hb : b.head?.all (fun c => !p c) = true) : (a ++ b).takeWhile p = a := by
  induction a with
  | nil =>
    cases b with
    | nil => rfl
    | cons x t =>
      simp only [List.head?_cons, Option.all_some, Bool.not_eq_true'] at hb
      simp [hb]
  | cons x xs ih =>
    have hx := ha x (by simp)
    simp only [List.cons_append, List.takeWhile_cons, hx, if_true]
    rw [ih (fun c hc => ha c (List.mem_cons_of_mem _ hc))]

theorem rgMem_takeWhile (p : Char → Bool) (l : Str) (c : Char) (h : c ∈ l.takeWhile p) : p c = true := by
  induction l with
  | nil => cases h
  | cons x xs ih =>
    rw [List.takeWhile_cons] at h
    split at h
    · rcases List.mem_cons.mp h with rfl | h
      · assumption
      · exact ih h
    · cases h

theorem rgTail_head (g4 : Str) : (rgTail g4).head?.all (fun c => !(decide (c ≠ '/'))) = true := by
  unfold rgTail
  split <;> simp

theorem rgRest_iff (r ver g4 : Str) :
    matchFinalRest r = some (ver, g4) ↔
      ver ≠ [] ∧ '/' ∉ ver ∧ noNewline g4 = true ∧ r = ver ++ rgTail g4 := by
  constructor
  · intro h
    unfold matchFinalRest at h
    simp only at h
    have hr : r = r.takeWhile (· ≠ '/') ++ r.drop (r.takeWhile (· ≠ '/')).length := by
      rw [rgDrop_takeWhile, List.takeWhile_append_dropWhile]
    have hns : '/' ∉ r.takeWhile (· ≠ '/') := by
      intro hm
      have := rgMem_takeWhile _ _ _ hm
      simp at this
    generalize r.takeWhile (· ≠ '/') = v at h hr hns
    generalize r.drop v.length = rem at h hr
    split at h
    · cases h
    · rename_i hv
      split at h
      · rename_i hrem
        cases h
        exact ⟨hv, hns, by decide, by rw [hr, hrem]; simp [rgTail]⟩
      · split at h
        · rename_i g
          split at h
          · rename_i hg
            cases h
            exact ⟨hv, hns, hg.2, by rw [hr]; simp [rgTail, hg.1]⟩
          · cases h
        · cases h
  · rintro ⟨hv, hns, hnl, rfl⟩
    have htw : (ver ++ rgTail g4).takeWhile (· ≠ '/') = ver :=
      rgTakeWhile_append _ ver (rgTail g4)
        (fun c hc => by simp only [ne_eq, decide_not, Bool.not_eq_eq_eq_not, Bool.not_true,
          decide_eq_false_iff_not]; exact fun e => hns (e ▸ hc))
        (rgTail_head g4)
    unfold matchFinalRest
    simp only [htw, List.drop_left, hv, if_false]
    unfold rgTail
    by_cases hg : g4 = []
    · simp [hg]
    · simp [hg, hnl]

/-! ## the scan for the last usable at-sign: matchFinalAt -/

/-- position `j` carries an `@` that the pattern can use: a newline-free prefix before it and
a well-shaped rest after it -/
def rgCand (s : Str) (j : Nat) (ver g4 : Str) : Prop :=
  (s.drop j).head? = some '@' ∧ noNewline (s.take j) = true ∧
    matchFinalRest (s.drop (j + 1)) = some (ver, g4)

theorem rgAt_succ (s : Str) (i : Nat) : matchFinalAt s (i + 1) =
    if (s.drop (i + 1)).head? = some '@' ∧ noNewline (s.take (i + 1)) = true then
      match matchFinalRest (s.drop (i + 2)) with
      | some (ver, g4) => some (s.take (i + 1), ver, g4)
      | none => matchFinalAt s i
    else matchFinalAt s i := rfl

theorem rgAt_sound (s : Str) : ∀ (n : Nat) (g1 ver g4 : Str), matchFinalAt s n = some (g1, ver, g4) →
    ∃ i, 0 < i ∧ i ≤ n ∧ g1 = s.take i ∧ rgCand s i ver g4 ∧
      ∀ j, i < j → j ≤ n → ∀ v' g', ¬ rgCand s j v' g' := by
  intro n
  induction n with
  | zero => intro g1 ver g4 h; cases h
  | succ n ih =>
    intro g1 ver g4 h
    have hrec : matchFinalAt s n = some (g1, ver, g4) →
        (∀ v' g', ¬ rgCand s (n + 1) v' g') →
        ∃ i, 0 < i ∧ i ≤ n + 1 ∧ g1 = s.take i ∧ rgCand s i ver g4 ∧
          ∀ j, i < j → j ≤ n + 1 → ∀ v' g', ¬ rgCand s j v' g' := by
      intro h' hno
      obtain ⟨i, h0, hle, e, hc, hmax⟩ := ih g1 ver g4 h'
      refine ⟨i, h0, by omega, e, hc, ?_⟩
      intro j hij hj v' g'
      by_cases hjn : j = n + 1
      · subst hjn; exact hno v' g'
      · exact hmax j hij (by omega) v' g'
    rw [rgAt_succ] at h
    split at h
    · rename_i hc
      split at h
      · rename_i v g hm
        cases h
        exact ⟨n + 1, by omega, Nat.le_refl _, rfl, ⟨hc.1, hc.2, hm⟩, fun j h1 h2 => by omega⟩
      · rename_i hm
        exact hrec h (fun v' g' hc' => by have := hc'.2.2; rw [show n + 1 + 1 = n + 2 from rfl, hm] at this; cases this)
    · rename_i hc
      exact hrec h (fun v' g' hc' => hc ⟨hc'.1, hc'.2.1⟩)

theorem rgAt_complete (s : Str) : ∀ (n i : Nat) (ver g4 : Str), 0 < i → i ≤ n → rgCand s i ver g4 →
    (∀ j, i < j → j ≤ n → ∀ v' g', ¬ rgCand s j v' g') →
    matchFinalAt s n = some (s.take i, ver, g4) := by
  intro n
  induction n with
  | zero => intro i ver g4 h0 hle; omega
  | succ n ih =>
    intro i ver g4 h0 hle hc hmax
    rw [rgAt_succ]
    by_cases hin : i = n + 1
    · subst hin
      have : (s.drop (n + 1)).head? = some '@' ∧ noNewline (s.take (n + 1)) = true := ⟨hc.1, hc.2.1⟩
      simp only [this, and_self, if_true]
      rw [hc.2.2]
    · have hrec := ih i ver g4 h0 (by omega) hc (fun j h1 h2 => hmax j h1 (by omega))
      split
      · rename_i hc'
        split
        · rename_i v g hm
          exact absurd ⟨hc'.1, hc'.2, hm⟩ (hmax (n + 1) (by omega) (Nat.le_refl _) v g)
        · exact hrec
      · exact hrec

/-! ## matchFinal against the declarative reading -/

/-- declarative reading of a match of `^(.+)@([^/]+)(//(.+))?$` with the given groups 1, 2, 4
(group 4 empty when the optional part is absent) -/
def rgFinalShape (s g1 ver g4 : Str) : Prop :=
  s = g1 ++ '@' :: ver ++ rgTail g4 ∧ g1 ≠ [] ∧ noNewline g1 = true ∧ ver ≠ [] ∧ '/' ∉ ver ∧
    noNewline g4 = true

theorem rgCand_shape (s : Str) (i : Nat) (ver g4 : Str) (h0 : 0 < i) (hc : rgCand s i ver g4) :
    rgFinalShape s (s.take i) ver g4 ∧ (s.take i).length = i := by
  obtain ⟨h1, h2, h3⟩ := hc
  obtain ⟨hv, hns, hnl, hr⟩ := (rgRest_iff _ _ _).mp h3
  cases hd : s.drop i with
  | nil => rw [hd] at h1; cases h1
  | cons x t =>
    rw [hd] at h1
    simp only [List.head?_cons, Option.some.injEq] at h1
    subst h1
    have ht : s.drop (i + 1) = t := by
      have : s.drop (i + 1) = (s.drop i).drop 1 := by rw [List.drop_drop]
      rw [this, hd]; rfl
    have hlt : i < s.length := by
      have : s.drop i ≠ [] := by rw [hd]; simp
      simpa using this
    have hlen : (s.take i).length = i := by simp [List.length_take]; omega
    refine ⟨⟨?_, ?_, h2, hv, hns, hnl⟩, hlen⟩
    · calc s = s.take i ++ s.drop i := (List.take_append_drop i s).symm
        _ = s.take i ++ '@' :: ver ++ rgTail g4 := by rw [hd, ← ht, hr]; simp
    · intro e
      rw [e] at hlen
      simp at hlen
      omega

theorem rgShape_cand (s g1 ver g4 : Str) (h : rgFinalShape s g1 ver g4) :
    0 < g1.length ∧ g1.length ≤ s.length ∧ s.take g1.length = g1 ∧ rgCand s g1.length ver g4 := by
  obtain ⟨e, hg, hgl, hv, hns, hnl⟩ := h
  have e1 : s = g1 ++ ('@' :: (ver ++ rgTail g4)) := by rw [e]; simp
  have e2 : s = (g1 ++ ['@']) ++ (ver ++ rgTail g4) := by rw [e]; simp
  have ht : s.take g1.length = g1 := by rw [e1]; exact List.take_left' rfl
  refine ⟨List.length_pos_iff.mpr hg, by rw [e1]; simp, ht, ?_, ?_, ?_⟩
  · rw [e1, List.drop_left' rfl]; rfl
  · rw [ht]; exact hgl
  · have : s.drop (g1.length + 1) = ver ++ rgTail g4 := by
      rw [e2]; exact List.drop_left' (by simp)
    rw [this]
    exact (rgRest_iff _ _ _).mpr ⟨hv, hns, hnl, rfl⟩

/-- correctness of the hand-written matcher against the declarative reading -/
theorem rgMatchFinal_spec (s g1 ver g4 : Str) :
    matchFinal s = some (g1, ver, g4) ↔
      rgFinalShape s g1 ver g4 ∧
        ∀ g1' ver' g4', rgFinalShape s g1' ver' g4' → g1'.length ≤ g1.length := by
  unfold matchFinal
  constructor
  · intro h
    obtain ⟨i, h0, hle, e, hc, hmax⟩ := rgAt_sound s _ _ _ _ h
    obtain ⟨hs, hlen⟩ := rgCand_shape s i ver g4 h0 hc
    subst e
    refine ⟨hs, ?_⟩
    intro g1' ver' g4' hs'
    obtain ⟨_, hle', _, hc'⟩ := rgShape_cand s g1' ver' g4' hs'
    rw [hlen]
    apply Nat.le_of_not_lt
    intro hlt
    exact hmax _ hlt hle' _ _ hc'
  · rintro ⟨hs, hmax⟩
    obtain ⟨h0, hle, ht, hc⟩ := rgShape_cand s g1 ver g4 hs
    have := rgAt_complete s s.length g1.length ver g4 h0 hle hc (by
      intro j hij _ v' g' hc'
      obtain ⟨hs', hlen⟩ := rgCand_shape s j v' g' (by omega) hc'
      have := hmax _ _ _ hs'
      omega)
    rw [this, ht]

theorem rgAt_none (s : Str) : ∀ n, matchFinalAt s n = none →
    ∀ j, 0 < j → j ≤ n → ∀ v g, ¬ rgCand s j v g := by
  intro n
  induction n with
  | zero => intro _ j h0 hle; omega
  | succ n ih =>
    intro h j h0 hle v g hc
    rw [rgAt_succ] at h
    by_cases hjn : j = n + 1
    · subst hjn
      have : (s.drop (n + 1)).head? = some '@' ∧ noNewline (s.take (n + 1)) = true := ⟨hc.1, hc.2.1⟩
      simp only [this, and_self, if_true] at h
      have h3 := hc.2.2
      rw [show n + 1 + 1 = n + 2 from rfl] at h3
      rw [h3] at h
      cases h
    · have hn : matchFinalAt s n = none := by
        split at h
        · split at h
          · cases h
          · exact h
        · exact h
      exact ih hn j h0 (by omega) v g hc

/-- no match: no reading at all -/
theorem rgMatchFinal_none (s : Str) (h : matchFinal s = none) (g1 ver g4 : Str) :
    ¬ rgFinalShape s g1 ver g4 := by
  intro hs
  obtain ⟨h0, hle, _, hc⟩ := rgShape_cand s g1 ver g4 hs
  exact rgAt_none s _ h _ h0 hle _ _ hc

/-! ## printed final addresses are matched with the intended groups -/

theorem rgSplitLater {α : Type} : ∀ (a a' b b' : List α) (x x' : α),
    a ++ x :: b = a' ++ x' :: b' → a.length < a'.length → ∃ m, b = m ++ x' :: b' := by
  intro a
  induction a with
  | nil =>
    intro a' b b' x x' e hl
    cases a' with
    | nil => simp at hl
    | cons y t =>
      simp only [List.nil_append, List.cons_append, List.cons.injEq] at e
      exact ⟨t, e.2⟩
  | cons h t ih =>
    intro a' b b' x x' e hl
    cases a' with
    | nil => simp at hl
    | cons y t' =>
      simp only [List.cons_append, List.cons.injEq] at e
      exact ih t' b b' x x' e.2 (by simpa using hl)

theorem rgPrintFinal_eq (pkg ver sub : Str) :
    printRegistryFinal pkg ver sub = pkg ++ '@' :: ver ++ rgTail sub := by
  unfold printRegistryFinal rgTail
  split <;> simp

theorem rgTail_nil : rgTail [] = [] := rfl
theorem rgTail_ne (g : Str) (h : g ≠ []) : rgTail g = '/' :: '/' :: g := by simp [rgTail, h]

theorem rgTail_not_at (g rest : Str) : rgTail g ≠ '@' :: rest := by
  unfold rgTail
  split <;> simp

/-- a printed final address is matched with the intended groups; the conditions on `@` are the
exact ones: in the version only as its last character, in the sub-path only where the rest of
the sub-path is empty or contains a `/` -/
theorem rgMatchPrint (pkg ver sub : Str) (hp : pkg ≠ []) (hpn : noNewline pkg = true)
    (hv : ver ≠ []) (hvs : '/' ∉ ver) (hsn : noNewline sub = true)
    (hss : indexOf ['/', '/'] sub = none)
    (hva : ∀ a b, ver = a ++ '@' :: b → b = [])
    (hsa : ∀ a b, sub = a ++ '@' :: b → b = [] ∨ '/' ∈ b) :
    matchFinal (printRegistryFinal pkg ver sub) = some (pkg, ver, sub) := by
  rw [rgPrintFinal_eq]
  apply (rgMatchFinal_spec _ _ _ _).mpr
  refine ⟨⟨rfl, hp, hpn, hv, hvs, hsn⟩, ?_⟩
  intro g1' ver' g4' ⟨e, _, _, hv', hvs', _⟩
  apply Nat.le_of_not_lt
  intro hlt
  have e1 : pkg ++ '@' :: (ver ++ rgTail sub) = g1' ++ '@' :: (ver' ++ rgTail g4') := by
    simpa using e
  obtain ⟨m, hm⟩ := rgSplitLater _ _ _ _ _ _ e1 hlt
  rcases List.append_eq_append_iff.mp hm with ⟨a'', _, h2⟩ | ⟨c', h1, h2⟩
  · -- the `@` lies in the sub-path
    by_cases hs : sub = []
    · subst hs; rw [rgTail_nil] at h2; simp at h2
    · rw [rgTail_ne sub hs] at h2
      match a'', h2 with
      | [], h2 => simp at h2
      | [x], h2 => simp at h2
      | x :: y :: z, h2 =>
        simp only [List.cons_append, List.cons.injEq] at h2
        rcases hsa z _ h2.2.2 with h | h
        · simp [hv'] at h
        · rcases List.mem_append.mp h with h | h
          · exact hvs' h
          · by_cases hg : g4' = []
            · subst hg; rw [rgTail_nil] at h; cases h
            · rw [rgTail_ne g4' hg] at h2
              apply (rgIndexOf_none_iff _ _).mp hss
              exact ⟨z ++ '@' :: ver', g4', by rw [h2.2.2]; simp⟩
  · -- the `@` lies in the version
    match c', h1, h2 with
    | [], _, h2 => exact rgTail_not_at _ _ h2.symm
    | c :: c'', h1, h2 =>
      simp only [List.cons_append, List.cons.injEq] at h2
      obtain ⟨hc, h2⟩ := h2
      subst hc
      have := hva m c'' h1
      subst this
      simp only [List.nil_append] at h2
      by_cases hs : sub = []
      · subst hs
        rw [rgTail_nil] at h2
        exact hv' (List.append_eq_nil_iff.mp h2).1
      · rw [rgTail_ne sub hs] at h2
        cases ver' with
        | nil => exact hv' rfl
        | cons v0 vt =>
          simp only [List.cons_append, List.cons.injEq] at h2
          exact hvs' (by rw [h2.1]; simp)

/-- simple sufficient condition for the two `@`-conditions -/
theorem rgNoAt_cond (x : Str) (h : '@' ∉ x) (a b : Str) (e : x = a ++ '@' :: b) : False :=
  h (by rw [e]; simp)

/-! ## edge white space and the local-looking test -/

theorem rgTrimLeft_len (s : Str) : (trimLeft s).length ≤ s.length := by
  induction s with
  | nil => simp [trimLeft]
  | cons x xs ih =>
    unfold trimLeft
    split
    · simp only [List.length_cons]; omega
    · exact Nat.le_refl _

theorem rgTrimLeft_of_noLead (s : Str) (h : rgNoLeadSp s) : trimLeft s = s := by
  cases s with
  | nil => rfl
  | cons x xs =>
    have := h x rfl
    simp [trimLeft, this]

theorem rgNoLead_of_len (s : Str) (h : s.length ≤ (trimLeft s).length) : rgNoLeadSp s := by
  intro c hc
  cases s with
  | nil => cases hc
  | cons x xs =>
    simp only [List.head?_cons, Option.some.injEq] at hc
    subst hc
    cases hx : isSpace x with
    | false => rfl
    | true =>
      exfalso
      have e : trimLeft (x :: xs) = trimLeft xs := by simp [trimLeft, hx]
      rw [e] at h
      have := rgTrimLeft_len xs
      simp only [List.length_cons] at h
      omega

theorem rgTrim_iff (s : Str) : trimSpace s = s ↔ rgNoLeadSp s ∧ rgNoTrailSp s := by
  unfold trimSpace
  constructor
  · intro h
    have hl := congrArg List.length h
    simp only [List.length_reverse] at hl
    have h1 := rgTrimLeft_len (trimLeft s).reverse
    have h2 := rgTrimLeft_len s
    simp only [List.length_reverse] at h1
    have hlead := rgNoLead_of_len s (by omega)
    refine ⟨hlead, ?_⟩
    rw [rgTrimLeft_of_noLead s hlead] at h
    have h3 : rgNoLeadSp s.reverse := rgNoLead_of_len _ (by
      have := congrArg List.length h
      simp only [List.length_reverse] at this
      simp only [List.length_reverse]; omega)
    intro c hc
    exact h3 c (by rw [List.head?_reverse]; exact hc)
  · rintro ⟨h1, h2⟩
    rw [rgTrimLeft_of_noLead s h1]
    have h3 : rgNoLeadSp s.reverse := by
      intro c hc
      rw [List.head?_reverse] at hc
      exact h2 c hc
    rw [rgTrimLeft_of_noLead _ h3, List.reverse_reverse]

/-- a package followed by anything without white space at its end has no edge white space -/
theorem rgTrim_append (p x : Str) (hp : p ≠ []) (ht : trimSpace p = p) (hx : rgNoTrailSp x) :
    trimSpace (p ++ x) = p ++ x := by
  obtain ⟨h1, h2⟩ := (rgTrim_iff p).mp ht
  apply (rgTrim_iff _).mpr
  constructor
  · intro c hc
    cases p with
    | nil => exact absurd rfl hp
    | cons y ys => exact h1 c (by simpa using hc)
  · intro c hc
    rw [List.getLast?_append] at hc
    cases hx' : x.getLast? with
    | none => rw [hx'] at hc; exact h2 c (by simpa using hc)
    | some d => rw [hx'] at hc; simp only [Option.some_or, Option.some.injEq] at hc; subst hc; exact hx d hx'

theorem rgNotLocal_append (p x : Str) (hp : p ≠ []) (hl : looksLikeLocal p = false)
    (hd : p ≠ dot) (hdd : p ≠ dotdot) :
    looksLikeLocal (p ++ x) = false ∧ p ++ x ≠ dot ∧ p ++ x ≠ dotdot := by
  unfold looksLikeLocal hasPrefix dot dotdot at *
  match p, hp, hl, hd, hdd with
  | [c], _, hl, hd, hdd =>
    have h1 : c ≠ '.' := fun e => hd (by rw [e])
    have h2 : ¬ '.' = c := fun e => h1 e.symm
    cases x <;> simp [List.isPrefixOf, h1, h2]
  | [c, d], _, hl, hd, hdd =>
    by_cases hc : c = '.'
    · subst hc
      have h1 : d ≠ '.' := fun e => hdd (by rw [e])
      have h2 : ¬ '.' = d := fun e => h1 e.symm
      have h3 : d ≠ '/' := by
        intro e; subst e; simp [List.isPrefixOf] at hl
      have h4 : ¬ '/' = d := fun e => h3 e.symm
      cases x <;> simp [List.isPrefixOf, h1, h2, h4]
    · have h2 : ¬ '.' = c := fun e => hc e.symm
      cases x <;> simp [List.isPrefixOf, hc, h2]
  | c :: d :: e :: r, _, hl, hd, hdd =>
    simp [List.isPrefixOf] at hl ⊢
    exact hl

/-! ## printing, dispatch and the final address -/

theorem rgPrint_eq (pkg sub : Str) : printRegistry pkg sub = pkg ++ rgTail sub := by
  unfold printRegistry rgTail
  split <;> simp

theorem rgNoTrail_tail (sub : Str) (h : rgNoTrailSp sub) : rgNoTrailSp (rgTail sub) := by
  by_cases hs : sub = []
  · subst hs; intro c hc; cases hc
  · rw [rgTail_ne sub hs]
    intro c hc
    apply h c
    rw [← hc]
    cases sub with
    | nil => exact absurd rfl hs
    | cons x t => simp [List.getLast?_cons_cons]

theorem rgNoTrail_final (ver sub : Str) (hv : ver ≠ []) (h1 : rgNoTrailSp ver) (h2 : rgNoTrailSp sub) :
    rgNoTrailSp ('@' :: ver ++ rgTail sub) := by
  intro c hc
  rw [List.getLast?_append] at hc
  cases hx : (rgTail sub).getLast? with
  | some d =>
    rw [hx] at hc
    simp only [Option.some_or, Option.some.injEq] at hc
    subst hc
    exact rgNoTrail_tail sub h2 d hx
  | none =>
    rw [hx] at hc
    simp only [Option.none_or] at hc
    apply h1 c
    rw [← hc]
    cases ver with
    | nil => exact absurd rfl hv
    | cons x t => simp [List.getLast?_cons_cons]

/-- the dispatch of `ParseSource` / `ParseFinalSource` for a string that starts with a printed
package and has no white space at its end: never rejected, never local -/
theorem rgDispatch_pre {IsPkg : Str → Prop} (D : RegLawsDispatch IsPkg) (pkg x : Str)
    (hp : IsPkg pkg) (hx : rgNoTrailSp x) :
    trimSpace (pkg ++ x) = pkg ++ x ∧ pkg ++ x ≠ [] ∧
      (looksLikeLocal (pkg ++ x) || pkg ++ x = dot || pkg ++ x = dotdot) = false := by
  have hne := D.nonempty pkg hp
  obtain ⟨h1, h2, h3⟩ := rgNotLocal_append pkg x hne (D.not_local pkg hp) (D.not_dot pkg hp)
    (D.not_dotdot pkg hp)
  refine ⟨rgTrim_append pkg x hne (D.no_edge_space pkg hp) hx, ?_, ?_⟩
  · intro e; exact hne (List.append_eq_nil_iff.mp e).1
  · simp [h1, h2, h3]

theorem rgFinalAddr_print (pkg ver sub : Str) (h : matchFinal (printRegistryFinal pkg ver sub) = some (pkg, ver, sub)) :
    finalAddrOf (printRegistryFinal pkg ver sub) = (pkg ++ '/' :: '/' :: sub, ver) := by
  unfold finalAddrOf
  rw [h]

theorem rgNoNewline_iff (s : Str) : noNewline s = true ↔ '\n' ∉ s := by
  unfold noNewline
  simp

theorem rgFinalAddr_nl (s : Str) : '\n' ∉ (finalAddrOf s).1 := by
  unfold finalAddrOf
  cases h : matchFinal s with
  | none => simp
  | some t =>
    obtain ⟨g1, ver, g4⟩ := t
    obtain ⟨⟨_, _, h1, _, _, h4⟩, _⟩ := (rgMatchFinal_spec s g1 ver g4).mp h
    rw [rgNoNewline_iff] at h1 h4
    simp only [List.mem_append, List.mem_cons, not_or]
    exact ⟨h1, by decide, by decide, h4⟩

theorem rgParseFinal_ok {o : RegOracle} {s pkg ver sub : Str}
    (h : parseFinalRegistrySource o s = .ok (pkg, ver, sub)) :
    o.verParse (finalAddrOf s).2 = some ver ∧ parseRegistrySource o (finalAddrOf s).1 = .ok (pkg, sub) := by
  unfold parseFinalRegistrySource at h
  simp only at h
  split at h
  · cases h
  · rename_i v hv
    split at h
    · rename_i p sb hr
      cases h
      exact ⟨hv, hr⟩
    · cases h
    · cases h

end Slug
