import SlugModel.Spec.Reach
/-!
# Lemmas/BuilderTerm — the queue loop as a step relation, and its termination

Part 1 (`Step`, `drain_step`, `drain_inv`): `drain` is the iteration of a seven-case step relation
with explicit successor states; every invariant of the loop is proved case by case on `Step`.
Part 2: the measure that decreases on every step, hence a fuel bound depending on the world only.
-/
namespace Slug

/-! ## 0. association lists -/

theorem assoc_mem {α β : Type} [DecidableEq α] {l : List (α × β)} {k : α} {v : β}
    (h : assoc l k = some v) : (k, v) ∈ l := by
  induction l with
  | nil => simp [assoc] at h
  | cons x r ih =>
    obtain ⟨a, b⟩ := x
    simp only [assoc] at h
    split at h
    · rename_i hak
      cases h; subst hak; exact List.mem_cons_self
    · exact List.mem_cons_of_mem _ (ih h)

@[simp] theorem assoc_nil {α β : Type} [DecidableEq α] (k : α) : assoc ([] : List (α × β)) k = none := rfl

theorem assoc_cons {α β : Type} [DecidableEq α] (a : α) (b : β) (r : List (α × β)) (k : α) :
    assoc ((a, b) :: r) k = if a = k then some b else assoc r k := rfl

/-! ## 1. what `applyDecls` pushes -/

/-- the remote artefacts a finder report queues (relative references joined onto the base) -/
def remotePushes (base : RemoteSrc) : List Decl → List Art
  | [] => []
  | .remote s f :: r => (s, f) :: remotePushes base r
  | .registry _ _ _ :: r => remotePushes base r
  | .loc rel f :: r =>
    match joinSubPath base.sub rel with
    | some sub => ({ pkg := base.pkg, sub := sub }, f) :: remotePushes base r
    | none => remotePushes base r
  | .diag _ _ _ :: r => remotePushes base r

/-- the registry requests a finder report queues -/
def regPushes : List Decl → List RegReq
  | [] => []
  | .remote _ _ :: r => regPushes r
  | .registry rs al f :: r => (rs, al, f) :: regPushes r
  | .loc _ _ :: r => regPushes r
  | .diag _ _ _ :: r => regPushes r

def relErr (p : PkgAddr) : Diag :=
  { isError := true, kind := 2, summary := [], file := [], rewritten := false, pkg := p }

def regErr (p : PkgAddr) : Diag :=
  { isError := true, kind := 0, summary := [], file := [], rewritten := false, pkg := p }

def fetchErr (p : PkgAddr) : Diag :=
  { isError := true, kind := 1, summary := [], file := [], rewritten := false, pkg := p }

/-- the "escapes the package" diagnostics of a finder report -/
def relErrs (base : RemoteSrc) : List Decl → List Diag
  | [] => []
  | .remote _ _ :: r => relErrs base r
  | .registry _ _ _ :: r => relErrs base r
  | .loc rel _ :: r =>
    match joinSubPath base.sub rel with
    | some _ => relErrs base r
    | none => relErr base.pkg :: relErrs base r
  | .diag _ _ _ :: r => relErrs base r

theorem applyDecls_eq (base : RemoteSrc) (decls : List Decl) (st : BState) (ds : List Diag) :
    applyDecls base decls st ds =
      ({ st with pendingRemote := st.pendingRemote ++ remotePushes base decls,
                 pendingRegistry := st.pendingRegistry ++ regPushes decls },
       ds ++ relErrs base decls) := by
  induction decls generalizing st ds with
  | nil => simp [applyDecls, remotePushes, regPushes, relErrs]
  | cons d r ih =>
    cases d with
    | remote s f => simp [applyDecls, remotePushes, regPushes, relErrs, ih]
    | registry rs al f => simp [applyDecls, remotePushes, regPushes, relErrs, ih]
    | loc rel f =>
      simp only [applyDecls, remotePushes, regPushes, relErrs]
      cases joinSubPath base.sub rel with
      | none => simp [ih, relErr]
      | some sub => simp [ih]
    | diag e s f => simp [applyDecls, remotePushes, regPushes, relErrs, ih]

theorem pushes_length (base : RemoteSrc) (decls : List Decl) :
    (remotePushes base decls).length + (regPushes decls).length ≤ decls.length := by
  induction decls with
  | nil => simp [remotePushes, regPushes]
  | cons d r ih =>
    cases d with
    | remote s f => simp [remotePushes, regPushes]; omega
    | registry rs al f => simp [remotePushes, regPushes]; omega
    | loc rel f =>
      simp only [remotePushes, regPushes]
      cases joinSubPath base.sub rel <;> simp <;> omega
    | diag e s f => simp [remotePushes, regPushes]; omega

/-! ## 2. the step relation -/

/-- the state after analysing `(src, f)` in `st1` with finder report `decls` -/
def analysedState (st1 : BState) (src : RemoteSrc) (f : FinderId) (decls : List Decl) : BState :=
  { st1 with
    pendingRemote := st1.pendingRemote ++ remotePushes src decls,
    pendingRegistry := st1.pendingRegistry ++ regPushes decls,
    analyzed := (src, f) :: st1.analyzed,
    log := if (finderDiags src.pkg decls).isEmpty then .analyse src f :: st1.log
           else .traceDiags (finderDiags src.pkg decls).length :: .analyse src f :: st1.log }

/-- one iteration of `resolvePending`'s loops -/
inductive Step (w : World) : Bool → BState → List Diag → Bool → BState → List Diag → Prop
  | regEmpty (st : BState) (ds : List Diag) :
      st.pendingRegistry = [] → Step w false st ds true st ds
  | regFail (st : BState) (ds : List Diag) (q : List RegReq) (rs : RegSrc) (al : List VerS)
      (f : FinderId) (st1 : BState) :
      st.pendingRegistry = q ++ [(rs, al, f)] →
      findRegistrySource w { st with pendingRegistry := q } rs al = (st1, none) →
      Step w false st ds false st1 (ds ++ [regErr rs.pkg])
  | regOk (st : BState) (ds : List Diag) (q : List RegReq) (rs : RegSrc) (al : List VerS)
      (f : FinderId) (st1 : BState) (real : RemoteSrc) :
      st.pendingRegistry = q ++ [(rs, al, f)] →
      findRegistrySource w { st with pendingRegistry := q } rs al = (st1, some real) →
      Step w false st ds false { st1 with pendingRemote := st1.pendingRemote ++ [(real, f)] } ds
  | switch (st : BState) (ds : List Diag) :
      st.pendingRemote = [] → st.pendingRegistry ≠ [] → Step w true st ds false st ds
  | fetchFail (st : BState) (ds : List Diag) (q : List Art) (src : RemoteSrc) (f : FinderId)
      (st1 : BState) :
      st.pendingRemote = q ++ [(src, f)] →
      ensurePackage w { st with pendingRemote := q } src.pkg = (st1, none) →
      Step w true st ds true st1 (ds ++ [fetchErr src.pkg])
  | skip (st : BState) (ds : List Diag) (q : List Art) (src : RemoteSrc) (f : FinderId)
      (st1 : BState) (c : ContentId) :
      st.pendingRemote = q ++ [(src, f)] →
      ensurePackage w { st with pendingRemote := q } src.pkg = (st1, some c) →
      (src, f) ∈ st1.analyzed →
      Step w true st ds true st1 ds
  | analyse (st : BState) (ds : List Diag) (q : List Art) (src : RemoteSrc) (f : FinderId)
      (st1 : BState) (c : ContentId) (decls : List Decl) :
      st.pendingRemote = q ++ [(src, f)] →
      ensurePackage w { st with pendingRemote := q } src.pkg = (st1, some c) →
      (src, f) ∉ st1.analyzed →
      decls = (assoc w.deps (c, src.sub, f)).getD [] →
      Step w true st ds true (analysedState st1 src f decls)
        (ds ++ relErrs src decls ++ finderDiags src.pkg decls)

/-- `drain` either stops (phase B, both queues empty) or performs one `Step` -/
theorem drain_step (w : World) (ph : Bool) (st : BState) (ds : List Diag) :
    (ph = true ∧ st.pendingRemote = [] ∧ st.pendingRegistry = [] ∧
      ∀ n, drain w (n + 1) ph st ds = .done st ds) ∨
    (∃ ph' st' ds', Step w ph st ds ph' st' ds' ∧
      ∀ n, drain w (n + 1) ph st ds = drain w n ph' st' ds') := by
  cases ph with
  | false =>
    right
    cases hq : st.pendingRegistry.getLast? with
    | none =>
      refine ⟨true, st, ds, .regEmpty st ds (List.getLast?_eq_none_iff.mp hq), fun n => ?_⟩
      simp only [drain, hq]
    | some x =>
      obtain ⟨rs, al, f⟩ := x
      obtain ⟨q, hq'⟩ := List.getLast?_eq_some_iff.mp hq
      have hdl : st.pendingRegistry.dropLast = q := by rw [hq']; exact List.dropLast_concat
      cases hf : findRegistrySource w { st with pendingRegistry := q } rs al with
      | mk st1 r =>
        cases r with
        | none =>
          refine ⟨false, st1, _, .regFail st ds q rs al f st1 hq' hf, fun n => ?_⟩
          simp only [drain, hq, hdl, hf, regErr]
        | some real =>
          refine ⟨false, _, ds, .regOk st ds q rs al f st1 real hq' hf, fun n => ?_⟩
          simp only [drain, hq, hdl, hf]
  | true =>
    cases hq : st.pendingRemote.getLast? with
    | none =>
      have hr := List.getLast?_eq_none_iff.mp hq
      by_cases hg : st.pendingRegistry = []
      · left
        refine ⟨rfl, hr, hg, fun n => ?_⟩
        simp [drain, hq, hg]
      · right
        refine ⟨false, st, ds, .switch st ds hr hg, fun n => ?_⟩
        simp [drain, hq, hg]
    | some x =>
      right
      obtain ⟨src, f⟩ := x
      obtain ⟨q, hq'⟩ := List.getLast?_eq_some_iff.mp hq
      have hdl : st.pendingRemote.dropLast = q := by rw [hq']; exact List.dropLast_concat
      cases hf : ensurePackage w { st with pendingRemote := q } src.pkg with
      | mk st1 r =>
        cases r with
        | none =>
          refine ⟨true, st1, _, .fetchFail st ds q src f st1 hq' hf, fun n => ?_⟩
          simp only [drain, hq, hdl, hf, fetchErr]
        | some c =>
          by_cases ha : (src, f) ∈ st1.analyzed
          · refine ⟨true, st1, ds, .skip st ds q src f st1 c hq' hf ha, fun n => ?_⟩
            simp [drain, hq, hdl, hf, ha]
          · refine ⟨true, _, _, .analyse st ds q src f st1 c _ hq' hf ha rfl, fun n => ?_⟩
            simp only [drain, hq, hdl, hf, List.contains_iff_mem, ha, applyDecls_eq]
            simp only [analysedState, List.append_assoc]
            by_cases h : (finderDiags src.pkg ((assoc w.deps (c, src.sub, f)).getD [])).isEmpty = true <;>
              simp [h]

theorem drain_zero (w : World) (ph : Bool) (st : BState) (ds : List Diag) :
    drain w 0 ph st ds = .diverged := by
  cases ph <;> rfl

/-- a property preserved by every `Step` holds when the loop is done; both queues are then empty -/
theorem drain_inv (w : World) (I : Bool → BState → List Diag → Prop)
    (hI : ∀ ph st ds ph' st' ds', Step w ph st ds ph' st' ds' → I ph st ds → I ph' st' ds') :
    ∀ n ph st ds st' ds', I ph st ds → drain w n ph st ds = .done st' ds' →
      I true st' ds' ∧ st'.pendingRemote = [] ∧ st'.pendingRegistry = [] := by
  intro n
  induction n with
  | zero => intro ph st ds st' ds' _ h; rw [drain_zero] at h; cases h
  | succ n ih =>
    intro ph st ds st' ds' hi h
    rcases drain_step w ph st ds with ⟨rfl, h1, h2, h3⟩ | ⟨ph', st1, ds1, hs, h3⟩
    · rw [h3] at h; cases h; exact ⟨hi, h1, h2⟩
    · rw [h3] at h; exact ih _ _ _ _ _ (hI _ _ _ _ _ _ hs hi) h

/-- more fuel does not change a finished run -/
theorem drain_mono (w : World) : ∀ n k ph st ds st' ds',
    drain w n ph st ds = .done st' ds' → drain w (n + k) ph st ds = .done st' ds' := by
  intro n
  induction n with
  | zero => intro k ph st ds st' ds' h; rw [drain_zero] at h; cases h
  | succ n ih =>
    intro k ph st ds st' ds' h
    have e : n + 1 + k = (n + k) + 1 := by omega
    rw [e]
    rcases drain_step w ph st ds with ⟨_, _, _, h3⟩ | ⟨ph', st1, ds1, _, h3⟩
    · rw [h3] at h ⊢; exact h
    · rw [h3] at h ⊢; exact ih k _ _ _ _ _ h

/-! ## 3. frames of the two memoised calls -/

/-- the three ways `ensurePackage` can go -/
theorem ensurePackage_cases {w : World} {st st1 : BState} {p : PkgAddr} {r : Option ContentId}
    (h : ensurePackage w st p = (st1, r)) :
    (∃ d l, assoc st.pkgDirs p = some d ∧ r = some d ∧ st1 = { st with log := l }) ∨
    (∃ c pm l, assoc st.pkgDirs p = none ∧ assoc w.fetch p = some (some (c, pm)) ∧ r = some c ∧
      st1 = { st with pkgDirs := (p, c) :: st.pkgDirs,
                      pkgMeta := (match pm with | some m => (p, m) :: st.pkgMeta | none => st.pkgMeta),
                      log := l }) ∨
    (∃ l, assoc st.pkgDirs p = none ∧ fetchContent w p = none ∧ r = none ∧
      st1 = { st with log := l }) := by
  unfold ensurePackage at h
  split at h
  · rename_i d hd
    cases h; exact Or.inl ⟨d, _, hd, rfl, rfl⟩
  · rename_i hd
    split at h
    · rename_i c pm hf
      cases h; exact Or.inr (Or.inl ⟨c, pm, _, hd, hf, rfl, rfl⟩)
    · rename_i hf
      cases h
      refine Or.inr (Or.inr ⟨_, hd, ?_, rfl, rfl⟩)
      unfold fetchContent
      split
      · rename_i c pm hf'; exact absurd hf' (hf c pm)
      · rfl

theorem ensurePackage_frame {w : World} {st st1 : BState} {p : PkgAddr} {r : Option ContentId}
    (h : ensurePackage w st p = (st1, r)) :
    st1.pendingRemote = st.pendingRemote ∧ st1.pendingRegistry = st.pendingRegistry ∧
    st1.analyzed = st.analyzed ∧ st1.resolved = st.resolved ∧ st1.deprec = st.deprec ∧
    st1.regVersions = st.regVersions ∧ st1.poisoned = st.poisoned := by
  rcases ensurePackage_cases h with ⟨_, _, _, _, rfl⟩ | ⟨_, _, _, _, _, _, rfl⟩ | ⟨_, _, _, _, rfl⟩ <;> simp

/-- first half of `findRegistrySource`: the version listing, cached per registry package -/
def listVersions (w : World) (st : BState) (p : RegPkg) : BState × Option (List VerInfo) :=
  match assoc st.regVersions p with
  | some vs => ({ st with log := .versAlready p :: st.log }, some vs)
  | none =>
    match assoc w.versions p with
    | some (some vs) =>
      ({ st with regVersions := (p, vs) :: st.regVersions,
                 log := .versOk p :: .versCall p :: .versStart p :: st.log }, some vs)
    | _ =>
      ({ st with log := .versFail p :: .versCall p :: .versStart p :: st.log }, none)

/-- the deprecation recorded for a selected version -/
def depOf (vs : List VerInfo) (sel : VerInfo) : Option (Str × Str) :=
  match vs.find? (fun v => v.ver = sel.ver) with
  | some v => v.deprecation
  | none => none

/-- second half of `findRegistrySource`: the real source of the selected version, cached per
(package, version) -/
def lookupSource (w : World) (st1 : BState) (vs : List VerInfo) (p : RegPkg) (sel : VerInfo) :
    BState × Option RemoteSrc :=
  match assoc st1.resolved (p, sel.ver) with
  | some real => ({ st1 with log := .srcAlready p sel.ver :: st1.log }, some real)
  | none =>
    match assoc w.sources (p, sel.ver) with
    | some (some real) =>
      ({ st1 with resolved := ((p, sel.ver), real) :: st1.resolved,
                  deprec := ((p, sel.ver), depOf vs sel) :: st1.deprec,
                  log := .srcOk p sel.ver :: .srcCall p sel.ver :: .srcStart p sel.ver :: st1.log },
       some real)
    | _ =>
      ({ st1 with log := .srcFail p sel.ver :: .srcCall p sel.ver :: .srcStart p sel.ver :: st1.log },
       none)

theorem findRegistrySource_eq (w : World) (st : BState) (rs : RegSrc) (al : List VerS) :
    findRegistrySource w st rs al =
      match listVersions w st rs.pkg with
      | (st1, none) => (st1, none)
      | (st1, some vs) =>
        match selectVersion vs al with
        | none => (st1, none)
        | some sel =>
          match lookupSource w st1 vs rs.pkg sel with
          | (st2, none) => (st2, none)
          | (st2, some real) =>
            (st2, some { pkg := real.pkg, sub := finalSourceSub rs.sub real.sub }) := rfl

/-- the three ways `listVersions` can go -/
theorem listVersions_cases {w : World} {st st1 : BState} {p : RegPkg} {o : Option (List VerInfo)}
    (h : listVersions w st p = (st1, o)) :
    (∃ vs l, assoc st.regVersions p = some vs ∧ o = some vs ∧ st1 = { st with log := l }) ∨
    (∃ vs l, assoc st.regVersions p = none ∧ assoc w.versions p = some (some vs) ∧ o = some vs ∧
      st1 = { st with regVersions := (p, vs) :: st.regVersions, log := l }) ∨
    (∃ l, assoc st.regVersions p = none ∧ (∀ vs, assoc w.versions p ≠ some (some vs)) ∧ o = none ∧
      st1 = { st with log := l }) := by
  unfold listVersions at h
  split at h
  · rename_i vs hv
    cases h; exact Or.inl ⟨vs, _, hv, rfl, rfl⟩
  · rename_i hv
    split at h
    · rename_i vs hw
      cases h; exact Or.inr (Or.inl ⟨vs, _, hv, hw, rfl, rfl⟩)
    · rename_i hw
      cases h; exact Or.inr (Or.inr ⟨_, hv, hw, rfl, rfl⟩)

/-- the three ways `lookupSource` can go -/
theorem lookupSource_cases {w : World} {st1 st2 : BState} {vs : List VerInfo} {p : RegPkg}
    {sel : VerInfo} {o : Option RemoteSrc} (h : lookupSource w st1 vs p sel = (st2, o)) :
    (∃ real l, assoc st1.resolved (p, sel.ver) = some real ∧ o = some real ∧
      st2 = { st1 with log := l }) ∨
    (∃ real l, assoc st1.resolved (p, sel.ver) = none ∧
      assoc w.sources (p, sel.ver) = some (some real) ∧ o = some real ∧
      st2 = { st1 with resolved := ((p, sel.ver), real) :: st1.resolved,
                       deprec := ((p, sel.ver), depOf vs sel) :: st1.deprec, log := l }) ∨
    (∃ l, assoc st1.resolved (p, sel.ver) = none ∧
      (∀ real, assoc w.sources (p, sel.ver) ≠ some (some real)) ∧ o = none ∧
      st2 = { st1 with log := l }) := by
  unfold lookupSource at h
  split at h
  · rename_i real hv
    cases h; exact Or.inl ⟨real, _, hv, rfl, rfl⟩
  · rename_i hv
    split at h
    · rename_i real hw
      cases h; exact Or.inr (Or.inl ⟨real, _, hv, hw, rfl, rfl⟩)
    · rename_i hw
      cases h; exact Or.inr (Or.inr ⟨_, hv, hw, rfl, rfl⟩)

/-- `findRegistrySource` as its two halves -/
theorem findRegistrySource_cases {w : World} {st st2 : BState} {rs : RegSrc} {al : List VerS}
    {r : Option RemoteSrc} (h : findRegistrySource w st rs al = (st2, r)) :
    ∃ st1 o, listVersions w st rs.pkg = (st1, o) ∧
      ((o = none ∧ st2 = st1 ∧ r = none) ∨
       (∃ vs, o = some vs ∧ selectVersion vs al = none ∧ st2 = st1 ∧ r = none) ∨
       (∃ vs sel o2, o = some vs ∧ selectVersion vs al = some sel ∧
          lookupSource w st1 vs rs.pkg sel = (st2, o2) ∧
          r = o2.map fun real => { pkg := real.pkg, sub := finalSourceSub rs.sub real.sub })) := by
  rw [findRegistrySource_eq] at h
  cases h1 : listVersions w st rs.pkg with
  | mk st1 o =>
    refine ⟨st1, o, rfl, ?_⟩
    rw [h1] at h
    cases o with
    | none => cases h; exact Or.inl ⟨rfl, rfl, rfl⟩
    | some vs =>
      simp only at h
      cases h2 : selectVersion vs al with
      | none => rw [h2] at h; cases h; exact Or.inr (Or.inl ⟨vs, rfl, h2, rfl, rfl⟩)
      | some sel =>
        rw [h2] at h
        simp only at h
        cases h3 : lookupSource w st1 vs rs.pkg sel with
        | mk st2' o2 =>
          rw [h3] at h
          cases o2 with
          | none => cases h; exact Or.inr (Or.inr ⟨vs, sel, none, rfl, h2, h3, rfl⟩)
          | some real => cases h; exact Or.inr (Or.inr ⟨vs, sel, some real, rfl, h2, h3, rfl⟩)

theorem listVersions_frame {w : World} {st st1 : BState} {p : RegPkg} {o : Option (List VerInfo)}
    (h : listVersions w st p = (st1, o)) :
    st1.pendingRemote = st.pendingRemote ∧ st1.pendingRegistry = st.pendingRegistry ∧
    st1.analyzed = st.analyzed ∧ st1.pkgDirs = st.pkgDirs ∧ st1.pkgMeta = st.pkgMeta ∧
    st1.poisoned = st.poisoned ∧ st1.resolved = st.resolved ∧ st1.deprec = st.deprec := by
  rcases listVersions_cases h with ⟨_, _, _, _, rfl⟩ | ⟨_, _, _, _, _, rfl⟩ | ⟨_, _, _, _, rfl⟩ <;> simp

theorem lookupSource_frame {w : World} {st1 st2 : BState} {vs : List VerInfo} {p : RegPkg}
    {sel : VerInfo} {o : Option RemoteSrc} (h : lookupSource w st1 vs p sel = (st2, o)) :
    st2.pendingRemote = st1.pendingRemote ∧ st2.pendingRegistry = st1.pendingRegistry ∧
    st2.analyzed = st1.analyzed ∧ st2.pkgDirs = st1.pkgDirs ∧ st2.pkgMeta = st1.pkgMeta ∧
    st2.poisoned = st1.poisoned ∧ st2.regVersions = st1.regVersions := by
  rcases lookupSource_cases h with ⟨_, _, _, _, rfl⟩ | ⟨_, _, _, _, _, rfl⟩ | ⟨_, _, _, _, rfl⟩ <;> simp

theorem findRegistrySource_frame {w : World} {st st1 : BState} {rs : RegSrc} {al : List VerS}
    {r : Option RemoteSrc} (h : findRegistrySource w st rs al = (st1, r)) :
    st1.pendingRemote = st.pendingRemote ∧ st1.pendingRegistry = st.pendingRegistry ∧
    st1.analyzed = st.analyzed ∧ st1.pkgDirs = st.pkgDirs ∧ st1.pkgMeta = st.pkgMeta ∧
    st1.poisoned = st.poisoned := by
  obtain ⟨sa, o, h1, h2⟩ := findRegistrySource_cases h
  have f1 := listVersions_frame h1
  rcases h2 with ⟨_, rfl, _⟩ | ⟨_, _, _, rfl, _⟩ | ⟨vs, sel, o2, _, _, h3, _⟩
  · exact ⟨f1.1, f1.2.1, f1.2.2.1, f1.2.2.2.1, f1.2.2.2.2.1, f1.2.2.2.2.2.1⟩
  · exact ⟨f1.1, f1.2.1, f1.2.2.1, f1.2.2.2.1, f1.2.2.2.2.1, f1.2.2.2.2.2.1⟩
  · have f2 := lookupSource_frame h3
    exact ⟨f2.1.trans f1.1, f2.2.1.trans f1.2.1, f2.2.2.1.trans f1.2.2.1,
      f2.2.2.2.1.trans f1.2.2.2.1, f2.2.2.2.2.1.trans f1.2.2.2.2.1,
      f2.2.2.2.2.2.1.trans f1.2.2.2.2.2.1⟩

/-! ## 4. termination -/

/-- the package directory table only holds what the fetcher returned -/
def DirsCoh (w : World) (st : BState) : Prop :=
  ∀ p c, assoc st.pkgDirs p = some c → fetchContent w p = some c

theorem fetchContent_of_assoc {w : World} {p : PkgAddr} {c : ContentId} {pm : Option (Str × Str)}
    (h : assoc w.fetch p = some (some (c, pm))) : fetchContent w p = some c := by
  simp [fetchContent, h]

theorem fetchContent_some {w : World} {p : PkgAddr} {c : ContentId}
    (h : fetchContent w p = some c) : ∃ pm, assoc w.fetch p = some (some (c, pm)) := by
  unfold fetchContent at h
  split at h
  · rename_i c' pm hf; cases h; exact ⟨pm, hf⟩
  · cases h

theorem DirsCoh.ensure {w : World} {st st1 : BState} {p : PkgAddr} {r : Option ContentId}
    (hc : DirsCoh w st) (h : ensurePackage w st p = (st1, r)) :
    DirsCoh w st1 ∧ ∀ c, r = some c → fetchContent w p = some c := by
  rcases ensurePackage_cases h with ⟨d, l, hd, rfl, rfl⟩ | ⟨c, pm, l, hd, hf, rfl, rfl⟩ |
      ⟨l, hd, hf, rfl, rfl⟩
  · refine ⟨fun q c hq => hc q c hq, fun c hc' => ?_⟩
    cases hc'; exact hc p d hd
  · refine ⟨fun q c' hq => ?_, fun c' hc' => ?_⟩
    · simp only [assoc_cons] at hq
      split at hq
      · rename_i hpq; subst hpq; cases hq; exact fetchContent_of_assoc hf
      · exact hc q c' hq
    · cases hc'; exact fetchContent_of_assoc hf
  · exact ⟨fun q c hq => hc q c hq, fun c hc' => by cases hc'⟩

/-- the artefacts that can push anything when analysed: one per row of the dependency table and
package with that row's content -/
def pushers (w : World) : List Art :=
  w.deps.flatMap fun row =>
    w.fetch.filterMap fun e =>
      match e.2 with
      | some (c, _) =>
        if c = row.1.1 then some ({ pkg := e.1, sub := row.1.2.1 }, row.1.2.2) else none
      | none => none

theorem mem_pushers {w : World} {p : PkgAddr} {c : ContentId} {sub : Str} {f : FinderId}
    {decls : List Decl} (hf : fetchContent w p = some c)
    (hd : assoc w.deps (c, sub, f) = some decls) : ({ pkg := p, sub := sub }, f) ∈ pushers w := by
  obtain ⟨pm, hf'⟩ := fetchContent_some hf
  unfold pushers
  rw [List.mem_flatMap]
  refine ⟨((c, sub, f), decls), assoc_mem hd, ?_⟩
  rw [List.mem_filterMap]
  exact ⟨(p, some (c, pm)), assoc_mem hf', by simp⟩

/-- the longest finder report in the world -/
def maxDecls (w : World) : Nat := w.deps.foldr (fun row m => max row.2.length m) 0

theorem le_maxDecls_aux {α : Type} (l : List (α × List Decl)) (x : α × List Decl) (h : x ∈ l) :
    x.2.length ≤ l.foldr (fun row m => max row.2.length m) 0 := by
  induction l with
  | nil => cases h
  | cons y r ih =>
    simp only [List.foldr_cons]
    rcases List.mem_cons.mp h with rfl | h
    · exact Nat.le_max_left _ _
    · exact Nat.le_trans (ih h) (Nat.le_max_right _ _)

theorem le_maxDecls {w : World} {k : ContentId × Str × FinderId} {decls : List Decl}
    (h : assoc w.deps k = some decls) : decls.length ≤ maxDecls w :=
  le_maxDecls_aux w.deps (k, decls) (assoc_mem h)

theorem filter_length_le {α : Type} (p q : α → Bool) (hpq : ∀ x, q x = true → p x = true)
    (U : List α) : (U.filter q).length ≤ (U.filter p).length := by
  induction U with
  | nil => simp
  | cons u us ih =>
    simp only [List.filter_cons]
    cases hq : q u with
    | false => cases hp : p u <;> simp <;> omega
    | true => simp [hpq u hq]; exact ih

theorem filter_length_lt {α : Type} (p q : α → Bool) (hpq : ∀ x, q x = true → p x = true)
    (U : List α) (a : α) (ha : a ∈ U) (hpa : p a = true) (hqa : q a = false) :
    (U.filter q).length < (U.filter p).length := by
  induction U with
  | nil => cases ha
  | cons u us ih =>
    simp only [List.filter_cons]
    rcases List.mem_cons.mp ha with rfl | h
    · have := filter_length_le p q hpq us
      simp [hpa, hqa]; omega
    · have := ih h
      cases hq : q u with
      | false => cases hp : p u <;> simp <;> omega
      | true => simp [hpq u hq]; exact this

/-- how many of the potential pushers are not yet analysed -/
def todo (U analyzed : List Art) : Nat := (U.filter (fun a => !decide (a ∈ analyzed))).length

theorem todo_le (U analyzed : List Art) : todo U analyzed ≤ U.length := List.length_filter_le _ _

theorem todo_cons_le (U analyzed : List Art) (a : Art) : todo U (a :: analyzed) ≤ todo U analyzed := by
  unfold todo
  apply filter_length_le
  intro x hx
  simp only [Bool.not_eq_true', decide_eq_false_iff_not, List.mem_cons, not_or] at hx ⊢
  exact hx.2

theorem todo_cons_lt (U analyzed : List Art) (a : Art) (haU : a ∈ U) (ha : a ∉ analyzed) :
    todo U (a :: analyzed) < todo U analyzed := by
  unfold todo
  apply filter_length_lt _ _ _ U a haU
  · simp [ha]
  · simp
  · intro x hx
    simp only [Bool.not_eq_true', decide_eq_false_iff_not, List.mem_cons, not_or] at hx ⊢
    exact hx.2

/-- the weight of one not-yet-analysed pusher: enough for everything it can push -/
def pushWeight (w : World) : Nat := 5 * maxDecls w + 5

/-- the measure that every `Step` decreases -/
def drainMeasure (w : World) (ph : Bool) (st : BState) : Nat :=
  todo (pushers w) st.analyzed * pushWeight w + st.pendingRemote.length +
    (if ph then 5 * st.pendingRegistry.length else 3 * st.pendingRegistry.length + 1)

theorem Step.decreases {w : World} {ph ph' : Bool} {st st' : BState} {ds ds' : List Diag}
    (h : Step w ph st ds ph' st' ds') (hc : DirsCoh w st) :
    DirsCoh w st' ∧ drainMeasure w ph' st' < drainMeasure w ph st := by
  cases h with
  | regEmpty _ _ hq => exact ⟨hc, by simp [drainMeasure, hq]⟩
  | regFail _ _ q rs al f st1 hq hf =>
    obtain ⟨e1, e2, e3, e4, _⟩ := findRegistrySource_frame hf
    refine ⟨fun p c hp => hc p c (by rwa [e4] at hp), ?_⟩
    simp only [drainMeasure, e1, e2, e3, hq, List.length_append, List.length_cons, List.length_nil]
    simp
  | regOk _ _ q rs al f st1 real hq hf =>
    obtain ⟨e1, e2, e3, e4, _⟩ := findRegistrySource_frame hf
    refine ⟨fun p c hp => hc p c (by rwa [← e4]), ?_⟩
    simp only [drainMeasure, e1, e2, e3, hq, List.length_append, List.length_cons, List.length_nil]
    simp
    omega
  | switch _ _ hr hg =>
    refine ⟨hc, ?_⟩
    have : 0 < st.pendingRegistry.length := List.length_pos_iff.mpr hg
    simp only [drainMeasure, hr, List.length_nil, if_true, Bool.false_eq_true, if_false]
    omega
  | fetchFail _ _ q src f st1 hq hf =>
    obtain ⟨e1, e2, e3, _⟩ := ensurePackage_frame hf
    refine ⟨(DirsCoh.ensure (st := { st with pendingRemote := q }) hc hf).1, ?_⟩
    simp only [drainMeasure, e1, e2, e3, hq, List.length_append, List.length_cons, List.length_nil]
    simp
  | skip _ _ q src f st1 c hq hf ha =>
    obtain ⟨e1, e2, e3, _⟩ := ensurePackage_frame hf
    refine ⟨(DirsCoh.ensure (st := { st with pendingRemote := q }) hc hf).1, ?_⟩
    simp only [drainMeasure, e1, e2, e3, hq, List.length_append, List.length_cons, List.length_nil]
    simp
  | analyse _ _ q src f st1 c decls hq hf ha hd =>
    obtain ⟨e1, e2, e3, _⟩ := ensurePackage_frame hf
    obtain ⟨hc1, hfc⟩ := DirsCoh.ensure (st := { st with pendingRemote := q }) hc hf
    refine ⟨hc1, ?_⟩
    have hfc := hfc c rfl
    have hpl := pushes_length src decls
    simp only [drainMeasure, analysedState, e1, e2, e3, hq, List.length_append, List.length_cons,
      List.length_nil, if_true]
    rw [e3] at ha
    cases hrow : assoc w.deps (c, src.sub, f) with
    | none =>
      have : decls = [] := by rw [hd, hrow]; rfl
      subst this
      have := todo_cons_le (pushers w) st.analyzed (src, f)
      have := Nat.mul_le_mul_right (pushWeight w) this
      simp [remotePushes, regPushes]
      omega
    | some row =>
      have : decls = row := by rw [hd, hrow]; rfl
      subst this
      have hU : (src, f) ∈ pushers w := mem_pushers hfc hrow
      have hlt := todo_cons_lt (pushers w) st.analyzed (src, f) hU ha
      have hD := le_maxDecls hrow
      have : todo (pushers w) ((src, f) :: st.analyzed) * pushWeight w + pushWeight w ≤
          todo (pushers w) st.analyzed * pushWeight w := by
        have := Nat.mul_le_mul_right (pushWeight w) (Nat.succ_le_of_lt hlt)
        simpa [Nat.succ_mul] using this
      unfold pushWeight at *
      simp
      omega

/-- the loop finishes within `drainMeasure + 1` steps -/
theorem drain_terminates (w : World) : ∀ (m : Nat) (ph : Bool) (st : BState) (ds : List Diag),
    DirsCoh w st → drainMeasure w ph st ≤ m → ∃ st' ds', drain w (m + 1) ph st ds = .done st' ds' := by
  intro m
  induction m with
  | zero =>
    intro ph st ds hc hm
    rcases drain_step w ph st ds with ⟨_, _, _, h3⟩ | ⟨ph', st1, ds1, hs, _⟩
    · exact ⟨st, ds, h3 0⟩
    · have := (hs.decreases hc).2; omega
  | succ m ih =>
    intro ph st ds hc hm
    rcases drain_step w ph st ds with ⟨_, _, _, h3⟩ | ⟨ph', st1, ds1, hs, h3⟩
    · exact ⟨st, ds, h3 _⟩
    · obtain ⟨hc1, hlt⟩ := hs.decreases hc
      obtain ⟨st', ds', h⟩ := ih ph' st1 ds1 hc1 (by omega)
      exact ⟨st', ds', by rw [h3]; exact h⟩

theorem drain_dirsCoh (w : World) (n : Nat) (ph : Bool) (st : BState) (ds : List Diag)
    (st' : BState) (ds' : List Diag) (hc : DirsCoh w st) (h : drain w n ph st ds = .done st' ds') :
    DirsCoh w st' ∧ st'.pendingRemote = [] ∧ st'.pendingRegistry = [] :=
  drain_inv w (fun _ st _ => DirsCoh w st) (fun _ _ _ _ _ _ hs hi => (hs.decreases hi).1)
    n ph st ds st' ds' hc h

/-- **Fuel bound.**  Depends on the world only: (rows of the dependency table × packages) ×
(5·longest report + 5) + 6. -/
def fuelBound (w : World) : Nat := (pushers w).length * pushWeight w + 6

/-- what holds between two `Add*` calls of a run that has not diverged -/
structure Idle (w : World) (st : BState) : Prop where
  coh : DirsCoh w st
  rem : st.pendingRemote = []
  reg : st.pendingRegistry = []

theorem length_flatMap_le {α β : Type} (g : α → List β) (n : Nat) (hg : ∀ x, (g x).length ≤ n)
    (l : List α) : (l.flatMap g).length ≤ l.length * n := by
  induction l with
  | nil => simp
  | cons x r ih =>
    simp only [List.flatMap_cons, List.length_append, List.length_cons]
    have := hg x
    rw [Nat.succ_mul]
    omega

theorem pushers_length_le (w : World) : (pushers w).length ≤ w.deps.length * w.fetch.length :=
  length_flatMap_le _ _ (fun _ => List.length_filterMap_le _ _) _

theorem drain_fuel (w : World) (fuel : Nat) (st1 : BState) (hf : fuelBound w ≤ fuel)
    (hc : DirsCoh w st1) (hm : drainMeasure w false st1 < fuelBound w) :
    ∃ st' ds', drain w fuel false st1 [] = .done st' ds' ∧
      drain w (fuelBound w) false st1 [] = .done st' ds' := by
  obtain ⟨st', ds', h⟩ := drain_terminates w (fuelBound w - 1) false st1 [] hc (by omega)
  have e : fuelBound w - 1 + 1 = fuelBound w := by omega
  rw [e] at h
  have h2 := drain_mono w (fuelBound w) (fuel - fuelBound w) false st1 [] st' ds' h
  have e2 : fuelBound w + (fuel - fuelBound w) = fuel := by omega
  rw [e2] at h2
  exact ⟨st', ds', h2, h⟩

theorem idle_measure (w : World) (st : BState) (r : List Art) (g : List RegReq)
    (hl : r.length + g.length ≤ 1) :
    drainMeasure w false { st with pendingRemote := r, pendingRegistry := g } < fuelBound w := by
  have h1 := Nat.mul_le_mul_right (pushWeight w) (todo_le (pushers w) st.analyzed)
  simp only [drainMeasure, fuelBound, Bool.false_eq_true, if_false]
  omega

theorem applyOp_terminates (w : World) (fuel : Nat) (hf : fuelBound w ≤ fuel) (st : BState)
    (hi : Idle w st) (op : Op) :
    applyOp w fuel st op = applyOp w (fuelBound w) st op ∧
    Idle w (applyOp w fuel st op).1 ∧ (applyOp w fuel st op).2.finished = true := by
  unfold applyOp
  by_cases hp : st.poisoned = true
  · simp only [hp, if_true]
    exact ⟨trivial, hi, rfl⟩
  · simp only [hp]
    have key : ∀ st1 : BState, DirsCoh w st1 → drainMeasure w false st1 < fuelBound w →
        (match drain w fuel false st1 [] with
          | .diverged => (st1, OpResult.diverged)
          | .done st2 ds => ({ st2 with poisoned := hasErrors ds }, .diags ds)) =
        (match drain w (fuelBound w) false st1 [] with
          | .diverged => (st1, OpResult.diverged)
          | .done st2 ds => ({ st2 with poisoned := hasErrors ds }, .diags ds)) ∧
        Idle w (match drain w fuel false st1 [] with
          | .diverged => (st1, OpResult.diverged)
          | .done st2 ds => ({ st2 with poisoned := hasErrors ds }, .diags ds)).1 ∧
        (match drain w fuel false st1 [] with
          | .diverged => (st1, OpResult.diverged)
          | .done st2 ds => ({ st2 with poisoned := hasErrors ds }, .diags ds)).2.finished = true := by
      intro st1 hc hm
      obtain ⟨st', ds', h1, h2⟩ := drain_fuel w fuel st1 hf hc hm
      rw [h1, h2]
      obtain ⟨c, r, g⟩ := drain_dirsCoh w _ _ _ _ _ _ hc h1
      exact ⟨rfl, ⟨c, r, g⟩, rfl⟩
    cases op with
    | addRemote src f =>
      by_cases ha : st.analyzed.contains (src, f) = true
      · simp only [ha, if_true]
        exact ⟨trivial, hi, rfl⟩
      · simp only [ha]
        refine key _ hi.coh ?_
        have := idle_measure w st (st.pendingRemote ++ [(src, f)]) st.pendingRegistry
          (by simp [hi.rem, hi.reg])
        exact this
    | addRegistry rs al f =>
      simp only
      refine key _ hi.coh ?_
      have := idle_measure w st st.pendingRemote (st.pendingRegistry ++ [(rs, al, f)])
        (by simp [hi.rem, hi.reg])
      exact this

theorem runOps_terminates (w : World) (fuel : Nat) (hf : fuelBound w ≤ fuel) (ops : List Op) :
    ∀ st, Idle w st →
      runOps w fuel st ops = runOps w (fuelBound w) st ops ∧
      (∀ r ∈ (runOps w fuel st ops).2, r.finished = true) := by
  induction ops with
  | nil => intro st _; exact ⟨rfl, by simp [runOps]⟩
  | cons op r ih =>
    intro st hi
    obtain ⟨h1, h2, h3⟩ := applyOp_terminates w fuel hf st hi op
    obtain ⟨i1, i2⟩ := ih _ h2
    simp only [runOps]
    refine ⟨?_, ?_⟩
    · rw [← h1, i1]
    · intro x hx
      rcases List.mem_cons.mp hx with rfl | hx
      · exact h3
      · exact i2 x hx

theorem idle_init (w : World) : Idle w BState.init :=
  ⟨fun p c h => by simp [BState.init] at h, rfl, rfl⟩

end Slug
